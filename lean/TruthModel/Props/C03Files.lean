import TruthModel.Props.C16Files
import TruthModel.Props.C15
/-
C03 at container level — a successful compile never writes a file that differs from what was asked.
Whole files: mission MSG, STD (both layouts), MSG (old ECL: see the end of the file).

For every container `X`:
* `X_read_write`: what `writeX` accepts is read back by `readX` as the same file, up to the stated
  normalisation (names are not stored: the reader regenerates them; MSG flags do not exist before TH09),
  for every file satisfying the explicit predicate `wfX` (Bool-valued, decidable);
* `X_write_err_iff` (stated with `Decides`): the writer succeeds iff every count, text, reference and
  instruction fits its field, fails with a diagnostic otherwise, and never panics.
The offsets (`as u32`) and the entry / table counts (`as u32`) are the fields the writers narrow without
a check; the round trips carry the hypothesis that the file is smaller than 4 GiB.
-/
namespace TruthModel.C03
open TruthModel TruthModel.InstrIO TruthModel.Files

/-! ### primitives -/

theorem rdU8_u8' (x : UInt8) (rest : Bytes) : rdU8 (u8 x.toNat ++ rest) = some (x.toNat, rest) :=
  rdU8_u8 _ _ (by have := x.toNat_lt; omega)
theorem rdU16_u16' (x : UInt16) (rest : Bytes) : rdU16 (u16 x.toNat ++ rest) = some (x.toNat, rest) :=
  rdU16_u16 _ _ (by have := x.toNat_lt; omega)
theorem rdU32_u32' (x : UInt32) (rest : Bytes) : rdU32 (u32 x.toNat ++ rest) = some (x.toNat, rest) :=
  rdU32_u32 _ _ (by have := x.toNat_lt; omega)

theorem rdF2_wF2 (v : F2) (rest : Bytes) : rdF2 (wF2 v ++ rest) = some (v, rest) := by
  obtain ⟨x, y⟩ := v
  simp only [rdF2, wF2, List.append_assoc, rdU32_u32', UInt32.ofNat_toNat]

theorem rdF3_wF3 (v : F3) (rest : Bytes) : rdF3 (wF3 v ++ rest) = some (v, rest) := by
  obtain ⟨x, y, z⟩ := v
  simp only [rdF3, wF3, List.append_assoc, rdU32_u32', UInt32.ofNat_toNat]

theorem rdU32sAux_u32s : ∀ (xs : List Nat) (acc : List Nat) (rest : Bytes), (∀ x ∈ xs, x < 2 ^ 32) →
    rdU32sAux xs.length acc (u32s xs ++ rest) = some (acc.reverse ++ xs, rest) := by
  intro xs
  induction xs with
  | nil => intro acc rest _; simp [rdU32sAux, u32s]
  | cons x xs ih =>
    intro acc rest h
    have hx := h x (List.mem_cons_self ..)
    simp only [List.length_cons, rdU32sAux, u32s, List.flatMap_cons, List.append_assoc, rdU32_u32 _ _ hx]
    have := ih (x :: acc) rest (fun y hy => h y (List.mem_cons_of_mem _ hy))
    simp only [u32s] at this
    rw [this]
    simp

theorem rdU32s_u32s (xs : List Nat) (rest : Bytes) (h : ∀ x ∈ xs, x < 2 ^ 32) :
    rdU32s xs.length (u32s xs ++ rest) = some (xs, rest) := by
  have := rdU32sAux_u32s xs [] rest h
  simpa [rdU32s] using this

/-- reading `n` dwords from `n` written dwords always succeeds (whatever their values): only the
count matters to `read_mission_msg`, which ignores the offsets -/
theorem rdU32sAux_some : ∀ (xs : List Nat) (acc : List Nat) (rest : Bytes),
    ∃ l, rdU32sAux xs.length acc (u32s xs ++ rest) = some (l, rest) := by
  intro xs
  induction xs with
  | nil => intro acc rest; exact ⟨acc.reverse, by simp [rdU32sAux, u32s]⟩
  | cons x xs ih =>
    intro acc rest
    simp only [List.length_cons, rdU32sAux, u32s, List.flatMap_cons, List.append_assoc]
    simp only [u32, List.cons_append, List.nil_append, rdU32]
    exact ih _ rest

/-! ### fixed-size text -/

theorem writeStr_ok {n : Nat} {s buf : Bytes} (h : writeStr n s = .ok buf) :
    s.length < n ∧ buf = s ++ Abi.zeros (n - s.length) := by
  unfold writeStr at h
  split at h
  · cases h
  · cases h; exact ⟨by omega, rfl⟩

theorem writeStr_length {n : Nat} {s buf : Bytes} (h : writeStr n s = .ok buf) : buf.length = n := by
  obtain ⟨hl, rfl⟩ := writeStr_ok h
  simp [Abi.zeros]; omega

theorem trim_written {n : Nat} {s buf : Bytes} (h : writeStr n s = .ok buf) (h0 : s.contains 0 = false) :
    (Abi.trimFirstNul buf true).1 = s := by
  obtain ⟨hl, rfl⟩ := writeStr_ok h
  have hk : n - s.length = (n - s.length - 1) + 1 := by omega
  have : s ++ Abi.zeros (n - s.length) = s ++ 0 :: Abi.zeros (n - s.length - 1) := by
    rw [hk]; simp [Abi.zeros, List.replicate_succ]
  rw [this, Abi.trim_after_pad s _ true h0]

/-- `encode_fixed_size(n)` then `read_cstring_exact(n)` + decode on NUL-free decodable text -/
theorem readStr_writeStr (decOk : Bytes → Bool) (n : Nat) (s buf rest : Bytes) (hw : writeStr n s = .ok buf)
    (h0 : s.contains 0 = false) (hd : decOk s = true) : readStr decOk n (buf ++ rest) = .ok (s, rest) := by
  have hl := writeStr_length hw
  have hb := rdBytes_append buf rest
  rw [hl] at hb
  simp only [readStr, hb, trim_written hw h0, hd, if_true]

/-- the writer refuses exactly the text that does not fit with its terminator -/
theorem writeStr_err_iff (n : Nat) (s : Bytes) : (∃ c, writeStr n s = .err c) ↔ n ≤ s.length := by
  unfold writeStr
  split
  · simp; omega
  · simp; omega


/-! ## mission MSG -/

theorem subCipher_length : ∀ (x c : Bytes), (Abi.subCipher x c).length = x.length := by
  intro x
  induction x with
  | nil => intro c; cases c <;> rfl
  | cons a as ih => intro c; cases c <;> simp [Abi.subCipher, ih]

/-- text a line can hold and give back: NUL-free and accepted by the decoder -/
def textOk (decOk : Bytes → Bool) (s : Bytes) : Bool := !s.contains 0 && decOk s

theorem writeMissionLines_read (decOk : Bytes → Bool) (stage scene player : UInt16) :
    ∀ (ss : List Bytes) (line : Nat) (bs rest : Bytes), writeMissionLines stage scene player line ss = .ok bs →
      (∀ s ∈ ss, textOk decOk s = true) →
      readMissionLines decOk stage scene player ss.length line (bs ++ rest) = .ok (ss, rest) := by
  intro ss
  induction ss with
  | nil => intro line bs rest h _; rw [writeMissionLines] at h; cases h; rfl
  | cons s ss ih =>
    intro line bs rest h hall
    rw [writeMissionLines] at h
    repeat' split at h
    all_goals first | (cases h; done) | skip
    rename_i buf hbuf _ cipher hc _ bs' hrec
    cases h
    have hs := hall s (List.mem_cons_self ..)
    simp only [textOk, Bool.and_eq_true, Bool.not_eq_true'] at hs
    have hlen : (Abi.subCipher buf cipher).length = 64 := by rw [subCipher_length, writeStr_length hbuf]
    have hb := rdBytes_append (Abi.subCipher buf cipher) (bs' ++ rest)
    rw [hlen] at hb
    have htext : missionLineText (Abi.subCipher buf cipher) cipher = s := by
      unfold missionLineText
      rw [C15.sub_add_cipher, trim_written hbuf hs.1]
    simp only [List.length_cons, readMissionLines, List.append_assoc, hb, hc, htext, hs.2, Bool.not_true,
      Bool.false_eq_true, if_false, ih _ _ _ hrec (fun t ht => hall t (List.mem_cons_of_mem _ ht))]

/-- the explicit well-formedness predicate of a mission entry: the array sizes the Rust types fix
(3 / 6 text lines, 3 furigana pairs, no TH125 fields in TH095) and text that survives a
fixed-size field (NUL-free, decodable) -/
def wfMissionEntry (decOk : Bytes → Bool) (fmt : MissionFmt) (e : MissionEntry) : Bool :=
  e.text.length == fmt.lines && e.text.all (textOk decOk) &&
  match fmt with
  | .th095 => e.player == 0 && e.unknown1 == 0 && e.unknown2 == 0 && e.furigana.isEmpty
  | .th125 => e.furigana.length == 6

theorem u32sOf_eq (xs : List UInt32) : u32sOf xs = u32s (xs.map (·.toNat)) := by
  simp [u32sOf, u32s, List.flatMap_map]

theorem map_ofNat_toNat (xs : List UInt32) : (xs.map (·.toNat)).map UInt32.ofNat = xs := by
  induction xs with
  | nil => rfl
  | cons x xs ih => simp [ih]

theorem readMissionEntry_write (decOk : Bytes → Bool) (fmt : MissionFmt) (e : MissionEntry) (bs rest : Bytes)
    (hw : writeMissionEntry fmt e = .ok bs) (hwf : wfMissionEntry decOk fmt e = true) :
    readMissionEntry decOk fmt (bs ++ rest) = .ok (e, rest) := by
  obtain ⟨stage, scene, player, u1, u2, a, b, fur, text⟩ := e
  cases fmt with
  | th095 =>
    simp only [wfMissionEntry, MissionFmt.lines, Bool.and_eq_true, beq_iff_eq, List.all_eq_true, List.isEmpty_iff] at hwf
    obtain ⟨⟨hl, hall⟩, ⟨⟨⟨rfl, rfl⟩, rfl⟩, rfl⟩⟩ := hwf
    simp only [writeMissionEntry] at hw
    split at hw
    · rename_i t ht
      cases hw
      have := writeMissionLines_read decOk stage scene 0 text 0 t rest ht hall
      rw [hl] at this
      simp only [readMissionEntry, List.append_assoc, rdU16_u16', rdU32_u32', UInt16.ofNat_toNat, UInt32.ofNat_toNat, this]
    · cases hw
    · cases hw
  | th125 =>
    simp only [wfMissionEntry, MissionFmt.lines, Bool.and_eq_true, beq_iff_eq, List.all_eq_true] at hwf
    obtain ⟨⟨hl, hall⟩, hf⟩ := hwf
    simp only [writeMissionEntry] at hw
    split at hw
    · rename_i t ht
      cases hw
      have := writeMissionLines_read decOk stage scene player text 0 t rest ht hall
      rw [hl] at this
      have hfur := rdU32s_u32s (fur.map (·.toNat)) (t ++ rest) (by
        intro x hx
        simp only [List.mem_map] at hx
        obtain ⟨y, _, rfl⟩ := hx
        exact y.toNat_lt)
      rw [List.length_map, hf] at hfur
      simp only [readMissionEntry, List.append_assoc, rdU16_u16', rdU32_u32', rdU8_u8', UInt16.ofNat_toNat,
        UInt32.ofNat_toNat, UInt8.ofNat_toNat, u32sOf_eq, hfur, map_ofNat_toNat, this]
    · cases hw
    · cases hw

theorem readMissionEntriesAux_write (decOk : Bytes → Bool) (fmt : MissionFmt) :
    ∀ (es acc : List MissionEntry) (bs rest : Bytes), writeMissionEntries fmt es = .ok bs →
      (∀ e ∈ es, wfMissionEntry decOk fmt e = true) →
      readMissionEntriesAux decOk fmt es.length acc (bs ++ rest) = .ok (acc.reverse ++ es) := by
  intro es
  induction es with
  | nil => intro acc bs rest h _; rw [writeMissionEntries] at h; cases h; simp [readMissionEntriesAux]
  | cons e es ih =>
    intro acc bs rest h hall
    rw [writeMissionEntries] at h
    repeat' split at h
    all_goals first | (cases h; done) | skip
    rename_i b hb _ bs' hrec
    cases h
    have he := readMissionEntry_write decOk fmt e b (bs' ++ rest) hb (hall e (List.mem_cons_self ..))
    simp only [List.length_cons, readMissionEntriesAux, List.append_assoc, he,
      ih (e :: acc) bs' rest hrec (fun x hx => hall x (List.mem_cons_of_mem _ hx)), List.reverse_cons,
      List.append_assoc, List.singleton_append]

theorem missionOffsets_length (fmt : MissionFmt) (n : Nat) : (missionOffsets fmt n).length = n := by
  simp [missionOffsets]

/-- **mission MSG round trip**: a file of well-formed entries that `write_mission_msg` accepts is
read back by `read_mission_msg` as exactly the same entries (no normalisation at all).
`es.length < 2^32`: the entry count is written with `len() as u32` (4 billion entries of 204 bytes
each cannot exist in memory; the offsets, which are also narrowed with `as u32`, are ignored by the reader). -/
theorem mission_read_write (decOk : Bytes → Bool) (fmt : MissionFmt) (es : List MissionEntry) (bs : Bytes)
    (hw : writeMission fmt es = .ok bs) (hwf : ∀ e ∈ es, wfMissionEntry decOk fmt e = true)
    (hn : es.length < 2 ^ 32) : readMission decOk fmt bs = .ok es := by
  unfold writeMission at hw
  split at hw
  · rename_i body hbody
    cases hw
    obtain ⟨l, hl⟩ := rdU32sAux_some (missionOffsets fmt es.length) [] (body ++ [])
    rw [missionOffsets_length] at hl
    have hb := readMissionEntriesAux_write decOk fmt es [] body [] hbody hwf
    simp only [List.append_nil] at hl hb
    simp only [readMission, List.append_assoc, rdU32_u32 _ _ hn, rdU32s, hl, hb, List.reverse_nil, List.nil_append]
  · cases hw
  · cases hw


def linesFit (ss : List Bytes) : Bool := ss.all fun s => decide (s.length < 64)

theorem missionCipher_ok (stage scene player : UInt16) (line : Nat) (h : line % 256 ≠ 255) :
    ∃ c, missionCipher stage scene player line = .ok c := by
  unfold missionCipher
  rw [if_neg h]
  exact ⟨_, rfl⟩

theorem writeMissionLines_class (stage scene player : UInt16) : ∀ (ss : List Bytes) (line : Nat), line + ss.length ≤ 255 →
    (linesFit ss = true → ∃ bs, writeMissionLines stage scene player line ss = .ok bs) ∧
    (linesFit ss = false → writeMissionLines stage scene player line ss = .err strTooLong) := by
  intro ss
  induction ss with
  | nil => intro line _; exact ⟨fun _ => ⟨_, rfl⟩, fun h => by simp [linesFit] at h⟩
  | cons s ss ih =>
    intro line hl
    simp only [List.length_cons] at hl
    obtain ⟨ih1, ih2⟩ := ih (line + 1) (by omega)
    obtain ⟨c, hc⟩ := missionCipher_ok stage scene player line (by omega)
    rw [writeMissionLines]
    by_cases hs : s.length < 64
    · have hw : writeStr 64 s = .ok (s ++ Abi.zeros (64 - s.length)) := by
        unfold writeStr; rw [if_neg (by omega)]
      simp only [hw, hc]
      constructor
      · intro hfit
        simp only [linesFit, List.all_cons, Bool.and_eq_true] at hfit
        obtain ⟨bs, hbs⟩ := ih1 hfit.2
        rw [hbs]
        exact ⟨_, rfl⟩
      · intro hfit
        have : linesFit ss = false := by
          simp only [linesFit, List.all_cons, hs, decide_true, Bool.true_and] at hfit
          exact hfit
        rw [ih2 this]
    · have hw : writeStr 64 s = .err strTooLong := by
        unfold writeStr; rw [if_pos (by omega)]
      simp only [hw]
      constructor
      · intro hfit
        simp only [linesFit, List.all_cons, Bool.and_eq_true, decide_eq_true_eq] at hfit
        exact absurd hfit.1 hs
      · intro _; trivial

theorem writeMissionEntry_class (fmt : MissionFmt) (e : MissionEntry) (h : e.text.length ≤ 255) :
    (linesFit e.text = true → ∃ bs, writeMissionEntry fmt e = .ok bs) ∧
    (linesFit e.text = false → writeMissionEntry fmt e = .err strTooLong) := by
  cases fmt with
  | th095 =>
    obtain ⟨h1, h2⟩ := writeMissionLines_class e.stage e.scene 0 e.text 0 (by omega)
    simp only [writeMissionEntry]
    constructor
    · intro hf; obtain ⟨bs, hbs⟩ := h1 hf; rw [hbs]; exact ⟨_, rfl⟩
    · intro hf; rw [h2 hf]
  | th125 =>
    obtain ⟨h1, h2⟩ := writeMissionLines_class e.stage e.scene e.player e.text 0 (by omega)
    simp only [writeMissionEntry]
    constructor
    · intro hf; obtain ⟨bs, hbs⟩ := h1 hf; rw [hbs]; exact ⟨_, rfl⟩
    · intro hf; rw [h2 hf]

theorem writeMissionEntries_class (fmt : MissionFmt) : ∀ (es : List MissionEntry), (∀ e ∈ es, e.text.length ≤ 255) →
    ((∀ e ∈ es, linesFit e.text = true) → ∃ bs, writeMissionEntries fmt es = .ok bs) ∧
    ((∃ e ∈ es, linesFit e.text = false) → writeMissionEntries fmt es = .err strTooLong) := by
  intro es
  induction es with
  | nil => intro _; exact ⟨fun _ => ⟨_, rfl⟩, fun ⟨e, he, _⟩ => by cases he⟩
  | cons e es ih =>
    intro hall
    obtain ⟨ih1, ih2⟩ := ih (fun x hx => hall x (List.mem_cons_of_mem _ hx))
    obtain ⟨h1, h2⟩ := writeMissionEntry_class fmt e (hall e (List.mem_cons_self ..))
    rw [writeMissionEntries]
    constructor
    · intro hfit
      obtain ⟨b, hb⟩ := h1 (hfit e (List.mem_cons_self ..))
      obtain ⟨bs, hbs⟩ := ih1 (fun x hx => hfit x (List.mem_cons_of_mem _ hx))
      rw [hb, hbs]
      exact ⟨_, rfl⟩
    · rintro ⟨x, hx, hxf⟩
      cases hfe : linesFit e.text with
      | false => rw [h2 hfe]
      | true =>
        obtain ⟨b, hb⟩ := h1 hfe
        rw [hb]
        rcases List.mem_cons.1 hx with rfl | hx
        · rw [hfe] at hxf; cases hxf
        · rw [ih2 ⟨x, hx, hxf⟩]

/-- **mission MSG: the writer fails exactly when a text line does not fit its 64-byte field** (with
its terminator), and then with the diagnostic "string is too long"; it never panics.
(`e.text.length ≤ 255`: the arrays have 3 resp. 6 lines; line 255 would overflow `line as u8 + 1`.) -/
theorem mission_write_err_iff (fmt : MissionFmt) (es : List MissionEntry) (h : ∀ e ∈ es, e.text.length ≤ 255) :
    ((∃ c, writeMission fmt es = .err c) ↔ ∃ e ∈ es, ∃ s ∈ e.text, 64 ≤ s.length) ∧
    (writeMission fmt es).isPanic = false := by
  obtain ⟨h1, h2⟩ := writeMissionEntries_class fmt es h
  have hfit : ∀ e : MissionEntry, linesFit e.text = false ↔ ∃ s ∈ e.text, 64 ≤ s.length := by
    intro e
    simp only [linesFit, List.all_eq_false, decide_eq_true_eq, Nat.not_lt]
  by_cases hex : ∃ e ∈ es, linesFit e.text = false
  · have := h2 hex
    simp only [writeMission, this]
    refine ⟨⟨fun _ => ?_, fun _ => ⟨_, rfl⟩⟩, rfl⟩
    obtain ⟨e, he, hf⟩ := hex
    exact ⟨e, he, (hfit e).1 hf⟩
  · have hall : ∀ e ∈ es, linesFit e.text = true := by
      intro e he
      cases hf : linesFit e.text with
      | false => exact absurd ⟨e, he, hf⟩ hex
      | true => rfl
    obtain ⟨bs, hbs⟩ := h1 hall
    simp only [writeMission, hbs]
    refine ⟨⟨?_, ?_⟩, rfl⟩
    · rintro ⟨c, hc⟩; cases hc
    · rintro ⟨e, he, hs⟩
      have := (hfit e).2 hs
      rw [hall e he] at this
      cases this


/-! ## STD -/

theorem readQuad_writeQuad (q : Quad) (rest : Bytes) : readQuad (writeQuad q ++ rest) = .ok (some q, rest) := by
  have h0 : fitsI 16 0 = true := by decide
  have h1 : fitsI 16 1 = true := by decide
  cases q with
  | rect anm pos size =>
    simp only [readQuad, writeQuad, List.append_assoc, rdI16_i16 _ _ h0, rdU16_u16 _ _ (by decide : 0x1c < 2 ^ 16),
      rdU16_u16', rdU16_u16 _ _ (by decide : 0 < 2 ^ 16), rdF3_wF3, rdF2_wF2, UInt16.ofNat_toNat]
    simp
  | strip anm a b w =>
    simp only [readQuad, writeQuad, List.append_assoc, rdI16_i16 _ _ h1, rdU16_u16 _ _ (by decide : 0x24 < 2 ^ 16),
      rdU16_u16', rdU16_u16 _ _ (by decide : 0 < 2 ^ 16), rdF3_wF3, rdU32_u32', UInt16.ofNat_toNat, UInt32.ofNat_toNat]
    simp

theorem readQuad_terminal (rest : Bytes) : readQuad (terminalQuad ++ rest) = .ok (none, rest) := by
  have hm : fitsI 16 (-1) = true := by decide
  simp only [readQuad, terminalQuad, List.append_assoc, rdI16_i16 _ _ hm, rdU16_u16 _ _ (by decide : 4 < 2 ^ 16)]
  simp

theorem readQuads_write : ∀ (quads : List Quad) (fuel : Nat) (acc : List Quad) (rest : Bytes), quads.length < fuel →
    readQuads fuel acc (quads.flatMap writeQuad ++ terminalQuad ++ rest) = .ok (acc.reverse ++ quads, rest) := by
  intro quads
  induction quads with
  | nil =>
    intro fuel acc rest h
    obtain ⟨n, rfl⟩ : ∃ n, fuel = n + 1 := ⟨fuel - 1, by simp at h; omega⟩
    simp only [List.flatMap_nil, List.nil_append, readQuads, readQuad_terminal, List.append_nil]
  | cons q quads ih =>
    intro fuel acc rest h
    obtain ⟨n, rfl⟩ : ∃ n, fuel = n + 1 := ⟨fuel - 1, by simp at h; omega⟩
    simp only [List.flatMap_cons, List.append_assoc, readQuads, readQuad_writeQuad]
    have := ih n (q :: acc) rest (by simp at h; omega)
    simp only [List.append_assoc] at this
    rw [this]
    simp

theorem writeQuad_length (q : Quad) : 28 ≤ (writeQuad q).length := by
  cases q <;> simp [writeQuad, i16, u16, u32, wF3, wF2]

theorem flatMap_writeQuad_length (quads : List Quad) : quads.length ≤ (quads.flatMap writeQuad).length := by
  induction quads with
  | nil => simp
  | cons q qs ih =>
    have := writeQuad_length q
    simp only [List.flatMap_cons, List.length_append, List.length_cons]
    omega

theorem readObject_writeObject (id : Nat) (o : Object) (rest : Bytes) (hid : id < 2 ^ 16) :
    readObject (writeObject id o ++ rest) = .ok o := by
  obtain ⟨layer, pos, size, quads⟩ := o
  have hq := readQuads_write quads ((quads.flatMap writeQuad ++ (terminalQuad ++ rest)).length + 1) [] rest (by
    have := flatMap_writeQuad_length quads
    simp only [List.length_append]
    omega)
  simp only [List.append_assoc] at hq
  simp only [readObject, writeObject, List.append_assoc, rdU16_u16 _ _ hid, rdU16_u16', rdF3_wF3, hq,
    UInt16.ofNat_toNat, List.reverse_nil, List.nil_append]

/-- objects named by their position, as the reader names them -/
def renumber : Nat → List (Nat × Object) → List (Nat × Object)
  | _, [] => []
  | i, (_, o) :: r => (i, o) :: renumber (i + 1) r

theorem drop_prefix (pre x : Bytes) : seek (pre ++ x) pre.length = x := by
  simp [seek]

theorem readObjectsAux_write : ∀ (objs : List (Nat × Object)) (i : Nat) (pre tail : Bytes) (acc : List (Nat × Object)),
    i + objs.length ≤ 2 ^ 16 →
    readObjectsAux (pre ++ ((writeObjects i objs).flatten ++ tail)) i
      (offsetsFrom pre.length ((writeObjects i objs).map List.length)) acc = .ok (acc.reverse ++ renumber i objs) := by
  intro objs
  induction objs with
  | nil => intro i pre tail acc _; simp [writeObjects, offsetsFrom, readObjectsAux, renumber]
  | cons no objs ih =>
    intro i pre tail acc hi
    obtain ⟨n, o⟩ := no
    simp only [List.length_cons] at hi
    simp only [writeObjects, List.map_cons, offsetsFrom, List.flatten_cons, List.append_assoc, readObjectsAux,
      drop_prefix, readObject_writeObject i o _ (by omega), renumber]
    have := ih (i + 1) (pre ++ writeObject i o) tail ((i, o) :: acc) (by omega)
    simp only [List.append_assoc, List.length_append] at this
    rw [this]
    simp


/-! ### STD: strings, instances -/

theorem readStrs_writeStrs (decOk : Bytes → Bool) (n : Nat) : ∀ (ss : List Bytes) (bs rest : Bytes),
    writeStrs n ss = .ok bs → (∀ s ∈ ss, textOk decOk s = true) →
    readStrs decOk n ss.length (bs ++ rest) = .ok (ss, rest) := by
  intro ss
  induction ss with
  | nil => intro bs rest h _; rw [writeStrs] at h; cases h; rfl
  | cons s ss ih =>
    intro bs rest h hall
    rw [writeStrs] at h
    repeat' split at h
    all_goals first | (cases h; done) | skip
    rename_i b hb _ bs' hrec
    cases h
    have hs := hall s (List.mem_cons_self ..)
    simp only [textOk, Bool.and_eq_true, Bool.not_eq_true'] at hs
    simp only [List.length_cons, readStrs, List.append_assoc, readStr_writeStr decOk n s b _ hb hs.1 hs.2,
      ih bs' rest hrec (fun t ht => hall t (List.mem_cons_of_mem _ ht))]

/-- the text fields of the extra header part -/
def extraTexts : StdExtra → List Bytes
  | .th06 stage n0 n1 n2 n3 p0 p1 p2 p3 => [stage, n0, n1, n2, n3, p0, p1, p2, p3]
  | .th10 p => [p]

/-- the extra part has the variant of the file format (the other one is `unreachable!()`) -/
def extraMatches : StdFmt → StdExtra → Bool
  | .f06, .th06 .. => true
  | .f10, .th10 _ => true
  | _, _ => false

theorem readExtra_writeExtra (decOk : Bytes → Bool) (fmt : StdFmt) (x : StdExtra) (bs rest : Bytes)
    (hw : writeExtra fmt x = .ok bs) (ht : ∀ s ∈ extraTexts x, textOk decOk s = true) :
    readExtra decOk fmt (bs ++ rest) = .ok (x, rest) := by
  cases fmt <;> cases x <;> simp only [writeExtra] at hw
  · have := readStrs_writeStrs decOk 128 _ bs rest hw ht
    simp only [List.length_cons, List.length_nil] at this
    simp only [readExtra, this]
  · cases hw
  · cases hw
  · have := readStrs_writeStrs decOk 128 _ bs rest hw ht
    simp only [List.length_cons, List.length_nil] at this
    simp only [readExtra, this]

theorem indexOfName_lt : ∀ (objs : List (Nat × Object)) (n i : Nat), indexOfName n objs = some i → i < objs.length := by
  intro objs
  induction objs with
  | nil => intro n i h; cases h
  | cons o objs ih =>
    intro n i h
    obtain ⟨k, ob⟩ := o
    rw [indexOfName] at h
    split at h
    · cases h; simp
    · cases hr : indexOfName n objs with
      | none => rw [hr] at h; cases h
      | some j =>
        rw [hr] at h
        cases h
        have := ih _ _ hr
        simp only [List.length_cons]
        omega

theorem renumber_getElem? : ∀ (objs : List (Nat × Object)) (k i : Nat), i < objs.length →
    ∃ o, (renumber k objs)[i]? = some (k + i, o) := by
  intro objs
  induction objs with
  | nil => intro k i h; cases h
  | cons o objs ih =>
    intro k i h
    obtain ⟨n, ob⟩ := o
    cases i with
    | zero => exact ⟨ob, by simp [renumber]⟩
    | succ i =>
      obtain ⟨o', ho'⟩ := ih (k + 1) i (by simp only [List.length_cons] at h; omega)
      exact ⟨o', by simp only [renumber, List.getElem?_cons_succ, ho']; congr 2; omega⟩

/-- the instance as the reader reports it: the object is named by its index -/
def normInstance (objs : List (Nat × Object)) (x : Instance) : Instance :=
  { x with object := (indexOfName x.object objs).getD 0 }

theorem readInstance_writeInstance (objs : List (Nat × Object)) (x : Instance) (b rest : Bytes)
    (hw : writeInstance objs x = .ok b) (hn : objs.length ≤ 65535) :
    readInstance (renumber 0 objs) (b ++ rest) = .ok (some (normInstance objs x), rest) := by
  unfold writeInstance at hw
  split at hw
  · cases hw
  · rename_i idx hidx
    cases hw
    have hlt := indexOfName_lt _ _ _ hidx
    obtain ⟨o, ho⟩ := renumber_getElem? objs 0 idx hlt
    have h16 : idx < 2 ^ 16 := by omega
    have hne : ¬ idx = 0xffff := by omega
    simp only [readInstance, List.append_assoc, rdU16_u16 _ _ h16, rdU16_u16', hne, if_false, ho, rdF3_wF3,
      UInt16.ofNat_toNat, normInstance, hidx, Option.getD_some, Nat.zero_add]

theorem readInstance_terminal (objs : List (Nat × Object)) (rest : Bytes) :
    ∃ r, readInstance objs (terminalInstance ++ rest) = .ok (none, r) := by
  have : terminalInstance = [255, 255, 255, 255, 255, 255, 255, 255, 255, 255, 255, 255, 255, 255, 255, 255] := by decide
  rw [this]
  refine ⟨255 :: 255 :: 255 :: 255 :: 255 :: 255 :: 255 :: 255 :: 255 :: 255 :: 255 :: 255 :: rest, ?_⟩
  simp [readInstance, rdU16]

theorem readInstances_write (objs : List (Nat × Object)) (hn : objs.length ≤ 65535) :
    ∀ (xs : List Instance) (fuel : Nat) (acc : List Instance) (bs rest : Bytes),
      writeInstances objs xs = .ok bs → xs.length < fuel →
      readInstances (renumber 0 objs) fuel acc (bs ++ (terminalInstance ++ rest)) =
        .ok (acc.reverse ++ xs.map (normInstance objs)) := by
  intro xs
  induction xs with
  | nil =>
    intro fuel acc bs rest h hf
    rw [writeInstances] at h
    cases h
    obtain ⟨n, rfl⟩ : ∃ n, fuel = n + 1 := ⟨fuel - 1, by simp at hf; omega⟩
    obtain ⟨r, hr⟩ := readInstance_terminal (renumber 0 objs) rest
    simp only [List.nil_append, readInstances, hr, List.map_nil, List.append_nil]
  | cons x xs ih =>
    intro fuel acc bs rest h hf
    rw [writeInstances] at h
    repeat' split at h
    all_goals first | (cases h; done) | skip
    rename_i b hb _ bs' hrec
    cases h
    obtain ⟨n, rfl⟩ : ∃ n, fuel = n + 1 := ⟨fuel - 1, by simp at hf; omega⟩
    simp only [List.append_assoc, readInstances, readInstance_writeInstance objs x b _ hb hn]
    rw [ih n (normInstance objs x :: acc) bs' rest hrec (by simp at hf; omega)]
    simp


/-! ### STD: the whole file -/

theorem seek_append (pre x : Bytes) (k : Nat) (h : pre.length = k) : seek (pre ++ x) k = x := by
  subst h; simp [seek]

theorem u32s_length (xs : List Nat) : (u32s xs).length = 4 * xs.length := by
  induction xs with
  | nil => rfl
  | cons x xs ih =>
    have : u32s (x :: xs) = u32 x ++ u32s xs := by simp [u32s]
    rw [this, List.length_append, ih]
    simp only [u32, List.length_cons, List.length_nil]
    omega

theorem offsetsFrom_length : ∀ (lens : List Nat) (base : Nat), (offsetsFrom base lens).length = lens.length := by
  intro lens
  induction lens with
  | nil => intro _; rfl
  | cons l ls ih => intro base; simp [offsetsFrom, ih]

theorem offsetsFrom_le : ∀ (lens : List Nat) (base : Nat), ∀ x ∈ offsetsFrom base lens, x ≤ base + lens.sum := by
  intro lens
  induction lens with
  | nil => intro base x h; cases h
  | cons l ls ih =>
    intro base x h
    simp only [offsetsFrom, List.mem_cons] at h
    simp only [List.sum_cons]
    rcases h with rfl | h
    · omega
    · have := ih _ _ h; omega

theorem writeObjects_length : ∀ (objs : List (Nat × Object)) (i : Nat), (writeObjects i objs).length = objs.length := by
  intro objs
  induction objs with
  | nil => intro _; rfl
  | cons o objs ih => intro i; obtain ⟨n, ob⟩ := o; simp [writeObjects, ih]

theorem flatten_length_eq_sum (l : List Bytes) : l.flatten.length = (l.map List.length).sum := by
  induction l with
  | nil => rfl
  | cons x xs ih => simp [ih]

theorem writeInstances_length (objs : List (Nat × Object)) : ∀ (xs : List Instance) (bs : Bytes),
    writeInstances objs xs = .ok bs → xs.length ≤ bs.length := by
  intro xs
  induction xs with
  | nil => intro bs h; simp
  | cons x xs ih =>
    intro bs h
    rw [writeInstances] at h
    repeat' split at h
    all_goals first | (cases h; done) | skip
    rename_i b hb _ bs' hrec
    cases h
    have := ih _ hrec
    have : 1 ≤ b.length := by
      unfold writeInstance at hb
      split at hb
      · cases hb
      · cases hb; simp [u16]
    simp only [List.length_cons, List.length_append]
    omega

def storedStd (i : Instr) : Bool := i.mask == 0 && i.difficulty == 255 && i.extra.isNone

theorem storedStd_iff (fmt : StdFmt) (i : Instr) (h : storedStd i = true) : Stored fmt.instr i ∧ NotTerminalLooking fmt.instr i := by
  simp only [storedStd, Bool.and_eq_true, beq_iff_eq, Option.isNone_iff_eq_none] at h
  cases fmt <;> exact ⟨⟨h.1.1, h.1.2, h.2⟩, trivial⟩

/-- the explicit well-formedness predicate of a STD file: the extra header part is the one of the
layout, its text survives a 128-byte field (NUL-free, decodable), and the script's instructions
carry no field the STD instruction format cannot store (mask, difficulty, arg0) -/
def wfStd (decOk : Bytes → Bool) (fmt : StdFmt) (s : StdFile) : Bool :=
  extraMatches fmt s.extra && (extraTexts s.extra).all (textOk decOk) && s.script.all storedStd

/-- what `read_std` reports for a written file: objects are named by their position and instances
refer to them by that index (names are not stored in the file) -/
def normStd (s : StdFile) : StdFile :=
  { s with objects := renumber 0 s.objects, instances := s.instances.map (normInstance s.objects) }

/-- **STD round trip**, both layouts: a well-formed file that `write_std` accepts and that is
smaller than 4 GiB is read back by `read_std` as the same file with objects named by position.
(`bs.length < 2^32`: the three kinds of offsets are written with `as u32`; the writer does not
check this - a file of 4 GiB cannot be produced in practice.) -/
theorem std_read_write (decOk : Bytes → Bool) (fmt : StdFmt) (s : StdFile) (bs : Bytes)
    (hw : writeStd fmt s = .ok bs) (hwf : wfStd decOk fmt s = true) (hlen : bs.length < 2 ^ 32) :
    readStd decOk fmt bs = .ok (normStd s) := by
  simp only [wfStd, Bool.and_eq_true, List.all_eq_true] at hwf
  obtain ⟨⟨hm, htexts⟩, hstored⟩ := hwf
  unfold writeStd at hw
  split at hw
  · cases hw
  rename_i hcounts
  repeat' split at hw
  all_goals first | (cases hw; done) | skip
  rename_i extra hextra _ insts hinsts _ script hscript
  cases hw
  have hn : s.objects.length ≤ 65535 := by omega
  have hnq : numQuads s.objects ≤ 65535 := by omega
  -- the pieces of the file
  obtain ⟨objs, hobjs⟩ : ∃ objs, objs = writeObjects 0 s.objects := ⟨_, rfl⟩
  obtain ⟨offs, hoffs⟩ : ∃ offs, offs = offsetsFrom (stdBase extra.length s.objects.length) (objs.map List.length) := ⟨_, rfl⟩
  have hoffs_len : offs.length = s.objects.length := by
    rw [hoffs, offsetsFrom_length, List.length_map, hobjs, writeObjects_length]
  obtain ⟨pre, hpre⟩ : ∃ pre, pre = u16 s.objects.length ++ u16 (numQuads s.objects) ++
      u32 (stdBase extra.length s.objects.length + objs.flatten.length) ++
      u32 (stdBase extra.length s.objects.length + objs.flatten.length + insts.length + 16) ++ u32 s.unknown.toNat ++ extra ++ u32s offs := ⟨_, rfl⟩
  have hpre_len : pre.length = stdBase extra.length s.objects.length := by
    rw [hpre]
    simp only [List.length_append, u32s_length, hoffs_len, stdBase]
    simp [u16, u32] <;> omega
  have hfile : stdAssemble s extra insts script = pre ++ (objs.flatten ++ (insts ++ (terminalInstance ++ script))) := by
    simp only [stdAssemble, hpre, hobjs, hoffs, List.append_assoc]
  rw [hfile] at hlen ⊢
  have htotal : pre.length + objs.flatten.length + insts.length + 16 + script.length < 2 ^ 32 := by
    have : terminalInstance.length = 16 := by decide
    simp only [List.length_append, this] at hlen
    omega
  -- the offsets fit
  have hoffs_fit : ∀ x ∈ offs, x < 2 ^ 32 := by
    intro x hx
    rw [hoffs] at hx
    have := offsetsFrom_le _ _ x hx
    rw [← flatten_length_eq_sum, ← hpre_len] at this
    omega
  -- header
  have h1 : s.objects.length < 2 ^ 16 := by omega
  have h2 : numQuads s.objects < 2 ^ 16 := by omega
  have h3 : stdBase extra.length s.objects.length + objs.flatten.length < 2 ^ 32 := by omega
  have h4 : stdBase extra.length s.objects.length + objs.flatten.length + insts.length + 16 < 2 ^ 32 := by omega
  have hextra' := readExtra_writeExtra decOk fmt s.extra extra (u32s offs ++ (objs.flatten ++ (insts ++ (terminalInstance ++ script)))) hextra htexts
  have hrdoffs := rdU32s_u32s offs (objs.flatten ++ (insts ++ (terminalInstance ++ script))) hoffs_fit
  rw [hoffs_len] at hrdoffs
  -- objects
  have hobjects := readObjectsAux_write s.objects 0 pre (insts ++ (terminalInstance ++ script)) [] (by omega)
  rw [← hobjs, hpre_len, ← hoffs] at hobjects
  -- instances
  have hseek1 : seek (pre ++ (objs.flatten ++ (insts ++ (terminalInstance ++ script))))
      (stdBase extra.length s.objects.length + objs.flatten.length) = insts ++ (terminalInstance ++ script) := by
    rw [← List.append_assoc]
    exact seek_append _ _ _ (by rw [List.length_append, hpre_len])
  have hinstances := readInstances_write s.objects hn s.instances ((insts ++ (terminalInstance ++ script)).length + 1) [] insts script hinsts (by
    have := writeInstances_length _ _ _ hinsts
    simp only [List.length_append]
    omega)
  -- script
  have hseek2 : seek (pre ++ (objs.flatten ++ (insts ++ (terminalInstance ++ script))))
      (stdBase extra.length s.objects.length + objs.flatten.length + insts.length + 16) = script := by
    have : pre ++ (objs.flatten ++ (insts ++ (terminalInstance ++ script))) = (pre ++ objs.flatten ++ insts ++ terminalInstance) ++ script := by
      simp only [List.append_assoc]
    rw [this]
    exact seek_append _ _ _ (by
      have : terminalInstance.length = 16 := by decide
      simp only [List.length_append, hpre_len, this])
  have hsc := readInstrs_writeInstrs fmt.instr s.script script hscript (fun i hi => storedStd_iff fmt i (hstored i hi))
  -- put together
  conv => lhs; rw [hpre]
  simp only [readStd, List.append_assoc, rdU16_u16 _ _ h1, rdU16_u16 _ _ h2, rdU32_u32 _ _ h3, rdU32_u32 _ _ h4,
    rdU32_u32', hextra', hrdoffs]
  have hre : u16 s.objects.length ++ (u16 (numQuads s.objects) ++ (u32 (stdBase extra.length s.objects.length + objs.flatten.length) ++
      (u32 (stdBase extra.length s.objects.length + objs.flatten.length + insts.length + 16) ++ (u32 s.unknown.toNat ++ (extra ++ (u32s offs ++
      (objs.flatten ++ (insts ++ (terminalInstance ++ script))))))))) = pre ++ (objs.flatten ++ (insts ++ (terminalInstance ++ script))) := by
    rw [hpre]; simp only [List.append_assoc]
  rw [hre]
  simp only [hobjects, hseek1, hinstances, hseek2, hsc, List.reverse_nil, List.nil_append, UInt32.ofNat_toNat, normStd]


/-! ### classification of the sub-writers: success iff everything fits, otherwise a diagnostic -/

/-- a writer's outcome is decided by a condition: success if it holds, a diagnostic if not, never a panic -/
def Decides {α} (o : Outcome α) (good : Prop) : Prop :=
  (good → ∃ a, o = .ok a) ∧ (¬ good → ∃ c, o = .err c)

theorem Decides.no_panic {α} {o : Outcome α} {good : Prop} (h : Decides o good) : o.isPanic = false := by
  by_cases hg : good
  · obtain ⟨a, ha⟩ := h.1 hg; rw [ha]; rfl
  · obtain ⟨c, hc⟩ := h.2 hg; rw [hc]; rfl

theorem Decides.err_iff {α} {o : Outcome α} {good : Prop} (h : Decides o good) : (∃ c, o = .err c) ↔ ¬ good := by
  constructor
  · rintro ⟨c, hc⟩ hg
    obtain ⟨a, ha⟩ := h.1 hg
    rw [ha] at hc; cases hc
  · exact h.2

theorem writeStrs_decides (n : Nat) : ∀ ss : List Bytes, Decides (writeStrs n ss) (∀ s ∈ ss, s.length < n) := by
  intro ss
  induction ss with
  | nil => exact ⟨fun _ => ⟨_, rfl⟩, fun h => absurd (fun s hs => by cases hs) h⟩
  | cons s ss ih =>
    rw [writeStrs]
    by_cases hs : s.length < n
    · have hw : writeStr n s = .ok (s ++ Abi.zeros (n - s.length)) := by
        unfold writeStr; rw [if_neg (by omega)]
      simp only [hw]
      constructor
      · intro hall
        obtain ⟨bs, hbs⟩ := ih.1 (fun t ht => hall t (List.mem_cons_of_mem _ ht))
        rw [hbs]; exact ⟨_, rfl⟩
      · intro hnot
        have : ¬ ∀ t ∈ ss, t.length < n := by
          intro hall
          apply hnot
          intro t ht
          rcases List.mem_cons.1 ht with rfl | ht
          · exact hs
          · exact hall t ht
        obtain ⟨c, hc⟩ := ih.2 this
        rw [hc]; exact ⟨_, rfl⟩
    · have hw : writeStr n s = .err strTooLong := by
        unfold writeStr; rw [if_pos (by omega)]
      simp only [hw]
      exact ⟨fun hall => absurd (hall s (List.mem_cons_self ..)) hs, fun _ => ⟨_, rfl⟩⟩

theorem writeExtra_decides (fmt : StdFmt) (x : StdExtra) (hm : extraMatches fmt x = true) :
    Decides (writeExtra fmt x) (∀ s ∈ extraTexts x, s.length < 128) := by
  cases fmt <;> cases x <;> first | (simp [extraMatches] at hm; done) | exact writeStrs_decides 128 _

theorem writeInstances_decides (objs : List (Nat × Object)) : ∀ xs : List Instance,
    Decides (writeInstances objs xs) (∀ x ∈ xs, (indexOfName x.object objs).isSome = true) := by
  intro xs
  induction xs with
  | nil => exact ⟨fun _ => ⟨_, rfl⟩, fun h => absurd (fun s hs => by cases hs) h⟩
  | cons x xs ih =>
    rw [writeInstances]
    cases hi : indexOfName x.object objs with
    | some idx =>
      have hw : writeInstance objs x = .ok (u16 idx ++ u16 x.unknown.toNat ++ wF3 x.pos) := by
        unfold writeInstance; rw [hi]
      simp only [hw]
      constructor
      · intro hall
        obtain ⟨bs, hbs⟩ := ih.1 (fun t ht => hall t (List.mem_cons_of_mem _ ht))
        rw [hbs]; exact ⟨_, rfl⟩
      · intro hnot
        have : ¬ ∀ t ∈ xs, (indexOfName t.object objs).isSome = true := by
          intro hall
          apply hnot
          intro t ht
          rcases List.mem_cons.1 ht with rfl | ht
          · rw [hi]; rfl
          · exact hall t ht
        obtain ⟨c, hc⟩ := ih.2 this
        rw [hc]; exact ⟨_, rfl⟩
    | none =>
      have hw : writeInstance objs x = .err noObjectNamed := by
        unfold writeInstance; rw [hi]
      simp only [hw]
      refine ⟨fun hall => ?_, fun _ => ⟨_, rfl⟩⟩
      have := hall x (List.mem_cons_self ..)
      rw [hi] at this
      cases this

theorem writeInstrs_decides (f : Fmt) : ∀ is : List Instr, Decides (writeInstrs f is) (∀ i ∈ is, fits f i = true) := by
  intro is
  induction is with
  | nil => exact ⟨fun _ => ⟨_, rfl⟩, fun h => absurd (fun s hs => by cases hs) h⟩
  | cons i is ih =>
    rw [writeInstrs]
    cases hf : fits f i with
    | true =>
      obtain ⟨b, hb⟩ := (write_ok_iff_fits f i).2 hf
      simp only [hb]
      constructor
      · intro hall
        obtain ⟨bs, hbs⟩ := ih.1 (fun t ht => hall t (List.mem_cons_of_mem _ ht))
        rw [hbs]; exact ⟨_, rfl⟩
      · intro hnot
        have : ¬ ∀ t ∈ is, fits f t = true := by
          intro hall
          apply hnot
          intro t ht
          rcases List.mem_cons.1 ht with rfl | ht
          · exact hf
          · exact hall t ht
        obtain ⟨c, hc⟩ := ih.2 this
        rw [hc]; exact ⟨_, rfl⟩
    | false =>
      obtain ⟨c, hc⟩ := (write_err_iff_not_fits f i).2 hf
      simp only [hc]
      refine ⟨fun hall => ?_, fun _ => ⟨_, rfl⟩⟩
      have := hall i (List.mem_cons_self ..)
      rw [hf] at this
      cases this

/-- everything `write_std` has to fit into a field: the two 16-bit counts, the text of the extra
header part in 128 bytes with its terminator, every instance's object among the objects, every
instruction in the STD instruction header -/
def StdFits (fmt : StdFmt) (s : StdFile) : Prop :=
  s.objects.length ≤ 65535 ∧ numQuads s.objects ≤ 65535 ∧ (∀ t ∈ extraTexts s.extra, t.length < 128) ∧
  (∀ x ∈ s.instances, (indexOfName x.object s.objects).isSome = true) ∧ ∀ i ∈ s.script, fits fmt.instr i = true

/-- **STD: the writer fails exactly when a count, a text, an object reference or an instruction
does not fit its field** - nothing is truncated - and it never panics (for the extra part of the
file's own layout; the offsets are the one exception, see `std_read_write`). -/
theorem std_write_err_iff (fmt : StdFmt) (s : StdFile) (hm : extraMatches fmt s.extra = true) :
    Decides (writeStd fmt s) (StdFits fmt s) := by
  have hE := writeExtra_decides fmt s.extra hm
  have hI := writeInstances_decides s.objects s.instances
  have hS := writeInstrs_decides fmt.instr s.script
  unfold writeStd
  by_cases hc : s.objects.length > 0xffff ∨ numQuads s.objects > 0xffff
  · rw [if_pos hc]
    refine ⟨fun hg => ?_, fun _ => ⟨_, rfl⟩⟩
    obtain ⟨h1, h2, _⟩ := hg
    omega
  rw [if_neg hc]
  by_cases h1 : ∀ t ∈ extraTexts s.extra, t.length < 128
  · obtain ⟨extra, he⟩ := hE.1 h1
    simp only [he]
    by_cases h2 : ∀ x ∈ s.instances, (indexOfName x.object s.objects).isSome = true
    · obtain ⟨insts, hi⟩ := hI.1 h2
      simp only [hi]
      by_cases h3 : ∀ i ∈ s.script, fits fmt.instr i = true
      · obtain ⟨script, hs⟩ := hS.1 h3
        simp only [hs]
        exact ⟨fun _ => ⟨_, rfl⟩, fun hn => absurd ⟨by omega, by omega, h1, h2, h3⟩ hn⟩
      · obtain ⟨c, hs⟩ := hS.2 h3
        simp only [hs]
        exact ⟨fun hg => absurd hg.2.2.2.2 h3, fun _ => ⟨_, rfl⟩⟩
    · obtain ⟨c, hi⟩ := hI.2 h2
      simp only [hi]
      exact ⟨fun hg => absurd hg.2.2.2.1 h2, fun _ => ⟨_, rfl⟩⟩
  · obtain ⟨c, he⟩ := hE.2 h1
    simp only [he]
    exact ⟨fun hg => absurd hg.2.2.1 h1, fun _ => ⟨_, rfl⟩⟩


/-! ## MSG: sorted offsets -/

/-- strictly increasing -/
def Incr : List Nat → Prop
  | [] => True
  | [_] => True
  | a :: b :: r => a < b ∧ Incr (b :: r)

theorem Incr.tail {a : Nat} {l : List Nat} (h : Incr (a :: l)) : Incr l := by
  cases l with
  | nil => trivial
  | cons b r => exact h.2

theorem Incr.head_lt {a : Nat} {l : List Nat} (h : Incr (a :: l)) : ∀ x ∈ l, a < x := by
  induction l generalizing a with
  | nil => intro x hx; cases hx
  | cons b r ih =>
    intro x hx
    rcases List.mem_cons.1 hx with rfl | hx
    · exact h.1
    · exact Nat.lt_trans h.1 (ih h.2 x hx)

theorem incr_cons {a : Nat} {l : List Nat} (hl : Incr l) (ha : ∀ x ∈ l, a < x) : Incr (a :: l) := by
  cases l with
  | nil => trivial
  | cons b r => exact ⟨ha b (List.mem_cons_self ..), hl⟩

theorem mem_insertU (x : Nat) : ∀ (l : List Nat) (y : Nat), y ∈ insertU x l ↔ y = x ∨ y ∈ l := by
  intro l
  induction l with
  | nil => intro y; simp [insertU]
  | cons a r ih =>
    intro y
    rw [insertU]
    split
    · simp
    · split
      · rename_i h; subst h; simp
      · simp only [List.mem_cons, ih]
        constructor
        · rintro (h | h | h)
          · exact .inr (.inl h)
          · exact .inl h
          · exact .inr (.inr h)
        · rintro (h | h | h)
          · exact .inr (.inl h)
          · exact .inl h
          · exact .inr (.inr h)

theorem incr_insertU (x : Nat) : ∀ (l : List Nat), Incr l → Incr (insertU x l) := by
  intro l
  induction l with
  | nil => intro _; trivial
  | cons a r ih =>
    intro h
    rw [insertU]
    split
    · rename_i hlt; exact ⟨hlt, h⟩
    · split
      · exact h
      · rename_i h1 h2
        apply incr_cons (ih h.tail)
        intro y hy
        rcases (mem_insertU x r y).1 hy with rfl | hy
        · omega
        · exact h.head_lt y hy

theorem incr_sortU (l : List Nat) : Incr (sortU l) := by
  induction l with
  | nil => trivial
  | cons x xs ih => exact incr_insertU x _ ih

theorem mem_sortU (l : List Nat) (y : Nat) : y ∈ sortU l ↔ y ∈ l := by
  induction l with
  | nil => simp [sortU]
  | cons x xs ih =>
    have : sortU (x :: xs) = insertU x (sortU xs) := rfl
    rw [this, mem_insertU, ih]
    simp

/-- strictly increasing lists with the same elements are equal -/
theorem incr_ext : ∀ (l1 l2 : List Nat), Incr l1 → Incr l2 → (∀ y, y ∈ l1 ↔ y ∈ l2) → l1 = l2 := by
  intro l1
  induction l1 with
  | nil =>
    intro l2 _ _ h
    cases l2 with
    | nil => rfl
    | cons b r => exact absurd ((h b).2 (List.mem_cons_self ..)) (by simp)
  | cons a r ih =>
    intro l2 h1 h2 h
    cases l2 with
    | nil => exact absurd ((h a).1 (List.mem_cons_self ..)) (by simp)
    | cons b s =>
      have hab : a = b := by
        have ha := (h a).1 (List.mem_cons_self ..)
        have hb := (h b).2 (List.mem_cons_self ..)
        rcases List.mem_cons.1 ha with rfl | ha
        · rfl
        · rcases List.mem_cons.1 hb with rfl | hb
          · rfl
          · have := h2.head_lt a ha
            have := h1.head_lt b hb
            omega
      subst hab
      congr 1
      apply ih s h1.tail h2.tail
      intro y
      constructor
      · intro hy
        have hlt := h1.head_lt y hy
        rcases List.mem_cons.1 ((h y).1 (List.mem_cons_of_mem _ hy)) with rfl | hy'
        · omega
        · exact hy'
      · intro hy
        have hlt := h2.head_lt y hy
        rcases List.mem_cons.1 ((h y).2 (List.mem_cons_of_mem _ hy)) with rfl | hy'
        · omega
        · exact hy'

/-- **`collect::<BTreeSet>` of a bag of offsets whose distinct values are a known increasing list gives that list** -/
theorem sortU_eq (l sorted : List Nat) (hs : Incr sorted) (h : ∀ y, y ∈ l ↔ y ∈ sorted) : sortU l = sorted :=
  incr_ext _ _ (incr_sortU l) hs (fun y => by rw [mem_sortU, h])


/-! ## MSG: one script -/

theorem commit_eq (p : Option Instr) (acc : List Instr) : Files.commit p acc = C03.commit p acc := by
  cases p <;> rfl

/-- without an end offset the loop of `Model/Files.lean` is the loop of `Model/InstrIO.lean` -/
theorem readInstrsEndAux_none (f : Fmt) : ∀ (n : Nat) (pending : Option Instr) (acc : List Instr) (cur : Nat) (bs : Bytes),
    readInstrsEndAux f none n pending acc cur bs = readInstrsAux f n pending acc bs := by
  intro n
  induction n with
  | zero => intro pending acc cur bs; cases pending <;> rfl
  | succ n ih =>
    intro pending acc cur bs
    rw [C16.readInstrsEndAux_succ, readInstrsAux_succ]
    simp only [endCheck]
    cases h : readInstr f bs with
    | ok p =>
      obtain ⟨res, r⟩ := p
      cases res with
      | instr i => simp only [ih, commit_eq]
      | maybeTerminal i => simp only [ih, commit_eq]
      | terminal => rfl
      | eof => rfl
    | err c => rfl
    | panic s => rfl

theorem msg_terminal_instr : writeInstr .msg { time := 0, opcode := 0 } = .ok (writeTerminal .msg) := by decide

/-- the MSG end marker followed by anything is read as a maybe-terminal `(0, 0, [])` instruction -/
theorem read_terminal_msg_append (rest : Bytes) :
    readInstr .msg (writeTerminal .msg ++ rest) = .ok (.maybeTerminal { time := 0, opcode := 0 }, rest) := by
  have := read_write_msg { time := 0, opcode := 0 } rest _ msg_terminal_instr
  simpa [expectedRes, norm] using this

theorem instrSize_msg (i : Instr) : instrSize .msg i = 4 + i.blob.length := rfl

/-- a script followed by more data, read with the end offset the next script's table entry gives:
exactly the script, the end marker is dropped -/
theorem readEndAux_write_msg : ∀ (is : List Instr) (n : Nat) (pending : Option Instr) (acc : List Instr) (cur : Nat)
    (bs rest : Bytes), writeInstrs .msg is = .ok bs → (∀ i ∈ is, Stored .msg i) → bs.length < n →
    readInstrsEndAux .msg (some (cur + bs.length)) n pending acc cur (bs ++ rest) =
      .ok ((Files.commit pending acc).reverse ++ is) := by
  intro is
  induction is with
  | nil =>
    intro n pending acc cur bs rest hw _ hn
    rw [writeInstrs] at hw
    injection hw with hw
    subst hw
    have h4 : (writeTerminal .msg).length = 4 := rfl
    rw [h4] at hn ⊢
    obtain ⟨n, rfl⟩ : ∃ m, n = m + 2 := ⟨n - 2, by omega⟩
    rw [C16.readInstrsEndAux_succ]
    have hgo : endCheck (some (cur + 4)) cur = .go := by simp [endCheck]
    rw [hgo]
    simp only [read_terminal_msg_append]
    rw [C16.readInstrsEndAux_succ]
    have hstop : endCheck (some (cur + 4)) (cur + instrSize .msg { time := 0, opcode := 0 }) = .stop := by
      simp [endCheck, instrSize_msg]
    rw [hstop]
    simp
  | cons i is ih =>
    intro n pending acc cur bs rest hw hall hn
    obtain ⟨b, bs', hb, hbs', rfl⟩ := writeInstrs_cons_ok hw
    have hi := hall i (List.mem_cons_self ..)
    have hread := read_write .msg i (bs' ++ rest) b hi hb trivial
    have hlen := write_length hb
    simp only [headerSize] at hlen
    have hall' : ∀ j ∈ is, Stored .msg j := fun j hj => hall j (List.mem_cons_of_mem _ hj)
    obtain ⟨n, rfl⟩ : ∃ m, n = m + 1 := ⟨n - 1, by omega⟩
    rw [C16.readInstrsEndAux_succ]
    have hgo : endCheck (some (cur + (b ++ bs').length)) cur = .go := by
      simp only [endCheck, List.length_append]
      rw [if_pos (by omega)]
    rw [hgo, List.append_assoc]
    have hcur : cur + (b ++ bs').length = (cur + instrSize .msg i) + bs'.length := by
      simp only [List.length_append, instrSize_msg]; omega
    have hn' : bs'.length < n := by simp only [List.length_append] at hn; omega
    by_cases hc : i.time = 0 ∧ i.opcode = 0 ∧ i.blob = []
    · simp only [expectedRes, hc, and_self, if_true] at hread
      rw [hread]
      simp only
      rw [hcur, ih n _ _ _ bs' rest hbs' hall' hn']
      simp only [Files.commit, List.reverse_cons, List.append_assoc, List.singleton_append]
    · simp only [expectedRes, hc, if_false] at hread
      rw [hread]
      simp only
      rw [hcur, ih n _ _ _ bs' rest hbs' hall' hn']
      simp only [Files.commit, List.reverse_cons, List.append_assoc, List.singleton_append]

theorem writeInstrs_msg_length {is : List Instr} {bs : Bytes} (h : writeInstrs .msg is = .ok bs) : 4 ≤ bs.length := by
  induction is generalizing bs with
  | nil => rw [writeInstrs] at h; cases h; decide
  | cons i is ih =>
    obtain ⟨b, bs', _, hbs', rfl⟩ := writeInstrs_cons_ok h
    have := ih hbs'
    simp only [List.length_append]; omega

/-- a script that is not the last one of the file -/
theorem readMsgScript_inner (nz : List Nat) (pre b rest : Bytes) (is : List Instr)
    (hw : writeInstrs .msg is = .ok b) (hs : ∀ i ∈ is, Stored .msg i) :
    readMsgScript (pre ++ (b ++ rest)) nz (pre.length, some (pre.length + b.length)) = .ok (msgName nz pre.length, is) := by
  have hseek : seek (pre ++ (b ++ rest)) pre.length = b ++ rest := by simp [seek]
  have := readEndAux_write_msg is ((b ++ rest).length + 1) none [] pre.length b rest hw hs (by
    simp only [List.length_append]
    omega)
  simp only [readMsgScript, readInstrsEnd, hseek, this, Files.commit, List.reverse_nil, List.nil_append]

/-- the last script of the file is read to the end of the file -/
theorem readMsgScript_last (nz : List Nat) (pre b : Bytes) (is : List Instr)
    (hw : writeInstrs .msg is = .ok b) (hs : ∀ i ∈ is, Stored .msg i) :
    readMsgScript (pre ++ b) nz (pre.length, none) = .ok (msgName nz pre.length, is) := by
  have hseek : seek (pre ++ b) pre.length = b := by simp [seek]
  have := readInstrs_writeInstrs .msg is b hw (fun i hi => ⟨hs i hi, trivial⟩)
  simp only [readInstrs] at this
  simp only [readMsgScript, readInstrsEnd, hseek, readInstrsEndAux_none, this]


/-! ## MSG: the whole file -/

/-- a script list and the bytes of each script -/
def Blobs (f : Fmt) : List (Nat × List Instr) → List Bytes → Prop
  | [], [] => True
  | s :: ss, b :: bs => writeInstrs f s.2 = .ok b ∧ Blobs f ss bs
  | _, _ => False

theorem Blobs.length_eq {f : Fmt} : ∀ {ss : List (Nat × List Instr)} {bs : List Bytes}, Blobs f ss bs → ss.length = bs.length := by
  intro ss
  induction ss with
  | nil => intro bs h; cases bs with | nil => rfl | cons b bs => cases h
  | cons s ss ih => intro bs h; cases bs with | nil => cases h | cons b bs => simp [ih h.2]

theorem writeScripts_spec (f : Fmt) : ∀ (scripts : List (Nat × List Instr)) (pos : Nat) (sb : Bytes) (offs : List (Nat × Nat)),
    writeScripts f pos scripts = .ok (sb, offs) →
    ∃ blobs, Blobs f scripts blobs ∧ sb = blobs.flatten ∧
      offs = List.zip (scripts.map (·.1)) (offsetsFrom pos (blobs.map List.length)) := by
  intro scripts
  induction scripts with
  | nil => intro pos sb offs h; rw [writeScripts] at h; cases h; exact ⟨[], trivial, rfl, rfl⟩
  | cons s scripts ih =>
    intro pos sb offs h
    obtain ⟨name, is⟩ := s
    rw [writeScripts] at h
    repeat' split at h
    all_goals first | (cases h; done) | skip
    rename_i b hb _ bs' offs' hrec
    cases h
    obtain ⟨blobs, hbl, rfl, rfl⟩ := ih _ _ _ hrec
    exact ⟨b :: blobs, ⟨hb, hbl⟩, by simp, by simp [offsetsFrom]⟩

theorem collectRecover_cons_ok {α} (a : α) (l : List (Outcome α)) (as : List α) (h : collectRecover l = .ok as) :
    collectRecover (.ok a :: l) = .ok (a :: as) := by
  simp only [collectRecover, h]

/-- all scripts of a file, each read from its offset to the next offset (the last one to the end of the file) -/
theorem readMsgScripts_write (nz : List Nat) : ∀ (scripts : List (Nat × List Instr)) (blobs : List Bytes),
    Blobs .msg scripts blobs → (∀ s ∈ scripts, ∀ i ∈ s.2, Stored .msg i) → ∀ pre : Bytes,
    collectRecover ((withEnds (offsetsFrom pre.length (blobs.map List.length))).map
        (readMsgScript (pre ++ blobs.flatten) nz)) =
      .ok (List.zipWith (fun s o => (msgName nz o, s.2)) scripts (offsetsFrom pre.length (blobs.map List.length))) := by
  intro scripts
  induction scripts with
  | nil =>
    intro blobs h _ pre
    cases blobs with
    | nil => rfl
    | cons b bs => cases h
  | cons s scripts ih =>
    intro blobs h hst pre
    cases blobs with
    | nil => cases h
    | cons b blobs =>
      obtain ⟨hb, hrest⟩ := h
      have hs := hst s (List.mem_cons_self ..)
      have hst' : ∀ t ∈ scripts, ∀ i ∈ t.2, Stored .msg i := fun t ht => hst t (List.mem_cons_of_mem _ ht)
      cases blobs with
      | nil =>
        cases scripts with
        | cons t ts => cases hrest
        | nil =>
          simp only [List.map_cons, List.map_nil, offsetsFrom, withEnds, List.flatten_cons, List.flatten_nil,
            List.append_nil, readMsgScript_last nz pre b s.2 hb hs, List.zipWith_cons_cons, List.zipWith_nil_right]
          rfl
      | cons b' blobs' =>
        have hih := ih (b' :: blobs') hrest hst' (pre ++ b)
        simp only [List.length_append, List.append_assoc] at hih
        simp only [List.map_cons, offsetsFrom, withEnds, List.flatten_cons] at hih ⊢
        rw [readMsgScript_inner nz pre b _ s.2 hb hs]
        cases scripts with
        | nil => cases hrest
        | cons t ts =>
          simp only [List.zipWith_cons_cons] at hih ⊢
          exact collectRecover_cons_ok _ _ _ hih

/-! ## MSG: table and names -/

/-- the offset a name is written as -/
def offOf (offs : List (Nat × Nat)) (a : Nat) : Nat := (lookupNat a offs).getD 0

def entryOff (offs : List (Nat × Nat)) (e : MsgEntry) : Nat :=
  match e.script with
  | none => 0
  | some a => offOf offs a

def rawOf (hasFlags : Bool) (offs : List (Nat × Nat)) (e : MsgEntry) : Nat × Nat :=
  (entryOff offs e, if hasFlags then e.flags.toNat else 0)

theorem msgEntryOffset_ok {offs : List (Nat × Nat)} {e : MsgEntry} {o : Nat} (h : msgEntryOffset offs e = .ok o) :
    o = entryOff offs e ∧ ∀ a, e.script = some a → (lookupNat a offs).isSome = true := by
  unfold msgEntryOffset at h
  split at h
  · rename_i hs
    cases h
    simp [entryOff, hs]
  · rename_i a hs
    split at h
    · rename_i o' ho
      cases h
      refine ⟨by simp [entryOff, hs, offOf, ho], ?_⟩
      intro a' ha'
      rw [hs] at ha'
      cases ha'
      rw [ho]; rfl
    · cases h

theorem readMsgTableAux_write (hasFlags : Bool) (offs : List (Nat × Nat)) :
    ∀ (table : List MsgEntry) (acc : List (Nat × Nat)) (tb rest : Bytes),
      writeMsgTable hasFlags offs table = .ok tb → (∀ e ∈ table, entryOff offs e < 2 ^ 32) →
      readMsgTableAux hasFlags table.length acc (tb ++ rest) = .ok (acc.reverse ++ table.map (rawOf hasFlags offs)) ∧
      tb.length = msgEntrySize hasFlags * table.length ∧
      ∀ e ∈ table, ∀ a, e.script = some a → (lookupNat a offs).isSome = true := by
  intro table
  induction table with
  | nil =>
    intro acc tb rest h _
    rw [writeMsgTable] at h
    cases h
    exact ⟨by simp [readMsgTableAux], by simp, fun e he => by cases he⟩
  | cons e table ih =>
    intro acc tb rest h hfit
    rw [writeMsgTable] at h
    repeat' split at h
    all_goals first | (cases h; done) | skip
    rename_i o ho _ bs' hrec
    cases h
    obtain ⟨rfl, hval⟩ := msgEntryOffset_ok ho
    have he := hfit e (List.mem_cons_self ..)
    obtain ⟨ih1, ih2, ih3⟩ := ih ((entryOff offs e, if hasFlags then e.flags.toNat else 0) :: acc) bs' rest hrec
      (fun x hx => hfit x (List.mem_cons_of_mem _ hx))
    refine ⟨?_, ?_, ?_⟩
    · cases hasFlags with
      | true =>
        simp only [if_true] at ih1
        simp only [List.length_cons, readMsgTableAux, msgEntryBytes, if_true, List.append_assoc, rdU32_u32 _ _ he,
          rdU32_u32', ih1, List.reverse_cons, List.append_assoc, List.singleton_append, List.map_cons, rawOf]
      | false =>
        simp only [Bool.false_eq_true, if_false] at ih1
        simp only [List.length_cons, readMsgTableAux, msgEntryBytes, Bool.false_eq_true, if_false, List.append_nil,
          List.append_assoc, rdU32_u32 _ _ he, ih1, List.reverse_cons, List.singleton_append, List.map_cons, rawOf]
    · simp only [List.length_append, List.length_cons, ih2, msgEntryBytes, msgEntrySize]
      cases hasFlags <;> simp [u32] <;> omega
    · intro x hx a ha
      rcases List.mem_cons.1 hx with rfl | hx
      · exact hval a ha
      · exact ih3 x hx a ha

theorem lookupNat_zip_map : ∀ (names vals : List Nat), nodupNat names = true → names.length = vals.length →
    names.map (offOf (List.zip names vals)) = vals := by
  intro names
  induction names with
  | nil => intro vals _ h; cases vals with | nil => rfl | cons v vs => cases h
  | cons a ns ih =>
    intro vals hnd hl
    cases vals with
    | nil => cases hl
    | cons v vs =>
      simp only [nodupNat, Bool.and_eq_true, Bool.not_eq_true', List.contains_eq_mem, decide_eq_false_iff_not] at hnd
      simp only [List.length_cons, Nat.add_right_cancel_iff] at hl
      simp only [List.zip_cons_cons, List.map_cons, offOf, lookupNat, if_true, Option.getD_some, List.cons.injEq, true_and]
      have hcongr : List.map (offOf ((a, v) :: ns.zip vs)) ns = List.map (offOf (ns.zip vs)) ns := by
        apply List.map_congr_left
        intro x hx
        have : x ≠ a := fun h => hnd.1 (h ▸ hx)
        simp only [offOf, lookupNat, this, if_false]
      rw [hcongr]
      exact ih vs hnd.2 hl

theorem incr_map_inj (g : Nat → Nat) : ∀ (l : List Nat), Incr (l.map g) → ∀ x ∈ l, ∀ y ∈ l, g x = g y → x = y := by
  intro l
  induction l with
  | nil => intro _ x hx; cases hx
  | cons a r ih =>
    intro h x hx y hy hxy
    have hlt : ∀ z ∈ r, g a < g z := by
      intro z hz
      exact h.head_lt (g z) (List.mem_map.2 ⟨z, hz, rfl⟩)
    rcases List.mem_cons.1 hx with hxa | hxr
    · rcases List.mem_cons.1 hy with hya | hyr
      · rw [hxa, hya]
      · have := hlt y hyr; rw [hxa] at hxy; omega
    · rcases List.mem_cons.1 hy with hya | hyr
      · have := hlt x hxr; rw [hya] at hxy; omega
      · exact ih h.tail x hxr y hyr hxy

theorem firstIdx_map (g : Nat → Nat) (a : Nat) : ∀ (l : List Nat), (∀ x ∈ l, g x = g a → x = a) →
    firstIdx (g a) (l.map g) = firstIdx a l := by
  intro l
  induction l with
  | nil => intro _; rfl
  | cons b r ih =>
    intro h
    simp only [List.map_cons, firstIdx]
    by_cases hab : a = b
    · subst hab; simp
    · have : ¬ g a = g b := fun hg => hab (h b (List.mem_cons_self ..) hg.symm).symm
      simp only [this, hab, if_false, ih (fun x hx => h x (List.mem_cons_of_mem _ hx))]

theorem offsetsFrom_incr : ∀ (lens : List Nat) (base : Nat), (∀ l ∈ lens, 0 < l) → Incr (offsetsFrom base lens) := by
  intro lens
  induction lens with
  | nil => intro _ _; trivial
  | cons l ls ih =>
    intro base h
    have := ih (base + l) (fun x hx => h x (List.mem_cons_of_mem _ hx))
    cases ls with
    | nil => trivial
    | cons l' ls' =>
      simp only [offsetsFrom] at this ⊢
      exact ⟨by have := h l (List.mem_cons_self ..); omega, this⟩

theorem offsetsFrom_ge : ∀ (lens : List Nat) (base : Nat), ∀ x ∈ offsetsFrom base lens, base ≤ x := by
  intro lens
  induction lens with
  | nil => intro base x h; cases h
  | cons l ls ih =>
    intro base x h
    simp only [offsetsFrom, List.mem_cons] at h
    rcases h with rfl | h
    · exact Nat.le_refl _
    · have := ih _ _ h; omega

theorem blobs_lengths_pos : ∀ (scripts : List (Nat × List Instr)) (blobs : List Bytes), Blobs .msg scripts blobs →
    ∀ l ∈ blobs.map List.length, 0 < l := by
  intro scripts
  induction scripts with
  | nil => intro blobs h; cases blobs with | nil => intro l hl; cases hl | cons b bs => cases h
  | cons s ss ih =>
    intro blobs h
    cases blobs with
    | nil => cases h
    | cons b bs =>
      intro l hl
      simp only [List.map_cons, List.mem_cons] at hl
      rcases hl with rfl | hl
      · have := writeInstrs_msg_length h.1; omega
      · exact ih bs h.2 l hl

/-! ## MSG: round trip -/

/-- the names the table mentions, in table order -/
def tableNames (m : MsgFile) : List Nat := m.table.filterMap (·.script)

def storedMsg (i : Instr) : Bool := i.mask == 0 && i.difficulty == 255 && i.extra.isNone

theorem storedMsg_iff (i : Instr) (h : storedMsg i = true) : Stored .msg i := by
  simp only [storedMsg, Bool.and_eq_true, beq_iff_eq, Option.isNone_iff_eq_none] at h
  exact ⟨h.1.1, h.1.2, h.2⟩

/-- the explicit well-formedness predicate of a MSG file: script names are distinct (an `IndexMap`),
every script is referenced by the table (the compiler warns about an unused script: the format has
no place for it, a reader takes its bytes for a continuation of the script before it), and the
instructions carry no field the MSG instruction format cannot store -/
def wfMsg (m : MsgFile) : Bool :=
  nodupNat (m.scripts.map (·.1)) && (m.scripts.map (·.1)).all (fun a => (tableNames m).contains a) &&
  m.scripts.all (fun s => s.2.all storedMsg)

/-- what `read_msg` reports for a written file: a script is named after the first position of its
name among the table's nonzero entries (names are not stored), and games before TH09 have no flags -/
def normMsg (hasFlags : Bool) (m : MsgFile) : MsgFile :=
  { table := m.table.map fun e =>
      { script := e.script.map fun a => firstIdx a (tableNames m), flags := if hasFlags then e.flags else 0 },
    scripts := m.scripts.map fun s => (firstIdx s.1 (tableNames m), s.2) }

theorem lookupNat_zip_mem : ∀ (ns vs : List Nat) (a v : Nat), lookupNat a (List.zip ns vs) = some v → a ∈ ns ∧ v ∈ vs := by
  intro ns
  induction ns with
  | nil => intro vs a v h; simp [lookupNat] at h
  | cons n ns ih =>
    intro vs a v h
    cases vs with
    | nil => simp [lookupNat] at h
    | cons w ws =>
      simp only [List.zip_cons_cons, lookupNat] at h
      split at h
      · rename_i hn; cases h; subst hn; simp
      · obtain ⟨h1, h2⟩ := ih ws a v h
        exact ⟨List.mem_cons_of_mem _ h1, List.mem_cons_of_mem _ h2⟩

theorem nz_eq (offs : List (Nat × Nat)) : ∀ (table : List MsgEntry),
    (∀ e ∈ table, ∀ a, e.script = some a → offOf offs a ≠ 0) →
    nzOffsets (table.map (rawOf true offs)) = (table.filterMap (·.script)).map (offOf offs) ∧
    nzOffsets (table.map (rawOf false offs)) = (table.filterMap (·.script)).map (offOf offs) := by
  intro table
  induction table with
  | nil => intro _; exact ⟨rfl, rfl⟩
  | cons e table ih =>
    intro h
    obtain ⟨ih1, ih2⟩ := ih (fun x hx => h x (List.mem_cons_of_mem _ hx))
    simp only [nzOffsets, List.map_cons, List.map_map] at ih1 ih2 ⊢
    cases hs : e.script with
    | none =>
      simp only [List.filterMap_cons, hs, rawOf, entryOff, List.filter_cons, ne_eq, not_true_eq_false, decide_false,
        Bool.false_eq_true, if_false]
      exact ⟨ih1, ih2⟩
    | some a =>
      have hne := h e (List.mem_cons_self ..) a hs
      simp only [List.filterMap_cons, hs, rawOf, entryOff, List.filter_cons, ne_eq, hne, not_false_eq_true, decide_true,
        if_true, List.map_cons, List.cons.injEq, true_and]
      exact ⟨ih1, ih2⟩

theorem writeMsgTable_length (hasFlags : Bool) (offs : List (Nat × Nat)) : ∀ (table : List MsgEntry) (tb : Bytes),
    writeMsgTable hasFlags offs table = .ok tb → tb.length = msgEntrySize hasFlags * table.length := by
  intro table
  induction table with
  | nil => intro tb h; rw [writeMsgTable] at h; cases h; simp
  | cons e table ih =>
    intro tb h
    rw [writeMsgTable] at h
    repeat' split at h
    all_goals first | (cases h; done) | skip
    rename_i o ho _ bs' hrec
    cases h
    simp only [List.length_append, List.length_cons, ih _ hrec, msgEntryBytes, msgEntrySize]
    cases hasFlags <;> simp [u32] <;> omega

theorem zipWith_map_right {α β γ} (f : α → β → γ) (g : α → β) : ∀ (l : List α),
    List.zipWith f l (l.map g) = l.map fun a => f a (g a) := by
  intro l
  induction l with
  | nil => rfl
  | cons a l ih => simp [ih]

/-- **MSG round trip**: a well-formed file that `write_msg` accepts and that is smaller than 4 GiB is
read back by `read_msg` as the same table and the same scripts in the same order, with the
reader's names (`normMsg`).  No hypothesis about `(0, 0, [])` instructions is needed. -/
theorem msg_read_write (hasFlags : Bool) (m : MsgFile) (bs : Bytes)
    (hw : writeMsg hasFlags m = .ok bs) (hwf : wfMsg m = true) (hlen : bs.length < 2 ^ 32) :
    readMsg hasFlags bs = .ok (normMsg hasFlags m) := by
  simp only [wfMsg, Bool.and_eq_true, List.all_eq_true, List.contains_eq_mem, decide_eq_true_eq] at hwf
  obtain ⟨⟨hnd, hused⟩, hstored⟩ := hwf
  unfold writeMsg at hw
  repeat' split at hw
  all_goals first | (cases hw; done) | skip
  rename_i sb offs hws _ _ tb htb
  cases hw
  obtain ⟨blobs, hbl, rfl, hoffs⟩ := writeScripts_spec _ _ _ _ _ hws
  -- names, offsets
  obtain ⟨names, hnames⟩ : ∃ names, names = m.scripts.map (·.1) := ⟨_, rfl⟩
  obtain ⟨offsets, hoffsets⟩ : ∃ offsets, offsets = offsetsFrom (msgHeaderLen hasFlags m) (blobs.map List.length) := ⟨_, rfl⟩
  rw [← hnames, ← hoffsets] at hoffs
  rw [← hnames] at hnd hused
  have hlen_eq : names.length = offsets.length := by
    rw [hnames, hoffsets, offsetsFrom_length, List.length_map, List.length_map, hbl.length_eq]
  have hg : names.map (offOf offs) = offsets := by rw [hoffs]; exact lookupNat_zip_map names offsets hnd hlen_eq
  have hincr : Incr offsets := by rw [hoffsets]; exact offsetsFrom_incr _ _ (blobs_lengths_pos _ _ hbl)
  have hge : ∀ x ∈ offsets, msgHeaderLen hasFlags m ≤ x := by rw [hoffsets]; exact offsetsFrom_ge _ _
  have hle : ∀ x ∈ offsets, x ≤ msgHeaderLen hasFlags m + blobs.flatten.length := by
    rw [hoffsets, flatten_length_eq_sum]; exact offsetsFrom_le _ _
  have hH : 4 ≤ msgHeaderLen hasFlags m := by simp [msgHeaderLen]
  -- the table
  have hentry : ∀ e ∈ m.table, entryOff offs e ≤ msgHeaderLen hasFlags m + blobs.flatten.length := by
    intro e _
    unfold entryOff
    split
    · omega
    · rename_i a _
      unfold offOf
      cases hl : lookupNat a offs with
      | none => simp
      | some v =>
        rw [hoffs] at hl
        exact hle v (lookupNat_zip_mem _ _ _ _ hl).2
  have htblen := writeMsgTable_length hasFlags offs m.table tb htb
  have hHeq : msgHeaderLen hasFlags m = 4 + tb.length := by simp only [msgHeaderLen, htblen]
  have hbslen : (u32 m.table.length ++ tb ++ blobs.flatten).length = 4 + tb.length + blobs.flatten.length := by
    simp only [List.length_append, u32, List.length_cons, List.length_nil]
  rw [hbslen] at hlen
  obtain ⟨hread, _, hvalid⟩ := readMsgTableAux_write hasFlags offs m.table [] tb blobs.flatten htb
    (fun e he => by have := hentry e he; omega)
  have htable_lt : m.table.length < 2 ^ 32 := by
    have : m.table.length ≤ tb.length := by
      rw [htblen, msgEntrySize]
      cases hasFlags <;> simp <;> omega
    omega
  -- what the table's names are written as
  have hname : ∀ a ∈ tableNames m, a ∈ names ∧ offOf offs a ∈ offsets := by
    intro a ha
    simp only [tableNames, List.mem_filterMap] at ha
    obtain ⟨e, he, hea⟩ := ha
    have := hvalid e he a hea
    cases hl : lookupNat a offs with
    | none => rw [hl] at this; cases this
    | some v =>
      have hm := lookupNat_zip_mem names offsets a v (by rw [← hoffs]; exact hl)
      exact ⟨hm.1, by simp only [offOf, hl, Option.getD_some]; exact hm.2⟩
  have hnz : nzOffsets (m.table.map (rawOf hasFlags offs)) = (tableNames m).map (offOf offs) := by
    have hne : ∀ e ∈ m.table, ∀ a, e.script = some a → offOf offs a ≠ 0 := by
      intro e he a hea
      have := hge _ (hname a (by simp only [tableNames, List.mem_filterMap]; exact ⟨e, he, hea⟩)).2
      omega
    cases hasFlags
    · exact (nz_eq offs m.table hne).2
    · exact (nz_eq offs m.table hne).1
  have hsort : sortU ((tableNames m).map (offOf offs)) = offsets := by
    apply sortU_eq _ _ hincr
    intro y
    rw [← hg]
    simp only [List.mem_map]
    constructor
    · rintro ⟨a, ha, rfl⟩; exact ⟨a, (hname a ha).1, rfl⟩
    · rintro ⟨a, ha, rfl⟩; exact ⟨a, hused a ha, rfl⟩
  -- injectivity of the name -> offset map on the script names
  have hinj : ∀ x ∈ names, ∀ y ∈ names, offOf offs x = offOf offs y → x = y :=
    incr_map_inj (offOf offs) names (by rw [hg]; exact hincr)
  have hrn : ∀ a ∈ names, msgName ((tableNames m).map (offOf offs)) (offOf offs a) = firstIdx a (tableNames m) := by
    intro a ha
    exact firstIdx_map (offOf offs) a (tableNames m) (fun x hx hxa => hinj x (hname x hx).1 a ha hxa)
  -- scripts
  have hpre : (u32 m.table.length ++ tb).length = msgHeaderLen hasFlags m := by
    rw [hHeq]; simp only [List.length_append, u32, List.length_cons, List.length_nil]
  have hscripts := readMsgScripts_write ((tableNames m).map (offOf offs)) m.scripts blobs hbl
    (fun s hs i hi => storedMsg_iff i (hstored s hs i hi))
    (u32 m.table.length ++ tb)
  rw [hpre, ← hoffsets] at hscripts
  have hzip : List.zipWith (fun (s : Nat × List Instr) o => (msgName ((tableNames m).map (offOf offs)) o, s.2)) m.scripts offsets =
      m.scripts.map fun s => (firstIdx s.1 (tableNames m), s.2) := by
    rw [← hg, hnames, List.map_map, zipWith_map_right]
    apply List.map_congr_left
    intro s hs
    show (msgName _ (offOf offs s.1), s.2) = _
    rw [hrn s.1 (by rw [hnames]; exact List.mem_map.2 ⟨s, hs, rfl⟩)]
  -- the table as the reader reports it
  have htab : msgTableOf ((tableNames m).map (offOf offs)) (m.table.map (rawOf hasFlags offs)) = (normMsg hasFlags m).table := by
    simp only [msgTableOf, normMsg, List.map_map]
    apply List.map_congr_left
    intro e he
    obtain ⟨sc, fl⟩ := e
    cases sc with
    | none =>
      show ({ script := if (0 : Nat) = 0 then none else _, flags := _ } : MsgEntry) = _
      cases hasFlags <;> simp [rawOf]
    | some a =>
      have ha : a ∈ tableNames m := by simp only [tableNames, List.mem_filterMap]; exact ⟨_, he, rfl⟩
      have hne : offOf offs a ≠ 0 := by have := hge _ (hname a ha).2; omega
      show ({ script := if offOf offs a = 0 then none else some (msgName _ (offOf offs a)), flags := _ } : MsgEntry) = _
      simp only [hne, if_false, hrn a (hname a ha).1, Option.map_some]
      cases hasFlags <;> simp [rawOf]
  simp only [readMsg, List.append_assoc, rdU32_u32 _ _ htable_lt]
  simp only [List.reverse_nil, List.nil_append] at hread
  rw [hread]
  simp only [hnz, readMsgScripts, hsort]
  rw [← List.append_assoc, hscripts, hzip, htab]
  rfl

/-! ## MSG: when the writer fails -/

theorem writeScripts_decides (f : Fmt) : ∀ (scripts : List (Nat × List Instr)) (pos : Nat),
    Decides (writeScripts f pos scripts) (∀ s ∈ scripts, ∀ i ∈ s.2, fits f i = true) := by
  intro scripts
  induction scripts with
  | nil => intro pos; exact ⟨fun _ => ⟨_, rfl⟩, fun h => absurd (fun s hs => by cases hs) h⟩
  | cons s scripts ih =>
    intro pos
    obtain ⟨name, is⟩ := s
    rw [writeScripts]
    have hd := writeInstrs_decides f is
    by_cases h1 : ∀ i ∈ is, fits f i = true
    · obtain ⟨b, hb⟩ := hd.1 h1
      simp only [hb]
      have ih' := ih (pos + b.length)
      constructor
      · intro hall
        obtain ⟨p, hp⟩ := ih'.1 (fun t ht => hall t (List.mem_cons_of_mem _ ht))
        rw [hp]; exact ⟨_, rfl⟩
      · intro hnot
        have : ¬ ∀ t ∈ scripts, ∀ i ∈ t.2, fits f i = true := by
          intro hall
          apply hnot
          intro t ht
          rcases List.mem_cons.1 ht with rfl | ht
          · exact h1
          · exact hall t ht
        obtain ⟨c, hc⟩ := ih'.2 this
        rw [hc]; exact ⟨_, rfl⟩
    · obtain ⟨c, hc⟩ := hd.2 h1
      simp only [hc]
      exact ⟨fun hall => absurd (hall (name, is) (List.mem_cons_self ..)) h1, fun _ => ⟨_, rfl⟩⟩

theorem lookupNat_isSome_iff : ∀ (offs : List (Nat × Nat)) (a : Nat), (lookupNat a offs).isSome = true ↔ a ∈ offs.map (·.1) := by
  intro offs
  induction offs with
  | nil => intro a; simp [lookupNat]
  | cons kv offs ih =>
    intro a
    obtain ⟨k, v⟩ := kv
    simp only [lookupNat, List.map_cons, List.mem_cons]
    split
    · rename_i h; simp [h]
    · rename_i h; rw [ih]; simp [h]

theorem writeMsgTable_decides (hasFlags : Bool) (offs : List (Nat × Nat)) : ∀ (table : List MsgEntry),
    Decides (writeMsgTable hasFlags offs table) (∀ e ∈ table, ∀ a, e.script = some a → a ∈ offs.map (·.1)) := by
  intro table
  induction table with
  | nil => exact ⟨fun _ => ⟨_, rfl⟩, fun h => absurd (fun s hs => by cases hs) h⟩
  | cons e table ih =>
    rw [writeMsgTable]
    cases hs : e.script with
    | none =>
      have : msgEntryOffset offs e = .ok 0 := by unfold msgEntryOffset; rw [hs]
      simp only [this]
      constructor
      · intro hall
        obtain ⟨p, hp⟩ := ih.1 (fun t ht => hall t (List.mem_cons_of_mem _ ht))
        rw [hp]; exact ⟨_, rfl⟩
      · intro hnot
        have : ¬ ∀ t ∈ table, ∀ a, t.script = some a → a ∈ offs.map (·.1) := by
          intro hall
          apply hnot
          intro t ht
          rcases List.mem_cons.1 ht with rfl | ht
          · intro a ha; rw [hs] at ha; cases ha
          · exact hall t ht
        obtain ⟨c, hc⟩ := ih.2 this
        rw [hc]; exact ⟨_, rfl⟩
    | some a =>
      cases hl : lookupNat a offs with
      | some o =>
        have : msgEntryOffset offs e = .ok o := by unfold msgEntryOffset; rw [hs]; simp only [hl]
        simp only [this]
        have hmem : a ∈ offs.map (·.1) := (lookupNat_isSome_iff offs a).1 (by rw [hl]; rfl)
        constructor
        · intro hall
          obtain ⟨p, hp⟩ := ih.1 (fun t ht => hall t (List.mem_cons_of_mem _ ht))
          rw [hp]; exact ⟨_, rfl⟩
        · intro hnot
          have : ¬ ∀ t ∈ table, ∀ a, t.script = some a → a ∈ offs.map (·.1) := by
            intro hall
            apply hnot
            intro t ht
            rcases List.mem_cons.1 ht with rfl | ht
            · intro a' ha'; rw [hs] at ha'; cases ha'; exact hmem
            · exact hall t ht
          obtain ⟨c, hc⟩ := ih.2 this
          rw [hc]; exact ⟨_, rfl⟩
      | none =>
        have : msgEntryOffset offs e = .err invalidScript := by unfold msgEntryOffset; rw [hs]; simp only [hl]
        simp only [this]
        refine ⟨fun hall => ?_, fun _ => ⟨_, rfl⟩⟩
        have := (lookupNat_isSome_iff offs a).2 (hall e (List.mem_cons_self ..) a hs)
        rw [hl] at this
        cases this

theorem zip_map_fst : ∀ (l1 l2 : List Nat), l1.length = l2.length → (List.zip l1 l2).map (·.1) = l1 := by
  intro l1
  induction l1 with
  | nil => intro l2 _; rfl
  | cons a l1 ih =>
    intro l2 h
    cases l2 with
    | nil => cases h
    | cons b l2 => simp only [List.length_cons, Nat.add_right_cancel_iff] at h; simp [ih l2 h]

/-- everything `write_msg` has to fit: every instruction in the MSG instruction header (16-bit time,
8-bit opcode and argument size) and every table entry's script among the scripts -/
def MsgFits (m : MsgFile) : Prop :=
  (∀ s ∈ m.scripts, ∀ i ∈ s.2, fits .msg i = true) ∧ ∀ e ∈ m.table, ∀ a, e.script = some a → a ∈ m.scripts.map (·.1)

/-- **MSG: the writer fails exactly when an instruction does not fit its header or the table names
a script that does not exist**, and never panics (for distinct script names, which the
`IndexMap` holding them guarantees: the `assert_eq!` on the offset map's size cannot fire).
The table length and the offsets are narrowed with `as u32` without a check, see `msg_read_write`. -/
theorem msg_write_err_iff (hasFlags : Bool) (m : MsgFile) (hnd : nodupNat (m.scripts.map (·.1)) = true) :
    Decides (writeMsg hasFlags m) (MsgFits m) := by
  have hS := writeScripts_decides .msg m.scripts (msgHeaderLen hasFlags m)
  unfold writeMsg
  by_cases h1 : ∀ s ∈ m.scripts, ∀ i ∈ s.2, fits .msg i = true
  · obtain ⟨⟨sb, offs⟩, hp⟩ := hS.1 h1
    simp only [hp, hnd, Bool.not_true, Bool.false_eq_true, if_false]
    obtain ⟨blobs, hbl, _, hoffs⟩ := writeScripts_spec _ _ _ _ _ hp
    have hkeys : offs.map (·.1) = m.scripts.map (·.1) := by
      rw [hoffs]
      apply zip_map_fst
      rw [offsetsFrom_length, List.length_map, List.length_map, hbl.length_eq]
    have hT := writeMsgTable_decides hasFlags offs m.table
    rw [hkeys] at hT
    by_cases h2 : ∀ e ∈ m.table, ∀ a, e.script = some a → a ∈ m.scripts.map (·.1)
    · obtain ⟨tb, ht⟩ := hT.1 h2
      simp only [ht]
      exact ⟨fun _ => ⟨_, rfl⟩, fun hn => absurd ⟨h1, h2⟩ hn⟩
    · obtain ⟨c, ht⟩ := hT.2 h2
      simp only [ht]
      exact ⟨fun hg => absurd hg.2 h2, fun _ => ⟨_, rfl⟩⟩
  · obtain ⟨c, hp⟩ := hS.2 h1
    simp only [hp]
    exact ⟨fun hg => absurd hg.1 h1, fun _ => ⟨_, rfl⟩⟩

/-! ### non-vacuity -/

/-- a TH09+ file: three table entries (one zero, one repeated), two scripts, a flag -/
def msgExample : MsgFile :=
  { table := [{ script := some 7, flags := 0 }, { script := none, flags := 256 }, { script := some 3, flags := 0 }, { script := some 7, flags := 1 }],
    scripts := [(3, [{ time := 5, opcode := 1, blob := [9, 0, 0, 0] }, { time := 0, opcode := 0 }]), (7, [{ time := -1, opcode := 2 }])] }

example : wfMsg msgExample = true := by decide
example : ∃ bs, writeMsg true msgExample = .ok bs ∧ bs.length = 60 ∧ readMsg true bs = .ok (normMsg true msgExample) := by
  refine ⟨_, rfl, by decide, ?_⟩
  exact msg_read_write true msgExample _ rfl (by decide) (by decide)
/-- the reader's names: script 7 is first mentioned at position 0 of the nonzero entries, script 3 at position 1 -/
example : (normMsg true msgExample).scripts.map (·.1) = [1, 0] := by decide
/-- a table entry that names no script is an error, not a zero offset -/
example : writeMsg true { table := [{ script := some 4, flags := 0 }], scripts := [] } = .err invalidScript := by decide
/-- an unused script breaks the round trip (it is absorbed by the script before it): the hypothesis is needed -/
example : ∃ bs, writeMsg false { table := [{ script := some 0, flags := 0 }], scripts := [(0, []), (1, [])] } = .ok bs ∧
    readMsg false bs = .ok { table := [{ script := some 0, flags := 0 }], scripts := [(0, [{ time := 0, opcode := 0 }])] } :=
  ⟨_, rfl, by decide⟩

/-! ## old ECL -/

/-- the end marker of every format but MSG, followed by anything, is read as the end of the script -/
theorem read_terminal_append (f : Fmt) (hf : f ≠ .msg) (rest : Bytes) :
    ∃ r, readInstr f (writeTerminal f ++ rest) = .ok (.terminal, r) := by
  cases f
  · exact absurd rfl hf
  · have : writeTerminal .anm07 = [255, 255, 0, 0, 0, 0, 0, 0] := by decide
    rw [this]; exact ⟨_, by simp [readInstr, rdU16]; rfl⟩
  · have : writeTerminal .std06 = List.replicate 20 255 := by decide
    rw [this]; exact ⟨_, by simp [readInstr, rdI32, rdU32, rdU16, List.replicate]; rfl⟩
  · have : writeTerminal .std10 = List.replicate 20 255 := by decide
    rw [this]; exact ⟨_, by simp [readInstr, rdI32, rdU32, rdU16, List.replicate]; rfl⟩
  · have : writeTerminal .ecl06 = [255, 255, 255, 255, 255, 255, 12, 0, 0, 255, 255, 0] := by decide
    rw [this]; exact ⟨_, by simp [readInstr, rdI32, rdU32, rdU16, rdI16, rdU8, rdBytes, signed]; rfl⟩
  · have : writeTerminal .ecl07 = [255, 255, 255, 255, 255, 255, 12, 0, 0, 255, 255, 0] := by decide
    rw [this]; exact ⟨_, by simp [readInstr, rdI32, rdU32, rdU16, rdI16, rdU8, rdBytes, signed]; rfl⟩
  · have : writeTerminal .tl06 = [255, 255, 4, 0] := by decide
    rw [this]; exact ⟨_, by simp [readInstr, rdU16, rdI16, signed]; rfl⟩
  · have : writeTerminal .tl08 = [255, 255, 255, 255, 0, 0, 0, 0] := by decide
    rw [this]; exact ⟨_, by simp [readInstr, rdI32, rdU32, rdU16, rdU8, signed]; rfl⟩


/-- a script followed by anything: the reader stops at the end marker -/
theorem readAux_write_append (f : Fmt) (hf : f ≠ .msg) :
    ∀ (is : List Instr) (n : Nat) (acc : List Instr) (bs rest : Bytes),
      writeInstrs f is = .ok bs → (∀ i ∈ is, Stored f i ∧ NotTerminalLooking f i) → bs.length < n →
      readInstrsAux f n none acc (bs ++ rest) = .ok (acc.reverse ++ is) := by
  intro is
  induction is with
  | nil =>
    intro n acc bs rest hw _ hn
    rw [writeInstrs] at hw
    injection hw with hw
    subst hw
    obtain ⟨r, hr⟩ := read_terminal_append f hf rest
    cases n with
    | zero => omega
    | succ n => rw [readInstrsAux, hr]; simp only [List.append_nil]
  | cons i is ih =>
    intro n acc bs rest hw hall hn
    obtain ⟨b, bs', hb, hbs', rfl⟩ := writeInstrs_cons_ok hw
    have hi := hall i (List.mem_cons_self ..)
    have hread := read_write f i (bs' ++ rest) b hi.1 hb hi.2
    rw [expectedRes_not_msg hf] at hread
    have hlen := write_length hb
    cases n with
    | zero => omega
    | succ n =>
      rw [List.append_assoc, readInstrsAux, hread]
      simp only
      rw [ih n (i :: acc) bs' rest hbs' (fun j hj => hall j (List.mem_cons_of_mem _ hj))
        (by rw [List.length_append] at hn; have : 0 < headerSize f := by cases f <;> decide
            omega)]
      simp only [List.reverse_cons, List.append_assoc, List.singleton_append]

theorem readInstrs_writeInstrs_append (f : Fmt) (hf : f ≠ .msg) (is : List Instr) (bs rest : Bytes)
    (hw : writeInstrs f is = .ok bs) (hall : ∀ i ∈ is, Stored f i ∧ NotTerminalLooking f i) :
    readInstrs f (bs ++ rest) = .ok is := by
  unfold readInstrs
  rw [readAux_write_append f hf is _ [] bs rest hw hall (by simp only [List.length_append]; omega)]
  rfl

/-- a list of scripts and the bytes of each -/
def BlobsL (f : Fmt) : List (List Instr) → List Bytes → Prop
  | [], [] => True
  | s :: ss, b :: bs => writeInstrs f s = .ok b ∧ BlobsL f ss bs
  | _, _ => False

theorem BlobsL.length_eq {f : Fmt} : ∀ {ss : List (List Instr)} {bs : List Bytes}, BlobsL f ss bs → ss.length = bs.length := by
  intro ss
  induction ss with
  | nil => intro bs h; cases bs with | nil => rfl | cons b bs => cases h
  | cons s ss ih => intro bs h; cases bs with | nil => cases h | cons b bs => simp [ih h.2]

theorem writeScriptList_spec (f : Fmt) : ∀ (scripts : List (List Instr)) (pos : Nat) (sb : Bytes) (offs : List Nat),
    writeScriptList f pos scripts = .ok (sb, offs) →
    ∃ blobs, BlobsL f scripts blobs ∧ sb = blobs.flatten ∧ offs = offsetsFrom pos (blobs.map List.length) := by
  intro scripts
  induction scripts with
  | nil => intro pos sb offs h; rw [writeScriptList] at h; cases h; exact ⟨[], trivial, rfl, rfl⟩
  | cons s scripts ih =>
    intro pos sb offs h
    rw [writeScriptList] at h
    repeat' split at h
    all_goals first | (cases h; done) | skip
    rename_i b hb _ bs' offs' hrec
    cases h
    obtain ⟨blobs, hbl, rfl, rfl⟩ := ih _ _ _ hrec
    exact ⟨b :: blobs, ⟨hb, hbl⟩, by simp, by simp [offsetsFrom]⟩

theorem readScriptsAt_write (f : Fmt) (hf : f ≠ .msg) : ∀ (scripts : List (List Instr)) (blobs : List Bytes),
    BlobsL f scripts blobs → (∀ s ∈ scripts, ∀ i ∈ s, Stored f i ∧ NotTerminalLooking f i) →
    ∀ (pre tail : Bytes) (acc : List (List Instr)),
    readScriptsAt f (pre ++ (blobs.flatten ++ tail)) (offsetsFrom pre.length (blobs.map List.length)) acc =
      .ok (acc.reverse ++ scripts) := by
  intro scripts
  induction scripts with
  | nil =>
    intro blobs h _ pre tail acc
    cases blobs with
    | nil => simp [offsetsFrom, readScriptsAt]
    | cons b bs => cases h
  | cons s scripts ih =>
    intro blobs h hst pre tail acc
    cases blobs with
    | nil => cases h
    | cons b blobs =>
      obtain ⟨hb, hrest⟩ := h
      have hs := hst s (List.mem_cons_self ..)
      have hread := readInstrs_writeInstrs_append f hf s b (blobs.flatten ++ tail) hb hs
      have hih := ih blobs hrest (fun t ht => hst t (List.mem_cons_of_mem _ ht)) (pre ++ b) tail (s :: acc)
      simp only [List.length_append, List.append_assoc] at hih
      simp only [List.map_cons, offsetsFrom, List.flatten_cons, List.append_assoc, readScriptsAt, drop_prefix, hread, hih,
        List.reverse_cons, List.singleton_append]

theorem blobsL_lengths_pos (f : Fmt) : ∀ (scripts : List (List Instr)) (blobs : List Bytes), BlobsL f scripts blobs →
    ∀ l ∈ blobs.map List.length, 0 < l := by
  intro scripts
  induction scripts with
  | nil => intro blobs h; cases blobs with | nil => intro l hl; cases hl | cons b bs => cases h
  | cons s ss ih =>
    intro blobs h
    cases blobs with
    | nil => cases h
    | cons b bs =>
      intro l hl
      simp only [List.map_cons, List.mem_cons] at hl
      rcases hl with rfl | hl
      · have : 0 < (writeTerminal f).length := by cases f <;> decide
        have hlen : (writeTerminal f).length ≤ b.length := by
          clear ih
          have hb := h.1
          clear h
          induction s generalizing b with
          | nil => rw [writeInstrs] at hb; cases hb; exact Nat.le_refl _
          | cons i is ih2 =>
            obtain ⟨b1, bs', _, hbs', rfl⟩ := writeInstrs_cons_ok hb
            have := ih2 bs' hbs'
            simp only [List.length_append]; omega
        omega
      · exact ih bs h.2 l hl

/-! ## old ECL: the whole file -/

theorem firstZero_append_zeros : ∀ (l : List Nat) (k : Nat), (∀ x ∈ l, x ≠ 0) →
    firstZero (l ++ List.replicate k 0) = l.length ∧ ((l ++ List.replicate k 0).drop l.length).any (· ≠ 0) = false := by
  intro l
  induction l with
  | nil =>
    intro k _
    cases k with
    | zero => simp [firstZero]
    | succ k => simp [firstZero, List.replicate_succ]
  | cons a r ih =>
    intro k h
    have ha := h a (List.mem_cons_self ..)
    obtain ⟨ih1, ih2⟩ := ih k (fun x hx => h x (List.mem_cons_of_mem _ hx))
    simp only [List.cons_append, firstZero, ha, if_false, ih1, List.length_cons, List.drop_succ_cons, true_and]
    exact ih2

theorem resize0_eq (n : Nat) (l : List Nat) (h : l.length ≤ n) : resize0 n l = l ++ List.replicate (n - l.length) 0 := by
  simp [resize0, List.take_of_length_le h]

theorem resize0_length (n : Nat) (l : List Nat) : (resize0 n l).length = n := by
  simp only [resize0, List.length_append, List.length_take, List.length_replicate]
  omega

/-- what the games' formats satisfy: instruction formats with an end marker of their own, a magic
that is a dword, a timeline array with room for one entry -/
structure GoodEclFmt (fmt : EclFmt) : Prop where
  ecl : fmt.ecl ≠ .msg
  tl : fmt.tl ≠ .msg
  magic : ∀ m, fmt.magic = some m → m < 2 ^ 32
  cap : match fmt.kind with | .eosd cap => 1 ≤ cap | .pcb cap => 1 ≤ cap | .pofv => True

theorem goodEclTh06 : GoodEclFmt eclTh06 where
  ecl := by decide
  tl := by decide
  magic := fun m h => by cases h
  cap := by show 1 ≤ 3; decide
theorem goodEclTh07 : GoodEclFmt eclTh07 where
  ecl := by decide
  tl := by decide
  magic := fun m h => by cases h
  cap := by show 1 ≤ 16; decide
theorem goodEclTh08 : GoodEclFmt eclTh08 where
  ecl := by decide
  tl := by decide
  magic := fun m h => by cases h; decide
  cap := by show 1 ≤ 16; decide
theorem goodEclTh09 : GoodEclFmt eclTh09 where
  ecl := by decide
  tl := by decide
  magic := fun m h => by cases h; decide
  cap := trivial

/-- the explicit well-formedness predicate of an old ECL file: no instruction carries a field its
instruction format does not store, and no timeline instruction looks like the TH06 end marker -/
def WfEcl (fmt : EclFmt) (e : EclFile) : Prop :=
  (∀ s ∈ e.subs, ∀ i ∈ s, Stored fmt.ecl i ∧ NotTerminalLooking fmt.ecl i) ∧
  (∀ s ∈ e.timelines, ∀ i ∈ s, Stored fmt.tl i ∧ NotTerminalLooking fmt.tl i)

/-- what `u16::try_from` of the two counts (d14e963) guarantees once the writer got past it -/
theorem eclCountsCheck_ok {kind : TlKind} {e : EclFile} {u : Unit} (h : eclCountsCheck kind e = .ok u) :
    e.subs.length ≤ 65535 ∧ ((∀ cap, kind ≠ .eosd cap) → e.timelines.length ≤ 65535) := by
  unfold eclCountsCheck at h
  split at h
  · cases h
  · refine ⟨by omega, ?_⟩
    intro hk
    split at h
    · rename_i cap; exact absurd rfl (hk cap)
    · split at h
      · cases h
      · omega

theorem eclAfterMagic_write (fmt : EclFmt) (hg : GoodEclFmt fmt) (x : Bytes) :
    eclAfterMagic fmt (eclMagicBytes fmt ++ x) = .ok x := by
  unfold eclAfterMagic eclMagicBytes
  cases hm : fmt.magic with
  | none => rfl
  | some m =>
    have hb := rdBytes_append (u32 m) x
    have : (u32 m).length = 4 := rfl
    rw [this] at hb
    simp only [hb, if_true]

/-- the kind-independent part of the round trip: given what the timeline array looks like -/
theorem readEcl_core (fmt : EclFmt) (hg : GoodEclFmt fmt) (e : EclFile) (high : Nat) (tlTable : List Nat)
    (blobsS blobsT : List Bytes) (hbS : BlobsL fmt.ecl e.subs blobsS) (hbT : BlobsL fmt.tl e.timelines blobsT)
    (hwf : WfEcl fmt e) (hnS : e.subs.length < 65536) (hhigh : high < 65536)
    (hA : eclTlArrayLen fmt.kind high = tlTable.length)
    (base : Nat) (hbase : base = (eclMagicBytes fmt).length + 4 + 4 * (e.subs.length + tlTable.length))
    (htab : ∀ x ∈ tlTable, x < 2 ^ 32)
    (hfz : ((tlTable.drop (firstZero tlTable)).any (· ≠ 0)) = false)
    (hnum : eclNumTimelines fmt.kind (firstZero tlTable) = .ok e.timelines.length)
    (htake : tlTable.take e.timelines.length = offsetsFrom (base + blobsS.flatten.length) (blobsT.map List.length))
    (hlen : base + blobsS.flatten.length + blobsT.flatten.length < 2 ^ 32) :
    readEcl fmt (eclMagicBytes fmt ++ (u16 e.subs.length ++ u16 high) ++ u32s tlTable ++
      u32s (offsetsFrom base (blobsS.map List.length)) ++ blobsS.flatten ++ blobsT.flatten) = .ok e := by
  obtain ⟨hws, hwt⟩ := hwf
  obtain ⟨subOffs, hsubOffs⟩ : ∃ so, so = offsetsFrom base (blobsS.map List.length) := ⟨_, rfl⟩
  have hso_len : subOffs.length = e.subs.length := by
    rw [hsubOffs, offsetsFrom_length, List.length_map, hbS.length_eq]
  have hso_fit : ∀ x ∈ subOffs, x < 2 ^ 32 := by
    intro x hx
    rw [hsubOffs] at hx
    have := offsetsFrom_le _ _ x hx
    rw [← flatten_length_eq_sum] at this
    omega
  obtain ⟨pre, hpre⟩ : ∃ pre, pre = eclMagicBytes fmt ++ (u16 e.subs.length ++ u16 high) ++ u32s tlTable ++ u32s subOffs := ⟨_, rfl⟩
  have hpre_len : pre.length = base := by
    rw [hpre, hbase]
    simp only [List.length_append, u32s_length, hso_len]
    simp [u16]
    omega
  have hfile : eclMagicBytes fmt ++ (u16 e.subs.length ++ u16 high) ++ u32s tlTable ++ u32s subOffs ++ blobsS.flatten ++ blobsT.flatten =
      pre ++ (blobsS.flatten ++ (blobsT.flatten ++ [])) := by
    rw [hpre]; simp only [List.append_assoc, List.append_nil]
  have hfile2 : pre ++ (blobsS.flatten ++ (blobsT.flatten ++ [])) = (pre ++ blobsS.flatten) ++ (blobsT.flatten ++ []) := by
    simp only [List.append_assoc]
  have hsubs := readScriptsAt_write fmt.ecl hg.ecl e.subs blobsS hbS hws pre (blobsT.flatten ++ []) []
  rw [hpre_len, ← hsubOffs] at hsubs
  have htls := readScriptsAt_write fmt.tl hg.tl e.timelines blobsT hbT hwt (pre ++ blobsS.flatten) [] []
  rw [List.length_append, hpre_len, ← htake, ← hfile2] at htls
  have h1 := rdU32s_u32s tlTable (u32s subOffs ++ (blobsS.flatten ++ blobsT.flatten)) htab
  have h2 := rdU32s_u32s subOffs (blobsS.flatten ++ blobsT.flatten) hso_fit
  rw [hso_len] at h2
  rw [← hsubOffs]
  have hmagic := eclAfterMagic_write fmt hg (u16 e.subs.length ++ (u16 high ++ (u32s tlTable ++ (u32s subOffs ++ (blobsS.flatten ++ blobsT.flatten)))))
  have hA' : eclTlArrayLen fmt.kind high = tlTable.length := hA
  simp only [readEcl, List.append_assoc, hmagic, rdU16_u16 _ _ (show e.subs.length < 2 ^ 16 by omega),
    rdU16_u16 _ _ (show high < 2 ^ 16 by omega), hA', h1, h2, hfz, Bool.false_eq_true, if_false, hnum]
  have hre : eclMagicBytes fmt ++ (u16 e.subs.length ++ (u16 high ++ (u32s tlTable ++ (u32s subOffs ++ (blobsS.flatten ++ blobsT.flatten))))) =
      pre ++ (blobsS.flatten ++ (blobsT.flatten ++ [])) := by
    rw [hpre]; simp only [List.append_assoc, List.append_nil]
  rw [hre, hsubs, htls]
  simp

theorem eclCounts_length (kind : TlKind) (e : EclFile) : (eclCounts kind e).length = 4 := by
  cases kind <;> simp [eclCounts, u16]

theorem take_append_left {α} (l r : List α) : (l ++ r).take l.length = l := by simp

/-- **old ECL round trip** (TH06-TH095): a well-formed file that `write_olde_ecl` accepts and that
is smaller than 4 GiB is read back by `read_olde_ecl` as exactly the same subs and timelines.
No hypothesis about the counts any more: since d14e963 a successful write implies that both fit
their 16-bit header fields (`eclCountsCheck_ok`, `ecl_write_ok_counts_fit`). -/
theorem ecl_read_write (fmt : EclFmt) (hg : GoodEclFmt fmt) (e : EclFile) (bs : Bytes)
    (hw : writeEcl fmt e = .ok bs) (hwf : WfEcl fmt e) (hlen : bs.length < 2 ^ 32) :
    readEcl fmt bs = .ok e := by
  unfold writeEcl at hw
  repeat' split at hw
  all_goals first | (cases hw; done) | skip
  rename_i maxTl hmax hmany _ _ hcheck _ sb subOffs hsubs _ tb tlOffs htls
  cases hw
  obtain ⟨hc1', hc2'⟩ := eclCountsCheck_ok hcheck
  have hc1 : e.subs.length < 65536 := by omega
  obtain ⟨blobsS, hbS, rfl, rfl⟩ := writeScriptList_spec _ _ _ _ _ hsubs
  obtain ⟨blobsT, hbT, rfl, rfl⟩ := writeScriptList_spec _ _ _ _ _ htls
  obtain ⟨tlOffs, htlOffs⟩ : ∃ t, t = offsetsFrom (eclBase fmt e + blobsS.flatten.length) (blobsT.map List.length) := ⟨_, rfl⟩
  have htl_len : tlOffs.length = e.timelines.length := by
    rw [htlOffs, offsetsFrom_length, List.length_map, hbT.length_eq]
  have hso_len : (offsetsFrom (eclBase fmt e) (blobsS.map List.length)).length = e.subs.length := by
    rw [offsetsFrom_length, List.length_map, hbS.length_eq]
  -- length of the file
  have hfl : (eclAssemble fmt e blobsS.flatten (offsetsFrom (eclBase fmt e) (blobsS.map List.length)) blobsT.flatten tlOffs).length =
      eclBase fmt e + blobsS.flatten.length + blobsT.flatten.length := by
    simp only [eclAssemble, List.length_append, u32s_length, eclCounts_length, eclTlTable, resize0_length, hso_len]
    simp only [eclBase]
    omega
  rw [← htlOffs] at hlen ⊢
  rw [hfl] at hlen
  have hbase4 : 4 ≤ eclBase fmt e := by simp only [eclBase]; omega
  have htl_ne : ∀ x ∈ tlOffs, x ≠ 0 := by
    intro x hx
    rw [htlOffs] at hx
    have := offsetsFrom_ge _ _ x hx
    omega
  have htl_fit : ∀ x ∈ tlOffs, x < 2 ^ 32 := by
    intro x hx
    rw [htlOffs] at hx
    have := offsetsFrom_le _ _ x hx
    rw [← flatten_length_eq_sum] at this
    omega
  have hcap := hg.cap
  cases hk : fmt.kind with
  | eosd cap =>
    rw [hk] at hcap hmax
    simp only [TlKind.maxTimelines] at hmax
    cases hmax
    simp only [eclTooMany, decide_eq_true_eq, Nat.not_lt] at hmany
    have hres : resize0 cap tlOffs = tlOffs ++ List.replicate (cap - tlOffs.length) 0 := resize0_eq _ _ (by omega)
    obtain ⟨hfz1, hfz2⟩ := firstZero_append_zeros tlOffs (cap - tlOffs.length) htl_ne
    have hcore := readEcl_core fmt hg e 0 (tlOffs ++ List.replicate (cap - tlOffs.length) 0) blobsS blobsT hbS hbT hwf hc1
      (by omega) (by simp [hk, eclTlArrayLen]; omega) (eclBase fmt e)
      (by simp only [eclBase, hk, eclWriteTlArrayLen, List.length_append, List.length_replicate]; omega)
      (by intro x hx; rcases List.mem_append.1 hx with h | h
          · exact htl_fit x h
          · rw [List.eq_of_mem_replicate h]; decide)
      (by rw [hfz1]; exact hfz2)
      (by rw [hfz1, hk, htl_len]; rfl)
      (by rw [← htl_len, take_append_left, htlOffs])
      hlen
    simp only [eclAssemble, eclTlTable, eclCounts, eclWriteTlArrayLen, hk, hres]
    exact hcore
  | pcb cap =>
    rw [hk] at hcap hmax
    simp only [TlKind.maxTimelines] at hmax
    have hcap0 : ¬ cap = 0 := by omega
    rw [if_neg hcap0] at hmax
    cases hmax
    have hc2 : e.timelines.length < 65536 := by
      have := hc2' (by intro c hc; rw [hk] at hc; cases hc); omega
    simp only [eclTooMany, decide_eq_true_eq, Nat.not_lt] at hmany
    have hres : resize0 cap (tlOffs ++ [eclBase fmt e + blobsS.flatten.length + blobsT.flatten.length]) =
        (tlOffs ++ [eclBase fmt e + blobsS.flatten.length + blobsT.flatten.length]) ++ List.replicate (cap - (tlOffs.length + 1)) 0 := by
      have := resize0_eq cap (tlOffs ++ [eclBase fmt e + blobsS.flatten.length + blobsT.flatten.length])
        (by simp only [List.length_append, List.length_cons, List.length_nil]; omega)
      simpa using this
    obtain ⟨hfz1, hfz2⟩ := firstZero_append_zeros (tlOffs ++ [eclBase fmt e + blobsS.flatten.length + blobsT.flatten.length])
      (cap - (tlOffs.length + 1)) (by
        intro x hx
        rcases List.mem_append.1 hx with h | h
        · exact htl_ne x h
        · simp only [List.mem_cons, List.not_mem_nil, or_false] at h; omega)
    have hcore := readEcl_core fmt hg e e.timelines.length
      ((tlOffs ++ [eclBase fmt e + blobsS.flatten.length + blobsT.flatten.length]) ++ List.replicate (cap - (tlOffs.length + 1)) 0)
      blobsS blobsT hbS hbT hwf hc1 hc2
      (by simp [hk, eclTlArrayLen]; omega) (eclBase fmt e)
      (by simp only [eclBase, hk, eclWriteTlArrayLen, List.length_append, List.length_replicate, List.length_cons, List.length_nil]; omega)
      (by intro x hx; rcases List.mem_append.1 hx with h | h
          · rcases List.mem_append.1 h with h | h
            · exact htl_fit x h
            · simp only [List.mem_cons, List.not_mem_nil, or_false] at h; omega
          · rw [List.eq_of_mem_replicate h]; decide)
      (by rw [hfz1]; exact hfz2)
      (by rw [hfz1, hk]; simp [eclNumTimelines, htl_len])
      (by rw [← htl_len, List.append_assoc, take_append_left, htlOffs])
      hlen
    simp only [eclAssemble, eclTlTable, eclCounts, eclWriteTlArrayLen, hk, hres]
    exact hcore
  | pofv =>
    have hc2 : e.timelines.length < 65536 := by
      have := hc2' (by intro c hc; rw [hk] at hc; cases hc); omega
    have hres : resize0 e.timelines.length tlOffs = tlOffs ++ List.replicate 0 0 := by
      have := resize0_eq e.timelines.length tlOffs (by omega)
      rw [this, htl_len]; simp
    obtain ⟨hfz1, hfz2⟩ := firstZero_append_zeros tlOffs 0 htl_ne
    have hcore := readEcl_core fmt hg e e.timelines.length (tlOffs ++ List.replicate 0 0) blobsS blobsT hbS hbT hwf hc1 hc2
      (by simp [hk, eclTlArrayLen, htl_len]) (eclBase fmt e)
      (by simp only [eclBase, hk, eclWriteTlArrayLen, List.length_append, List.length_replicate, htl_len]; omega)
      (by intro x hx; rcases List.mem_append.1 hx with h | h
          · exact htl_fit x h
          · rw [List.eq_of_mem_replicate h]; decide)
      (by rw [hfz1]; exact hfz2)
      (by rw [hfz1, hk, htl_len]; rfl)
      (by rw [← htl_len, take_append_left, htlOffs])
      hlen
    simp only [eclAssemble, eclTlTable, eclCounts, eclWriteTlArrayLen, hk, hres]
    exact hcore

/-! ## old ECL: when the writer fails -/

theorem writeScriptList_decides (f : Fmt) : ∀ (scripts : List (List Instr)) (pos : Nat),
    Decides (writeScriptList f pos scripts) (∀ s ∈ scripts, ∀ i ∈ s, fits f i = true) := by
  intro scripts
  induction scripts with
  | nil => intro pos; exact ⟨fun _ => ⟨_, rfl⟩, fun h => absurd (fun s hs => by cases hs) h⟩
  | cons s scripts ih =>
    intro pos
    rw [writeScriptList]
    have hd := writeInstrs_decides f s
    by_cases h1 : ∀ i ∈ s, fits f i = true
    · obtain ⟨b, hb⟩ := hd.1 h1
      simp only [hb]
      have ih' := ih (pos + b.length)
      constructor
      · intro hall
        obtain ⟨p, hp⟩ := ih'.1 (fun t ht => hall t (List.mem_cons_of_mem _ ht))
        rw [hp]; exact ⟨_, rfl⟩
      · intro hnot
        have : ¬ ∀ t ∈ scripts, ∀ i ∈ t, fits f i = true := by
          intro hall
          apply hnot
          intro t ht
          rcases List.mem_cons.1 ht with rfl | ht
          · exact h1
          · exact hall t ht
        obtain ⟨c, hc⟩ := ih'.2 this
        rw [hc]; exact ⟨_, rfl⟩
    · obtain ⟨c, hc⟩ := hd.2 h1
      simp only [hc]
      exact ⟨fun hall => absurd (hall s (List.mem_cons_self ..)) h1, fun _ => ⟨_, rfl⟩⟩

/-- how many timelines a game's file can hold -/
def tlLimitOk (kind : TlKind) (n : Nat) : Prop :=
  match kind with
  | .eosd _ => n ≤ 1
  | .pcb cap => n ≤ cap - 1
  | .pofv => True

/-- the two counts fit their 16-bit header fields (the timeline count is only stored by TH07 and later) -/
def eclCountsOk (kind : TlKind) (e : EclFile) : Prop :=
  e.subs.length ≤ 65535 ∧ match kind with | .eosd _ => True | _ => e.timelines.length ≤ 65535

theorem eclCountsCheck_decides (kind : TlKind) (e : EclFile) : Decides (eclCountsCheck kind e) (eclCountsOk kind e) := by
  unfold eclCountsCheck eclCountsOk
  by_cases h1 : e.subs.length > 65535
  · rw [if_pos h1]
    exact ⟨fun hg => absurd hg.1 (by omega), fun _ => ⟨_, rfl⟩⟩
  · rw [if_neg h1]
    cases kind with
    | eosd cap => exact ⟨fun _ => ⟨_, rfl⟩, fun hn => absurd ⟨by omega, trivial⟩ hn⟩
    | pcb cap =>
      simp only
      by_cases h2 : e.timelines.length > 65535
      · rw [if_pos h2]; exact ⟨fun hg => absurd hg.2 (by omega), fun _ => ⟨_, rfl⟩⟩
      · rw [if_neg h2]; exact ⟨fun _ => ⟨_, rfl⟩, fun hn => absurd ⟨by omega, by omega⟩ hn⟩
    | pofv =>
      simp only
      by_cases h2 : e.timelines.length > 65535
      · rw [if_pos h2]; exact ⟨fun hg => absurd hg.2 (by omega), fun _ => ⟨_, rfl⟩⟩
      · rw [if_neg h2]; exact ⟨fun _ => ⟨_, rfl⟩, fun hn => absurd ⟨by omega, by omega⟩ hn⟩

/-- everything `write_olde_ecl` has to fit: the number of timelines within the game's limit, both
counts in their 16-bit header fields, every instruction in its header -/
def EclFits (fmt : EclFmt) (e : EclFile) : Prop :=
  tlLimitOk fmt.kind e.timelines.length ∧ eclCountsOk fmt.kind e ∧ (∀ s ∈ e.subs, ∀ i ∈ s, fits fmt.ecl i = true) ∧
  ∀ s ∈ e.timelines, ∀ i ∈ s, fits fmt.tl i = true

/-- **old ECL: the writer fails exactly when there are too many timelines for the game, a count
does not fit its 16-bit field, or an instruction does not fit its header, and never panics** -
the full statement: before d14e963 the counts were narrowed with `as u16` without a check. -/
theorem ecl_write_err_iff (fmt : EclFmt) (hg : GoodEclFmt fmt) (e : EclFile) :
    Decides (writeEcl fmt e) (EclFits fmt e) := by
  have hcap := hg.cap
  unfold writeEcl
  have hmax : ∃ maxTl, fmt.kind.maxTimelines = .ok maxTl ∧ (eclTooMany maxTl e = true ↔ ¬ tlLimitOk fmt.kind e.timelines.length) := by
    cases hk : fmt.kind with
    | eosd cap => exact ⟨some 1, rfl, by simp [eclTooMany, tlLimitOk]⟩
    | pcb cap =>
      rw [hk] at hcap
      have : ¬ cap = 0 := by omega
      exact ⟨some (cap - 1), by simp [TlKind.maxTimelines, this], by simp [eclTooMany, tlLimitOk]⟩
    | pofv => exact ⟨none, rfl, by simp [eclTooMany, tlLimitOk]⟩
  obtain ⟨maxTl, hm, hiff⟩ := hmax
  simp only [hm]
  by_cases h0 : tlLimitOk fmt.kind e.timelines.length
  · have : ¬ eclTooMany maxTl e = true := fun h => (hiff.1 h) h0
    rw [if_neg this]
    have hC := eclCountsCheck_decides fmt.kind e
    by_cases hc : eclCountsOk fmt.kind e
    · obtain ⟨u, hu⟩ := hC.1 hc
      simp only [hu]
      have hS := writeScriptList_decides fmt.ecl e.subs (eclBase fmt e)
      by_cases h1 : ∀ s ∈ e.subs, ∀ i ∈ s, fits fmt.ecl i = true
      · obtain ⟨⟨sb, so⟩, hp⟩ := hS.1 h1
        simp only [hp]
        have hT := writeScriptList_decides fmt.tl e.timelines (eclBase fmt e + sb.length)
        by_cases h2 : ∀ s ∈ e.timelines, ∀ i ∈ s, fits fmt.tl i = true
        · obtain ⟨⟨tb, to⟩, hq⟩ := hT.1 h2
          simp only [hq]
          exact ⟨fun _ => ⟨_, rfl⟩, fun hn => absurd ⟨h0, hc, h1, h2⟩ hn⟩
        · obtain ⟨c, hq⟩ := hT.2 h2
          simp only [hq]
          exact ⟨fun hgd => absurd hgd.2.2.2 h2, fun _ => ⟨_, rfl⟩⟩
      · obtain ⟨c, hp⟩ := hS.2 h1
        simp only [hp]
        exact ⟨fun hgd => absurd hgd.2.2.1 h1, fun _ => ⟨_, rfl⟩⟩
    · obtain ⟨c, hu⟩ := hC.2 hc
      simp only [hu]
      exact ⟨fun hgd => absurd hgd.2.1 hc, fun _ => ⟨_, rfl⟩⟩
  · have : eclTooMany maxTl e = true := hiff.2 h0
    rw [if_pos this]
    exact ⟨fun hgd => absurd hgd.1 h0, fun _ => ⟨_, rfl⟩⟩

/-- **No silent truncation of the counts any more** (d14e963): whatever `write_olde_ecl` accepts has
at most 65535 subs, and at most 65535 timelines where the count is stored (TH06 stores none and
allows one timeline).  Before the repair two files whose sub counts differed by 65536 got the same
count words (65537 subs compiled with exit status 0 and read back as 1). -/
theorem ecl_write_ok_counts_fit (fmt : EclFmt) (hg : GoodEclFmt fmt) (e : EclFile) (bs : Bytes)
    (hw : writeEcl fmt e = .ok bs) : e.subs.length < 65536 ∧ e.timelines.length < 65536 := by
  have hfit := (ecl_write_err_iff fmt hg e)
  have hgood : EclFits fmt e := by
    apply Classical.byContradiction
    intro hn
    obtain ⟨c, hc⟩ := hfit.2 hn
    rw [hc] at hw
    cases hw
  obtain ⟨h0, ⟨h1, h2⟩, _⟩ := hgood
  refine ⟨by omega, ?_⟩
  cases hk : fmt.kind with
  | eosd cap => rw [hk] at h0; simp only [tlLimitOk] at h0; omega
  | pcb cap => rw [hk] at h2; simp only at h2; omega
  | pofv => rw [hk] at h2; simp only at h2; omega

/-- a TH07 file with 65536 subs is refused with "too many subs!" (it used to be written with a count of 0) -/
theorem ecl_write_rejects_65536_subs (subs : List (List Instr)) (h : subs.length = 65536) :
    writeEcl eclTh07 { subs := subs, timelines := [[]] } = .err tooManySubs := by
  simp [writeEcl, eclTh07, TlKind.maxTimelines, eclTooMany, eclCountsCheck, h]

/-! ### non-vacuity: concrete files satisfying the hypotheses of the round trips -/

/-- a TH07 ECL file: two subs, one timeline with an instruction carrying arg0 -/
def eclExample : EclFile :=
  { subs := [[{ time := 10, opcode := 35, mask := 3, difficulty := 15, blob := [1, 0, 0, 0] }], []],
    timelines := [[{ time := -1, opcode := 2, extra := some 7, blob := [4, 0] }]] }

set_option maxRecDepth 100000 in
example : ∃ bs, writeEcl eclTh07 eclExample = .ok bs ∧ readEcl eclTh07 bs = .ok eclExample := by
  refine ⟨_, rfl, ?_⟩
  refine ecl_read_write eclTh07 goodEclTh07 eclExample _ rfl ⟨?_, ?_⟩ (by decide)
  · intro s hs i hi
    simp only [eclExample, List.mem_cons, List.not_mem_nil, or_false] at hs
    rcases hs with rfl | rfl
    · simp only [List.mem_cons, List.not_mem_nil, or_false] at hi; subst hi; exact ⟨rfl, trivial⟩
    · cases hi
  · intro s hs i hi
    simp only [eclExample, List.mem_cons, List.not_mem_nil, or_false] at hs
    subst hs
    simp only [List.mem_cons, List.not_mem_nil, or_false] at hi
    subst hi
    exact ⟨⟨rfl, rfl, 7, rfl⟩, by simp [NotTerminalLooking, eclTh07]⟩

/-- too many timelines for the game is a diagnostic -/
example : writeEcl eclTh06 { subs := [], timelines := [[], []] } = .err tooManyTimelines := by decide

/-- a TH08 STD file: two objects (one with a rect and a strip quad), two instances, one instruction -/
def stdExample : StdFile :=
  { unknown := 5,
    objects := [(40, { layer := 3, pos := ⟨1, 2, 3⟩, size := ⟨4, 5, 6⟩,
                       quads := [.rect 7 ⟨1, 1, 1⟩ ⟨2, 2⟩, .strip 9 ⟨0, 0, 0⟩ ⟨1, 1, 1⟩ 1065353216] }),
                (41, { layer := 0, pos := ⟨0, 0, 0⟩, size := ⟨0, 0, 0⟩, quads := [] })],
    instances := [{ object := 41, unknown := 256, pos := ⟨9, 9, 9⟩ }, { object := 40, unknown := 256, pos := ⟨0, 0, 0⟩ }],
    script := [{ time := 60, opcode := 5, blob := [0, 0, 0, 0, 0, 0, 0, 0, 0, 0, 0, 0] }],
    extra := .th06 [100, 109] [32] [32] [32] [32] [97] [98] [99] [100] }

set_option maxRecDepth 100000 in
example : ∃ bs, writeStd .f06 stdExample = .ok bs ∧ readStd (fun _ => true) .f06 bs = .ok (normStd stdExample) := by
  refine ⟨_, rfl, ?_⟩
  exact std_read_write (fun _ => true) .f06 stdExample _ rfl (by decide) (by decide)

/-- the reader's view: objects named 0 and 1, instances referring to them by index -/
example : (normStd stdExample).instances.map (·.object) = [1, 0] := by decide
example : (normStd stdExample).objects.map (·.1) = [0, 1] := by decide
/-- text that needs all 128 bytes is a diagnostic, not a truncation -/
def stdLongText : StdFile := { unknown := 0, objects := [], instances := [], script := [], extra := .th10 (List.replicate 128 97) }
set_option maxRecDepth 100000 in
example : writeStd .f10 stdLongText = .err strTooLong := by decide
/-- an instance of an object that does not exist is a diagnostic -/
def stdNoObject : StdFile := { unknown := 0, objects := [], instances := [{ object := 1, unknown := 0, pos := ⟨0, 0, 0⟩ }], script := [], extra := .th10 [97] }
example : writeStd .f10 stdNoObject = .err noObjectNamed := by decide

/-- a TH125 mission file with one entry -/
def missionExample : List MissionEntry :=
  [{ stage := 300, scene := 2, player := 1, unknown1 := 7, unknown2 := 8, a := 100000, b := 5,
     furigana := [0, 1, 2, 3, 4, 5], text := [[97, 98], [], [130, 160], [99], [100], [101]] }]

set_option maxRecDepth 100000 in
example : ∃ bs, writeMission .th125 missionExample = .ok bs ∧ bs.length = 432 ∧
    readMission (fun _ => true) .th125 bs = .ok missionExample := by
  refine ⟨_, rfl, by decide, ?_⟩
  exact mission_read_write (fun _ => true) .th125 missionExample _ rfl (by decide) (by decide)

set_option maxRecDepth 100000 in
/-- a line of 64 bytes does not fit with its terminator -/
example : writeMission .th095 [{ stage := 1, scene := 1, a := 0, b := 0, text := [List.replicate 64 97, [], []] }] = .err strTooLong := by
  decide

end TruthModel.C03
