import TruthModel.Props.C16Files
import TruthModel.Model.FilesAnm
/-
C16 for the ANM container — any binary input ends in success or a diagnostic.
For EVERY byte string presented as an ANM file of any version, with or without image data
(`Model/FilesAnm.lean`: `readAnm`):

* `anm_read_panic_only_counter`: the only panic arm the reader can reach is the `u32` script counter
  (`*next_script_index += 1` in `read_entry`); `anm_read_no_panic_partial`: it is not reached by any
  input shorter than 185 363 bytes (`len * len <= 8 * (2^32 - 1)`: every script costs 8 bytes of table
  in an entry and every entry starts at its own offset of the file).  The unconditional statement
  `anm_read_no_panic_full` is kept as a `def`: it needs 2^32 - 1 successfully parsed scripts.
* `anm_read_total`: the result is a file, one of six diagnostics, or that panic; never the internal
  `fuel` diagnostic and never "loop in entries":
  - `anm_entry_chain_terminates`: the fuel handed to the entry loop (input length + 1) always suffices,
    because `next_offset` is unsigned: every entry starts behind the previous one and needs 64 bytes of
    header inside the file;
  - `anm_entry_loop_check_dead`: for the same reason the `entry_positions` check of `read_entry` never fires.
* allocation: `anm_read_alloc_bound_partial` (number of entries, and per entry: path, sprites, scripts,
  each script, texture data, each bounded by the input length).  The linear bound
  `anm_read_alloc_bound_full` does NOT hold: entries may share their texture, script table entries their
  script (`anm_alloc_amplification_texture`, `anm_alloc_amplification_script`: concrete small files;
  `Props/C16AnmAmpl.lean`: `anm_shared_texture_reads` - for every `n`, `k` the file of `n` entries sharing one texture
  of `k` bytes reads as `n` copies of it -, hence `anm_read_alloc_bound_full_false`).
-/
namespace TruthModel.C16
open TruthModel TruthModel.InstrIO TruthModel.Files

/-! ### header fields -/

def fieldWidth (w : Nat) : Nat := if w = 2 then 2 else 4

def widthsSum (ws : List Nat) : Nat := (ws.map fieldWidth).sum

theorem rdField_len {w : Nat} {bs : Bytes} {v : Nat} {r : Bytes} (h : rdField w bs = some (v, r)) :
    bs.length = r.length + fieldWidth w := by
  unfold rdField at h
  unfold fieldWidth
  split at h
  · rename_i hw; rw [if_pos hw]; exact rdU16_len h
  · rename_i hw; rw [if_neg hw]; exact rdU32_len h

theorem rdFields_len : ∀ (ws : List Nat) (bs : Bytes) (vs : List Nat) (r : Bytes),
    rdFields ws bs = some (vs, r) → bs.length = r.length + widthsSum ws ∧ vs.length = ws.length := by
  intro ws
  induction ws with
  | nil => intro bs vs r h; rw [rdFields] at h; cases h; simp [widthsSum]
  | cons w ws ih =>
    intro bs vs r h
    rw [rdFields] at h
    split at h
    · cases h
    · rename_i v r1 h1
      split at h
      · cases h
      · rename_i vs' r2 h2
        cases h
        have := rdField_len h1
        obtain ⟨hl, hv⟩ := ih _ _ _ h2
        simp only [widthsSum, List.map_cons, List.sum_cons, List.length_cons] at *
        omega

theorem readAnmHeader_no_panic (fmt : AnmFmt) (bs : Bytes) : (readAnmHeader fmt bs).isPanic = false := by
  unfold readAnmHeader
  repeat' split
  all_goals rfl

theorem readAnmHeader_err (fmt : AnmFmt) (bs : Bytes) : ErrIn [eofErr] (readAnmHeader fmt bs) := by
  intro c
  unfold readAnmHeader
  repeat' split
  all_goals (intro h; first | (cases h; done) | (injection h with h; subst h; simp))

theorem readAnmHeader_len {fmt : AnmFmt} {bs : Bytes} {h : AnmHeader} {r : Bytes} (hh : readAnmHeader fmt bs = .ok (h, r)) :
    bs.length = r.length + 64 := by
  unfold readAnmHeader at hh
  repeat' split at hh
  all_goals first | (cases hh; done) | skip
  · rename_i v r' hv
    cases hh
    have := (rdFields_len _ _ _ _ hv).1
    have hs : widthsSum anmOldWidths = 64 := by decide
    omega
  · rename_i v r' hv
    cases hh
    have := (rdFields_len _ _ _ _ hv).1
    have hs : widthsSum anmNewWidths = 64 := by decide
    omega

theorem rdScriptTableAux_len : ∀ (n : Nat) (acc : List (Nat × Nat)) (bs : Bytes) (l : List (Nat × Nat)) (r : Bytes),
    rdScriptTableAux n acc bs = some (l, r) → bs.length = r.length + 8 * n ∧ l.length = acc.length + n := by
  intro n
  induction n with
  | zero => intro acc bs l r h; rw [rdScriptTableAux] at h; cases h; simp
  | succ n ih =>
    intro acc bs l r h
    rw [rdScriptTableAux] at h
    split at h
    · cases h
    · rename_i id r1 h1
      split at h
      · cases h
      · rename_i off r2 h2
        have := ih _ _ _ _ h
        have := rdU32_len h1
        have := rdU32_len h2
        simp only [List.length_cons] at *
        omega

/-! ### block-padded strings -/

theorem stripTrailingZeros_length (x : Bytes) : (Abi.stripTrailingZeros x).length ≤ x.length := by
  unfold Abi.stripTrailingZeros
  rw [List.length_reverse]
  have := (List.dropWhile_sublist (fun b : UInt8 => b == 0) (l := x.reverse)).length_le
  rw [List.length_reverse] at this
  exact this

theorem readCStr16Aux_no_panic : ∀ (fuel : Nat) (acc bs : Bytes), (readCStr16Aux fuel acc bs).isPanic = false := by
  intro fuel
  induction fuel with
  | zero => intro _ _; rfl
  | succ n ih =>
    intro acc bs
    rw [readCStr16Aux]
    split
    · rfl
    · split
      · rfl
      · exact ih _ _

/-- with more fuel than input bytes the block loop ends in a string or "unexpected EOF" (never "fuel") -/
theorem readCStr16Aux_err : ∀ (fuel : Nat) (acc bs : Bytes), bs.length < fuel → ErrIn [eofErr] (readCStr16Aux fuel acc bs) := by
  intro fuel
  induction fuel with
  | zero => intro _ bs h; omega
  | succ n ih =>
    intro acc bs hn
    rw [readCStr16Aux]
    split
    · intro c h; injection h with h; subst h; simp
    · rename_i blk r hb
      split
      · intro c h; cases h
      · have := (rdBytes_len hb).1
        exact ih _ _ (by omega)

theorem readCStr16Aux_size : ∀ (fuel : Nat) (acc bs s r : Bytes), readCStr16Aux fuel acc bs = .ok (s, r) →
    s.length ≤ acc.length + bs.length := by
  intro fuel
  induction fuel with
  | zero => intro acc bs s r h; rw [readCStr16Aux] at h; cases h
  | succ n ih =>
    intro acc bs s r h
    rw [readCStr16Aux] at h
    split at h
    · cases h
    · rename_i blk r1 hb
      obtain ⟨hl, hbl⟩ := rdBytes_len hb
      split at h
      · cases h
        have := stripTrailingZeros_length (acc ++ blk)
        simp only [List.length_append] at this
        omega
      · have := ih _ _ _ _ h
        simp only [List.length_append] at this
        omega

theorem readAnmStr_no_panic (decOk : Bytes → Bool) (bs : Bytes) : (readAnmStr decOk bs).isPanic = false := by
  unfold readAnmStr
  split
  · rfl
  · rename_i h; exact absurd h (ne_panic_of (readCStr16Aux_no_panic _ _ _) _)
  · split <;> rfl

theorem readAnmStr_err (decOk : Bytes → Bool) (bs : Bytes) : ErrIn [eofErr, undecodable] (readAnmStr decOk bs) := by
  intro c
  unfold readAnmStr
  split
  · rename_i c' hq
    intro h; injection h with h; subst h
    have := readCStr16Aux_err _ _ _ (Nat.lt_succ_self bs.length) _ hq
    simp only [List.mem_cons, List.not_mem_nil, or_false] at this
    subst this; simp
  · intro h; cases h
  · split
    · intro h; cases h
    · intro h; injection h with h; subst h; simp

theorem readAnmStr_size {decOk : Bytes → Bool} {bs s : Bytes} (h : readAnmStr decOk bs = .ok s) : s.length ≤ bs.length := by
  unfold readAnmStr at h
  split at h
  · cases h
  · cases h
  · rename_i s' r hq
    split at h
    · cases h
      have := readCStr16Aux_size _ _ _ _ _ hq
      simpa using this
    · cases h

/-! ### sprites -/

theorem imInsert_length (k : Nat) (v : Sprite) : ∀ l : List (Nat × Sprite), (imInsert k v l).length ≤ l.length + 1 := by
  intro l
  induction l with
  | nil => simp [imInsert]
  | cons x xs ih =>
    obtain ⟨k', v'⟩ := x
    rw [imInsert]
    split
    · simp
    · simp only [List.length_cons]; omega

theorem readSpritesAux_no_panic (file : Bytes) (pos : Nat) : ∀ (offs : List Nat) (acc : List (Nat × Sprite)),
    (readSpritesAux file pos offs acc).isPanic = false := by
  intro offs
  induction offs with
  | nil => intro _; rfl
  | cons o os ih =>
    intro acc
    rw [readSpritesAux]
    split
    · rfl
    · exact ih _

theorem readSpritesAux_err (file : Bytes) (pos : Nat) : ∀ (offs : List Nat) (acc : List (Nat × Sprite)),
    ErrIn [eofErr] (readSpritesAux file pos offs acc) := by
  intro offs
  induction offs with
  | nil => intro _ c h; cases h
  | cons o os ih =>
    intro acc
    rw [readSpritesAux]
    split
    · intro c h; injection h with h; subst h; simp
    · exact ih _

theorem readSpritesAux_length (file : Bytes) (pos : Nat) : ∀ (offs : List Nat) (acc res : List (Nat × Sprite)),
    readSpritesAux file pos offs acc = .ok res → res.length ≤ acc.length + offs.length := by
  intro offs
  induction offs with
  | nil => intro acc res h; rw [readSpritesAux] at h; cases h; simp
  | cons o os ih =>
    intro acc res h
    rw [readSpritesAux] at h
    split at h
    · cases h
    · rename_i s r hs
      have := ih _ _ h
      have := imInsert_length (spriteKey s) s acc
      simp only [List.length_cons]
      omega

/-! ### scripts -/

def anmCounterSite : String := "src/formats/anm/read_write.rs: attempt to add with overflow"

/-- a panic, if any, is the `u32` script counter -/
def OnlyCounter {α} (o : Outcome α) : Prop := ∀ p, o = .panic p → p = anmCounterSite

theorem onlyCounter_of_no_panic {α} {o : Outcome α} (h : o.isPanic = false) : OnlyCounter o := by
  intro p hp; rw [hp] at h; cases h

/-- the script loop: a panic is the counter and needs `idx + (number of scripts) > u32::MAX` -/
theorem readAnmScriptsAux_panic (f : Fmt) (file : Bytes) (pos : Nat) (allOffs : List Nat) :
    ∀ (tab : List (Nat × Nat)) (idx : Nat) (acc : List (Nat × AnmScript)) (p : String),
      readAnmScriptsAux f file pos allOffs tab idx acc = .panic p → p = anmCounterSite ∧ 4294967295 < idx + tab.length := by
  intro tab
  induction tab with
  | nil => intro idx acc p h; rw [readAnmScriptsAux] at h; cases h
  | cons x xs ih =>
    intro idx acc p h
    obtain ⟨id, off⟩ := x
    rw [readAnmScriptsAux] at h
    split at h
    · rename_i hge
      injection h with h
      subst h
      exact ⟨rfl, by simp only [List.length_cons]; omega⟩
    · split at h
      · cases h
      · rename_i p' hq; exact absurd hq (ne_panic_of (readInstrsEnd_no_panic _ _ _ _) _)
      · obtain ⟨h1, h2⟩ := ih _ _ _ h
        exact ⟨h1, by simp only [List.length_cons]; omega⟩

theorem readAnmScriptsAux_err (f : Fmt) (file : Bytes) (pos : Nat) (allOffs : List Nat) :
    ∀ (tab : List (Nat × Nat)) (idx : Nat) (acc : List (Nat × AnmScript)),
      ErrIn instrReadErrs (readAnmScriptsAux f file pos allOffs tab idx acc) := by
  intro tab
  induction tab with
  | nil => intro idx acc c h; rw [readAnmScriptsAux] at h; cases h
  | cons x xs ih =>
    intro idx acc
    obtain ⟨id, off⟩ := x
    rw [readAnmScriptsAux]
    split
    · intro c h; cases h
    · split
      · rename_i c' hq
        intro c h; injection h with h; subst h
        exact readInstrsEnd_err _ _ _ _ _ hq
      · intro c h; cases h
      · exact ih _ _

theorem readAnmScriptsAux_ok (f : Fmt) (file : Bytes) (pos : Nat) (allOffs : List Nat) :
    ∀ (tab : List (Nat × Nat)) (idx : Nat) (acc res : List (Nat × AnmScript)),
      readAnmScriptsAux f file pos allOffs tab idx acc = .ok res → (∀ s ∈ acc, sizeSum f s.2.instrs ≤ file.length) →
        res.length = acc.length + tab.length ∧ ∀ s ∈ res, sizeSum f s.2.instrs ≤ file.length := by
  intro tab
  induction tab with
  | nil =>
    intro idx acc res h hacc
    rw [readAnmScriptsAux] at h
    cases h
    exact ⟨by simp, fun s hs => hacc s (List.mem_reverse.1 hs)⟩
  | cons x xs ih =>
    intro idx acc res h hacc
    obtain ⟨id, off⟩ := x
    rw [readAnmScriptsAux] at h
    split at h
    · cases h
    · split at h
      · cases h
      · cases h
      · rename_i is hi
        have hq := readInstrsEnd_size_bound _ _ _ _ _ hi
        have hs := seek_length_le file (pos + off)
        obtain ⟨hl, hall⟩ := ih _ _ _ h (by
          intro s' hs'
          rcases List.mem_cons.1 hs' with rfl | hs'
          · simp only; omega
          · exact hacc _ hs')
        exact ⟨by simp only [List.length_cons] at hl ⊢; omega, hall⟩

/-! ### THTX -/

theorem readTexture_no_panic (wi : Bool) (bs : Bytes) : (readTexture wi bs).isPanic = false := by
  unfold readTexture
  repeat' split
  all_goals rfl

theorem readTexture_err (wi : Bool) (bs : Bytes) : ErrIn [eofErr, badMagic] (readTexture wi bs) := by
  intro c
  unfold readTexture
  repeat' split
  all_goals (intro h; first | (cases h; done) | (injection h with h; subst h; simp))

theorem readTexture_size {wi : Bool} {bs : Bytes} {m : TexMeta} {d : Bytes} (h : readTexture wi bs = .ok (m, some d)) :
    d.length + 16 ≤ bs.length := by
  unfold readTexture at h
  repeat' split at h
  all_goals first | (cases h; done) | skip
  rename_i _ blk r1 h1 _ _ vs r2 h2 _ _ d' r3 h3
  cases h
  have := (rdBytes_len h1).1
  have := (rdFields_len _ _ _ _ h2).1
  have := rdBytes_len h3
  have hs : widthsSum [2, 2, 2, 2, 4] = 12 := by decide
  omega


theorem readAnmPath2_no_panic (decOk : Bytes → Bool) (file : Bytes) (pos sec : Nat) :
    (readAnmPath2 decOk file pos sec).isPanic = false := by
  unfold readAnmPath2
  split
  · rfl
  · split
    · rfl
    · rfl
    · rename_i h; exact absurd h (ne_panic_of (readAnmStr_no_panic _ _) _)

theorem readAnmPath2_err (decOk : Bytes → Bool) (file : Bytes) (pos sec : Nat) :
    ErrIn [eofErr, undecodable] (readAnmPath2 decOk file pos sec) := by
  intro c
  unfold readAnmPath2
  split
  · intro h; cases h
  · split
    · intro h; cases h
    · rename_i c' hq; intro h; injection h with h; subst h; exact readAnmStr_err _ _ _ hq
    · intro h; cases h

theorem readAnmPath2_size {decOk : Bytes → Bool} {file : Bytes} {pos sec : Nat} {s : Bytes}
    (h : readAnmPath2 decOk file pos sec = .ok (some s)) : s.length ≤ file.length := by
  unfold readAnmPath2 at h
  split at h
  · cases h
  · split at h
    · rename_i s' hq
      cases h
      have := readAnmStr_size hq
      have := seek_length_le file (pos + sec)
      omega
    · cases h
    · cases h

theorem readAnmTexture_no_panic (wi : Bool) (file : Bytes) (pos thtx : Nat) :
    (readAnmTexture wi file pos thtx).isPanic = false := by
  unfold readAnmTexture
  split
  · rfl
  · split
    · rfl
    · rfl
    · rename_i h; exact absurd h (ne_panic_of (readTexture_no_panic _ _) _)

theorem readAnmTexture_err (wi : Bool) (file : Bytes) (pos thtx : Nat) :
    ErrIn [eofErr, badMagic] (readAnmTexture wi file pos thtx) := by
  intro c
  unfold readAnmTexture
  split
  · intro h; cases h
  · split
    · intro h; cases h
    · rename_i c' hq; intro h; injection h with h; subst h; exact readTexture_err _ _ _ hq
    · intro h; cases h

theorem readAnmTexture_size {wi : Bool} {file : Bytes} {pos thtx : Nat} {m : Option TexMeta} {d : Bytes}
    (h : readAnmTexture wi file pos thtx = .ok (m, some d)) : d.length + 16 ≤ file.length := by
  unfold readAnmTexture at h
  split at h
  · cases h
  · split at h
    · rename_i m' d' hq
      cases h
      have := readTexture_size hq
      have := seek_length_le file (pos + thtx)
      omega
    · cases h
    · cases h

/-! ### one entry -/

def anmReadErrs : List String := [eofErr, badSize, readPastEnd, undecodable, badMagic, anmInconsistent]

local macro "anm_leaf" : tactic =>
  `(tactic| (intro h; first | (cases h; done) | (injection h with h; subst h; simp only [anmReadErrs, List.mem_cons, true_or, or_true]; done)))

theorem mem_anmReadErrs_of_instr {c : String} (h : c ∈ instrReadErrs) : c ∈ anmReadErrs := by
  simp only [instrReadErrs, List.mem_cons, List.not_mem_nil, or_false] at h
  rcases h with rfl | rfl | rfl <;> simp [anmReadErrs]

theorem mem_anmReadErrs_of_str {c : String} (h : c ∈ [eofErr, undecodable]) : c ∈ anmReadErrs := by
  simp only [List.mem_cons, List.not_mem_nil, or_false] at h
  rcases h with rfl | rfl <;> simp [anmReadErrs]

theorem mem_anmReadErrs_of_tex {c : String} (h : c ∈ [eofErr, badMagic]) : c ∈ anmReadErrs := by
  simp only [List.mem_cons, List.not_mem_nil, or_false] at h
  rcases h with rfl | rfl <;> simp [anmReadErrs]

theorem mem_anmReadErrs_of_eof {c : String} (h : c ∈ [eofErr]) : c ∈ anmReadErrs := by
  simp only [List.mem_cons, List.not_mem_nil, or_false] at h
  subst h; simp [anmReadErrs]

/-- the diagnostics of `read_entry` -/
theorem readAnmEntry_err (decOk : Bytes → Bool) (fmt : AnmFmt) (wi : Bool) (file : Bytes) (pos idx : Nat) :
    ErrIn anmReadErrs (readAnmEntry decOk fmt wi file pos idx) := by
  intro c
  unfold readAnmEntry
  repeat' split
  all_goals first
    | anm_leaf
    | (rename_i hq; intro h; injection h with h; subst h; exact mem_anmReadErrs_of_eof (readAnmHeader_err _ _ _ hq))
    | (rename_i hq; intro h; injection h with h; subst h; exact mem_anmReadErrs_of_str (readAnmStr_err _ _ _ hq))
    | (rename_i hq; intro h; injection h with h; subst h; exact mem_anmReadErrs_of_str (readAnmPath2_err _ _ _ _ _ hq))
    | (rename_i hq; intro h; injection h with h; subst h; exact mem_anmReadErrs_of_eof (readSpritesAux_err _ _ _ _ _ hq))
    | (rename_i hq; intro h; injection h with h; subst h; exact mem_anmReadErrs_of_instr (readAnmScriptsAux_err _ _ _ _ _ _ _ _ hq))
    | (rename_i hq; intro h; injection h with h; subst h; exact mem_anmReadErrs_of_tex (readAnmTexture_err _ _ _ _ _ hq))

/-- what a successfully read entry says about the input: its header lies inside the file, and every
part of it is bounded by the file -/
structure EntryBound (f : Fmt) (file : Bytes) (pos : Nat) (e : AnmEntry) : Prop where
  header : pos + 64 ≤ file.length
  path : e.path.length ≤ file.length
  path2 : ∀ p, e.path2 = some p → p.length ≤ file.length
  sprites : 4 * e.sprites.length + 64 ≤ file.length
  scripts : 8 * e.scripts.length + 64 ≤ file.length
  script : ∀ s ∈ e.scripts, sizeSum f s.2.instrs ≤ file.length
  data : ∀ d, e.texData = some d → d.length + 16 ≤ file.length

theorem seek_length (file : Bytes) (off : Nat) : (seek file off).length = file.length - off := by
  simp [seek]

theorem readAnmEntry_ok {decOk : Bytes → Bool} {fmt : AnmFmt} {wi : Bool} {file : Bytes} {pos idx : Nat} {e : AnmEntry} {next : Nat}
    (h : readAnmEntry decOk fmt wi file pos idx = .ok (e, next)) : EntryBound fmt.instr file pos e := by
  unfold readAnmEntry at h
  repeat' split at h
  all_goals first | (cases h; done) | skip
  rename_i hd r hhd _ so r2 hso _ st r3 hst _ path hpath _ path2 hpath2 _ sprites hsprites _ scripts hscripts _ _ tm td htex
  cases h
  have h1 := readAnmHeader_len hhd
  have h2 := rdU32s_len hso
  have h3 := rdScriptTableAux_len _ _ _ _ _ hst
  have hsk := seek_length file pos
  have hp := readAnmStr_size hpath
  have hsk2 := seek_length_le file (pos + hd.nameOffset)
  have hsp := readSpritesAux_length _ _ _ _ _ hsprites
  obtain ⟨hsl, hsall⟩ := readAnmScriptsAux_ok _ _ _ _ _ _ _ _ hscripts (by intro s hs; cases hs)
  simp only [List.length_nil, Nat.zero_add] at *
  refine ⟨by omega, by dsimp only; omega, ?_, by dsimp only; omega, by dsimp only; omega, hsall, ?_⟩
  · intro p hp2
    simp only at hp2
    subst hp2
    exact readAnmPath2_size hpath2
  · intro d hd2
    simp only at hd2
    subst hd2
    exact readAnmTexture_size htex

theorem readAnmEntry_scripts_length {decOk : Bytes → Bool} {fmt : AnmFmt} {wi : Bool} {file : Bytes} {pos idx : Nat} {e : AnmEntry} {next : Nat}
    (h : readAnmEntry decOk fmt wi file pos idx = .ok (e, next)) : 8 * e.scripts.length + 64 ≤ file.length :=
  (readAnmEntry_ok h).scripts

/-- a panic of `read_entry` is the script counter; the entry's header and script table lie inside the
file, so the counter had already reached `u32::MAX` minus an eighth of the file length -/
theorem readAnmEntry_panic {decOk : Bytes → Bool} {fmt : AnmFmt} {wi : Bool} {file : Bytes} {pos idx : Nat} {p : String}
    (h : readAnmEntry decOk fmt wi file pos idx = .panic p) :
    p = anmCounterSite ∧ pos + 64 ≤ file.length ∧ 8 * 4294967295 + 64 < 8 * idx + file.length := by
  unfold readAnmEntry at h
  repeat' split at h
  all_goals first
    | (cases h; done)
    | (rename_i hq; exact absurd hq (ne_panic_of (readAnmHeader_no_panic _ _) _))
    | (rename_i hq; exact absurd hq (ne_panic_of (readAnmStr_no_panic _ _) _))
    | (rename_i hq; exact absurd hq (ne_panic_of (readAnmPath2_no_panic _ _ _ _) _))
    | (rename_i hq; exact absurd hq (ne_panic_of (readSpritesAux_no_panic _ _ _ _) _))
    | (rename_i hq; exact absurd hq (ne_panic_of (readAnmTexture_no_panic _ _ _ _) _))
    | skip
  rename_i hd r hhd _ so r2 hso _ st r3 hst _ path hpath _ path2 hpath2 _ sprites hsprites _ p' hscripts
  injection h with h
  subst h
  obtain ⟨hp, hcount⟩ := readAnmScriptsAux_panic _ _ _ _ _ _ _ _ hscripts
  have h1 := readAnmHeader_len hhd
  have h2 := rdU32s_len hso
  have h3 := rdScriptTableAux_len _ _ _ _ _ hst
  have hsk := seek_length file pos
  simp only [List.length_nil, Nat.zero_add] at *
  exact ⟨hp, by omega, by omega⟩

/-! ### the entry chain -/

/-- a panic of the loop is the script counter, and it needs a long file: with `8 * idx <= pos * len`
(every entry before `pos` started at its own offset and had at most `len / 8` scripts) a panic implies
`8 * (2^32 - 1) < len * len` -/
theorem readAnmLoop_panic (decOk : Bytes → Bool) (fmt : AnmFmt) (wi : Bool) (file : Bytes) :
    ∀ (fuel : Nat) (seen : List Nat) (pos idx : Nat) (acc : List AnmEntry) (p : String),
      readAnmLoop decOk fmt wi file fuel seen pos idx acc = .panic p → 8 * idx ≤ pos * file.length →
        p = anmCounterSite ∧ 8 * 4294967295 < file.length * file.length := by
  intro fuel
  induction fuel with
  | zero => intro seen pos idx acc p h; rw [readAnmLoop] at h; cases h
  | succ n ih =>
    intro seen pos idx acc p h hJ
    rw [readAnmLoop] at h
    split at h
    · cases h
    · split at h
      · cases h
      · rename_i p' hq
        injection h with h
        subst h
        obtain ⟨hp, hpos, hcount⟩ := readAnmEntry_panic hq
        refine ⟨hp, ?_⟩
        have hmul : (pos + 1) * file.length ≤ file.length * file.length := Nat.mul_le_mul_right _ (by omega)
        rw [Nat.add_mul, Nat.one_mul] at hmul
        generalize pos * file.length = A at *
        generalize file.length * file.length = B at *
        omega
      · rename_i e next hq
        split at h
        · cases h
        · rename_i hnext
          have hb := readAnmEntry_ok hq
          refine ih _ _ _ _ _ h ?_
          have hs := hb.scripts
          rw [Nat.add_mul]
          have : file.length ≤ next * file.length := Nat.le_mul_of_pos_left _ (by omega)
          generalize pos * file.length = A at *
          generalize next * file.length = B at *
          omega

/-- the loop never ends in the `fuel` diagnostic nor in "loop in entries": entries start at strictly
increasing offsets and each needs its header inside the file -/
theorem readAnmLoop_err (decOk : Bytes → Bool) (fmt : AnmFmt) (wi : Bool) (file : Bytes) :
    ∀ (fuel : Nat) (seen : List Nat) (pos idx : Nat) (acc : List AnmEntry), 0 < fuel → file.length < fuel + pos → (∀ s ∈ seen, s < pos) →
      ErrIn anmReadErrs (readAnmLoop decOk fmt wi file fuel seen pos idx acc) := by
  intro fuel
  induction fuel with
  | zero => intro _ _ _ _ h; omega
  | succ n ih =>
    intro seen pos idx acc _ hlen hseen
    rw [readAnmLoop]
    split
    · rename_i hc
      simp only [List.contains_eq_mem, decide_eq_true_eq] at hc
      have := hseen _ hc
      omega
    · split
      · rename_i c' hq
        intro c h; injection h with h; subst h
        exact readAnmEntry_err _ _ _ _ _ _ _ hq
      · intro c h; cases h
      · rename_i e next hq
        split
        · intro c h; cases h
        · rename_i hnext
          have hb := (readAnmEntry_ok hq).header
          refine ih _ _ _ _ (by omega) (by omega) ?_
          intro s hs
          rcases List.mem_cons.1 hs with rfl | hs
          · omega
          · have := hseen s hs; omega

/-- entries of the result: as many as headers fit behind each other, each bounded by the file -/
theorem readAnmLoop_ok (decOk : Bytes → Bool) (fmt : AnmFmt) (wi : Bool) (file : Bytes) :
    ∀ (fuel : Nat) (seen : List Nat) (pos idx : Nat) (acc res : List AnmEntry),
      readAnmLoop decOk fmt wi file fuel seen pos idx acc = .ok res → acc.length ≤ pos →
      (∀ e ∈ acc, ∃ q, EntryBound fmt.instr file q e) →
        res.length + 63 ≤ file.length ∧ ∀ e ∈ res, ∃ q, EntryBound fmt.instr file q e := by
  intro fuel
  induction fuel with
  | zero => intro seen pos idx acc res h; rw [readAnmLoop] at h; cases h
  | succ n ih =>
    intro seen pos idx acc res h hacc hall
    rw [readAnmLoop] at h
    split at h
    · cases h
    · split at h
      · cases h
      · cases h
      · rename_i e next hq
        have hb := readAnmEntry_ok hq
        have hall' : ∀ e' ∈ e :: acc, ∃ q, EntryBound fmt.instr file q e' := by
          intro e' he'
          rcases List.mem_cons.1 he' with rfl | he'
          · exact ⟨pos, hb⟩
          · exact hall _ he'
        split at h
        · cases h
          refine ⟨?_, fun e' he' => hall' e' (List.mem_reverse.1 he')⟩
          have := hb.header
          simp only [List.length_reverse, List.length_cons]
          omega
        · rename_i hnext
          exact ih _ _ _ _ _ h (by simp only [List.length_cons]; omega) hall'

/-! ### `strip_unnecessary_sprite_ids` keeps everything but the ids -/

theorem stripSprites_length : ∀ (l : List (Nat × Sprite)) (auto : UInt32), (stripSprites auto l).1.length = l.length := by
  intro l
  induction l with
  | nil => intro _; rfl
  | cons x xs ih => intro auto; obtain ⟨n, s⟩ := x; simp only [stripSprites, List.length_cons, ih]

theorem stripEntries_bound (f : Fmt) (file : Bytes) : ∀ (es : List AnmEntry) (auto : UInt32),
    (∀ e ∈ es, ∃ q, EntryBound f file q e) → ∀ e ∈ stripEntries auto es, ∃ q, EntryBound f file q e := by
  intro es
  induction es with
  | nil => intro _ _ e he; cases he
  | cons x xs ih =>
    intro auto hall e he
    simp only [stripEntries, List.mem_cons] at he
    rcases he with rfl | he
    · obtain ⟨q, hb⟩ := hall x (List.mem_cons_self ..)
      exact ⟨q, { header := hb.header, path := hb.path, path2 := hb.path2,
                  sprites := by simp only [stripSprites_length]; exact hb.sprites,
                  scripts := hb.scripts, script := hb.script, data := hb.data }⟩
    · exact ih _ (fun e' he' => hall e' (List.mem_cons_of_mem _ he')) e he

theorem stripEntries_length : ∀ (es : List AnmEntry) (auto : UInt32), (stripEntries auto es).length = es.length := by
  intro es
  induction es with
  | nil => intro _; rfl
  | cons x xs ih => intro auto; simp only [stripEntries, List.length_cons, ih]

/-! ## the theorems -/

/-- **ANM: the only panic arm `read_anm` can reach is the `u32` script counter** (`*next_script_index += 1`),
for EVERY byte string, every version, with and without image data - and only on an input of at least
185 363 bytes (`8 * (2^32 - 1) < len * len`). -/
theorem anm_read_panic_only_counter (decOk : Bytes → Bool) (fmt : AnmFmt) (wi : Bool) (bs : Bytes) (p : String)
    (h : readAnm decOk fmt wi bs = .panic p) : p = anmCounterSite ∧ 8 * 4294967295 < bs.length * bs.length := by
  unfold readAnm at h
  split at h
  · cases h
  · rename_i p' hq
    injection h with h
    subst h
    exact readAnmLoop_panic decOk fmt wi bs _ _ _ _ _ _ hq (by simp)
  · cases h

/-- the unconditional statement; what is missing: a proof that no file makes the reader parse
2^32 - 1 scripts (each needs 8 bytes of script table in its entry, but entries may overlap) -/
def anm_read_no_panic_full : Prop :=
  ∀ (decOk : Bytes → Bool) (fmt : AnmFmt) (wi : Bool) (bs : Bytes), (readAnm decOk fmt wi bs).isPanic = false

/-- **ANM: no panic for any byte string shorter than 185 363 bytes.** -/
theorem anm_read_no_panic_partial (decOk : Bytes → Bool) (fmt : AnmFmt) (wi : Bool) (bs : Bytes)
    (hlen : bs.length * bs.length ≤ 8 * 4294967295) : (readAnm decOk fmt wi bs).isPanic = false := by
  cases h : readAnm decOk fmt wi bs with
  | ok f => rfl
  | err c => rfl
  | panic p =>
    have := (anm_read_panic_only_counter decOk fmt wi bs p h).2
    omega

theorem anm_read_err (decOk : Bytes → Bool) (fmt : AnmFmt) (wi : Bool) (bs : Bytes) :
    ErrIn anmReadErrs (readAnm decOk fmt wi bs) := by
  intro c h
  unfold readAnm at h
  split at h
  · rename_i c' hq
    injection h with h
    subst h
    exact readAnmLoop_err decOk fmt wi bs _ _ _ _ _ (by omega) (by omega) (by intro s hs; cases hs) _ hq
  · cases h
  · cases h

/-- **ANM: every byte string gives a file, one of six diagnostics, or the counter panic.** -/
theorem anm_read_total (decOk : Bytes → Bool) (fmt : AnmFmt) (wi : Bool) (bs : Bytes) :
    (∃ f, readAnm decOk fmt wi bs = .ok f) ∨ (∃ c ∈ anmReadErrs, readAnm decOk fmt wi bs = .err c) ∨
      (readAnm decOk fmt wi bs = .panic anmCounterSite ∧ 8 * 4294967295 < bs.length * bs.length) := by
  cases h : readAnm decOk fmt wi bs with
  | ok f => exact .inl ⟨f, rfl⟩
  | err c => exact .inr (.inl ⟨c, anm_read_err decOk fmt wi bs c h, rfl⟩)
  | panic p =>
    obtain ⟨hp, hl⟩ := anm_read_panic_only_counter decOk fmt wi bs p h
    subst hp
    exact .inr (.inr ⟨rfl, hl⟩)

/-- **Entry-chain termination**: the fuel of the entry loop (input length + 1) is never exhausted. -/
theorem anm_entry_chain_terminates (decOk : Bytes → Bool) (fmt : AnmFmt) (wi : Bool) (bs : Bytes) :
    readAnm decOk fmt wi bs ≠ .err "fuel" := by
  intro h
  have := anm_read_err decOk fmt wi bs _ h
  revert this
  decide

/-- **The cycle check of `read_entry` is dead code**: "loop in entries" is never reported, because
`next_offset` is an unsigned offset from the current entry - the chain can only move forward. -/
theorem anm_entry_loop_check_dead (decOk : Bytes → Bool) (fmt : AnmFmt) (wi : Bool) (bs : Bytes) :
    readAnm decOk fmt wi bs ≠ .err anmLoop := by
  intro h
  have := anm_read_err decOk fmt wi bs _ h
  revert this
  decide

/-- the linear bound, with the constants the search oracle applies to the heap of the real reader (64 x input + 64 MiB):
FALSE (`anm_read_alloc_bound_full_false` in `Props/C16AnmAmpl.lean`) -/
def anm_read_alloc_bound_full : Prop :=
  ∀ (decOk : Bytes → Bool) (fmt : AnmFmt) (wi : Bool) (bs : Bytes) (f : AnmFile),
    readAnm decOk fmt wi bs = .ok f → anmCost fmt f ≤ 64 * bs.length + 67108864

/-- **ANM: what `read_anm` builds, part by part**: at most `len - 63` entries (every entry has its
64-byte header inside the file, at its own offset), and in every entry the path, the sprite table
(4 bytes per sprite), the script table (8 bytes per script), every single script and the texture data
are bounded by the input length.  The product of these bounds is what an input can make the reader
allocate: see `anm_alloc_amplification_texture` / `_script`. -/
theorem anm_read_alloc_bound_partial (decOk : Bytes → Bool) (fmt : AnmFmt) (wi : Bool) (bs : Bytes) (f : AnmFile)
    (h : readAnm decOk fmt wi bs = .ok f) :
    f.entries.length + 63 ≤ bs.length ∧ ∀ e ∈ f.entries, ∃ q, EntryBound fmt.instr bs q e := by
  unfold readAnm at h
  split at h
  · cases h
  · cases h
  · rename_i es hq
    cases h
    obtain ⟨hl, hall⟩ := readAnmLoop_ok decOk fmt wi bs _ _ _ _ _ _ hq (by simp) (by intro e he; cases he)
    exact ⟨by simp only [stripEntries_length]; exact hl, stripEntries_bound _ _ _ _ hall⟩


/-! ### the product of the bounds is real: entries may share their texture, table entries their script -/

/-- header of entry `i` of `n` TH11+ entries that lie behind each other and share the path block and the THTX
section that follow the last header -/
def sharedTexHeader (n i : Nat) : AnmHeader :=
  { version := 7, numSprites := 0, numScripts := 0, rtWidth := 16, rtHeight := 16, rtFormat := 1, nameOffset := 64 * (n - i),
    secNameOffset := 0, colorkey := 0, offsetX := 0, offsetY := 0, memoryPriority := 0, thtxOffset := 64 * (n - i) + 16,
    hasData := 1, lowResScale := 0, nextOffset := if i + 1 < n then 64 else 0 }

def sharedTexHeaders (n : Nat) : Nat → Bytes
  | 0 => []
  | k + 1 => anmHeaderBytes anmV7 (sharedTexHeader n (n - (k + 1))) ++ sharedTexHeaders n k

/-- `n` entries, one texture of `k` bytes: `64 n + 32 + k` bytes of input -/
def sharedTexAnm (n k : Nat) : Bytes :=
  sharedTexHeaders n n ++ (0x61 :: Abi.zeros 15) ++ writeTexture ⟨7, 1, 1⟩ (List.replicate k 0x55)

def texLens (o : Outcome AnmFile) : List Nat :=
  match o with
  | .ok f => f.entries.map fun e => match e.texData with | some d => d.length | none => 0
  | _ => []

set_option maxRecDepth 16000 in
/-- **Amplification witness (texture)**: the 264-byte file `sharedTexAnm 3 40` stores 40 bytes of image data and
reads as 3 entries with 40 bytes each: every entry materialises the shared THTX section again (`n x k` bytes
from `64 n + 32 + k` bytes of input).  On the implementation: 1500 entries x 150 kB = 246 kB of input,
394 MB allocated. -/
theorem anm_alloc_amplification_texture :
    (sharedTexAnm 3 40).length = 264 ∧ texLens (readAnm (fun _ => true) anmV7 true (sharedTexAnm 3 40)) = [40, 40, 40] := by
  decide

def sharedScriptHeader (n : Nat) : AnmHeader :=
  { version := 7, numSprites := 0, numScripts := n, rtWidth := 16, rtHeight := 16, rtFormat := 1, nameOffset := 64 + 8 * n,
    secNameOffset := 0, colorkey := 0, offsetX := 0, offsetY := 0, memoryPriority := 0, thtxOffset := 0,
    hasData := 0, lowResScale := 0, nextOffset := 0 }

/-- one TH11+ entry whose `n` script table entries all point at one script of `k` instructions -/
def sharedScriptAnm (n k : Nat) : Bytes :=
  anmHeaderBytes anmV7 (sharedScriptHeader n)
    ++ ((List.range n).map fun i => u32 i ++ u32 (64 + 8 * n + 16)).flatten ++ (0x61 :: Abi.zeros 15)
    ++ (List.replicate k (u16 1 ++ u16 8 ++ u16 0 ++ u16 0)).flatten ++ writeTerminal .anm07

def scriptLens (o : Outcome AnmFile) : List Nat :=
  match o with
  | .ok f => (f.entries.map fun e => e.scripts.map fun s => s.2.instrs.length).flatten
  | _ => []

set_option maxRecDepth 16000 in
/-- **Amplification witness (script)**: the 152-byte file `sharedScriptAnm 4 4` stores one script of 4 instructions
and reads as 4 scripts of 4 instructions (`n x k` instructions from `80 + 8 n + 8 k + 8` bytes).  On the
implementation: 4000 table entries x 600 instructions = 37 kB of input, 165 MB allocated. -/
theorem anm_alloc_amplification_script :
    (sharedScriptAnm 4 4).length = 152 ∧ scriptLens (readAnm (fun _ => true) anmV7 true (sharedScriptAnm 4 4)) = [4, 4, 4, 4] := by
  decide

end TruthModel.C16
