import TruthModel.Props.C03Instr
/-
C16 — any binary input ends in success or a diagnostic, never a crash.
Instruction level: for EVERY byte string and every format, `readInstr` and the script loop
`readInstrs` return `.ok` or `.err` (never `.panic`), each parsed instruction consumes at least a
header (so the loop terminates within `bs.length + 1` iterations: the fuel is never exhausted),
and no parsed blob is longer than the input.
(Imports `Props.C03Instr` only for `readInstr_msg_cons`, `commit` and `readInstrsAux_succ`.)
-/
namespace TruthModel.C16
open TruthModel TruthModel.InstrIO

/-! ### every primitive reader consumes a prefix of known length -/

theorem rdU8_spec (bs : Bytes) :
    rdU8 bs = none ∨ ∃ v r, rdU8 bs = some (v, r) ∧ ∃ p : Bytes, p.length = 1 ∧ bs = p ++ r := by
  match bs with
  | [] => exact .inl rfl
  | a :: r => exact .inr ⟨_, _, rfl, [a], rfl, rfl⟩

theorem rdU16_spec (bs : Bytes) :
    rdU16 bs = none ∨ ∃ v r, rdU16 bs = some (v, r) ∧ ∃ p : Bytes, p.length = 2 ∧ bs = p ++ r := by
  match bs with
  | [] | [_] => exact .inl rfl
  | a :: b :: r => exact .inr ⟨_, _, rfl, [a, b], rfl, rfl⟩

theorem rdU32_spec (bs : Bytes) :
    rdU32 bs = none ∨ ∃ v r, rdU32 bs = some (v, r) ∧ ∃ p : Bytes, p.length = 4 ∧ bs = p ++ r := by
  match bs with
  | [] | [_] | [_, _] | [_, _, _] => exact .inl rfl
  | a :: b :: c :: d :: r => exact .inr ⟨_, _, rfl, [a, b, c, d], rfl, rfl⟩

theorem rdI16_spec (bs : Bytes) :
    rdI16 bs = none ∨ ∃ v r, rdI16 bs = some (v, r) ∧ ∃ p : Bytes, p.length = 2 ∧ bs = p ++ r := by
  unfold rdI16
  rcases rdU16_spec bs with h | ⟨v, r, h, hp⟩
  · exact .inl (by rw [h]; rfl)
  · exact .inr ⟨_, _, by rw [h]; rfl, hp⟩

theorem rdI32_spec (bs : Bytes) :
    rdI32 bs = none ∨ ∃ v r, rdI32 bs = some (v, r) ∧ ∃ p : Bytes, p.length = 4 ∧ bs = p ++ r := by
  unfold rdI32
  rcases rdU32_spec bs with h | ⟨v, r, h, hp⟩
  · exact .inl (by rw [h]; rfl)
  · exact .inr ⟨_, _, by rw [h]; rfl, hp⟩

theorem rdBytes_spec (n : Nat) (bs : Bytes) :
    rdBytes n bs = none ∨ ∃ b r, rdBytes n bs = some (b, r) ∧ b.length = n ∧ bs = b ++ r := by
  unfold rdBytes
  split
  · exact .inr ⟨_, _, rfl, by rw [List.length_take]; omega, (List.take_append_drop n bs).symm⟩
  · exact .inl rfl

/-! ### shape of a parsed instruction, format by format -/

/-- the shape of any successfully parsed instruction: a header of the format's size, the blob, the rest -/
def Shape (f : Fmt) (bs : Bytes) (o : Outcome (ReadRes × Bytes)) : Prop :=
  ∀ res rest i, o = .ok (res, rest) → (res = .instr i ∨ res = .maybeTerminal i) →
    ∃ hdr : Bytes, hdr.length = headerSize f ∧ bs = hdr ++ (i.blob ++ rest)

local macro "peel " t:term " => " v:ident r:ident : tactic =>
  `(tactic| (obtain h | ⟨$v:ident, $r:ident, h, p, hp, hbs⟩ := $t <;> simp only [h] <;> (try subst hbs)))

theorem shape_err (f : Fmt) (bs : Bytes) (c : String) : Shape f bs (.err c) := by
  intro _ _ _ h; cases h

theorem fin3 (p1 p2 p3 x : Bytes) : p1 ++ (p2 ++ (p3 ++ x)) = (p1 ++ (p2 ++ p3)) ++ x := by
  simp only [List.append_assoc]
theorem fin4 (p1 p2 p3 p4 x : Bytes) : p1 ++ (p2 ++ (p3 ++ (p4 ++ x))) = (p1 ++ (p2 ++ (p3 ++ p4))) ++ x := by
  simp only [List.append_assoc]
theorem fin6 (p1 p2 p3 p4 p5 p6 x : Bytes) :
    p1 ++ (p2 ++ (p3 ++ (p4 ++ (p5 ++ (p6 ++ x))))) = (p1 ++ (p2 ++ (p3 ++ (p4 ++ (p5 ++ p6))))) ++ x := by
  simp only [List.append_assoc]

theorem shape_terminal (f : Fmt) (bs r : Bytes) : Shape f bs (.ok (.terminal, r)) := by
  intro _ _ _ h hi; cases h; cases hi <;> contradiction

theorem shape_anm07 (bs : Bytes) : Shape .anm07 bs (readInstr .anm07 bs) := by
  simp only [readInstr]
  peel rdU16_spec bs => opcode r
  · exact shape_err _ _ _
  peel rdU16_spec r => size r
  · exact shape_err _ _ _
  split
  · exact shape_terminal _ _ _
  peel rdI16_spec r => time r
  · exact shape_err _ _ _
  peel rdU16_spec r => mask r
  · exact shape_err _ _ _
  split
  · exact shape_err _ _ _
  peel rdBytes_spec (size - 8) r => blob r
  · exact shape_err _ _ _
  intro _ _ _ h hi
  cases h
  rcases hi with hi | hi <;> cases hi
  refine ⟨_, ?_, fin4 _ _ _ _ _⟩
  simp only [List.length_append, headerSize, *]


local macro "leaf " t:term : tactic =>
  `(tactic| (intro _ _ _ h hi; cases h; rcases hi with hi | hi <;> cases hi <;>
      (refine ⟨_, ?_, $t⟩; simp only [List.length_append, headerSize, *])))

theorem shape_msg (bs : Bytes) : Shape .msg bs (readInstr .msg bs) := by
  match bs with
  | [] => intro _ _ _ h hi; cases h; cases hi <;> contradiction
  | [_] => exact shape_err _ _ _
  | a :: b :: bs =>
    rw [C03.readInstr_msg_cons]
    generalize a :: b :: bs = bs
    peel rdI16_spec bs => time r
    · exact shape_err _ _ _
    peel rdU8_spec r => opcode r
    · exact shape_err _ _ _
    peel rdU8_spec r => argsize r
    · exact shape_err _ _ _
    peel rdBytes_spec argsize r => blob r
    · exact shape_err _ _ _
    split
    · leaf fin3 _ _ _ _
    · leaf fin3 _ _ _ _

theorem shape_std06 (bs : Bytes) : Shape .std06 bs (readInstr .std06 bs) := by
  simp only [readInstr]
  peel rdI32_spec bs => time r
  · exact shape_err _ _ _
  peel rdU16_spec r => opcode r
  · exact shape_err _ _ _
  peel rdU16_spec r => argsize r
  · exact shape_err _ _ _
  split
  · exact shape_terminal _ _ _
  split
  · exact shape_err _ _ _
  peel rdBytes_spec 12 r => blob r
  · exact shape_err _ _ _
  leaf fin3 _ _ _ _

theorem shape_std10 (bs : Bytes) : Shape .std10 bs (readInstr .std10 bs) := by
  simp only [readInstr]
  peel rdI32_spec bs => time r
  · exact shape_err _ _ _
  peel rdU16_spec r => opcode r
  · exact shape_err _ _ _
  peel rdU16_spec r => size r
  · exact shape_err _ _ _
  split
  · exact shape_terminal _ _ _
  split
  · exact shape_err _ _ _
  peel rdBytes_spec (size - 8) r => blob r
  · exact shape_err _ _ _
  leaf fin3 _ _ _ _

theorem shape_ecl (f : Fmt) (hf : f = .ecl06 ∨ f = .ecl07) (bs : Bytes) : Shape f bs (readInstr f bs) := by
  rcases hf with rfl | rfl <;>
  · simp only [readInstr]
    peel rdI32_spec bs => time r
    · exact shape_err _ _ _
    peel rdU16_spec r => opcode r
    · exact shape_err _ _ _
    peel rdI16_spec r => size r
    · exact shape_err _ _ _
    peel rdU8_spec r => pad r
    · exact shape_err _ _ _
    peel rdU8_spec r => difficulty r
    · exact shape_err _ _ _
    peel rdU16_spec r => mask r
    · exact shape_err _ _ _
    split
    · exact shape_err _ _ _
    peel rdBytes_spec (size.toNat - 12) r => blob r
    · exact shape_err _ _ _
    split
    · exact shape_terminal _ _ _
    leaf fin6 _ _ _ _ _ _ _

theorem shape_tl06 (bs : Bytes) : Shape .tl06 bs (readInstr .tl06 bs) := by
  simp only [readInstr]
  peel rdI16_spec bs => time r
  · exact shape_err _ _ _
  peel rdI16_spec r => arg0 r
  · exact shape_err _ _ _
  split
  · exact shape_terminal _ _ _
  peel rdU16_spec r => opcode r
  · exact shape_err _ _ _
  peel rdI16_spec r => size r
  · exact shape_err _ _ _
  split
  · exact shape_err _ _ _
  peel rdBytes_spec (size.toNat - 8) r => blob r
  · exact shape_err _ _ _
  leaf fin4 _ _ _ _ _

theorem shape_tl08 (bs : Bytes) : Shape .tl08 bs (readInstr .tl08 bs) := by
  simp only [readInstr]
  peel rdI32_spec bs => time r
  · exact shape_err _ _ _
  peel rdU16_spec r => opcode r
  · exact shape_err _ _ _
  peel rdU8_spec r => size r
  · exact shape_err _ _ _
  peel rdU8_spec r => difficulty r
  · exact shape_err _ _ _
  split
  · exact shape_terminal _ _ _
  split
  · exact shape_err _ _ _
  peel rdBytes_spec (size - 8) r => blob r
  · exact shape_err _ _ _
  leaf fin4 _ _ _ _ _

/-- Every successfully parsed instruction is `header ++ blob ++ rest` with a header of exactly the
format's header size. -/
theorem readInstr_shape (f : Fmt) (bs : Bytes) (res : ReadRes) (rest : Bytes) (i : Instr)
    (h : readInstr f bs = .ok (res, rest)) (hi : res = .instr i ∨ res = .maybeTerminal i) :
    ∃ hdr : Bytes, hdr.length = headerSize f ∧ bs = hdr ++ (i.blob ++ rest) := by
  have : Shape f bs (readInstr f bs) := by
    cases f
    · exact shape_msg bs
    · exact shape_anm07 bs
    · exact shape_std06 bs
    · exact shape_std10 bs
    · exact shape_ecl _ (.inl rfl) bs
    · exact shape_ecl _ (.inr rfl) bs
    · exact shape_tl06 bs
    · exact shape_tl08 bs
  exact this res rest i h hi


/-! ### the theorems of the claim -/

/-- `readInstr` never reaches a panic site, for any format and ANY byte string. -/
theorem readInstr_no_panic (f : Fmt) (bs : Bytes) : (readInstr f bs).isPanic = false := by
  cases f <;> simp only [readInstr] <;> (repeat' split) <;> rfl

/-- the only diagnostics of `readInstr` are "unexpected EOF" and "bad instruction size" -/
theorem readInstr_err (f : Fmt) (bs : Bytes) (c : String) (h : readInstr f bs = .err c) :
    c = eofErr ∨ c = badSize := by
  revert h
  cases f <;> simp only [readInstr] <;> (repeat' split) <;> intro h <;>
    first | (injection h with h; subst h; first | exact .inl rfl | exact .inr rfl) | contradiction

/-- A parsed instruction consumed at least a header, and what remains is a suffix of the input. -/
theorem readInstr_consumes (f : Fmt) (bs : Bytes) (r : ReadRes) (rest : Bytes) (i : Instr)
    (h : readInstr f bs = .ok (r, rest)) (hi : r = .instr i ∨ r = .maybeTerminal i) :
    rest.length + headerSize f ≤ bs.length ∧ rest <:+ bs := by
  obtain ⟨hdr, hl, rfl⟩ := readInstr_shape f bs r rest i h hi
  constructor
  · simp only [List.length_append]; omega
  · exact ⟨hdr ++ i.blob, by simp only [List.append_assoc]⟩

/-- The reader never produces more data than the input holds. -/
theorem readInstr_alloc_bound (f : Fmt) (bs : Bytes) (r : ReadRes) (rest : Bytes) (i : Instr)
    (h : readInstr f bs = .ok (r, rest)) (hi : r = .instr i ∨ r = .maybeTerminal i) :
    i.blob.length ≤ bs.length := by
  obtain ⟨hdr, hl, rfl⟩ := readInstr_shape f bs r rest i h hi
  simp only [List.length_append]; omega

theorem headerSize_pos (f : Fmt) : 0 < headerSize f := by cases f <;> decide

/-- With more fuel than input bytes the script loop never runs out of fuel. -/
theorem readInstrsAux_fuel (f : Fmt) :
    ∀ (n : Nat) (pending : Option Instr) (acc : List Instr) (bs : Bytes), bs.length < n →
      readInstrsAux f n pending acc bs ≠ .err "fuel" := by
  intro n
  induction n with
  | zero => intro _ _ bs h; omega
  | succ n ih =>
    intro pending acc bs hn
    rw [C03.readInstrsAux_succ]
    have hp := headerSize_pos f
    cases h : readInstr f bs with
    | ok p =>
      obtain ⟨res, r⟩ := p
      cases res with
      | instr i =>
        have := (readInstr_consumes f bs _ r i h (.inl rfl)).1
        exact ih _ _ _ (by omega)
      | maybeTerminal i =>
        have := (readInstr_consumes f bs _ r i h (.inr rfl)).1
        exact ih _ _ _ (by omega)
      | terminal => intro h'; cases h'
      | eof => intro h'; cases h'
    | err c =>
      intro h'
      injection h' with h'
      subst h'
      rcases readInstr_err f bs _ h with h' | h' <;> exact absurd h' (by decide)
    | panic s => intro h'; cases h'

theorem readInstrs_fuel_suffices (f : Fmt) (bs : Bytes) : readInstrs f bs ≠ .err "fuel" :=
  readInstrsAux_fuel f _ none [] bs (Nat.lt_succ_self _)

theorem readInstrsAux_no_panic (f : Fmt) :
    ∀ (n : Nat) (pending : Option Instr) (acc : List Instr) (bs : Bytes),
      (readInstrsAux f n pending acc bs).isPanic = false := by
  intro n
  induction n with
  | zero => intro pending acc bs; cases pending <;> rfl
  | succ n ih =>
    intro pending acc bs
    rw [C03.readInstrsAux_succ]
    have hp := readInstr_no_panic f bs
    cases h : readInstr f bs with
    | ok p =>
      obtain ⟨res, r⟩ := p
      cases res with
      | instr i => exact ih _ _ _
      | maybeTerminal i => exact ih _ _ _
      | terminal => rfl
      | eof => rfl
    | err c => rfl
    | panic s => rw [h] at hp; cases hp

/-- The script loop ends in success or a diagnostic, never a crash, for ANY byte string. -/
theorem readInstrs_no_panic (f : Fmt) (bs : Bytes) : (readInstrs f bs).isPanic = false :=
  readInstrsAux_no_panic f _ none [] bs

theorem readInstrsAux_err (f : Fmt) :
    ∀ (n : Nat) (pending : Option Instr) (acc : List Instr) (bs : Bytes) (c : String),
      readInstrsAux f n pending acc bs = .err c → c = eofErr ∨ c = badSize ∨ c = "fuel" := by
  intro n
  induction n with
  | zero =>
    intro pending acc bs c h
    cases pending <;> (rw [readInstrsAux] at h; injection h with h; exact .inr (.inr h.symm))
  | succ n ih =>
    intro pending acc bs c
    rw [C03.readInstrsAux_succ]
    cases h : readInstr f bs with
    | ok p =>
      obtain ⟨res, r⟩ := p
      cases res with
      | instr i => exact ih _ _ _ _
      | maybeTerminal i => exact ih _ _ _ _
      | terminal => intro h'; cases h'
      | eof => intro h'; cases h'
    | err c' =>
      intro h'
      injection h' with h'
      subst h'
      rcases readInstr_err f bs _ h with h' | h'
      · exact .inl h'
      · exact .inr (.inl h')
    | panic s => intro h'; cases h'

/-- Summary: every byte string gives a script or one of the two reader diagnostics. -/
theorem readInstrs_total (f : Fmt) (bs : Bytes) :
    (∃ is, readInstrs f bs = .ok is) ∨ readInstrs f bs = .err eofErr ∨ readInstrs f bs = .err badSize := by
  cases h : readInstrs f bs with
  | ok is => exact .inl ⟨is, rfl⟩
  | err c =>
    rcases readInstrsAux_err f _ _ _ _ _ h with rfl | rfl | rfl
    · exact .inr (.inl rfl)
    · exact .inr (.inr rfl)
    · exact absurd h (readInstrs_fuel_suffices f bs)
  | panic s =>
    have := readInstrs_no_panic f bs
    rw [h] at this
    cases this

end TruthModel.C16
