import TruthModel.Model.Diff
import TruthModel.Model.DiffRaise
/-
C14 — difficulty labels and switches select exactly the stated difficulties.
-/
set_option linter.unusedSimpArgs false
namespace TruthModel.C14
open TruthModel TruthModel.Diff TruthModel.DiffRaise

/-! ### bit-level helpers (no `bv_decide`) -/

theorem getLsbD_setBit (m : Mask) (i : Nat) (on : Bool) (j : Nat) (hj : j < 8) :
    (setBit m i on).getLsbD j = if j = i then on else m.getLsbD j := by
  unfold setBit
  cases on <;> simp [BitVec.getLsbD_or, BitVec.getLsbD_and, BitVec.getLsbD_not, BitVec.getLsbD_shiftLeft, hj]
  all_goals (by_cases h : j = i <;> simp [h] <;> omega)

theorem getLsbD_foldl_setBit (L : List Nat) (on : Bool) (m : Mask) (j : Nat) (hj : j < 8) :
    (L.foldl (fun m i => setBit m i on) m).getLsbD j = if j ∈ L then on else m.getLsbD j := by
  induction L generalizing m with
  | nil => simp
  | cons i L ih =>
    simp only [List.foldl_cons, ih, getLsbD_setBit _ _ _ _ hj, List.mem_cons]
    by_cases h1 : j ∈ L <;> by_cases h2 : j = i <;> simp [h1, h2]

theorem mem_bitsOf (m : Mask) (i : Nat) : i ∈ bitsOf m ↔ i < 8 ∧ m.getLsbD i = true := by
  simp [bitsOf]

theorem mask_ext (a b : Mask) (h : ∀ j, j < 8 → a.getLsbD j = b.getLsbD j) : a = b :=
  BitVec.eq_of_getLsbD_eq (fun i hi => h i hi)


/-! ### label <-> mask -/

/-- The table invariant: every bit has a name, and looking that name up gives the bit back.
(`define_flag` can break it: see `inv_not_preserved`.) -/
structure Inv (d : Defs) : Prop where
  total : ∀ i, i < 8 → ∃ c, d.byFlag i = some c
  back : ∀ i c, i < 8 → d.byFlag i = some c → d.byName c = some i ∧ isFlagChar c = true

theorem flagChar_ne (c : Char) (h : isFlagChar c = true) : c ≠ '-' ∧ c ≠ '+' ∧ c ≠ '*' := by
  refine ⟨?_, ?_, ?_⟩ <;> (intro hc; subst hc; revert h; decide)

/-- `cs` are the by-flag names of the bits `L` -/
inductive Named (d : Defs) : List Nat → List Char → Prop where
  | nil : Named d [] []
  | cons {i c L cs} : d.byFlag i = some c → Named d L cs → Named d (i :: L) (c :: cs)

/-- `names` succeeds on bit lists under the invariant, and yields the by-flag names -/
theorem names_ok (d : Defs) (h : Inv d) (L : List Nat) (hL : ∀ i ∈ L, i < 8) :
    ∃ cs, names d L = .ok cs ∧ Named d L cs := by
  induction L with
  | nil => exact ⟨[], rfl, .nil⟩
  | cons i L ih =>
    obtain ⟨c, hc⟩ := h.total i (hL i (by simp))
    obtain ⟨cs, hcs, hf⟩ := ih (fun j hj => hL j (by simp [hj]))
    exact ⟨c :: cs, by simp [names, hc, hcs], .cons hc hf⟩

/-- parsing a run of flag names sets exactly those bits -/
theorem parseGo_names (d : Defs) (h : Inv d) (L : List Nat) (cs : List Char) (rest : List Char)
    (hL : ∀ i ∈ L, i < 8) (hf : Named d L cs) (out : Mask) (en : Bool) :
    parseGo d (cs ++ rest) out en = parseGo d rest (L.foldl (fun m i => setBit m i en) out) en := by
  induction hf generalizing out with
  | nil => rfl
  | @cons i c L cs hc _ ih =>
    have hb := h.back i c (hL i (by simp)) hc
    have hne := flagChar_ne c hb.2
    simp only [List.cons_append, parseGo, hne.1, hne.2.1, hne.2.2, if_false, hb.2, if_true, hb.1, List.foldl_cons]
    exact ih (fun j hj => hL j (by simp [hj])) _

theorem bitsOf_lt (m : Mask) : ∀ i ∈ bitsOf m, i < 8 := fun i hi => ((mem_bitsOf m i).mp hi).1

theorem ff_get : ∀ j, j < 8 → (0xFF#8 : Mask).getLsbD j = true := by decide

/-- per-bit form of the label/parse arithmetic -/
theorem parsed_bits (m dflt : Mask) (j : Nat) (hj : j < 8) :
    (~~~m &&& dflt).getLsbD j = (!m.getLsbD j && dflt.getLsbD j) ∧
    (m &&& ~~~dflt).getLsbD j = (m.getLsbD j && !dflt.getLsbD j) := by
  simp only [BitVec.getLsbD_and, BitVec.getLsbD_not, hj, decide_true, Bool.true_and, and_self]

/-- **every mask prints as a label that parses back to the same mask**, for all 256 masks and
every flag table satisfying the invariant (any names, any set of default-on bits). -/
theorem label_parse (d : Defs) (h : Inv d) (m : Mask) :
    ∃ s, label d m = .ok s ∧ parse d s = .ok m := by
  obtain ⟨as, has, hfa⟩ := names_ok d h (bitsOf (m &&& diffBits d)) (bitsOf_lt _)
  obtain ⟨bs, hbs, hfb⟩ := names_ok d h (bitsOf (~~~m &&& auxBits d)) (bitsOf_lt _)
  have hpa := fun rest out en => parseGo_names d h _ as rest (bitsOf_lt _) hfa out en
  have hpb := fun out en => parseGo_names d h _ bs [] (bitsOf_lt _) hfb out en
  simp only [List.append_nil] at hpb
  -- facts per bit
  have hstarBits : m &&& diffBits d = diffBits d → ∀ j, j < 8 → d.defaultOn.getLsbD j = false → m.getLsbD j = true := by
    intro hstar j hj hd
    have := congrArg (·.getLsbD j) hstar
    simp only [diffBits, (parsed_bits m d.defaultOn j hj).2, BitVec.getLsbD_not, hj, decide_true, Bool.true_and, hd] at this
    simpa using this
  have hdisBits : ~~~m &&& auxBits d = 0#8 → ∀ j, j < 8 → d.defaultOn.getLsbD j = true → m.getLsbD j = true := by
    intro hdis j hj hd
    have := congrArg (·.getLsbD j) hdis
    simp only [auxBits, (parsed_bits m d.defaultOn j hj).1, hd, BitVec.getLsbD_zero] at this
    simpa using this
  unfold label parse
  simp only [has, hbs]
  by_cases hstar : m &&& diffBits d = diffBits d
  · simp only [hstar, if_true]
    by_cases hdis : ~~~m &&& auxBits d = 0#8
    · refine ⟨['*'], by simp [hdis], ?_⟩
      have : parseGo d ['*'] d.defaultOn true = .ok (0xFF#8) := by simp [parseGo]
      rw [this]
      congr 1
      apply mask_ext
      intro j hj
      rw [ff_get j hj]
      cases hdj : d.defaultOn.getLsbD j
      · exact (hstarBits hstar j hj hdj).symm
      · exact (hdisBits hdis j hj hdj).symm
    · refine ⟨'*' :: '-' :: bs, by simp [hdis], ?_⟩
      have : parseGo d ('*' :: '-' :: bs) d.defaultOn true = parseGo d bs (0xFF#8) false := by simp [parseGo]
      rw [this, hpb]
      simp only [parseGo]
      congr 1
      apply mask_ext
      intro j hj
      rw [getLsbD_foldl_setBit _ _ _ _ hj, ff_get j hj]
      simp only [mem_bitsOf, hj, true_and, auxBits, (parsed_bits m d.defaultOn j hj).1]
      have hs := hstarBits hstar j hj
      generalize m.getLsbD j = mb at *
      generalize d.defaultOn.getLsbD j = db at *
      cases mb <;> cases db <;> simp_all
  · simp only [hstar, if_false]
    by_cases hdis : ~~~m &&& auxBits d = 0#8
    · refine ⟨as, by simp [hdis], ?_⟩
      have := hpa [] d.defaultOn true
      simp only [List.append_nil] at this
      rw [this]
      simp only [parseGo]
      congr 1
      apply mask_ext
      intro j hj
      rw [getLsbD_foldl_setBit _ _ _ _ hj]
      simp only [mem_bitsOf, hj, true_and, diffBits, (parsed_bits m d.defaultOn j hj).2]
      have hs := hdisBits hdis j hj
      generalize m.getLsbD j = mb at *
      generalize d.defaultOn.getLsbD j = db at *
      cases mb <;> cases db <;> simp_all
    · refine ⟨as ++ '-' :: bs, by simp [hdis], ?_⟩
      rw [hpa]
      have : ∀ out, parseGo d ('-' :: bs) out true = parseGo d bs out false := by intro out; simp [parseGo]
      rw [this, hpb]
      simp only [parseGo]
      congr 1
      apply mask_ext
      intro j hj
      rw [getLsbD_foldl_setBit _ _ _ _ hj, getLsbD_foldl_setBit _ _ _ _ hj]
      simp only [mem_bitsOf, hj, true_and, diffBits, auxBits, (parsed_bits m d.defaultOn j hj).1, (parsed_bits m d.defaultOn j hj).2]
      generalize m.getLsbD j = mb at *
      generalize d.defaultOn.getLsbD j = db at *
      cases mb <;> cases db <;> simp


example : label defaultDefs 0x0F#8 = .ok ['0', '1', '2', '3'] := by decide
example : parse defaultDefs ['0', '1', '2', '3'] = .ok 0x0F#8 := by decide

/-! ### which tables satisfy the invariant -/

theorem inv_default : Inv defaultDefs := by
  constructor
  · have : ∀ i, i < 8 → (defaultDefs.byFlag i).isSome = true := by decide
    intro i hi
    exact Option.isSome_iff_exists.mp (this i hi)
  · intro i c hi hc
    have : ∀ i, i < 8 → ∀ c, defaultDefs.byFlag i = some c → defaultDefs.byName c = some i ∧ isFlagChar c = true := by
      intro i hi
      have h8 : i = 0 ∨ i = 1 ∨ i = 2 ∨ i = 3 ∨ i = 4 ∨ i = 5 ∨ i = 6 ∨ i = 7 := by omega
      rcases h8 with h | h | h | h | h | h | h | h <;> subst h <;> intro c hc <;>
        (have : c = _ := (Option.some.inj hc).symm; subst this; decide)
    exact this i hi c hc

/-- `define_flag` keeps the invariant **provided the name is not currently the name of another
bit** (the guard the implementation does not have). -/
theorem defineFlag_inv (d d' : Defs) (name : Char) (index : Nat) (en : Bool) (h : Inv d)
    (guard : ∀ j, j < 8 → j ≠ index → d.byFlag j ≠ some name)
    (hd : defineFlag d name index en = .ok d') : Inv d' := by
  unfold defineFlag at hd
  split at hd
  · simp at hd
  · split at hd
    · simp at hd
    · rename_i hi hn
      simp at hd; subst hd
      simp at hn
      constructor
      · intro i hi8
        by_cases he : i = index
        · exact ⟨name, by simp [he]⟩
        · obtain ⟨c, hc⟩ := h.total i hi8
          exact ⟨c, by simp [he, hc]⟩
      · intro i c hi8 hc
        by_cases he : i = index
        · simp [he] at hc; subst hc; subst he; simp [hn]
        · simp [he] at hc
          have hb := h.back i c hi8 hc
          have hcn : c ≠ name := by intro hcn; subst hcn; exact guard i hi8 he hc
          simp [hcn, hb.1, hb.2]

-- the guard is satisfiable: naming bit 0 `E` on top of the default digit table
example : ∃ d', defineFlag defaultDefs 'E' 0 false = .ok d' ∧ Inv d' := by
  refine ⟨_, rfl, defineFlag_inv defaultDefs _ 'E' 0 false inv_default ?_ rfl⟩
  intro j hj hne
  have h8 : j = 1 ∨ j = 2 ∨ j = 3 ∨ j = 4 ∨ j = 5 ∨ j = 6 ∨ j = 7 := by omega
  rcases h8 with h | h | h | h | h | h | h <;> subst h <;> decide

/-- every accepted `!difficulty_flags` line keeps the invariant: `define_flag_from_mapfile` now
refuses a name that already names another flag, which is exactly the guard of `defineFlag_inv` -/
theorem defineFromMapfile_inv (d d' : Defs) (index : Int) (str : List Char) (h : Inv d)
    (hd : defineFromMapfile d index str = .ok d') : Inv d' := by
  unfold defineFromMapfile at hd
  split at hd
  · simp at hd
  · rename_i hidx
    split at hd
    · rename_i name sign
      split at hd
      · simp at hd
      · split at hd
        · simp at hd
        · split at hd
          · simp at hd
          · split at hd
            · simp at hd
            · rename_i hdup
              refine defineFlag_inv d d' name index.toNat _ h ?_ hd
              intro j hj hne hc
              apply hdup
              unfold namesOtherFlag
              apply List.any_eq_true.mpr
              exact ⟨j, by simp [hj], by simp [hne, hc]⟩
    · simp at hd

/-- tables a user can reach: the built-in digit table, extended by accepted mapfile lines -/
inductive Reachable : Defs → Prop where
  | default : Reachable defaultDefs
  | line {d d' : Defs} (index : Int) (str : List Char) :
      Reachable d → defineFromMapfile d index str = .ok d' → Reachable d'

theorem reachable_inv (d : Defs) (h : Reachable d) : Inv d := by
  induction h with
  | default => exact inv_default
  | line index str _ hd ih => exact defineFromMapfile_inv _ _ index str ih hd

theorem applyLines_reachable (d d' : Defs) (lines : List (Int × List Char)) (h : Reachable d)
    (ha : applyLines d lines = .ok d') : Reachable d' := by
  induction lines generalizing d with
  | nil => simp [applyLines] at ha; subst ha; exact h
  | cons l lines ih =>
    obtain ⟨i, s⟩ := l
    simp only [applyLines] at ha
    split at ha
    · rename_i d1 h1
      exact ih d1 (.line i s h h1) ha
    · simp at ha
    · simp at ha

/-- **label <-> mask round trip, unconditionally**: for every flag table that any sequence of
accepted `!difficulty_flags` lines produces from the built-in table, and for all 256 masks, the
mask prints as a label that parses back to the same mask. -/
theorem label_parse_reachable (d : Defs) (h : Reachable d) (m : Mask) :
    ∃ s, label d m = .ok s ∧ parse d s = .ok m :=
  label_parse d (reachable_inv d h) m

theorem label_parse_mapfile (lines : List (Int × List Char)) (d : Defs)
    (h : applyLines defaultDefs lines = .ok d) (m : Mask) :
    ∃ s, label d m = .ok s ∧ parse d s = .ok m :=
  label_parse_reachable d (applyLines_reachable _ _ lines .default h) m

example : ∃ d, applyLines defaultDefs [(0, ['E', '-']), (5, ['F', '+']), (0, ['X', '-'])] = .ok d ∧
    label d 0b00100001#8 = .ok ['X'] := by
  have key : (match applyLines defaultDefs [(0, ['E', '-']), (5, ['F', '+']), (0, ['X', '-'])] with
      | .ok d => label d 0b00100001#8 | _ => .err "") = .ok ['X'] := by decide
  cases hd : applyLines defaultDefs [(0, ['E', '-']), (5, ['F', '+']), (0, ['X', '-'])] with
  | ok d => rw [hd] at key; exact ⟨d, rfl, key⟩
  | err c => rw [hd] at key; simp at key
  | panic c => rw [hd] at key; simp at key

/-
Former witnesses of finding `diff-flag-name-at-two-indices` (fixed by commit 4145e06): before the
guard existed, the lines `0 E-`, `1 E-` were both accepted, after which mask 0b01 printed as "E",
which parsed to 0b10 (`inv_not_preserved`); likewise `0 1-` against the built-in digit name of
bit 1 (`inv_not_preserved_digit`).  Both inputs are rejected now:
-/
theorem dup_name_rejected :
    (applyLines defaultDefs [(0, ['E', '-']), (1, ['E', '-'])]).isOk = false ∧
    (applyLines defaultDefs [(0, ['1', '-'])]).isOk = false := by decide

/-! ### difficulty switches -/

def covers (r : Nat × Nat) (d : Nat) : Bool := decide (r.1 ≤ d) && decide (d < r.2)

theorem mem_ranges (l : List Nat) (r : Nat × Nat) (h : r ∈ ranges l) : r.1 ∈ l ∧ r.2 ∈ l := by
  induction l with
  | nil => simp [ranges] at h
  | cons a l ih =>
    cases l with
    | nil => simp [ranges] at h
    | cons b rest =>
      simp only [ranges, List.mem_cons] at h
      rcases h with h | h
      · subst h; simp
      · have := ih h
        exact ⟨List.mem_cons_of_mem _ this.1, List.mem_cons_of_mem _ this.2⟩

theorem ranges_lt (l : List Nat) (hs : l.Pairwise (· < ·)) (r : Nat × Nat) (h : r ∈ ranges l) : r.1 < r.2 := by
  induction l with
  | nil => simp [ranges] at h
  | cons a l ih =>
    cases l with
    | nil => simp [ranges] at h
    | cons b rest =>
      simp only [ranges, List.mem_cons] at h
      rcases h with h | h
      · subst h; exact (List.pairwise_cons.mp hs).1 b (by simp)
      · exact ih (List.pairwise_cons.mp hs).2 h

theorem ranges_none (stops : List Nat) (d : Nat) (h : ∀ s ∈ stops, s ≤ d) :
    (ranges stops).filter (covers · d) = [] := by
  apply List.filter_eq_nil_iff.mpr
  intro r hr
  have := h r.2 (mem_ranges _ _ hr).2
  simp [covers]; omega

theorem ranges_below (stops : List Nat) (d : Nat) (h : ∀ s ∈ stops, d < s) :
    (ranges stops).filter (covers · d) = [] := by
  apply List.filter_eq_nil_iff.mpr
  intro r hr
  have := h r.1 (mem_ranges _ _ hr).1
  simp [covers]; omega

/-- in a strictly increasing list of stops, a difficulty between the first stop and some later
stop lies in exactly one of the consecutive ranges, the one starting at the last stop `≤ d` -/
theorem ranges_cover (stops : List Nat) (hs : stops.Pairwise (· < ·)) (d : Nat)
    (h0 : ∀ s0, stops.head? = some s0 → s0 ≤ d) (h1 : ∃ s ∈ stops, d < s) :
    ∃ a b, (ranges stops).filter (covers · d) = [(a, b)] ∧ a ≤ d ∧ d < b ∧ a ∈ stops ∧
      ∀ s ∈ stops, s ≤ d → s ≤ a := by
  induction stops with
  | nil => simp at h1
  | cons a l ih =>
    cases l with
    | nil =>
      obtain ⟨s, hs1, hs2⟩ := h1
      simp at hs1; subst hs1
      have := h0 s rfl
      omega
    | cons b rest =>
      have ha := h0 a rfl
      have hp := List.pairwise_cons.mp hs
      by_cases hdb : d < b
      · refine ⟨a, b, ?_, ha, hdb, by simp, ?_⟩
        · simp only [ranges, List.filter_cons]
          have : covers (a, b) d = true := by simp [covers, ha, hdb]
          rw [this]
          simp only [if_true]
          rw [ranges_below (b :: rest) d]
          intro s hs'
          rcases List.mem_cons.mp hs' with h | h
          · omega
          · have := (List.pairwise_cons.mp hp.2).1 s h; omega
        · intro s hs' hsd
          rcases List.mem_cons.mp hs' with h | h
          · omega
          · rcases List.mem_cons.mp h with h | h
            · omega
            · have := (List.pairwise_cons.mp hp.2).1 s h; omega
      · have hbd : b ≤ d := by omega
        obtain ⟨a', b', hf, h1', h2', h3', h4'⟩ := ih hp.2 (by intro s0 hs0; simp at hs0; omega)
          (by
            obtain ⟨s, hs1, hs2⟩ := h1
            rcases List.mem_cons.mp hs1 with h | h
            · omega
            · exact ⟨s, h, hs2⟩)
        refine ⟨a', b', ?_, h1', h2', List.mem_cons_of_mem _ h3', ?_⟩
        · simp only [ranges, List.filter_cons]
          have : covers (a, b) d = false := by simp [covers]; omega
          rw [this]
          simpa using hf
        · intro s hs' hsd
          rcases List.mem_cons.mp hs' with h | h
          · have := h4' b (by simp) hbd
            have := hp.1 b (by simp)
            omega
          · exact h4' s h hsd

theorem rangeMask_get (a b j : Nat) (hj : j < 8) : (rangeMask a b).getLsbD j = (decide (a ≤ j) && decide (j < b)) := by
  unfold rangeMask
  rw [getLsbD_foldl_setBit _ _ _ _ hj]
  simp only [List.mem_range'_1, BitVec.getLsbD_zero]
  by_cases h1 : a ≤ j <;> by_cases h2 : j < b <;> simp [h1, h2] <;> omega

/-- one emitted copy for a range of difficulties (or none if the label excludes all of them) -/
def mkCopy (defs : Defs) (mask : Mask) (vsOf : Nat → List Int32) (r : Nat × Nat) : Option Copy :=
  if (mask &&& diffBits defs) &&& rangeMask r.1 r.2 = 0#8 then none
  else some ⟨((mask &&& diffBits defs) &&& rangeMask r.1 r.2) ||| (mask &&& auxBits defs), vsOf r.1⟩

theorem expandGo_eq (defs : Defs) (mask : Mask) (args : List Arg) (vsOf : Nat → List Int32) (rs : List (Nat × Nat))
    (h : ∀ r ∈ rs, selArgs r.1 args = .ok (vsOf r.1)) :
    expandGo defs mask args rs = .ok (rs.filterMap (mkCopy defs mask vsOf)) := by
  induction rs with
  | nil => rfl
  | cons r rs ih =>
    obtain ⟨a, b⟩ := r
    have ih' := ih (fun r hr => h r (List.mem_cons_of_mem _ hr))
    have ha := h (a, b) (by simp)
    simp only [expandGo, ih', ha, List.filterMap_cons, mkCopy]
    split <;> simp_all

theorem copy_bit (defs : Defs) (mask : Mask) (vsOf : Nat → List Int32) (r : Nat × Nat) (j : Nat) (hj : j < 8)
    (hdiff : (diffBits defs).getLsbD j = true) :
    (match mkCopy defs mask vsOf r with
      | none => (mask.getLsbD j && covers r j) = false
      | some c => c.mask.getLsbD j = (mask.getLsbD j && covers r j)) := by
  have hdef : defs.defaultOn.getLsbD j = false := by
    simpa [diffBits, BitVec.getLsbD_not, hj] using hdiff
  unfold mkCopy
  by_cases h0 : (mask &&& diffBits defs) &&& rangeMask r.1 r.2 = 0#8
  · simp only [h0, if_true]
    have := congrArg (·.getLsbD j) h0
    simp only [BitVec.getLsbD_and, hdiff, rangeMask_get _ _ _ hj, BitVec.getLsbD_zero, Bool.and_true] at this
    simpa [covers] using this
  · simp only [h0, if_false]
    simp only [BitVec.getLsbD_or, BitVec.getLsbD_and, hdiff, rangeMask_get _ _ _ hj, auxBits, hdef, covers,
      Bool.and_true, Bool.and_false, Bool.or_false]

theorem filter_copies (defs : Defs) (mask : Mask) (vsOf : Nat → List Int32) (rs : List (Nat × Nat)) (j : Nat)
    (hj : j < 8) (hdiff : (diffBits defs).getLsbD j = true) :
    (rs.filterMap (mkCopy defs mask vsOf)).filter (fun c => c.mask.getLsbD j) =
      (rs.filter (fun r => mask.getLsbD j && covers r j)).filterMap (mkCopy defs mask vsOf) := by
  induction rs with
  | nil => rfl
  | cons r rs ih =>
    have hb := copy_bit defs mask vsOf r j hj hdiff
    cases hm : mkCopy defs mask vsOf r with
    | none =>
      rw [hm] at hb
      simp only [List.filterMap_cons, hm, List.filter_cons, hb, ih]
      simp
    | some c =>
      rw [hm] at hb
      simp only [List.filterMap_cons, hm, List.filter_cons, hb]
      split
      · simp [hm, ih]
      · exact ih


/-! flat switches -/

theorem pick_isSome {α} (cs : List (Option α)) (k : Nat) :
    (pick cs k).isSome = (cs.take (k + 1)).any Option.isSome := by
  induction cs generalizing k with
  | nil => simp [pick]
  | cons c cs ih =>
    cases k with
    | zero => simp [pick]
    | succ k =>
      simp only [pick, List.take_succ_cons, List.any_cons, ← ih k]
      cases hp : pick cs k <;> simp

theorem pick_none {α} (cs : List (Option α)) (d : Nat) (h : ∀ i, i ≤ d → (cs[i]?).join = none) : pick cs d = none := by
  induction cs generalizing d with
  | nil => simp [pick]
  | cons c cs ih =>
    have h0 := h 0 (by omega)
    simp at h0
    cases d with
    | zero => simpa [pick] using h0
    | succ d =>
      have := ih d (fun i hi => by simpa using h (i + 1) (by omega))
      simp [pick, this, h0]

/-- holes between `a` and `d` do not change the selected case -/
theorem pick_stable {α} (cs : List (Option α)) (a d : Nat) (had : a ≤ d)
    (h : ∀ i, a < i → i ≤ d → (cs[i]?).join = none) : pick cs d = pick cs a := by
  induction cs generalizing a d with
  | nil => simp [pick]
  | cons c cs ih =>
    cases d with
    | zero => have : a = 0 := by omega
              subst this; rfl
    | succ d =>
      cases a with
      | zero =>
        have := pick_none cs d (fun i hi => by simpa using h (i + 1) (by omega) (by omega))
        simp [pick, this]
      | succ a =>
        have := ih a d (by omega) (fun i h1 h2 => by simpa using h (i + 1) (by omega) (by omega))
        simp [pick, this]

theorem pick_some_of_head {α} (cs : List (Option α)) (v : α) (h : cs.head? = some (some v)) (x : Nat) :
    ∃ w, pick cs x = some w := by
  cases cs with
  | nil => simp at h
  | cons c cs =>
    simp at h; subst h
    cases x with
    | zero => exact ⟨v, rfl⟩
    | succ x => cases hp : pick cs x <;> simp [pick, hp]

/-- cases of a flat switch as arguments -/
def liftCases (cs : List (Option Int32)) : List (Option Arg) := cs.map (Option.map Arg.val)

theorem selList_flat (d : Nat) (cs : List (Option Int32)) (k : Nat) :
    selList d (liftCases cs) k = (match pick cs k with | some v => .ok v | none => .panic easyMsg) := by
  induction cs generalizing k with
  | nil => simp [liftCases, selList, pick]
  | cons c cs ih =>
    cases k with
    | zero => cases c <;> simp [liftCases, selList, selOpt, selArg, pick]
    | succ k =>
      have hany : ((liftCases cs).take (k + 1)).any Option.isSome = (pick cs k).isSome := by
        rw [pick_isSome]
        simp only [liftCases, ← List.map_take, List.any_map]
        congr 1
        funext x; cases x <;> rfl
      have ih' := ih k
      simp only [liftCases, List.map_cons] at ih' ⊢
      simp only [selList]
      simp only [liftCases] at hany
      rw [hany]
      cases hp : pick cs k with
      | some v => simp [pick, hp, ih', hp]
      | none => cases c <;> simp [pick, hp, selOpt, selArg]

/-- a flat switch is selected exactly like `select_diff_switch_case` selects -/
theorem selArg_flat (d : Nat) (cs : List (Option Int32)) : selArg d (.sw (liftCases cs)) = selectCase cs d := by
  simp only [selArg, selectCase, liftCases, List.length_map]
  split
  · have := selList_flat d cs d
    simp only [liftCases] at this
    rw [this]
    cases pick cs d <;> rfl
  · rfl

/-! well-formed arguments, nested switches included -/

mutual
/-- every switch at any depth has exactly `n` cases and its first case is present (the grammar
guarantees the latter, `validate_difficulty` the former) -/
def wfArg (n : Nat) : Arg → Bool
  | .val _ => true
  | .sw cases => cases.length == n && (cases.head?).join.isSome && wfCases n cases
def wfCases (n : Nat) : List (Option Arg) → Bool
  | [] => true
  | none :: rest => wfCases n rest
  | some a :: rest => wfArg n a && wfCases n rest
end

mutual
/-- some switch inside the argument (at any depth) has an explicit case at difficulty `i` -/
def explicitIn : Arg → Nat → Bool
  | .val _, _ => false
  | .sw cases, i => (cases[i]?).join.isSome || explicitInCases cases i
def explicitInCases : List (Option Arg) → Nat → Bool
  | [], _ => false
  | none :: rest, i => explicitInCases rest i
  | some a :: rest, i => explicitIn a i || explicitInCases rest i
end

def isSw : Arg → Bool | .sw _ => true | .val _ => false

theorem head_in_take {α} (cs : List (Option α)) (k : Nat) (h : (cs.head?).join.isSome = true) :
    (cs.take (k + 1)).any Option.isSome = true := by
  cases cs with
  | nil => simp at h
  | cons c cs => cases c <;> simp_all

mutual
/-- selection succeeds on well-formed arguments at every difficulty below the number of cases -/
theorem selArg_ok (n x : Nat) (hx : x < n) : (a : Arg) → wfArg n a = true → ∃ v, selArg x a = .ok v
  | .val v, _ => ⟨v, rfl⟩
  | .sw cases, h => by
    simp only [wfArg, Bool.and_eq_true, beq_iff_eq] at h
    have := selList_ok n x hx cases h.2 x (head_in_take cases x h.1.2)
    simpa [selArg, h.1.1, hx] using this
theorem selList_ok (n x : Nat) (hx : x < n) : (cs : List (Option Arg)) → wfCases n cs = true → (k : Nat) →
    (cs.take (k + 1)).any Option.isSome = true → ∃ v, selList x cs k = .ok v
  | [], _, _, hk => by simp at hk
  | none :: cs, _, 0, hk => by simp at hk
  | some a :: cs, h, 0, _ => by
    simp only [wfCases, Bool.and_eq_true] at h
    simpa [selList, selOpt] using selArg_ok n x hx a h.1
  | none :: cs, h, k + 1, hk => by
    simp only [wfCases] at h
    simp only [List.take_succ_cons, List.any_cons, Option.isSome_none, Bool.false_or] at hk
    simpa [selList, hk] using selList_ok n x hx cs h k hk
  | some a :: cs, h, k + 1, _ => by
    simp only [wfCases, Bool.and_eq_true] at h
    simp only [selList]
    split
    · rename_i hany
      exact selList_ok n x hx cs h.2 k hany
    · simpa [selOpt] using selArg_ok n x hx a h.1
end

/-- the value an argument has on difficulty `x` (total version of `selArg`) -/
def selVal (x : Nat) (a : Arg) : Int32 := match selArg x a with | .ok v => v | _ => 0

theorem selArgs_ok (x : Nat) (args : List Arg) (h : ∀ a ∈ args, ∃ v, selArg x a = .ok v) :
    selArgs x args = .ok (args.map (selVal x)) := by
  induction args with
  | nil => rfl
  | cons a args ih =>
    obtain ⟨v, hv⟩ := h a (by simp)
    have := ih (fun a ha => h a (by simp [ha]))
    simp [selArgs, hv, this, selVal]

theorem any_take_stable {α} (cs : List (Option α)) (ka kj : Nat) (hk : ka ≤ kj)
    (h : ∀ i, ka < i → i ≤ kj → (cs[i]?).join.isSome = false) :
    (cs.take (kj + 1)).any Option.isSome = (cs.take (ka + 1)).any Option.isSome := by
  rw [← pick_isSome, ← pick_isSome, pick_stable cs ka kj hk]
  intro i h1 h2
  have := h i h1 h2
  cases hj : (cs[i]?).join <;> simp_all

theorem any_take_none {α} (cs : List (Option α)) (kj : Nat)
    (h : ∀ i, i ≤ kj → (cs[i]?).join.isSome = false) :
    (cs.take (kj + 1)).any Option.isSome = false := by
  rw [← pick_isSome, pick_none cs kj]
  · rfl
  · intro i hi
    have := h i hi
    cases hj : (cs[i]?).join <;> simp_all

/-- one step of `selList` is stable when the head and the tail are -/
theorem selList_step (a j : Nat) (c : Option Arg) (cs : List (Option Arg))
    (hopt : selOpt j c = selOpt a c)
    (hrec : ∀ ka kj, ka ≤ kj → (∀ i, ka < i → i ≤ kj → (cs[i]?).join.isSome = false) → selList j cs kj = selList a cs ka)
    (ka kj : Nat) (hk : ka ≤ kj) (hnone : ∀ i, ka < i → i ≤ kj → (((c :: cs)[i]?).join).isSome = false) :
    selList j (c :: cs) kj = selList a (c :: cs) ka := by
  cases kj with
  | zero =>
    have : ka = 0 := by omega
    subst this
    simpa [selList] using hopt
  | succ kj =>
    cases ka with
    | zero =>
      have hn : (cs.take (kj + 1)).any Option.isSome = false :=
        any_take_none cs kj (fun i hi => by simpa using hnone (i + 1) (by omega) (by omega))
      simp only [selList, hn]
      simpa using hopt
    | succ ka =>
      have hs : (cs.take (kj + 1)).any Option.isSome = (cs.take (ka + 1)).any Option.isSome :=
        any_take_stable cs ka kj (by omega) (fun i h1 h2 => by simpa using hnone (i + 1) (by omega) (by omega))
      simp only [selList, hs]
      split
      · exact hrec ka kj (by omega) (fun i h1 h2 => by simpa using hnone (i + 1) (by omega) (by omega))
      · exact hopt

mutual
/-- **the value of an argument does not change between two difficulties `a ≤ j` if no switch inside
it (at any depth) has an explicit case in `(a, j]`** -/
theorem selArg_stable (n a j : Nat) (haj : a ≤ j) (hj : j < n) : (arg : Arg) → wfArg n arg = true →
    (∀ i, a < i → i ≤ j → explicitIn arg i = false) → selArg j arg = selArg a arg
  | .val _, _, _ => rfl
  | .sw cases, h, he => by
    simp only [wfArg, Bool.and_eq_true, beq_iff_eq] at h
    have hja : a < cases.length := by omega
    have hjj : j < cases.length := by omega
    simp only [selArg, hja, hjj, if_true]
    refine selList_stable n a j haj hj cases h.2 ?_ a j haj ?_
    · intro i h1 h2
      have := he i h1 h2
      simp only [explicitIn, Bool.or_eq_false_iff] at this
      exact this.2
    · intro i h1 h2
      have := he i h1 h2
      simp only [explicitIn, Bool.or_eq_false_iff] at this
      exact this.1
theorem selList_stable (n a j : Nat) (haj : a ≤ j) (hj : j < n) : (cs : List (Option Arg)) → wfCases n cs = true →
    (∀ i, a < i → i ≤ j → explicitInCases cs i = false) → (ka kj : Nat) → ka ≤ kj →
    (∀ i, ka < i → i ≤ kj → (cs[i]?).join.isSome = false) → selList j cs kj = selList a cs ka
  | [], _, _, _, _, _, _ => by simp [selList]
  | none :: cs, h, he, ka, kj, hk, hnone => by
    simp only [wfCases] at h
    refine selList_step a j none cs rfl ?_ ka kj hk hnone
    intro ka' kj' hk' hn'
    exact selList_stable n a j haj hj cs h (fun i h1 h2 => by simpa [explicitInCases] using he i h1 h2) ka' kj' hk' hn'
  | some x :: cs, h, he, ka, kj, hk, hnone => by
    simp only [wfCases, Bool.and_eq_true] at h
    have he1 : ∀ i, a < i → i ≤ j → explicitIn x i = false := by
      intro i h1 h2
      have := he i h1 h2
      simp only [explicitInCases, Bool.or_eq_false_iff] at this
      exact this.1
    have he2 : ∀ i, a < i → i ≤ j → explicitInCases cs i = false := by
      intro i h1 h2
      have := he i h1 h2
      simp only [explicitInCases, Bool.or_eq_false_iff] at this
      exact this.2
    refine selList_step a j (some x) cs ?_ ?_ ka kj hk hnone
    · simpa [selOpt] using selArg_stable n a j haj hj x h.1 he1
    · intro ka' kj' hk' hn'
      exact selList_stable n a j haj hj cs h.2 he2 ka' kj' hk' hn'
end

mutual
/-- explicit cases only exist below the number of cases -/
theorem explicitIn_lt (n i : Nat) : (a : Arg) → wfArg n a = true → explicitIn a i = true → i < n
  | .val _, _, he => by simp [explicitIn] at he
  | .sw cases, h, he => by
    simp only [wfArg, Bool.and_eq_true, beq_iff_eq] at h
    simp only [explicitIn, Bool.or_eq_true] at he
    rcases he with he | he
    · by_cases hl : i < cases.length
      · omega
      · have : cases[i]? = none := by simp; omega
        simp [this] at he
    · exact explicitInCases_lt n i cases h.2 he
theorem explicitInCases_lt (n i : Nat) : (cs : List (Option Arg)) → wfCases n cs = true → explicitInCases cs i = true → i < n
  | [], _, he => by simp [explicitInCases] at he
  | none :: cs, h, he => by
    simp only [wfCases] at h
    simp only [explicitInCases] at he
    exact explicitInCases_lt n i cs h he
  | some a :: cs, h, he => by
    simp only [wfCases, Bool.and_eq_true] at h
    simp only [explicitInCases, Bool.or_eq_true] at he
    rcases he with he | he
    · exact explicitIn_lt n i a h.1 he
    · exact explicitInCases_lt n i cs h.2 he
end

theorem explicitIn_zero (n : Nat) (a : Arg) (h : wfArg n a = true) (hs : isSw a = true) : explicitIn a 0 = true := by
  cases a with
  | val v => simp [isSw] at hs
  | sw cases =>
    simp only [wfArg, Bool.and_eq_true, beq_iff_eq] at h
    cases cases with
    | nil => simp at h
    | cons c cs => have := h.1.2; simp at this; simp [explicitIn, this]

/-! the explicit difficulties of a statement -/

theorem update_get {α} (m : Meta) (cases : List (Option α)) (i : Nat) (hi : i < 8) :
    (m.update cases).explicit.getLsbD i = (m.explicit.getLsbD i || (cases[i]?).join.isSome) := by
  have key : ∀ k, ((List.range k).foldl (fun e i => if (cases[i]?).join.isSome then setBit e i true else e) m.explicit).getLsbD i
      = (m.explicit.getLsbD i || (decide (i < k) && (cases[i]?).join.isSome)) := by
    intro k
    induction k with
    | zero => simp
    | succ k ih =>
      rw [List.range_succ, List.foldl_append]
      simp only [List.foldl_cons, List.foldl_nil]
      split
      · rename_i hk
        rw [getLsbD_setBit _ _ _ _ hi, ih]
        by_cases hik : i = k
        · subst hik; simp [hk]
        · have : (i < k + 1) = (i < k) := by simp; omega
          simp [hik, this]
      · rename_i hk
        rw [ih]
        by_cases hik : i = k
        · subst hik; simp at hk; simp [hk]
        · have : (i < k + 1) = (i < k) := by simp; omega
          simp [this]
  simp only [Meta.update, key]
  by_cases hl : i < cases.length
  · simp [hl]
  · have : cases[i]? = none := by simp; omega
    simp [this]


mutual
/-- what `update_diff_switch_meta` adds to the meta data -/
theorem metaArg_spec (n : Nat) : (a : Arg) → wfArg n a = true → (m : Meta) →
    m.num ≤ (metaArg m a).num ∧ (m.num ≤ n → (metaArg m a).num ≤ n) ∧ (isSw a = true → n ≤ (metaArg m a).num) ∧
    ∀ i, i < 8 → (metaArg m a).explicit.getLsbD i = (m.explicit.getLsbD i || explicitIn a i)
  | .val _, _, m => by simp [metaArg, explicitIn, isSw]
  | .sw cases, h, m => by
    simp only [wfArg, Bool.and_eq_true, beq_iff_eq] at h
    have hc := metaCases_spec n cases h.2 (m.update cases)
    have hnum : (m.update cases).num = max m.num n := by simp [Meta.update, h.1.1]
    simp only [metaArg]
    refine ⟨by have := hc.1; omega, fun hm => hc.2.1 (by omega), fun _ => by have := hc.1; omega, ?_⟩
    intro i hi
    rw [hc.2.2 i hi, update_get _ _ _ hi]
    simp [explicitIn, Bool.or_assoc]
theorem metaCases_spec (n : Nat) : (cs : List (Option Arg)) → wfCases n cs = true → (m : Meta) →
    m.num ≤ (metaCases m cs).num ∧ (m.num ≤ n → (metaCases m cs).num ≤ n) ∧
    ∀ i, i < 8 → (metaCases m cs).explicit.getLsbD i = (m.explicit.getLsbD i || explicitInCases cs i)
  | [], _, m => by simp [metaCases, explicitInCases]
  | none :: cs, h, m => by
    simp only [wfCases] at h
    simpa [metaCases, explicitInCases] using metaCases_spec n cs h m
  | some a :: cs, h, m => by
    simp only [wfCases, Bool.and_eq_true] at h
    have ha := metaArg_spec n a h.1 m
    have hc := metaCases_spec n cs h.2 (metaArg m a)
    simp only [metaCases]
    refine ⟨by have := ha.1; have := hc.1; omega, fun hm => hc.2.1 (ha.2.1 hm), ?_⟩
    intro i hi
    rw [hc.2.2 i hi, ha.2.2.2 i hi]
    simp [explicitInCases, Bool.or_assoc]
end

def explicitAt (args : List Arg) (i : Nat) : Bool := args.any (explicitIn · i)

theorem metaOf_go (n : Nat) (args : List Arg) (hwf : ∀ a ∈ args, wfArg n a = true) (m0 : Meta) :
    m0.num ≤ (args.foldl metaArg m0).num ∧ (m0.num ≤ n → (args.foldl metaArg m0).num ≤ n) ∧
    (args.any isSw = true → n ≤ (args.foldl metaArg m0).num) ∧
    ∀ i, i < 8 → (args.foldl metaArg m0).explicit.getLsbD i = (m0.explicit.getLsbD i || explicitAt args i) := by
  induction args generalizing m0 with
  | nil => simp [explicitAt]
  | cons a args ih =>
    have ha := metaArg_spec n a (hwf a (by simp)) m0
    have hr := ih (fun a ha => hwf a (by simp [ha])) (metaArg m0 a)
    simp only [List.foldl_cons]
    refine ⟨by have := ha.1; have := hr.1; omega, fun hm => hr.2.1 (ha.2.1 hm), ?_, ?_⟩
    · intro hany
      simp only [List.any_cons, Bool.or_eq_true] at hany
      rcases hany with h | h
      · have := ha.2.2.1 h; have := hr.1; omega
      · exact hr.2.2.1 h
    · intro i hi
      rw [hr.2.2.2 i hi, ha.2.2.2 i hi]
      simp [explicitAt, Bool.or_assoc]

/-- **exactly one copy per permitted difficulty, carrying that difficulty's case values —
nested switches included.**

For every flag table, every statement mask, every argument list made of plain values and
switches nested to any depth, all of the same length `n` (2..8, any hole pattern, first cases
present), and every bit `j` that is a difficulty bit (not default-on): if `j < n` and the
statement's mask has bit `j`, then exactly one emitted copy has bit `j` and its arguments are the
per-difficulty selection `select_diff_for_lower_arg(arg, j)` of every argument (which is what the
VM evaluates on difficulty `j`); otherwise no copy has bit `j` (so copies are pairwise disjoint on
difficulty bits and never gain a difficulty the label excluded).  Every copy carries the
statement's default-on (aux) bits unchanged. -/
theorem expand_exactly_one (defs : Defs) (mask : Mask) (args : List Arg) (n : Nat) (hn : 2 ≤ n) (hn8 : n ≤ 8)
    (hwf : ∀ a ∈ args, wfArg n a = true) (hsw : args.any isSw = true)
    (j : Nat) (hj : j < 8) (hdiff : (diffBits defs).getLsbD j = true) :
    ∃ copies, expandCore defs mask args = .ok copies ∧
      (if j < n ∧ mask.getLsbD j = true then
          ∃ c vs, copies.filter (fun c => c.mask.getLsbD j) = [c] ∧ selArgs j args = .ok vs ∧ c.args = vs
        else copies.filter (fun c => c.mask.getLsbD j) = []) ∧
      ∀ c ∈ copies, c.mask &&& auxBits defs = mask &&& auxBits defs := by
  -- the meta data
  obtain ⟨_, hle, hge, hexp⟩ := metaOf_go n args hwf { num := 0, explicit := 0#8 }
  have hnum' : (metaOf args).num = n := by
    have h1 := hle (by simp)
    have h2 := hge hsw
    unfold metaOf; omega
  have hexp' : ∀ i, i < 8 → (metaOf args).explicit.getLsbD i = explicitAt args i := by
    intro i hi
    have := hexp i hi
    simpa [metaOf] using this
  -- a switch exists; its first case is explicit
  obtain ⟨a0, ha0, hsw0⟩ := List.any_eq_true.mp hsw
  have hE0 : explicitAt args 0 = true :=
    List.any_eq_true.mpr ⟨a0, ha0, explicitIn_zero n a0 (hwf a0 ha0) hsw0⟩
  have hElt : ∀ i, explicitAt args i = true → i < n := by
    intro i hi
    obtain ⟨a, ha, hsa⟩ := List.any_eq_true.mp hi
    exact explicitIn_lt n i a (hwf a ha) hsa
  have hEfalse : ∀ i, explicitAt args i = false → ∀ a ∈ args, explicitIn a i = false := by
    intro i hi a ha
    simpa using List.any_eq_false.mp hi a ha
  -- the stops
  let stops := bitsOf (metaOf args).explicit ++ [n]
  have hmemE : ∀ s, s ∈ bitsOf (metaOf args).explicit ↔ s < 8 ∧ explicitAt args s = true := by
    intro s; rw [mem_bitsOf]
    constructor
    · intro h; exact ⟨h.1, by rw [← hexp' s h.1]; exact h.2⟩
    · intro h; exact ⟨h.1, by rw [hexp' s h.1]; exact h.2⟩
  have hsorted : stops.Pairwise (· < ·) := by
    apply List.pairwise_append.mpr
    refine ⟨?_, by simp, ?_⟩
    · unfold bitsOf
      exact List.Pairwise.filter _ (by decide)
    · intro s hs t ht
      simp at ht; subst ht
      exact hElt s ((hmemE s).mp hs).2
  have hhead : ∀ s0, stops.head? = some s0 → s0 = 0 := by
    intro s0 hs0
    have h0mem : (metaOf args).explicit.getLsbD 0 = true := by rw [hexp' 0 (by omega)]; exact hE0
    have : bitsOf (metaOf args).explicit = 0 :: (List.range' 1 7).filter (fun i => (metaOf args).explicit.getLsbD i) := by
      unfold bitsOf
      have : List.range 8 = 0 :: List.range' 1 7 := by decide
      rw [this, List.filter_cons, h0mem]; rfl
    simp only [stops, this] at hs0
    simpa using hs0.symm
  have hstopsN : ∀ s ∈ stops, s ≤ n := by
    intro s hs
    rcases List.mem_append.mp hs with h | h
    · exact Nat.le_of_lt (hElt s ((hmemE s).mp h).2)
    · simp at h; omega
  -- every range starts below n: selection succeeds
  have hsel : ∀ x, x < n → selArgs x args = .ok (args.map (selVal x)) :=
    fun x hx => selArgs_ok x args (fun a ha => selArg_ok n x hx a (hwf a ha))
  have hranges : ∀ r ∈ ranges stops, selArgs r.1 args = .ok (args.map (selVal r.1)) := by
    intro r hr
    have h1 := ranges_lt stops hsorted r hr
    have h2 := hstopsN r.2 (mem_ranges _ _ hr).2
    exact hsel r.1 (by omega)
  have hgo := expandGo_eq defs mask args (fun x => args.map (selVal x)) (ranges stops) hranges
  have hcore : expandCore defs mask args = .ok ((ranges stops).filterMap (mkCopy defs mask (fun x => args.map (selVal x)))) := by
    unfold expandCore
    simp only [hnum']
    have : ¬ n < 2 := by omega
    simp only [this, if_false, Meta.caseRanges, hnum']
    exact hgo
  refine ⟨_, hcore, ?_, ?_⟩
  · rw [filter_copies defs mask _ _ j hj hdiff]
    split
    · rename_i hcond
      obtain ⟨hjn, hmj⟩ := hcond
      obtain ⟨a, b, hf, ha, hb, hamem, hlast⟩ := ranges_cover stops hsorted j
        (fun s0 hs0 => by have := hhead s0 hs0; omega) ⟨n, by simp [stops], hjn⟩
      have hfilter : (ranges stops).filter (fun r => mask.getLsbD j && covers r j) = [(a, b)] := by
        simp only [hmj, Bool.true_and]; exact hf
      rw [hfilter]
      -- the copy exists (its mask has bit j)
      have hb2 := copy_bit defs mask (fun x => args.map (selVal x)) (a, b) j hj hdiff
      have hcov : covers (a, b) j = true := by simp [covers, ha, hb]
      cases hm : mkCopy defs mask (fun x => args.map (selVal x)) (a, b) with
      | none => rw [hm] at hb2; simp [hmj, hcov] at hb2
      | some c =>
        refine ⟨c, args.map (selVal j), by simp [hm], hsel j hjn, ?_⟩
        have hc : c.args = args.map (selVal a) := by
          unfold mkCopy at hm
          split at hm
          · simp at hm
          · simp at hm; rw [← hm]
        rw [hc]
        -- no explicit case of any switch strictly between a and j
        have hnoexp : ∀ i, a < i → i ≤ j → explicitAt args i = false := by
          intro i h1 h2
          cases he : explicitAt args i with
          | false => rfl
          | true =>
            have : i ∈ stops := List.mem_append_left _ ((hmemE i).mpr ⟨by omega, he⟩)
            have := hlast i this h2
            omega
        apply List.map_congr_left
        intro arg harg
        unfold selVal
        rw [selArg_stable n a j ha hjn arg (hwf arg harg) (fun i h1 h2 => hEfalse i (hnoexp i h1 h2) arg harg)]
    · rename_i hcond
      have : (ranges stops).filter (fun r => mask.getLsbD j && covers r j) = [] := by
        by_cases hmj : mask.getLsbD j = true
        · have hjn : ¬ j < n := fun h => hcond ⟨h, hmj⟩
          simp only [hmj, Bool.true_and]
          exact ranges_none stops j (fun s hs => by have := hstopsN s hs; omega)
        · simp [hmj]
      rw [this]; rfl
  · intro c hc
    obtain ⟨r, _, hr⟩ := List.mem_filterMap.mp hc
    unfold mkCopy at hr
    split at hr
    · simp at hr
    · simp at hr; rw [← hr]
      apply mask_ext
      intro i hi
      simp only [BitVec.getLsbD_and, BitVec.getLsbD_or, diffBits, auxBits, BitVec.getLsbD_not, hi, decide_true, Bool.true_and]
      cases mask.getLsbD i <;> cases defs.defaultOn.getLsbD i <;> simp

mutual
theorem switchLens_wf (n : Nat) : (a : Arg) → wfArg n a = true → ∀ x ∈ switchLens a, x = n
  | .val _, _ => by simp [switchLens]
  | .sw cases, h => by
    simp only [wfArg, Bool.and_eq_true, beq_iff_eq] at h
    intro x hx
    simp only [switchLens, List.mem_append, List.mem_singleton] at hx
    rcases hx with hx | hx
    · exact switchLensList_wf n cases h.2 x hx
    · omega
theorem switchLensList_wf (n : Nat) : (cs : List (Option Arg)) → wfCases n cs = true → ∀ x ∈ switchLensList cs, x = n
  | [], _ => by simp [switchLensList]
  | none :: cs, h => by
    simp only [wfCases] at h
    simpa [switchLensList] using switchLensList_wf n cs h
  | some a :: cs, h => by
    simp only [wfCases, Bool.and_eq_true] at h
    intro x hx
    simp only [switchLensList, List.mem_append] at hx
    rcases hx with hx | hx
    · exact switchLens_wf n a h.1 x hx
    · exact switchLensList_wf n cs h.2 x hx
end

/-- well-formed statements pass the length check of `validate_difficulty` -/
theorem checkLens_ok (args : List Arg) (n : Nat) (hn8 : n ≤ 8) (hwf : ∀ a ∈ args, wfArg n a = true) :
    ∃ r, checkLens args = .ok r := by
  have hall : ∀ x ∈ args.flatMap switchLens, x = n := by
    intro x hx
    obtain ⟨a, ha, hxa⟩ := List.mem_flatMap.mp hx
    exact switchLens_wf n a (hwf a ha) x hxa
  unfold checkLens
  cases hl : args.flatMap switchLens with
  | nil => exact ⟨none, rfl⟩
  | cons x rest =>
    rw [hl] at hall
    have hx : x = n := hall x (by simp)
    have hrest : rest.any (· != x) = false := by
      apply List.any_eq_false.mpr
      intro y hy
      have := hall y (by simp [hy])
      simp [this, hx]
    simp only [hrest]
    have : ¬ x > 8 := by omega
    simp [this]

/-- **the switch half of C14 in full** (length check + elaboration, nested switches included).
Before commit fd6b777 this was false: `1 : (2:3:4:5) : :` emitted mask 0b1110 with the value 3
for difficulties 1, 2 and 3 (former theorem `nested_switch_wrong`, finding
`diff-switch-nested-switch-expanded-by-outer-cases-only`). -/
theorem expand_exactly_one_full (defs : Defs) (mask : Mask) (args : List Arg) (n : Nat) (hn : 2 ≤ n) (hn8 : n ≤ 8)
    (hwf : ∀ a ∈ args, wfArg n a = true) (hsw : args.any isSw = true)
    (j : Nat) (hj : j < 8) (hdiff : (diffBits defs).getLsbD j = true) :
    ∃ copies, expand defs mask args = .ok copies ∧
      (if j < n ∧ mask.getLsbD j = true then
          ∃ c vs, copies.filter (fun c => c.mask.getLsbD j) = [c] ∧ selArgs j args = .ok vs ∧ c.args = vs
        else copies.filter (fun c => c.mask.getLsbD j) = []) ∧
      ∀ c ∈ copies, c.mask &&& auxBits defs = mask &&& auxBits defs := by
  obtain ⟨r, hr⟩ := checkLens_ok args n hn8 hwf
  obtain ⟨copies, h1, h2⟩ := expand_exactly_one defs mask args n hn hn8 hwf hsw j hj hdiff
  exact ⟨copies, by simp [expand, hr, h1], h2⟩

-- the hypotheses are satisfiable: `ins(10 : : 30 : , 7)` under a `{"*-F"}`-like mask with flag 5 default-on
example : wfArg 4 (.sw (liftCases [some 10, none, some 30, none])) = true := by decide
example : expand (defineFlag' defaultDefs 'F' 5 true) 0b11011111#8
    [.sw (liftCases [some 10, none, some 30, none]), .val 7]
    = .ok [⟨0b00000011#8, [10, 7]⟩, ⟨0b00001100#8, [30, 7]⟩] := by decide

-- the former counterexample: the nested switch now gets a copy per difficulty
example :
    let nested := Arg.sw [some (.val 2), some (.val 3), some (.val 4), some (.val 5)]
    let args := [Arg.sw [some (.val 1), some nested, none, none]]
    wfArg 4 args[0] = true ∧
    expand defaultDefs 0xFF#8 args = .ok [⟨0b0001#8, [1]⟩, ⟨0b0010#8, [3]⟩, ⟨0b0100#8, [4]⟩, ⟨0b1000#8, [5]⟩] ∧
    selArgs 2 args = .ok [4] := by decide

/-! ### `x = a : b : c : d` with non-simple cases (`lower_assign_diff_switch`) -/

theorem explicitCasesGo_spec {α} (rest : List (Option α)) (curMask : Mask) (cur : α) (k j : Nat) (hj : j < 8)
    (hmask : ∀ i, k ≤ i → i < 8 → curMask.getLsbD i = false) :
    ((explicitCasesGo rest curMask cur k).filter (fun p => p.1.getLsbD j)).map (·.2) =
      if curMask.getLsbD j = true then [cur]
      else if k ≤ j ∧ j < k + rest.length then [(pick rest (j - k)).getD cur]
      else [] := by
  induction rest generalizing curMask cur k with
  | nil =>
    simp only [explicitCasesGo, List.filter_cons, List.filter_nil, List.length_nil, Nat.add_zero]
    by_cases hc : curMask.getLsbD j = true
    · simp [hc]
    · have : ¬ (k ≤ j ∧ j < k) := by omega
      simp [hc, this]
  | cons c rest ih =>
    cases c with
    | none =>
      have hm' : ∀ i, k + 1 ≤ i → i < 8 → (setBit curMask k true).getLsbD i = false := by
        intro i h1 h2
        rw [getLsbD_setBit _ _ _ _ h2]
        have : i ≠ k := by omega
        simp [this, hmask i (by omega) h2]
      rw [explicitCasesGo, ih _ cur (k + 1) hm', getLsbD_setBit _ _ _ _ hj]
      by_cases hc : curMask.getLsbD j = true
      · simp [hc]
      · by_cases hjk : j = k
        · subst hjk
          simp [hc, pick]
        · simp only [hjk, if_false, hc, List.length_cons]
          by_cases hlt : k + 1 ≤ j ∧ j < k + 1 + rest.length
          · have h2 : k ≤ j ∧ j < k + (rest.length + 1) := by omega
            have h3 : j - k = (j - (k + 1)) + 1 := by omega
            simp only [hlt, h2, and_self, if_true, h3, pick]
            cases pick rest (j - (k + 1)) <;> simp
          · have h2 : ¬ (k ≤ j ∧ j < k + (rest.length + 1)) := by omega
            simp [hlt, h2]
    | some c =>
      have hm' : ∀ i, k + 1 ≤ i → i < 8 → (setBit (0#8) k true).getLsbD i = false := by
        intro i h1 h2
        rw [getLsbD_setBit _ _ _ _ h2]
        have : i ≠ k := by omega
        simp [this]
      rw [explicitCasesGo, List.filter_cons]
      have ih' := ih (setBit (0#8) k true) c (k + 1) hm'
      rw [getLsbD_setBit _ _ _ _ hj] at ih'
      by_cases hc : curMask.getLsbD j = true
      · have hjk : j < k := by
          apply Nat.lt_of_not_le
          intro hle
          have := hmask j hle hj
          simp [this] at hc
        have h1 : j ≠ k := by omega
        have h2 : ¬ (k + 1 ≤ j ∧ j < k + 1 + rest.length) := by omega
        rw [if_pos hc, if_pos hc, List.map_cons, ih']
        simp [h1, h2]
      · rw [if_neg hc, if_neg hc, ih']
        by_cases hjk : j = k
        · subst hjk
          simp [pick]
        · have hlen : (some c :: rest).length = rest.length + 1 := rfl
          simp only [hjk, if_false, BitVec.getLsbD_zero, hlen]
          by_cases hlt : k + 1 ≤ j ∧ j < k + 1 + rest.length
          · have h2 : k ≤ j ∧ j < k + (rest.length + 1) := by omega
            have h3 : j - k = (j - (k + 1)) + 1 := by omega
            rw [if_pos hlt, if_pos h2, h3]
            simp only [pick]
            cases pick rest (j - (k + 1)) <;> simp
          · have h2 : ¬ (k ≤ j ∧ j < k + (rest.length + 1)) := by omega
            rw [if_neg hlt, if_neg h2]
            simp

/-- the (mask, case) pairs of `explicit_difficulty_cases` partition the difficulties `0..len`:
difficulty `j` is in exactly one pair's mask, and that pair holds `select_diff_switch_case(cases, j)` -/
theorem explicitCases_spec {α} (cases : List (Option α)) (ecs : List (Mask × α)) (h : explicitCases cases = .ok ecs)
    (j : Nat) (hj : j < 8) :
    ((ecs.filter (fun p => p.1.getLsbD j)).map (·.2)) =
      (if j < cases.length then (match selectCase cases j with | .ok v => [v] | _ => []) else []) := by
  cases cases with
  | nil => simp [explicitCases] at h
  | cons c rest =>
    cases c with
    | none => simp [explicitCases] at h
    | some c =>
      simp only [explicitCases, Outcome.ok.injEq] at h
      subst h
      have hm : ∀ i, 1 ≤ i → i < 8 → (setBit (0#8) 0 true).getLsbD i = false := by
        intro i h1 h2
        rw [getLsbD_setBit _ _ _ _ h2]
        have : i ≠ 0 := by omega
        simp [this]
      rw [explicitCasesGo_spec rest _ c 1 j hj hm, getLsbD_setBit _ _ _ _ hj]
      simp only [BitVec.getLsbD_zero, List.length_cons, selectCase]
      cases j with
      | zero => simp [pick]
      | succ m =>
        have h0 : ¬ (m + 1 = 0) := by omega
        simp only [h0, if_false]
        by_cases hlt : m < rest.length
        · have h1 : 1 ≤ m + 1 ∧ m + 1 < 1 + rest.length := by omega
          have h2 : m + 1 < rest.length + 1 := by omega
          simp only [h1, and_self, if_true, h2, pick, Nat.add_sub_cancel]
          cases pick rest m <;> simp
        · have h1 : ¬ (1 ≤ m + 1 ∧ m + 1 < 1 + rest.length) := by omega
          have h2 : ¬ (m + 1 < rest.length + 1) := by omega
          rw [if_neg h1, if_neg h2]; simp

/-- **assignment of a switch with non-simple cases**: for every difficulty bit `j`, the emitted
assignments that apply on difficulty `j` are exactly one, carrying `select(cases, j)`, if
`j < len` and the label permits `j`; none otherwise.  Every emitted assignment carries the
statement's default-on bits unchanged. -/
theorem assign_exactly_one {α} (defs : Defs) (mask : Mask) (cases : List (Option α)) (copies : List (Mask × α))
    (h : assignCopies defs mask cases = .ok copies) (j : Nat) (hj : j < 8) (hdiff : (diffBits defs).getLsbD j = true) :
    ((copies.filter (fun p => p.1.getLsbD j)).map (·.2)) =
      (if j < cases.length ∧ mask.getLsbD j = true then (match selectCase cases j with | .ok v => [v] | _ => []) else []) ∧
    ∀ p ∈ copies, p.1 &&& auxBits defs = mask &&& auxBits defs := by
  have hdef : defs.defaultOn.getLsbD j = false := by
    simpa [diffBits, BitVec.getLsbD_not, hj] using hdiff
  unfold assignCopies at h
  cases hec : explicitCases cases with
  | err c => simp [hec] at h
  | panic s => simp [hec] at h
  | ok ecs =>
    simp only [hec, Outcome.ok.injEq] at h
    subst h
    have hspec := explicitCases_spec cases ecs hec j hj
    constructor
    · -- a copy has bit j iff its case mask has bit j and the statement mask has bit j
      have key : ∀ l : List (Mask × α),
          (((l.filterMap fun (p : Mask × α) =>
              if ((mask &&& diffBits defs) &&& p.1) ||| (mask &&& auxBits defs) = 0#8 then none
              else some (((mask &&& diffBits defs) &&& p.1) ||| (mask &&& auxBits defs), p.2)).filter
            (fun p => p.1.getLsbD j)).map (·.2)) =
          (if mask.getLsbD j = true then ((l.filter (fun p => p.1.getLsbD j)).map (·.2)) else []) := by
        intro l
        induction l with
        | nil => simp
        | cons p l ih =>
          simp only [List.filterMap_cons]
          have hbit : (((mask &&& diffBits defs) &&& p.1) ||| (mask &&& auxBits defs)).getLsbD j = (mask.getLsbD j && p.1.getLsbD j) := by
            simp only [BitVec.getLsbD_or, BitVec.getLsbD_and, hdiff, auxBits, hdef, Bool.and_true, Bool.and_false, Bool.or_false]
          by_cases h0 : ((mask &&& diffBits defs) &&& p.1) ||| (mask &&& auxBits defs) = 0#8
          · rw [if_pos h0]
            have hz := congrArg (·.getLsbD j) h0
            simp only [hbit, BitVec.getLsbD_zero] at hz
            rw [ih]
            by_cases hm : mask.getLsbD j = true
            · simp only [hm, Bool.true_and] at hz
              simp [hm, List.filter_cons, hz]
            · simp [hm]
          · rw [if_neg h0]
            simp only [List.filter_cons, hbit]
            by_cases hm : mask.getLsbD j = true
            · by_cases hp : p.1.getLsbD j = true
              · rw [if_pos (by simp [hm, hp]), if_pos hm, if_pos hp, List.map_cons, List.map_cons, ih, if_pos hm]
              · rw [if_neg (by simp [hm, hp]), if_pos hm, if_neg hp, ih, if_pos hm]
            · rw [if_neg (by simp [hm]), if_neg hm, ih, if_neg hm]
      rw [key ecs, hspec]
      by_cases hm : mask.getLsbD j = true <;> by_cases hl : j < cases.length <;> simp [hm, hl]
    · intro p hp
      obtain ⟨q, _, hq⟩ := List.mem_filterMap.mp hp
      by_cases h0 : ((mask &&& diffBits defs) &&& q.1) ||| (mask &&& auxBits defs) = 0#8
      · rw [if_pos h0] at hq; simp at hq
      · rw [if_neg h0] at hq
        simp only [Option.some.injEq] at hq
        rw [← hq]
        apply mask_ext
        intro i hi
        simp only [BitVec.getLsbD_and, BitVec.getLsbD_or, diffBits, auxBits, BitVec.getLsbD_not, hi, decide_true, Bool.true_and]
        cases mask.getLsbD i <;> cases defs.defaultOn.getLsbD i <;> simp

example : assignCopies defaultDefs 0x0F#8 [some 3, none, some 5, some 8] = .ok [(0b0011#8, 3), (0b0100#8, 5), (0b1000#8, 8)] := by decide

/-! ### the decompile direction: `recognize_diff_switch` -/

/-! finite facts about difficulty bytes (`decide` over all 256 masks / all 36 ranges) -/

def contigCheck (m : Mask) : Bool :=
  match firstBit m with
  | some s => !contiguousBits m ||
      (m == rangeMask s (s + (bitsOf m).length) && decide (0 < (bitsOf m).length) && decide (s + (bitsOf m).length ≤ 8))
  | none => true

set_option maxRecDepth 8192 in
theorem contig_fin : ∀ hi, hi < 16 → ∀ lo, lo < 16 → contigCheck (BitVec.ofNat 8 (16 * hi + lo)) = true := by decide

/-- a mask whose first bit is `s` and whose bits are contiguous is the run `s .. s + len` -/
theorem contiguous_is_range (m : Mask) (s : Nat) (hf : firstBit m = some s) (hc : contiguousBits m = true) :
    m = rangeMask s (s + (bitsOf m).length) ∧ 0 < (bitsOf m).length ∧ s + (bitsOf m).length ≤ 8 := by
  have hm : BitVec.ofNat 8 (16 * (m.toNat / 16) + m.toNat % 16) = m := by
    have : 16 * (m.toNat / 16) + m.toNat % 16 = m.toNat := Nat.div_add_mod m.toNat 16
    rw [this]; simp
  have h := contig_fin (m.toNat / 16) (by have := m.isLt; omega) (m.toNat % 16) (Nat.mod_lt _ (by omega))
  rw [hm] at h
  unfold contigCheck at h
  rw [hf] at h
  simp only [hc, Bool.not_true, Bool.false_or, Bool.and_eq_true, beq_iff_eq, decide_eq_true_eq] at h
  exact ⟨h.1.1, h.1.2, h.2⟩

theorem range_fin : ∀ a, a < 8 → ∀ b, b < 9 → a < b →
    firstBit (rangeMask a b) = some a ∧ contiguousBits (rangeMask a b) = true ∧ (bitsOf (rangeMask a b)).length = b - a := by decide

/-- the `assert!(!mask.is_empty())` of `bitmask_bits_are_contiguous` cannot fire behind `first() == Some(..)` -/
theorem firstBit_some_nonempty (m : Mask) (s : Nat) (h : firstBit m = some s) : bitsOf m ≠ [] := by
  intro h0; simp [firstBit, h0] at h

/-! sorted lists of difficulties -/

theorem sorted_ext : ∀ (a b : List Nat), a.Pairwise (· < ·) → b.Pairwise (· < ·) → (∀ x, x ∈ a ↔ x ∈ b) → a = b
  | [], [], _, _, _ => rfl
  | [], y :: b, _, _, h => by have := (h y).mpr (by simp); simp at this
  | x :: a, [], _, _, h => by have := (h x).mp (by simp); simp at this
  | x :: a, y :: b, ha, hb, h => by
    have ha' := List.pairwise_cons.mp ha
    have hb' := List.pairwise_cons.mp hb
    have hxy : x = y := by
      have h1 := (h x).mp (by simp)
      have h2 := (h y).mpr (by simp)
      rcases List.mem_cons.mp h1 with e | e
      · exact e
      · rcases List.mem_cons.mp h2 with e' | e'
        · exact e'.symm
        · have := hb'.1 x e; have := ha'.1 y e'; omega
    subst hxy
    congr 1
    apply sorted_ext a b ha'.2 hb'.2
    intro z
    constructor
    · intro hz
      rcases List.mem_cons.mp ((h z).mp (List.mem_cons_of_mem _ hz)) with e | e
      · subst e; have := ha'.1 z hz; omega
      · exact e
    · intro hz
      rcases List.mem_cons.mp ((h z).mpr (List.mem_cons_of_mem _ hz)) with e | e
      · subst e; have := hb'.1 z hz; omega
      · exact e

theorem bitsOf_sorted (m : Mask) : (bitsOf m).Pairwise (· < ·) := by
  unfold bitsOf
  exact List.Pairwise.filter _ (by decide)

/-- `BitSet32` iteration returns the inserted difficulties, ascending -/
theorem bitsOf_ofList (l : List Nat) (hs : l.Pairwise (· < ·)) (h8 : ∀ x ∈ l, x < 8) :
    bitsOf (l.foldl (fun m i => setBit m i true) 0#8) = l := by
  apply sorted_ext _ _ (bitsOf_sorted _) hs
  intro x
  rw [mem_bitsOf]
  constructor
  · intro ⟨hx, hb⟩
    rw [getLsbD_foldl_setBit _ _ _ _ hx] at hb
    by_cases h : x ∈ l
    · exact h
    · simp [h] at hb
  · intro h
    exact ⟨h8 x h, by rw [getLsbD_foldl_setBit _ _ _ _ (h8 x h)]; simp [h]⟩

/-! what the gathering loop guarantees -/

/-- invariant of the instructions collected by the loop of `recognize_diff_switch`: each one starts
at the difficulty where the previous one stopped, its difficulty part is exactly that contiguous run,
its default-on part, kind and time are those of the first, and none but the first has a label -/
inductive Chain (d : Defs) (first : RInstr) : Nat → Bool → List Rung → Prop where
  | nil {next nz} : Chain d first next nz []
  | cons {next nz r rs} :
      r.start = next → r.start < r.stop → r.stop ≤ 8 →
      diffPart d r.instr.mask = rangeMask r.start r.stop →
      r.instr.mask &&& auxBits d = first.mask &&& auxBits d →
      sameKind r.instr first = true → r.instr.time = first.time →
      (nz = true → r.instr.label = false) →
      Chain d first r.stop true rs → Chain d first next nz (r :: rs)

theorem gather_chain (d : Defs) (first : RInstr) (l : List RInstr) (next n : Nat) :
    Chain d first next (decide (0 < n)) (gather d first l next n) ∧
    ∃ tl, l = (gather d first l next n).map (·.instr) ++ tl := by
  induction l generalizing next n with
  | nil => exact ⟨.nil, [], rfl⟩
  | cons i rest ih =>
    simp only [gather]
    split
    · exact ⟨.nil, i :: rest, rfl⟩
    · rename_i h1
      split
      · exact ⟨.nil, i :: rest, rfl⟩
      · rename_i h2
        split
        · exact ⟨.nil, i :: rest, rfl⟩
        · rename_i h3
          split
          · exact ⟨.nil, i :: rest, rfl⟩
          · rename_i h4
            simp only [Bool.not_eq_true', Bool.not_eq_false', Bool.and_eq_true, beq_iff_eq,
              Bool.not_eq_true, Bool.or_eq_false_iff, bne_eq_false_iff_eq, Bool.not_eq_false] at h1 h2 h3 h4
            obtain ⟨hr, hlen, h8⟩ := contiguous_is_range _ next h4.1 h4.2
            obtain ⟨ihc, tl, htl⟩ := ih (next + (bitsOf (diffPart d i.mask)).length) (n + 1)
            refine ⟨.cons rfl (by simp; omega) h8 hr (by simpa using h1) h3.1 h3.2 ?_ (by simpa using ihc), tl, ?_⟩
            · intro hn
              simp only [hn, Bool.true_and] at h2
              simpa using h2
            · simp only [List.map_cons, List.cons_append]
              rw [← htl]


theorem chain_bounds {d first next nz rs} (h : Chain d first next nz rs) :
    ∀ r ∈ rs, next ≤ r.start ∧ r.start < r.stop ∧ r.stop ≤ 8 := by
  induction h with
  | nil => intro r hr; simp at hr
  | @cons next nz r rs h1 h2 h3 h4 h5 h6 h7 h8 hc ih =>
    intro q hq
    rcases List.mem_cons.mp hq with e | e
    · subst e; exact ⟨by omega, h2, h3⟩
    · have := ih q e; exact ⟨by omega, this.2⟩

theorem chain_sorted {d first next nz rs} (h : Chain d first next nz rs) : (rs.map (·.start)).Pairwise (· < ·) := by
  induction h with
  | nil => simp
  | @cons next nz r rs h1 h2 h3 h4 h5 h6 h7 h8 hc ih =>
    simp only [List.map_cons, List.pairwise_cons]
    refine ⟨?_, ih⟩
    intro s hs
    obtain ⟨q, hq, rfl⟩ := List.mem_map.mp hs
    have := (chain_bounds hc q hq).1; omega

theorem numDifficulties_cons (r q : Rung) (rs : List Rung) : numDifficulties (r :: q :: rs) = numDifficulties (q :: rs) := by
  simp [numDifficulties, List.getLast?_cons_cons]

theorem chain_ranges {d first next nz rs} (h : Chain d first next nz rs) (hne : rs ≠ []) :
    ranges (rs.map (·.start) ++ [numDifficulties rs]) = rs.map (fun r => (r.start, r.stop)) := by
  induction h with
  | nil => exact absurd rfl hne
  | @cons next nz r rs h1 h2 h3 h4 h5 h6 h7 h8 hc ih =>
    cases hc with
    | nil => simp [ranges, numDifficulties]
    | @cons _ _ q qs g1 g2 g3 g4 g5 g6 g7 g8 gc =>
      rw [numDifficulties_cons]
      have := ih (by simp)
      simp only [List.map_cons, List.cons_append, g1] at this
      simp only [List.map_cons, List.cons_append, ranges, this, g1]

theorem chain_stop_le {d first next nz rs} (h : Chain d first next nz rs) :
    ∀ r ∈ rs, r.stop ≤ numDifficulties rs := by
  induction h with
  | nil => intro r hr; simp at hr
  | @cons next nz r rs h1 h2 h3 h4 h5 h6 h7 h8 hc ih =>
    cases hc with
    | nil => intro q hq; simp at hq; subst hq; simp [numDifficulties]
    | @cons _ _ q qs g1 g2 g3 g4 g5 g6 g7 g8 gc =>
      intro x hx
      rw [numDifficulties_cons]
      rcases List.mem_cons.mp hx with e | e
      · subst e
        have := ih q (by simp)
        omega
      · exact ih x e

theorem chain_tail_nolabel {d first next rs} (h : Chain d first next true rs) : ∀ r ∈ rs, r.instr.label = false := by
  generalize hnz : true = nz at h
  induction h with
  | nil => intro r hr; simp at hr
  | @cons next nz r rs h1 h2 h3 h4 h5 h6 h7 h8 hc ih =>
    intro q hq
    rcases List.mem_cons.mp hq with e | e
    · subst e; exact h8 hnz.symm
    · exact ih rfl q e

theorem chain_all {d first next nz rs} (h : Chain d first next nz rs) : ∀ r ∈ rs,
    diffPart d r.instr.mask = rangeMask r.start r.stop ∧ r.instr.mask &&& auxBits d = first.mask &&& auxBits d ∧
    sameKind r.instr first = true ∧ r.instr.time = first.time := by
  induction h with
  | nil => intro r hr; simp at hr
  | @cons next nz r rs h1 h2 h3 h4 h5 h6 h7 h8 hc ih =>
    intro q hq
    rcases List.mem_cons.mp hq with e | e
    · subst e; exact ⟨h4, h5, h6, h7⟩
    · exact ih q e

theorem explicitMask_eq (rs : List Rung) :
    explicitMask rs = (rs.map (·.start)).foldl (fun m i => setBit m i true) 0#8 := by
  unfold explicitMask; rw [List.foldl_map]

theorem chain_bitsOf_explicit {d first next nz rs} (h : Chain d first next nz rs) :
    bitsOf (explicitMask rs) = rs.map (·.start) := by
  rw [explicitMask_eq]
  refine bitsOf_ofList _ (chain_sorted h) ?_
  intro x hx
  obtain ⟨q, hq, rfl⟩ := List.mem_map.mp hx
  have := chain_bounds h q hq; omega

theorem lookup_zip_map {β} (rs : List Rung) (f : Rung → β) (hs : (rs.map (·.start)).Pairwise (· < ·))
    (r : Rung) (hr : r ∈ rs) :
    ((rs.map (·.start)).zip (rs.map f)).lookup r.start = some (f r) := by
  induction rs with
  | nil => simp at hr
  | cons q rs ih =>
    simp only [List.map_cons, List.pairwise_cons] at hs
    simp only [List.map_cons, List.zip_cons_cons, List.lookup_cons]
    rcases List.mem_cons.mp hr with e | e
    · subst e; simp
    · have : q.start < r.start := hs.1 r.start (List.mem_map.mpr ⟨r, e, rfl⟩)
      have hne : (r.start == q.start) = false := by simp; omega
      simp only [hne]
      exact ih hs.2 e

theorem lookup_zip_isSome {β} (ks : List Nat) (vs : List β) (hl : ks.length = vs.length) (i : Nat) :
    ((ks.zip vs).lookup i).isSome = decide (i ∈ ks) := by
  induction ks generalizing vs with
  | nil => simp
  | cons k ks ih =>
    cases vs with
    | nil => simp at hl
    | cons v vs =>
      simp only [List.zip_cons_cons, List.lookup_cons, List.mem_cons]
      by_cases h : i = k
      · subst h; simp
      · have : (i == k) = false := by simp [h]
        simp only [this, h, false_or]
        exact ih vs (by simpa using hl)

theorem pick_self {α} (cs : List (Option α)) (d : Nat) (v : α) (h : cs[d]? = some (some v)) : pick cs d = some v := by
  induction cs generalizing d with
  | nil => simp at h
  | cons c cs ih =>
    cases d with
    | zero => simpa [pick] using h
    | succ d =>
      have := ih d (by simpa using h)
      simp [pick, this]

theorem range_map_getD (l : List Int32) : (List.range l.length).map (fun k => l.getD k 0) = l := by
  apply List.ext_getElem
  · simp
  · intro i h1 h2
    simp [List.getD_eq_getElem?_getD, List.getElem?_eq_getElem h2]

theorem selArgs_map {α} (d : Nat) (l : List α) (f : α → Arg) (v : α → Int32)
    (h : ∀ x ∈ l, selArg d (f x) = .ok (v x)) : selArgs d (l.map f) = .ok (l.map v) := by
  induction l with
  | nil => rfl
  | cons x l ih =>
    have h1 := h x (by simp)
    have h2 := ih (fun y hy => h y (by simp [hy]))
    simp [selArgs, h1, h2]

theorem wfCases_flat (n : Nat) (cs : List (Option Int32)) : wfCases n (liftCases cs) = true := by
  induction cs with
  | nil => rfl
  | cons c cs ih =>
    cases c with
    | none => simpa [liftCases, wfCases] using ih
    | some v => simpa [liftCases, wfCases, wfArg] using ih

theorem explicitInCases_flat (cs : List (Option Int32)) (i : Nat) : explicitInCases (liftCases cs) i = false := by
  induction cs with
  | nil => rfl
  | cons c cs ih =>
    cases c with
    | none => simpa [liftCases, explicitInCases] using ih
    | some v => simpa [liftCases, explicitInCases, explicitIn] using ih

theorem toArg_sw (cs : List (Option Int32)) : toArg (.sw cs) = .sw (liftCases cs) := rfl


/-- the case list of a recovered switch holds, at the start of every gathered instruction, that
instruction's value -/
theorem switch_get {d first nz} (rs : List Rung) (hchain : Chain d first 0 nz rs) (k : Nat) (r : Rung) (hr : r ∈ rs) :
    (switchFromExplicit (numDifficulties rs) (explicitMask rs) (column rs k))[r.start]? = some (some (r.instr.args.getD k 0)) := by
  have hlt : r.start < numDifficulties rs := by
    have := chain_stop_le hchain r hr; have := chain_bounds hchain r hr; omega
  simp only [switchFromExplicit, List.getElem?_map, List.getElem?_range hlt, Option.map_some]
  rw [chain_bitsOf_explicit hchain]
  unfold column
  rw [lookup_zip_map rs _ (chain_sorted hchain) r hr]

theorem switch_get_isSome {d first nz} (rs : List Rung) (hchain : Chain d first 0 nz rs) (k i : Nat) :
    ((switchFromExplicit (numDifficulties rs) (explicitMask rs) (column rs k))[i]?).join.isSome = decide (i ∈ rs.map (·.start)) := by
  by_cases hlt : i < numDifficulties rs
  · simp only [switchFromExplicit, List.getElem?_map, List.getElem?_range hlt, Option.map_some, Option.join_some]
    rw [chain_bitsOf_explicit hchain]
    exact lookup_zip_isSome _ _ (by simp [column]) i
  · have hnot : i ∉ rs.map (·.start) := by
      intro hm
      obtain ⟨q, hq, rfl⟩ := List.mem_map.mp hm
      have := chain_stop_le hchain q hq; have := chain_bounds hchain q hq; omega
    have : (switchFromExplicit (numDifficulties rs) (explicitMask rs) (column rs k))[i]? = none := by
      simp [switchFromExplicit]; omega
    simp [this, hnot]

theorem selArg_switchOrScalar {d first nz} (cfg : Cfg) (op : Nat) (rs : List Rung) (hchain : Chain d first 0 nz rs) (k : Nat)
    (hex : ((column rs k).all fun c => valEq cfg op k c ((column rs k).headD 0)) = true →
      ∀ r ∈ rs, r.instr.args.getD k 0 = (column rs k).headD 0)
    (r : Rung) (hr : r ∈ rs) :
    selArg r.start (toArg (switchOrScalar cfg op (numDifficulties rs) (explicitMask rs) k (column rs k))) = .ok (r.instr.args.getD k 0) := by
  unfold switchOrScalar
  split
  · rename_i hall
    have := hex hall r hr
    simp only [toArg, selArg, this]
  · rw [toArg_sw, selArg_flat]
    have hlt : r.start < numDifficulties rs := by
      have := chain_stop_le hchain r hr; have := chain_bounds hchain r hr; omega
    have hlen : (switchFromExplicit (numDifficulties rs) (explicitMask rs) (column rs k)).length = numDifficulties rs := by
      simp [switchFromExplicit]
    simp only [selectCase, hlen, hlt, if_true, pick_self _ _ _ (switch_get rs hchain k r hr)]

theorem wfArg_switchOrScalar {d first nz} (cfg : Cfg) (op : Nat) (rs : List Rung) (hchain : Chain d first 0 nz rs) (k : Nat)
    (hne : rs ≠ []) :
    wfArg (numDifficulties rs) (toArg (switchOrScalar cfg op (numDifficulties rs) (explicitMask rs) k (column rs k))) = true := by
  unfold switchOrScalar
  split
  · simp [toArg, wfArg]
  · rw [toArg_sw]
    simp only [wfArg, wfCases_flat, Bool.and_true, Bool.and_eq_true, beq_iff_eq]
    constructor
    · simp [liftCases, switchFromExplicit]
    · cases hchain with
      | nil => exact absurd rfl hne
      | @cons _ _ r rs' h1 h2 h3 h4 h5 h6 h7 h8 hc =>
        have hg := switch_get (r :: rs') (.cons h1 h2 h3 h4 h5 h6 h7 h8 hc) k r (by simp)
        rw [h1] at hg
        rw [List.head?_eq_getElem?]
        simp only [liftCases, List.getElem?_map, hg]
        simp

theorem explicitIn_switchOrScalar {d first nz} (cfg : Cfg) (op : Nat) (rs : List Rung) (hchain : Chain d first 0 nz rs) (k i : Nat) :
    explicitIn (toArg (switchOrScalar cfg op (numDifficulties rs) (explicitMask rs) k (column rs k))) i =
      (isSw (toArg (switchOrScalar cfg op (numDifficulties rs) (explicitMask rs) k (column rs k))) && decide (i ∈ rs.map (·.start))) := by
  unfold switchOrScalar
  split
  · simp [toArg, explicitIn, isSw]
  · rw [toArg_sw]
    simp only [explicitIn, explicitInCases_flat, Bool.or_false, isSw, Bool.true_and]
    rw [← switch_get_isSome rs hchain k i]
    simp only [liftCases, List.getElem?_map]
    cases (switchFromExplicit (numDifficulties rs) (explicitMask rs) (column rs k))[i]? with
    | none => rfl
    | some o => cases o <;> rfl

theorem isSw_toArg (a : RArg) : isSw (toArg a) = a.isSw := by cases a <;> rfl


theorem rangeMask_ne_zero (s e : Nat) (h : s < e) (h8 : e ≤ 8) : rangeMask s e ≠ 0#8 := by
  intro h0
  have := congrArg (·.getLsbD s) h0
  simp only [rangeMask_get s e s (by omega), BitVec.getLsbD_zero] at this
  simp at this; omega

/-- mask arithmetic of a fold: with the statement mask `aux ∪ all difficulty bits`, the copy for the
range of a gathered instruction is that instruction's mask again -/
theorem fold_mask_facts (d : Defs) (am rm : Mask) (s e : Nat)
    (hdp : diffPart d rm = rangeMask s e) (haux : rm &&& auxBits d = am &&& auxBits d) :
    ((((am &&& auxBits d) ||| diffBits d) &&& diffBits d) &&& rangeMask s e = rangeMask s e) ∧
    (rangeMask s e ||| (((am &&& auxBits d) ||| diffBits d) &&& auxBits d) = rm) := by
  constructor <;> apply mask_ext <;> intro j hj
  all_goals
    have h1 := congrArg (·.getLsbD j) hdp
    have h2 := congrArg (·.getLsbD j) haux
    simp only [diffPart, auxBits, diffBits, BitVec.getLsbD_xor, BitVec.getLsbD_and, BitVec.getLsbD_or,
      BitVec.getLsbD_not, hj, decide_true, Bool.true_and] at h1 h2 ⊢
    rw [← h1]
    revert h2
    cases rm.getLsbD j <;> cases am.getLsbD j <;> cases d.defaultOn.getLsbD j <;> simp

theorem expandGo_rungs (d : Defs) (M : Mask) (args : List Arg) (sub : List Rung)
    (h : ∀ r ∈ sub, selArgs r.start args = .ok r.instr.args ∧
      (M &&& diffBits d) &&& rangeMask r.start r.stop ≠ 0#8 ∧
      ((M &&& diffBits d) &&& rangeMask r.start r.stop) ||| (M &&& auxBits d) = r.instr.mask) :
    expandGo d M args (sub.map fun r => (r.start, r.stop)) = .ok (sub.map fun r => ⟨r.instr.mask, r.instr.args⟩) := by
  induction sub with
  | nil => rfl
  | cons r sub ih =>
    obtain ⟨h1, h2, h3⟩ := h r (by simp)
    have := ih (fun q hq => h q (by simp [hq]))
    simp only [List.map_cons, expandGo, h2, if_false, h1, this, h3]

theorem printLabel_readLabel (d : Defs) (h : Inv d) (m : Mask) :
    ∃ lab, printLabel d m = .ok lab ∧ readLabel d lab = .ok m := by
  by_cases hm : m = 0xFF#8
  · exact ⟨none, by simp [printLabel, hm], by simp [readLabel, hm]⟩
  · obtain ⟨s, h1, h2⟩ := label_parse d h m
    exact ⟨some s, by simp [printLabel, hm, h1], by simpa [readLabel] using h2⟩

theorem numDifficulties_mem (rs : List Rung) (hne : rs ≠ []) : ∃ r ∈ rs, numDifficulties rs = r.stop := by
  unfold numDifficulties
  cases hl : rs.getLast? with
  | none => simp at hl; exact absurd hl hne
  | some r => exact ⟨r, List.mem_of_getLast? hl, rfl⟩

theorem any_and_const {α} (l : List α) (p : α → Bool) (c : Bool) : l.any (fun x => p x && c) = (l.any p && c) := by
  induction l with
  | nil => simp
  | cons x l ih => simp only [List.any_cons, ih]; cases p x <;> cases c <;> simp

theorem explicitMask_get (rs : List Rung) (i : Nat) (hi : i < 8) :
    (explicitMask rs).getLsbD i = decide (i ∈ rs.map (·.start)) := by
  rw [explicitMask_eq, getLsbD_foldl_setBit _ _ _ _ hi]
  by_cases h : i ∈ rs.map (·.start) <;> simp [h]

theorem recognizeDiffSwitch_some {cfg : Cfg} {l : List RInstr} {s : RStmt} {rungs : List RInstr}
    (h : recognizeDiffSwitch cfg l = some (s, rungs)) :
    ∃ a tl, l = a :: tl ∧ 2 ≤ (gather cfg.defs a l 0 0).length ∧ 4 ≤ numDifficulties (gather cfg.defs a l 0 0) ∧
      (∀ r ∈ gather cfg.defs a l 0 0, partsAgree a r.instr = true) ∧
      (foldedArgs cfg a (gather cfg.defs a l 0 0)).any RArg.isSw = true ∧
      s = { time := a.time, label := a.label, kind := a.kind, opcode := a.opcode, fixed := a.fixed,
            args := foldedArgs cfg a (gather cfg.defs a l 0 0),
            mask := (a.mask &&& auxBits cfg.defs) ||| diffBits cfg.defs } ∧
      rungs = (gather cfg.defs a l 0 0).map (·.instr) := by
  match l, h with
  | [], h => simp [recognizeDiffSwitch] at h
  | [_], h => simp [recognizeDiffSwitch] at h
  | a :: b :: rest, h =>
    simp only [recognizeDiffSwitch] at h
    split at h
    · simp at h
    · split at h
      · simp at h
      · split at h
        · simp at h
        · rename_i h2 h4
          split at h
          · simp at h
          · rename_i args hsw
            simp only [Option.some.injEq, Prod.mk.injEq] at h
            unfold switchifyParts at hsw
            split at hsw
            · simp at hsw
            · rename_i hp
              split at hsw
              · simp at hsw
              · rename_i hany
                simp only [Option.some.injEq] at hsw
                refine ⟨a, b :: rest, rfl, by omega, by omega, ?_, by simpa using hany, ?_, h.2.symm⟩
                · intro r hr
                  simp only [Bool.not_eq_true', Bool.not_eq_false'] at hp
                  exact List.all_eq_true.mp (by simpa using hp) r hr
                · rw [hsw]; exact h.1.symm


/-- the raiser's `same_value` on decoded arguments is equality of the bit patterns (since commit
b717bca also for floats) -/
theorem valEq_eq (cfg : Cfg) (op k : Nat) (a b : Int32) (h : valEq cfg op k a b = true) : a = b := by
  unfold valEq at h
  split at h
  · have : a.toBitVec = b.toBitVec := by simpa using h
    exact Int32.toBitVec_inj.mp this
  · simpa using h

theorem valEq_refl (cfg : Cfg) (op k : Nat) (a : Int32) : valEq cfg op k a a = true := by
  unfold valEq; split <;> simp

/-- what one fold needs: an argument position in which every folded instruction compares equal to the
first one holds the same bits in all of them (`exactFold_all`: always true of the repaired code; with
`f32 ==` it failed for a column `0.0 / -0.0`) -/
def ExactFold (cfg : Cfg) (rungs : List RInstr) : Prop :=
  ∀ a, rungs.head? = some a → ∀ k,
    (rungs.all fun i => valEq cfg a.opcode k (i.args.getD k 0) (a.args.getD k 0)) = true →
    ∀ i ∈ rungs, i.args.getD k 0 = a.args.getD k 0

theorem exactFold_all (cfg : Cfg) (rungs : List RInstr) : ExactFold cfg rungs :=
  fun a _ k hall i hi => valEq_eq cfg a.opcode k _ _ (List.all_eq_true.mp hall i hi)

/-- **one fold compiles back to the instructions it replaced**: whenever `recognize_diff_switch`
folds, the folded statement - label printed and parsed again, switches elaborated by `expand` -
yields exactly the gathered instructions: same number, order, masks, argument values, times, parts,
and the label in front of the first only. -/
theorem fold_lowers_core (cfg : Cfg) (hinv : Inv cfg.defs) (l : List RInstr) (s : RStmt) (rungs : List RInstr)
    (h : recognizeDiffSwitch cfg l = some (s, rungs)) (hloc : ExactFold cfg rungs) :
    (∃ tl, l = rungs ++ tl) ∧ 2 ≤ rungs.length ∧ lowerStmt cfg.defs s = .ok (rungs.map (·.raw)) := by
  obtain ⟨a, tl0, hl, hlen, hnum, hparts, hany, hs, hr⟩ := recognizeDiffSwitch_some h
  obtain ⟨hchain, tl, htl⟩ := gather_chain cfg.defs a l 0 0
  generalize hrs : gather cfg.defs a l 0 0 = rs at *
  cases rs with
  | nil => simp at hlen
  | cons r0 rs1 =>
  have hchain' : Chain cfg.defs a 0 false (r0 :: rs1) := by simpa using hchain
  have ha : r0.instr = a := by
    rw [hl] at htl
    simp only [List.map_cons, List.cons_append] at htl
    exact (List.cons.inj htl).1.symm
  have hmem : ∀ r ∈ r0 :: rs1, r.instr ∈ l := by
    intro r hr'
    rw [htl]
    exact List.mem_append_left _ (List.mem_map.mpr ⟨r, hr', rfl⟩)
  have hal : a ∈ l := by rw [hl]; simp
  have hb := chain_bounds hchain'
  have hstop := chain_stop_le hchain'
  have hall := chain_all hchain'
  -- per-rung agreement of the parts
  have hagree : ∀ r ∈ r0 :: rs1, r.instr.fixed = a.fixed ∧ r.instr.opcode = a.opcode ∧ r.instr.args.length = a.args.length := by
    intro r hr'
    have hp := hparts r hr'
    have hk := (hall r hr').2.2.1
    simp only [partsAgree, sameKind, Bool.and_eq_true, Bool.or_eq_true, beq_iff_eq] at hp hk
    refine ⟨hp.1.1, ?_, hp.2⟩
    rcases hp.1.2 with h1 | h1
    · rcases hk.2 with h2 | h2
      · rw [hk.1] at h2; rw [h1] at h2; cases h2
      · exact h2
    · exact h1
  -- num ≤ 8
  obtain ⟨rl, hrl, hrln⟩ := numDifficulties_mem (r0 :: rs1) (by simp)
  have hn8 : numDifficulties (r0 :: rs1) ≤ 8 := by rw [hrln]; exact (hb rl hrl).2.2
  -- the compiled arguments
  have hsargs : s.args.map toArg = (List.range a.args.length).map (fun k =>
      toArg (switchOrScalar cfg a.opcode (numDifficulties (r0 :: rs1)) (explicitMask (r0 :: rs1)) k (column (r0 :: rs1) k))) := by
    rw [hs]; simp [foldedArgs, List.map_map, Function.comp_def]
  have hhead : ∀ k, (column (r0 :: rs1) k).headD 0 = a.args.getD k 0 := by
    intro k; simp [column, ha]
  have hsel : ∀ r ∈ r0 :: rs1, selArgs r.start (s.args.map toArg) = .ok r.instr.args := by
    intro r hr'
    rw [hsargs]
    have := selArgs_map r.start (List.range a.args.length)
      (fun k => toArg (switchOrScalar cfg a.opcode (numDifficulties (r0 :: rs1)) (explicitMask (r0 :: rs1)) k (column (r0 :: rs1) k)))
      (fun k => r.instr.args.getD k 0)
      (fun k _ => selArg_switchOrScalar cfg a.opcode (r0 :: rs1) hchain' k
        (fun hv q hq => by
          rw [hhead k] at hv ⊢
          have hv' : (rungs.all fun i => valEq cfg a.opcode k (i.args.getD k 0) (a.args.getD k 0)) = true := by
            rw [hr, List.all_map]
            simpa [column, List.all_map, Function.comp_def] using hv
          exact hloc a (by rw [hr]; simp [ha]) k hv' q.instr (by rw [hr]; exact List.mem_map.mpr ⟨q, hq, rfl⟩)) r hr')
    rw [this, ← (hagree r hr').2.2, range_map_getD]
  have hwf : ∀ x ∈ s.args.map toArg, wfArg (numDifficulties (r0 :: rs1)) x = true := by
    intro x hx
    rw [hsargs] at hx
    obtain ⟨k, _, rfl⟩ := List.mem_map.mp hx
    exact wfArg_switchOrScalar cfg a.opcode (r0 :: rs1) hchain' k (by simp)
  have hsw : (s.args.map toArg).any isSw = true := by
    rw [List.any_map]
    have : (isSw ∘ toArg) = RArg.isSw := by funext x; exact isSw_toArg x
    rw [this, hs]; exact hany
  -- the meta data `elaborate_diff_switches` collects
  obtain ⟨_, hle, hge, hexp⟩ := metaOf_go (numDifficulties (r0 :: rs1)) (s.args.map toArg) hwf { num := 0, explicit := 0#8 }
  have hmnum : (metaOf (s.args.map toArg)).num = numDifficulties (r0 :: rs1) := by
    have h1 := hle (by simp)
    have h2 := hge hsw
    unfold metaOf; omega
  have hmexp : (metaOf (s.args.map toArg)).explicit = explicitMask (r0 :: rs1) := by
    apply mask_ext
    intro i hi
    have := hexp i hi
    simp only [BitVec.getLsbD_zero, Bool.false_or] at this
    unfold metaOf
    rw [this, explicitMask_get _ _ hi]
    unfold explicitAt
    rw [hsargs, List.any_map]
    simp only [Function.comp_def, explicitIn_switchOrScalar cfg a.opcode (r0 :: rs1) hchain']
    rw [any_and_const]
    have hsw' := hsw
    rw [hsargs, List.any_map] at hsw'
    simp only [Function.comp_def] at hsw'
    rw [hsw']; simp
  -- the label text
  obtain ⟨lab, hpl, hrl'⟩ := printLabel_readLabel cfg.defs hinv s.mask
  -- expansion
  have hmask : s.mask = (a.mask &&& auxBits cfg.defs) ||| diffBits cfg.defs := by rw [hs]
  have hgo := expandGo_rungs cfg.defs s.mask (s.args.map toArg) (r0 :: rs1) (by
    intro r hr'
    have hf := fold_mask_facts cfg.defs a.mask r.instr.mask r.start r.stop (hall r hr').1 (hall r hr').2.1
    rw [hmask, hf.1]
    exact ⟨hsel r hr', rangeMask_ne_zero _ _ (hb r hr').2.1 (hb r hr').2.2, hf.2⟩)
  obtain ⟨cl, hcl⟩ := checkLens_ok (s.args.map toArg) (numDifficulties (r0 :: rs1)) hn8 hwf
  have hexpand : expand cfg.defs s.mask (s.args.map toArg) =
      .ok ((r0 :: rs1).map fun r => ⟨r.instr.mask, r.instr.args⟩) := by
    unfold expand
    rw [hcl]
    simp only
    unfold expandCore
    have : ¬ (metaOf (s.args.map toArg)).num < 2 := by rw [hmnum]; omega
    have this' : ¬ numDifficulties (r0 :: rs1) < 2 := by omega
    simp only [this, this', if_false, Meta.caseRanges, hmnum, hmexp, chain_bitsOf_explicit hchain',
      chain_ranges hchain' (by simp)]
    exact hgo
  refine ⟨⟨tl, by rw [hr]; exact htl⟩, by rw [hr]; simpa using hlen, ?_⟩
  unfold lowerStmt
  rw [hpl]; simp only; rw [hrl']; simp only; rw [hexpand]; simp only
  rw [hr]
  have htail := chain_tail_nolabel (by
    cases hchain' with
    | cons h1 h2 h3 h4 h5 h6 h7 h8 hc => exact hc : Chain cfg.defs a r0.stop true rs1)
  simp only [List.map_cons, labelFirst, Outcome.ok.injEq, List.cons.injEq]
  constructor
  · rw [hs]; simp [RInstr.raw, ha]
  · simp only [List.map_map]
    apply List.map_congr_left
    intro r hr'
    have h1 := hagree r (List.mem_cons_of_mem _ hr')
    have h2 := hall r (List.mem_cons_of_mem _ hr')
    have h3 := htail r hr'
    rw [hs]
    simp [RInstr.raw, h1.1, h1.2.1, h2.2.2.2, h3]


/-! statements that are not folds -/

theorem checkLens_vals (vs : List Int32) : checkLens (vs.map Arg.val) = .ok none := by
  have : (vs.map Arg.val).flatMap switchLens = [] := by
    induction vs with
    | nil => rfl
    | cons v vs ih => simp [List.flatMap_cons, switchLens, ih]
  simp [checkLens, this]

theorem metaOf_vals (vs : List Int32) (m : Meta) : (vs.map Arg.val).foldl metaArg m = m := by
  induction vs with
  | nil => rfl
  | cons v vs ih => simpa [metaArg] using ih

theorem selArgs_vals (d : Nat) (vs : List Int32) : selArgs d (vs.map Arg.val) = .ok vs := by
  induction vs with
  | nil => rfl
  | cons v vs ih => simp [selArgs, selArg, ih]

theorem expand_vals (d : Defs) (m : Mask) (vs : List Int32) : expand d m (vs.map Arg.val) = .ok [⟨m, vs⟩] := by
  simp [expand, checkLens_vals, expandCore, metaOf, metaOf_vals, selArgs_vals]

/-- an instruction printed by itself (as an intrinsic or as `ins_N(..)`), with or without an offset
label in front, compiles back to itself -/
theorem lowerStmt_plain_lab (d : Defs) (hinv : Inv d) (i : RInstr) (k : Kind) (lab : Bool) :
    lowerStmt d { plainStmt i with kind := k, label := lab } = .ok [{ i.raw with label := lab }] := by
  obtain ⟨l, hpl, hrl⟩ := printLabel_readLabel d hinv i.mask
  have hargs : (i.args.map RArg.one).map toArg = i.args.map Arg.val := by
    rw [List.map_map]; rfl
  simp [lowerStmt, plainStmt, hpl, hrl, hargs, expand_vals, labelFirst, RInstr.raw]

theorem lowerStmt_plain (d : Defs) (hinv : Inv d) (i : RInstr) (k : Kind) :
    lowerStmt d { plainStmt i with kind := k } = .ok [i.raw] :=
  lowerStmt_plain_lab d hinv i k i.label

theorem lowerStmts_append (d : Defs) (a b : List RStmt) (x y : List Raw)
    (ha : lowerStmts d a = .ok x) (hb : lowerStmts d b = .ok y) : lowerStmts d (a ++ b) = .ok (x ++ y) := by
  induction a generalizing x with
  | nil => simp [lowerStmts] at ha; subst ha; simpa using hb
  | cons s a ih =>
    simp only [lowerStmts] at ha
    cases h1 : lowerStmt d s with
    | err c => simp [h1] at ha
    | panic c => simp [h1] at ha
    | ok u =>
      cases h2 : lowerStmts d a with
      | err c => simp [h1, h2] at ha
      | panic c => simp [h1, h2] at ha
      | ok w =>
        simp [h1, h2] at ha
        subst ha
        simp [lowerStmts, h1, ih w h2]

/-- what a fold looks like, without any assumption: the replaced instructions are a prefix of at
least two, collected by the loop (`Chain`), covering at least four difficulties; the statement takes
time, label, kind and parts of the first and the mask `aux ∪ all difficulty bits` -/
theorem fold_spec {cfg : Cfg} {l : List RInstr} {s : RStmt} {rungs : List RInstr}
    (h : recognizeDiffSwitch cfg l = some (s, rungs)) :
    ∃ a tl0 rs tl, l = a :: tl0 ∧ rungs = rs.map (·.instr) ∧ l = rungs ++ tl ∧ 2 ≤ rs.length ∧
      Chain cfg.defs a 0 false rs ∧ 4 ≤ numDifficulties rs ∧ (∀ r ∈ rs, partsAgree a r.instr = true) ∧
      s.time = a.time ∧ s.label = a.label ∧ s.kind = a.kind ∧ s.opcode = a.opcode ∧ s.fixed = a.fixed ∧
      s.mask = (a.mask &&& auxBits cfg.defs) ||| diffBits cfg.defs ∧ s.args = foldedArgs cfg a rs := by
  obtain ⟨a, tl0, hl, hlen, hnum, hparts, hany, hs, hr⟩ := recognizeDiffSwitch_some h
  obtain ⟨hchain, tl, htl⟩ := gather_chain cfg.defs a l 0 0
  refine ⟨a, tl0, gather cfg.defs a l 0 0, tl, hl, hr, by rw [hr]; exact htl, hlen, by simpa using hchain, hnum, hparts, ?_⟩
  rw [hs]; simp

theorem fold_lowers (cfg : Cfg) (hinv : Inv cfg.defs) (l : List RInstr) (s : RStmt) (rungs : List RInstr)
    (h : recognizeDiffSwitch cfg l = some (s, rungs)) :
    (∃ tl, l = rungs ++ tl) ∧ 2 ≤ rungs.length ∧ lowerStmt cfg.defs s = .ok (rungs.map (·.raw)) :=
  fold_lowers_core cfg hinv l s rungs h (exactFold_all cfg rungs)

/-- induction over the items `perform_recognition` produces -/
theorem perform_forall (cfg : Cfg) (P : Item → Prop) (hplain : ∀ i, P (.plain i))
    (hfold : ∀ l s rungs, recognizeDiffSwitch cfg l = some (s, rungs) → P (.folded s rungs))
    (fuel : Nat) (is : List RInstr) : ∀ it ∈ performGo cfg fuel is, P it := by
  induction fuel generalizing is with
  | zero => intro it hit; simp [performGo] at hit
  | succ fuel ih =>
    cases is with
    | nil => intro it hit; simp [performGo] at hit
    | cons i rest =>
      intro it hit
      simp only [performGo] at hit
      split at hit
      · rename_i s rungs hrec
        rcases List.mem_cons.mp hit with e | e
        · subst e; exact hfold _ _ _ hrec
        · exact ih _ it e
      · rcases List.mem_cons.mp hit with e | e
        · subst e; exact hplain i
        · exact ih _ it e

/-- recognition partitions the script: the instructions covered by the items, in order, are the script -/
theorem perform_partition_go (cfg : Cfg) (fuel : Nat) (is : List RInstr) (hf : is.length ≤ fuel) :
    (performGo cfg fuel is).flatMap Item.covers = is := by
  induction fuel generalizing is with
  | zero => have : is = [] := List.length_eq_zero_iff.mp (by omega)
            subst this; rfl
  | succ fuel ih =>
    cases is with
    | nil => rfl
    | cons i rest =>
      simp only [performGo]
      split
      · rename_i s rungs hrec
        obtain ⟨a, tl0, rs, tl, hl, hr, htl, hlen, _⟩ := fold_spec hrec
        have hrl : 2 ≤ rungs.length := by rw [hr]; simpa using hlen
        have hdrop : (i :: rest).drop rungs.length = tl := by rw [htl]; simp
        rw [hdrop, List.flatMap_cons, ih tl (by
          have := congrArg List.length htl
          simp only [List.length_cons, List.length_append] at this hf
          omega)]
        simp [Item.covers, htl]
      · rw [List.flatMap_cons, ih rest (by simpa using hf)]
        rfl

theorem perform_partition (cfg : Cfg) (is : List RInstr) :
    (performRecognition cfg is).flatMap Item.covers = is :=
  perform_partition_go cfg is.length is (Nat.le_refl _)

/-- **every instruction keeps its time**: the instructions an item covers all have the item's time
(no fold across a time change), and so has every statement printed for the item. -/
theorem recognize_preserves_times (cfg : Cfg) (is : List RInstr) :
    (performRecognition cfg is).flatMap Item.covers = is ∧
    ∀ it ∈ performRecognition cfg is, (∀ r ∈ it.covers, r.time = it.time) ∧ (∀ st ∈ render cfg it, st.time = it.time) := by
  refine ⟨perform_partition cfg is, ?_⟩
  unfold performRecognition
  refine perform_forall cfg (fun it => (∀ r ∈ it.covers, r.time = it.time) ∧ (∀ st ∈ render cfg it, st.time = it.time)) ?_ ?_ is.length is
  · intro i
    refine ⟨by simp [Item.covers, Item.time], ?_⟩
    intro st hst
    simp only [render] at hst
    split at hst <;> simp at hst <;> subst hst <;> simp [plainStmt, Item.time]
  · intro l s rungs hrec
    obtain ⟨a, tl0, rs, tl, hl, hr, htl, hlen, hchain, hnum, hparts, ht, _⟩ := fold_spec hrec
    have hall := chain_all hchain
    have htimes : ∀ r ∈ rungs, r.time = s.time := by
      intro r hr'
      rw [hr] at hr'
      obtain ⟨q, hq, rfl⟩ := List.mem_map.mp hr'
      rw [ht]; exact (hall q hq).2.2.2
    refine ⟨by simpa [Item.covers, Item.time] using htimes, ?_⟩
    intro st hst
    simp only [render] at hst
    split at hst
    · simp at hst; subst hst; rfl
    · cases hrm : rungs with
      | nil => simp [hrm] at hst
      | cons r0 rest =>
        simp only [hrm, List.map_cons] at hst
        rcases List.mem_cons.mp hst with e | e
        · subst e; simp [plainStmt, Item.time]; exact htimes r0 (by simp [hrm])
        · obtain ⟨q, hq, rfl⟩ := List.mem_map.mp e
          simp [plainStmt, Item.time]; exact htimes q (by simp [hrm, hq])

/-- **no fold across a label**: in a fold only the first instruction may carry an offset label, and
the folded statement carries that label -/
theorem recognize_no_fold_across_label (cfg : Cfg) (is : List RInstr) :
    ∀ it ∈ performRecognition cfg is, ∀ s rungs, it = .folded s rungs →
      ∃ r0 rest, rungs = r0 :: rest ∧ s.label = r0.label ∧ ∀ r ∈ rest, r.label = false := by
  unfold performRecognition
  refine perform_forall cfg (fun it => ∀ s rungs, it = .folded s rungs →
      ∃ r0 rest, rungs = r0 :: rest ∧ s.label = r0.label ∧ ∀ r ∈ rest, r.label = false) ?_ ?_ is.length is
  · intro i s rungs h; cases h
  · intro l s rungs hrec s' rungs' he
    cases he
    obtain ⟨a, tl0, rs, tl, hl, hr, htl, hlen, hchain, hnum, hparts, ht, hlab, _⟩ := fold_spec hrec
    cases hchain with
    | nil => simp at hlen
    | @cons _ _ r0 rs1 h1 h2 h3 h4 h5 h6 h7 h8 hc =>
      have ha : r0.instr = a := by
        rw [hl, hr] at htl
        simp only [List.map_cons, List.cons_append] at htl
        exact (List.cons.inj htl).1.symm
      refine ⟨r0.instr, rs1.map (·.instr), by rw [hr]; rfl, by rw [hlab, ha], ?_⟩
      intro r hr'
      obtain ⟨q, hq, rfl⟩ := List.mem_map.mp hr'
      exact chain_tail_nolabel hc q hq

/-- **which masks are folded**: the difficulty parts of the folded instructions are the consecutive
runs `[start, stop)` tiling `0 .. num` (first starts at difficulty 0, each is contiguous and starts
where the previous one stopped, none overlaps), `num ≥ 4`, and all have the default-on bits, the kind
and the time of the first (`Chain`) -/
theorem recognize_fold_masks (cfg : Cfg) (is : List RInstr) :
    ∀ it ∈ performRecognition cfg is, ∀ s rungs, it = .folded s rungs →
      ∃ a rs, rungs = rs.map (·.instr) ∧ 2 ≤ rs.length ∧ Chain cfg.defs a 0 false rs ∧ 4 ≤ numDifficulties rs ∧
        numDifficulties rs ≤ 8 ∧ s.mask = (a.mask &&& auxBits cfg.defs) ||| diffBits cfg.defs := by
  unfold performRecognition
  refine perform_forall cfg (fun it => ∀ s rungs, it = .folded s rungs →
      ∃ a rs, rungs = rs.map (·.instr) ∧ 2 ≤ rs.length ∧ Chain cfg.defs a 0 false rs ∧ 4 ≤ numDifficulties rs ∧
        numDifficulties rs ≤ 8 ∧ s.mask = (a.mask &&& auxBits cfg.defs) ||| diffBits cfg.defs) ?_ ?_ is.length is
  · intro i s rungs h; cases h
  · intro l s rungs hrec s' rungs' he
    cases he
    obtain ⟨a, tl0, rs, tl, hl, hr, htl, hlen, hchain, hnum, hparts, ht, hlab, hk, ho, hfx, hm, _⟩ := fold_spec hrec
    have hne : rs ≠ [] := by intro h0; simp [h0] at hlen
    obtain ⟨rl, hrl, hrln⟩ := numDifficulties_mem rs hne
    exact ⟨a, rs, hr, hlen, hchain, hnum, by rw [hrln]; exact (chain_bounds hchain rl hrl).2.2, hm⟩

theorem fold_head {cfg : Cfg} {i : RInstr} {rest : List RInstr} {s : RStmt} {rungs : List RInstr}
    (h : recognizeDiffSwitch cfg (i :: rest) = some (s, rungs)) : s.kind = i.kind ∧ s.opcode = i.opcode := by
  obtain ⟨a, tl0, rs, tl, hl, hr, htl, hlen, hchain, hnum, hparts, ht, hlab, hk, ho, _⟩ := fold_spec h
  have : i = a := (List.cons.inj hl).1
  subst this
  exact ⟨hk, ho⟩

theorem lowerStmts_singles (d : Defs) {α} (l : List α) (f : α → RStmt) (g : α → Raw)
    (h : ∀ x ∈ l, lowerStmt d (f x) = .ok [g x]) : lowerStmts d (l.map f) = .ok (l.map g) := by
  induction l with
  | nil => rfl
  | cons x l ih =>
    have h1 := h x (by simp)
    have h2 := ih (fun y hy => h y (by simp [hy]))
    simp [lowerStmts, h1, h2]

/-- a fold that cannot be printed as one statement: its fallback - every gathered instruction as
`ins_N(..)` under its OWN difficulty mask, the label once in front - compiles back to the gathered
instructions -/
theorem fold_fallback_lowers (cfg : Cfg) (hinv : Inv cfg.defs) (l : List RInstr) (s : RStmt) (rungs : List RInstr)
    (h : recognizeDiffSwitch cfg l = some (s, rungs)) (hcan : canRaise cfg s.kind s.opcode = false) :
    lowerStmts cfg.defs (render cfg (.folded s rungs)) = .ok (rungs.map (·.raw)) := by
  obtain ⟨a, tl0, rs, tl, hl, hr, htl, hlen, hchain, hnum, hparts, ht, hlab, _⟩ := fold_spec h
  cases hchain with
  | nil => simp at hlen
  | @cons _ _ r0 rs1 h1 h2 h3 h4 h5 h6 h7 h8 hc =>
    have ha : r0.instr = a := by
      rw [hl, hr] at htl
      simp only [List.map_cons, List.cons_append] at htl
      exact (List.cons.inj htl).1.symm
    have hrest : ∀ r ∈ rs1.map (·.instr), r.label = false := by
      intro r hr'
      obtain ⟨q, hq, rfl⟩ := List.mem_map.mp hr'
      exact chain_tail_nolabel hc q hq
    have hrung : rungs = r0.instr :: rs1.map (·.instr) := by rw [hr]; rfl
    simp only [render, hcan, Bool.false_eq_true, if_false, hrung, List.map_cons]
    have hfirst : lowerStmt cfg.defs { plainStmt r0.instr with kind := .ins, label := s.label } = .ok [r0.instr.raw] := by
      have := lowerStmt_plain_lab cfg.defs hinv r0.instr .ins s.label
      rw [this, hlab, ← ha]; rfl
    have hothers := lowerStmts_singles cfg.defs (rs1.map (·.instr))
      (fun r => { plainStmt r with kind := .ins, label := false }) (fun r => r.raw)
      (fun r hr' => by
        have := lowerStmt_plain_lab cfg.defs hinv r .ins false
        rw [this, ← hrest r hr']; rfl)
    have hone : lowerStmts cfg.defs [{ plainStmt r0.instr with kind := .ins, label := s.label }] = .ok [r0.instr.raw] := by
      simp [lowerStmts, hfirst]
    have := lowerStmts_append cfg.defs _ _ _ _ hone hothers
    simpa using this

theorem perform_sound (cfg : Cfg) (hinv : Inv cfg.defs) (fuel : Nat) (is : List RInstr) (hf : is.length ≤ fuel) :
    lowerStmts cfg.defs ((performGo cfg fuel is).flatMap (render cfg)) = .ok (is.map (·.raw)) := by
  induction fuel generalizing is with
  | zero => have : is = [] := List.length_eq_zero_iff.mp (by omega)
            subst this; rfl
  | succ fuel ih =>
    cases is with
    | nil => rfl
    | cons i rest =>
      simp only [performGo]
      split
      · rename_i s rungs hrec
        obtain ⟨⟨tl, htl⟩, hrl, hlow⟩ := fold_lowers cfg hinv (i :: rest) s rungs hrec
        have hdrop : (i :: rest).drop rungs.length = tl := by rw [htl]; simp
        have ihtl := ih tl (by
          have := congrArg List.length htl
          simp only [List.length_cons, List.length_append] at this hf
          omega)
        rw [hdrop, List.flatMap_cons]
        have hone : lowerStmts cfg.defs (render cfg (.folded s rungs)) = .ok (rungs.map (·.raw)) := by
          cases hcan : canRaise cfg s.kind s.opcode with
          | true => simp [render, hcan, lowerStmts, hlow]
          | false => exact fold_fallback_lowers cfg hinv _ s rungs hrec hcan
        have := lowerStmts_append cfg.defs _ _ _ _ hone ihtl
        rw [this, htl]; simp
      · have ihr := ih rest (by simpa using hf)
        rw [List.flatMap_cons]
        have hone : lowerStmts cfg.defs (render cfg (.plain i)) = .ok [i.raw] := by
          simp only [render]
          split
          · have h2 : lowerStmt cfg.defs (plainStmt i) = .ok [i.raw] := lowerStmt_plain cfg.defs hinv i i.kind
            simp [lowerStmts, h2]
          · simp [lowerStmts, lowerStmt_plain cfg.defs hinv i .ins]
        have := lowerStmts_append cfg.defs _ _ _ _ hone ihr
        rw [this]; simp

/-- **the round trip at this layer** (C01 / C14), unconditional: for every flag table satisfying the
invariant and EVERY instruction list, compiling the decompiled statements - difficulty label printed
and parsed, switches elaborated by `expand` - gives back the instruction list: same instructions in
the same order with the same times, masks, labels, parts and argument bit patterns, *whatever the
raiser decided to fold*, whether or not an intrinsic has statement syntax, whatever the float
arguments are.  (Before commit b717bca two hypotheses were needed and necessary: see
`unraisable_ladder_roundtrips`, `signed_zero_ladder_roundtrips`.) -/
theorem recognize_sound (cfg : Cfg) (hinv : Inv cfg.defs) (is : List RInstr) :
    lowerStmts cfg.defs (recognize cfg is) = .ok (is.map (·.raw)) :=
  perform_sound cfg hinv is.length is (Nat.le_refl _)

/-! non-vacuity, and the inputs of the two former findings -/

def cfgI : Cfg := { defs := defaultDefs, isFloat := fun _ _ => false, raisable := fun _ => true }
def cfgF : Cfg := { defs := defaultDefs, isFloat := fun _ k => k == 1, raisable := fun _ => true }
def cfgU : Cfg := { defs := defaultDefs, isFloat := fun _ _ => false, raisable := fun _ => false }

def rung (t : Int32) (lab : Bool) (kind : Kind) (op : Nat) (m : Mask) (args : List Int32) : RInstr :=
  { time := t, opcode := op, mask := m, label := lab, kind := kind, fixed := [], args := args }

/-- `ins_1002(a, 7)` once per difficulty group E / N / HL, a label in front of the first, then the
same instruction for difficulty 4 after a time change -/
def ladderI : List RInstr :=
  [rung 10 true .ins 1002 0b0001#8 [1, 7], rung 10 false .ins 1002 0b0010#8 [2, 7], rung 10 false .ins 1002 0b1100#8 [3, 7],
   rung 20 false .ins 1002 0b10000#8 [4, 7]]

example : recognize cfgI ladderI =
    [{ time := 10, label := true, mask := 0xFF#8, kind := .ins, opcode := 1002, fixed := [],
       args := [.sw [some 1, some 2, some 3, none], .one 7] },
     { time := 20, label := false, mask := 0b10000#8, kind := .ins, opcode := 1002, fixed := [], args := [.one 4, .one 7] }] := by decide

example : lowerStmts cfgI.defs (recognize cfgI ladderI) = .ok (ladderI.map (·.raw)) :=
  recognize_sound cfgI inv_default ladderI

-- nothing is folded across the label / across a non-contiguous mask / when the first mask does not start at difficulty 0
example : (recognize cfgI [rung 0 false .ins 1001 1#8 [1], rung 0 false .ins 1001 2#8 [2], rung 0 true .ins 1001 4#8 [3],
    rung 0 false .ins 1001 8#8 [4]]).length = 4 := by decide
example : (recognize cfgI [rung 0 false .ins 1001 0b0101#8 [1], rung 0 false .ins 1001 0b0010#8 [2],
    rung 0 false .ins 1001 0b1000#8 [3]]).length = 3 := by decide
example : (recognize cfgI [rung 0 false .ins 1001 2#8 [1], rung 0 false .ins 1001 4#8 [2], rung 0 false .ins 1001 8#8 [3],
    rung 0 false .ins 1001 16#8 [4]]).length = 4 := by decide

/-- four `ins_1006(int, float)` for E / N / H / L whose float argument alternates `0.0` / `-0.0` -/
def zeroLadder : List RInstr :=
  [rung 0 false .ins 1006 1#8 [1, 0], rung 0 false .ins 1006 2#8 [2, -2147483648],
   rung 0 false .ins 1006 4#8 [3, 0], rung 0 false .ins 1006 8#8 [4, -2147483648]]

/-- **the input of the former finding `diff-switch-fold-merges-signed-float-zeros` round-trips**:
the float column `0.0 / -0.0 / 0.0 / -0.0` is no constant (its cases are compared by their bits), so
it stays a switch and every difficulty gets its own zero back.  (With `f32 ==` the fold kept `.one 0`
and this was the witness `recognize_unsound_signed_zero` against an unconditional `recognize_sound`.) -/
theorem signed_zero_ladder_roundtrips :
    recognize cfgF zeroLadder =
      [{ time := 0, label := false, mask := 0xFF#8, kind := .ins, opcode := 1006, fixed := [],
         args := [.sw [some 1, some 2, some 3, some 4], .sw [some 0, some (-2147483648), some 0, some (-2147483648)]] }] ∧
    lowerStmts cfgF.defs (recognize cfgF zeroLadder) = .ok (zeroLadder.map (·.raw)) := by decide

/-- a column of one NaN pattern is a constant now (a NaN has the same bits as itself) -/
example : recognize cfgF [rung 0 false .ins 1006 1#8 [1, 0x7fc00000], rung 0 false .ins 1006 2#8 [2, 0x7fc00000],
    rung 0 false .ins 1006 4#8 [3, 0x7fc00000], rung 0 false .ins 1006 8#8 [4, 0x7fc00000]] =
      [{ time := 0, label := false, mask := 0xFF#8, kind := .ins, opcode := 1006, fixed := [],
         args := [.sw [some 1, some 2, some 3, some 4], .one 0x7fc00000] }] := by decide

/-- four copies of an intrinsic without statement syntax (EoSD `cmp_int`, `CondJmp2A`) for E / N / H / L -/
def cmpLadder : List RInstr :=
  [rung 0 false .intr 27 1#8 [1, 10], rung 0 false .intr 27 2#8 [2, 10],
   rung 0 false .intr 27 4#8 [3, 10], rung 0 false .intr 27 8#8 [4, 10]]

/-- **the input of the former finding `diff-switch-fold-of-unraisable-intrinsic-loses-difficulty`
round-trips**: the fold succeeds, the folded statement cannot be printed, and its fallback prints the
four instructions under their own masks E / N / H / L.  (When the fallback used the mask of the fold
this was the witness `recognize_unsound_unraisable`.) -/
theorem unraisable_ladder_roundtrips :
    (performRecognition cfgU cmpLadder).length = 1 ∧
    (recognize cfgU cmpLadder).map (·.mask) = [1#8, 2#8, 4#8, 8#8] ∧
    lowerStmts cfgU.defs (recognize cfgU cmpLadder) = .ok (cmpLadder.map (·.raw)) := by decide

-- with statement syntax (or as plain `ins_27`) the same ladder round-trips
example : lowerStmts cfgI.defs (recognize cfgI cmpLadder) = .ok (cmpLadder.map (·.raw)) :=
  recognize_sound cfgI inv_default cmpLadder


/-! ### the inverse direction: which statements the raiser recovers from their expansion -/

/-- value of a statement argument at (explicit) difficulty `d` -/
def argAt : RArg → Nat → Int32
  | .one v, _ => v
  | .sw cs, d => ((cs[d]?).join).getD 0

/-- The statements `recognize_diff_switch` recovers (`recognize_expand`); every fold has this shape
(compared on every run, not proved): the label selects every difficulty (`allDiff`); the switches have
`n` cases, `4 ≤ n ≤ 8`, and difficulties `0 .. n` are difficulty bits of the table; every switch has
a case exactly at the difficulties `E` (0 among them, at least two); the explicit cases of a switch
are not all the same bit pattern as its first case; at least one argument is a switch.  Everything else is *deliberately* left unfolded or
comes back in this normal form: fewer than four difficulties, a label that excludes a difficulty,
holes in one switch where another has a case (`(1:2:3:4)` next to `(5::6:)` comes back as
`(5:5:6:6)`), a switch whose cases are all equal (comes back as a plain value). -/
structure Canonical (cfg : Cfg) (n : Nat) (E : Mask) (s : RStmt) : Prop where
  n4 : 4 ≤ n
  n8 : n ≤ 8
  diffRun : ∀ j, j < n → (auxBits cfg.defs).getLsbD j = false
  allDiff : s.mask &&& diffBits cfg.defs = diffBits cfg.defs
  e0 : E.getLsbD 0 = true
  eLt : ∀ i, i < 8 → E.getLsbD i = true → i < n
  two : 2 ≤ (bitsOf E).length
  someSw : s.args.any RArg.isSw = true
  swOk : ∀ k cs, s.args[k]? = some (.sw cs) → cs.length = n ∧ (∀ i, i < n → (cs[i]?).join.isSome = E.getLsbD i) ∧
    ((bitsOf E).map (argAt (.sw cs))).all (fun c => valEq cfg s.opcode k c (argAt (.sw cs) 0)) = false

/-- the copy of a statement for the difficulties `r.1 .. r.2` -/
def mkI (cfg : Cfg) (s : RStmt) (lab : Bool) (r : Nat × Nat) : RInstr :=
  { time := s.time, opcode := s.opcode, label := lab, kind := s.kind, fixed := s.fixed,
    mask := rangeMask r.1 r.2 ||| (s.mask &&& auxBits cfg.defs), args := s.args.map (argAt · r.1) }

/-- the instructions a canonical statement compiles to (`lowerStmt_canonical`): one per explicit
difficulty, covering the difficulties up to the next one -/
def compiledOf (cfg : Cfg) (n : Nat) (E : Mask) (s : RStmt) : List RInstr :=
  match ranges (bitsOf E ++ [n]) with
  | [] => []
  | r0 :: rest => mkI cfg s s.label r0 :: rest.map (mkI cfg s false)

/-- consecutive ranges from `a` to `e` -/
inductive Consec : Nat → Nat → List (Nat × Nat) → Prop where
  | nil {a} : Consec a a []
  | cons {a b e rest} : a < b → Consec b e rest → Consec a e ((a, b) :: rest)

theorem ranges_consec : ∀ (l : List Nat) (a e : Nat), (a :: (l ++ [e])).Pairwise (· < ·) →
    Consec a e (ranges (a :: (l ++ [e])))
  | [], a, e, h => by
    have : a < e := by simpa using h
    simpa [ranges] using Consec.cons this .nil
  | b :: l, a, e, h => by
    have hp := List.pairwise_cons.mp h
    simp only [List.cons_append, ranges]
    exact .cons (hp.1 b (by simp)) (ranges_consec l b e hp.2)

theorem consec_le {a e rr} (h : Consec a e rr) : a ≤ e := by
  induction h with
  | nil => exact Nat.le_refl _
  | cons h1 _ ih => omega

theorem ranges_fst : ∀ (l : List Nat) (e : Nat), (ranges (l ++ [e])).map (·.1) = l
  | [], e => by simp [ranges]
  | [a], e => by simp [ranges]
  | a :: b :: l, e => by
    have := ranges_fst (b :: l) e
    simp only [List.cons_append, ranges, List.map_cons] at this ⊢
    rw [this]

theorem ofList_bitsOf (E : Mask) : (bitsOf E).foldl (fun m i => setBit m i true) 0#8 = E := by
  apply mask_ext
  intro j hj
  rw [getLsbD_foldl_setBit _ _ _ _ hj]
  by_cases h : E.getLsbD j = true
  · simp [mem_bitsOf, hj, h]
  · simp [mem_bitsOf, hj, h]

theorem lookup_zip_self_map {β} (l : List Nat) (f : Nat → β) (i : Nat) :
    (l.zip (l.map f)).lookup i = if i ∈ l then some (f i) else none := by
  induction l with
  | nil => simp
  | cons x l ih =>
    simp only [List.map_cons, List.zip_cons_cons, List.lookup_cons, List.mem_cons]
    by_cases h : i = x
    · subst h; simp
    · have : (i == x) = false := by simp [h]
      simp only [this, h, false_or]
      exact ih

/-- the converse of `gather_chain`: instructions satisfying the loop's conditions are all gathered -/
theorem gather_of_chain (d : Defs) (first : RInstr) (tail : List RInstr) {next nz rs} (h : Chain d first next nz rs)
    (cnt : Nat) (hnz : nz = decide (0 < cnt)) (e : Nat)
    (he : e = (match rs.getLast? with | some r => r.stop | none => next))
    (htail : ∀ c, gather d first tail e c = []) :
    gather d first (rs.map (·.instr) ++ tail) next cnt = rs := by
  induction h generalizing cnt with
  | nil => simp at he; subst he; simpa using htail cnt
  | @cons next nz r rs h1 h2 h3 h4 h5 h6 h7 h8 hc ih =>
    subst h1
    obtain ⟨f1, f2, f3⟩ := range_fin r.start (by omega) r.stop (by omega) h2
    have hl : r.instr.label = false ∨ cnt = 0 := by
      by_cases hc0 : cnt = 0
      · exact .inr hc0
      · exact .inl (h8 (by rw [hnz]; simp; omega))
    have hlab : (decide (0 < cnt) && r.instr.label) = false := by
      rcases hl with e1 | e1
      · simp [e1]
      · simp [e1]
    have hsk : (!sameKind r.instr first || r.instr.time != first.time) = false := by simp [h6, h7]
    simp only [List.map_cons, List.cons_append, gather, h5, bne_self_eq_false, hlab, hsk, h4, f1, f2, f3,
      Bool.false_eq_true, if_false, beq_self_eq_true, Bool.and_self, Bool.not_true]
    have hstop : r.start + (r.stop - r.start) = r.stop := by omega
    rw [hstop]
    have hrec := ih (cnt + 1) (by simp) (by
      cases rs with
      | nil => simp at he ⊢; exact he
      | cons q qs =>
        rw [List.getLast?_cons_cons] at he
        cases hq : (q :: qs).getLast? with
        | none => simp at hq
        | some x => simpa [hq] using he)
    rw [hrec]

theorem tail_stops (d : Defs) (first : RInstr) (tail : List RInstr) (n : Nat)
    (h : ∀ t, tail.head? = some t → firstBit (diffPart d t.mask) ≠ some n) : ∀ c, gather d first tail n c = [] := by
  intro c
  cases tail with
  | nil => rfl
  | cons t rest =>
    have := h t rfl
    simp only [gather]
    split
    · rfl
    · split
      · rfl
      · split
        · rfl
        · have hb : (firstBit (diffPart d t.mask) == some n) = false := by simpa using this
          simp [hb]

section Canon
variable {cfg : Cfg} {n : Nat} {E : Mask} {s : RStmt}

theorem range_no_aux (hc : Canonical cfg n E s) (a b j : Nat) (hj : j < 8) (hb : b ≤ n)
    (h : (rangeMask a b).getLsbD j = true) : (auxBits cfg.defs).getLsbD j = false := by
  rw [rangeMask_get _ _ _ hj] at h
  simp only [Bool.and_eq_true, decide_eq_true_eq] at h
  exact hc.diffRun j (by omega)

/-- what the loop needs to know about one compiled copy -/
theorem mkI_facts (hc : Canonical cfg n E s) (lab lab0 : Bool) (r r0 : Nat × Nat) (hb : r.2 ≤ n) :
    (mkI cfg s lab r).mask &&& auxBits cfg.defs = (mkI cfg s lab0 r0).mask &&& auxBits cfg.defs ∨ ¬ r0.2 ≤ n := by
  by_cases hb0 : r0.2 ≤ n
  · left
    apply mask_ext
    intro j hj
    simp only [mkI, BitVec.getLsbD_and, BitVec.getLsbD_or]
    have h1 := fun h => range_no_aux hc r.1 r.2 j hj hb h
    have h2 := fun h => range_no_aux hc r0.1 r0.2 j hj hb0 h
    cases hr : (rangeMask r.1 r.2).getLsbD j <;> cases hr0 : (rangeMask r0.1 r0.2).getLsbD j <;>
      cases ha : (auxBits cfg.defs).getLsbD j <;> simp_all
  · exact .inr hb0

theorem mkI_diffPart (hc : Canonical cfg n E s) (lab : Bool) (r : Nat × Nat) (hb : r.2 ≤ n) :
    diffPart cfg.defs (mkI cfg s lab r).mask = rangeMask r.1 r.2 := by
  apply mask_ext
  intro j hj
  simp only [mkI, diffPart, BitVec.getLsbD_xor, BitVec.getLsbD_and, BitVec.getLsbD_or]
  have h1 := fun h => range_no_aux hc r.1 r.2 j hj hb h
  cases hr : (rangeMask r.1 r.2).getLsbD j <;> cases ha : (auxBits cfg.defs).getLsbD j <;>
    cases hm : s.mask.getLsbD j <;> simp_all

theorem mkI_sameKind (lab lab0 : Bool) (r r0 : Nat × Nat) : sameKind (mkI cfg s lab r) (mkI cfg s lab0 r0) = true := by
  simp [sameKind, mkI]

/-- the compiled copies of a run of consecutive ranges satisfy the loop invariant -/
theorem chain_of_consec (hc : Canonical cfg n E s) (first : RInstr) (lab0 : Bool) (r0 : Nat × Nat) (h0 : r0.2 ≤ n)
    (hfirst : first = mkI cfg s lab0 r0) {a e rr} (h : Consec a e rr) (he : e ≤ n) :
    Chain cfg.defs first a true (rr.map fun r => ⟨r.1, r.2, mkI cfg s false r⟩) := by
  induction h with
  | nil => exact .nil
  | @cons a b e rest hab hrest ih =>
    have hbn : b ≤ n := by have := consec_le hrest; omega
    simp only [List.map_cons]
    refine .cons rfl hab (by show b ≤ 8; have := hc.n8; omega) (mkI_diffPart hc false (a, b) hbn) ?_ ?_ ?_ (fun _ => rfl) (ih he)
    · rcases mkI_facts hc false lab0 (a, b) r0 hbn with h | h
      · rw [hfirst]; exact h
      · exact absurd h0 h
    · rw [hfirst]; exact mkI_sameKind _ _ _ _
    · rw [hfirst]; rfl

theorem consec_num {a e rr} (h : Consec a e rr) (f : Nat × Nat → RInstr) (hne : rr ≠ []) :
    numDifficulties (rr.map fun r => ⟨r.1, r.2, f r⟩) = e := by
  induction h with
  | nil => exact absurd rfl hne
  | @cons a b e rest hab hrest ih =>
    cases hrest with
    | nil => simp [numDifficulties]
    | @cons _ c _ rest' hbc hr' =>
      have := ih (by simp)
      simp only [List.map_cons] at this ⊢
      rw [numDifficulties_cons]
      exact this

end Canon

/-- `recognize_diff_switch` succeeds with the gathered instructions `rs` when its tests pass -/
theorem recognizeDiffSwitch_eq (cfg : Cfg) (a b : RInstr) (rest : List RInstr) (rs : List Rung)
    (hk : sameKind a b = true) (ht : a.time = b.time) (hm : a.mask ≠ 0xFF#8)
    (hg : gather cfg.defs a (a :: b :: rest) 0 0 = rs) (hlen : 2 ≤ rs.length) (hnum : 4 ≤ numDifficulties rs)
    (hparts : rs.all (fun r => partsAgree a r.instr) = true) (hany : (foldedArgs cfg a rs).any RArg.isSw = true) :
    recognizeDiffSwitch cfg (a :: b :: rest) = some (
      { time := a.time, label := a.label, kind := a.kind, opcode := a.opcode, fixed := a.fixed, args := foldedArgs cfg a rs,
        mask := (a.mask &&& auxBits cfg.defs) ||| diffBits cfg.defs }, rs.map (·.instr)) := by
  have h1 : ¬ rs.length < 2 := by omega
  have h2 : ¬ numDifficulties rs < 4 := by omega
  simp [recognizeDiffSwitch, hk, ht, hm, hg, h1, h2, switchifyParts, hparts, hany]

section Canon2
variable {cfg : Cfg} {n : Nat} {E : Mask} {s : RStmt}

theorem canonical_starts (hc : Canonical cfg n E s) : ∃ b0 st, bitsOf E = 0 :: b0 :: st := by
  have h0 : 0 ∈ bitsOf E := (mem_bitsOf E 0).mpr ⟨by omega, hc.e0⟩
  have hs := bitsOf_sorted E
  cases hb : bitsOf E with
  | nil => rw [hb] at h0; simp at h0
  | cons x rest =>
    rw [hb] at h0 hs
    have hx : x = 0 := by
      rcases List.mem_cons.mp h0 with e | e
      · exact e.symm
      · have := (List.pairwise_cons.mp hs).1 0 e; omega
    cases rest with
    | nil => have := hc.two; rw [hb] at this; simp at this
    | cons b0 st => exact ⟨b0, st, by rw [hx]⟩

theorem switch_rebuild (hc : Canonical cfg n E s) (k : Nat) (cs : List (Option Int32)) (h : s.args[k]? = some (.sw cs)) :
    switchFromExplicit n E ((bitsOf E).map (argAt (.sw cs))) = cs := by
  obtain ⟨hlen, hsome, _⟩ := hc.swOk k cs h
  apply List.ext_getElem?
  intro i
  by_cases hi : i < n
  · simp only [switchFromExplicit, List.getElem?_map, List.getElem?_range hi, Option.map_some, lookup_zip_self_map]
    have hi8 : i < 8 := by have := hc.n8; omega
    have hs := hsome i hi
    have hget : cs[i]? = some cs[i] := List.getElem?_eq_getElem (by omega)
    rw [hget] at hs ⊢
    simp only [Option.join_some] at hs
    by_cases hb : E.getLsbD i = true
    · have hmem : i ∈ bitsOf E := (mem_bitsOf E i).mpr ⟨hi8, hb⟩
      rw [hb] at hs
      obtain ⟨v, hv⟩ := Option.isSome_iff_exists.mp hs
      simp [hmem, argAt, hget, hv]
    · have hmem : i ∉ bitsOf E := fun hm => hb ((mem_bitsOf E i).mp hm).2
      have hb' : E.getLsbD i = false := by simpa using hb
      rw [hb'] at hs
      have : cs[i] = none := by simpa using hs
      simp [hmem, this]
  · have h1 : (switchFromExplicit n E ((bitsOf E).map (argAt (.sw cs))))[i]? = none := by
      simp [switchFromExplicit]; omega
    have h2 : cs[i]? = none := by simp; omega
    rw [h1, h2]

/-- **`recognize_expand`**: the raiser recovers every canonical statement from the instructions it
compiles to - whatever follows them, as long as the next instruction does not continue the ladder
(its difficulty part does not start at difficulty `n`). -/
theorem recognize_expand (cfg : Cfg) (n : Nat) (E : Mask) (s : RStmt) (hc : Canonical cfg n E s) (tail : List RInstr)
    (htail : ∀ t, tail.head? = some t → firstBit (diffPart cfg.defs t.mask) ≠ some n) :
    recognizeDiffSwitch cfg (compiledOf cfg n E s ++ tail) = some (s, compiledOf cfg n E s) := by
  obtain ⟨b0, st, hst⟩ := canonical_starts hc
  have hsorted : (0 :: b0 :: (st ++ [n])).Pairwise (· < ·) := by
    have h1 := bitsOf_sorted E
    rw [hst] at h1
    have h2 : ∀ x ∈ (0 :: b0 :: st), x < n := by
      intro x hx
      rw [← hst] at hx
      have := (mem_bitsOf E x).mp hx
      exact hc.eLt x this.1 this.2
    have : (0 :: b0 :: (st ++ [n])) = (0 :: b0 :: st) ++ [n] := by simp
    rw [this]
    exact List.pairwise_append.mpr ⟨h1, by simp, fun a ha b hb => by simp at hb; subst hb; exact h2 a ha⟩
  have hp0 := List.pairwise_cons.mp hsorted
  have hb0pos : 0 < b0 := hp0.1 b0 (by simp)
  have hcons : Consec b0 n (ranges (b0 :: (st ++ [n]))) := ranges_consec st b0 n hp0.2
  have hb0n : b0 ≤ n := consec_le hcons
  have hn8 := hc.n8
  have hR : ranges (bitsOf E ++ [n]) = (0, b0) :: ranges (b0 :: (st ++ [n])) := by
    rw [hst]; simp [ranges]
  have hcomp : compiledOf cfg n E s = mkI cfg s s.label (0, b0) :: (ranges (b0 :: (st ++ [n]))).map (mkI cfg s false) := by
    unfold compiledOf; rw [hR]
  -- the second instruction exists
  obtain ⟨r1, R'', hR'⟩ : ∃ r1 R'', ranges (b0 :: (st ++ [n])) = r1 :: R'' := by
    cases st with
    | nil => exact ⟨(b0, n), [], by simp [ranges]⟩
    | cons x st' => exact ⟨(b0, x), ranges (x :: (st' ++ [n])), by simp [ranges]⟩
  generalize hfirst : mkI cfg s s.label (0, b0) = first at *
  let rs : List Rung := ⟨0, b0, first⟩ :: (ranges (b0 :: (st ++ [n]))).map (fun r => ⟨r.1, r.2, mkI cfg s false r⟩)
  have hchain : Chain cfg.defs first 0 false rs := by
    refine .cons rfl hb0pos (by show b0 ≤ 8; omega) ?_ rfl ?_ rfl (fun h => by cases h)
      (chain_of_consec hc first s.label (0, b0) hb0n hfirst.symm hcons (Nat.le_refl _))
    · show diffPart cfg.defs first.mask = rangeMask 0 b0
      rw [← hfirst]; exact mkI_diffPart hc s.label (0, b0) hb0n
    · show sameKind first first = true
      rw [← hfirst]; exact mkI_sameKind _ _ _ _
  have hnum : numDifficulties rs = n := by
    show numDifficulties (⟨0, b0, first⟩ :: (ranges (b0 :: (st ++ [n]))).map (fun r => ⟨r.1, r.2, mkI cfg s false r⟩)) = n
    have := consec_num hcons (mkI cfg s false) (by rw [hR']; simp)
    rw [hR'] at this ⊢
    simp only [List.map_cons] at this ⊢
    rw [numDifficulties_cons]; exact this
  have hinstrs : rs.map (·.instr) = compiledOf cfg n E s := by
    rw [hcomp]; simp [rs, List.map_map, Function.comp_def]
  have hg : gather cfg.defs first (compiledOf cfg n E s ++ tail) 0 0 = rs := by
    rw [← hinstrs]
    refine gather_of_chain cfg.defs first tail hchain 0 (by simp) n ?_ (tail_stops cfg.defs first tail n htail)
    have : rs.getLast? ≠ none := by simp [rs]
    cases hl : rs.getLast? with
    | none => exact absurd hl this
    | some r => simp only; rw [← hnum]; simp [numDifficulties, hl]
  -- the folded arguments are the statement's arguments
  have hstarts : rs.map (·.start) = bitsOf E := by
    have := ranges_fst (bitsOf E) n
    rw [hR] at this
    simp only [List.map_cons] at this
    simp [rs, List.map_map, Function.comp_def]
    rw [← this]
  have hexpl : explicitMask rs = E := by rw [explicitMask_eq, hstarts]; exact ofList_bitsOf E
  have hcol : ∀ k, column rs k = (bitsOf E).map (fun d => (s.args.map (argAt · d)).getD k 0) := by
    intro k
    rw [← hstarts]
    simp only [column, List.map_map, rs, List.map_cons, Function.comp_def]
    rw [← hfirst]
    simp [mkI]
  have hfargs : foldedArgs cfg first rs = s.args := by
    have hlen : first.args.length = s.args.length := by rw [← hfirst]; simp [mkI]
    have hop : first.opcode = s.opcode := by rw [← hfirst]; rfl
    unfold foldedArgs
    rw [hlen, hop, hnum, hexpl]
    apply List.ext_getElem
    · simp
    · intro k h1 h2
      simp only [List.getElem_map, List.getElem_range]
      rw [hcol k]
      have hget : s.args[k]? = some s.args[k] := List.getElem?_eq_getElem h2
      have hfun : (fun d => (s.args.map (argAt · d)).getD k 0) = argAt s.args[k] := by
        funext d
        simp [List.getD_eq_getElem?_getD, hget]
      rw [hfun]
      cases ha : s.args[k] with
      | one v =>
        rw [ha] at hget
        have hv := valEq_refl cfg s.opcode k v
        have hmapc : (bitsOf E).map (argAt (.one v)) = (bitsOf E).map (fun _ => v) := rfl
        unfold switchOrScalar
        rw [hmapc, hst]
        simp [hv]
      | sw cs =>
        rw [ha] at hget
        obtain ⟨_, _, hne⟩ := hc.swOk k cs hget
        have hhead : ((bitsOf E).map (argAt (.sw cs))).headD 0 = argAt (.sw cs) 0 := by rw [hst]; rfl
        unfold switchOrScalar
        rw [hhead, hne]
        simp only [Bool.false_eq_true, if_false]
        rw [switch_rebuild hc k cs hget]
  have hparts : rs.all (fun r => partsAgree first r.instr) = true := by
    apply List.all_eq_true.mpr
    intro r hr
    simp only [rs, List.mem_cons, List.mem_map] at hr
    rcases hr with e | ⟨q, _, e⟩
    · subst e; simp [partsAgree]
    · subst e; rw [← hfirst]; simp [partsAgree, mkI]
  have hmask : first.mask ≠ 0xFF#8 := by
    intro h
    have hb8 : b0 < 8 := by
      have : b0 < n := by
        have := (List.pairwise_cons.mp hp0.2).1 n (by simp); exact this
      omega
    have hbit := congrArg (·.getLsbD b0) h
    rw [← hfirst] at hbit
    simp only [mkI, BitVec.getLsbD_or, BitVec.getLsbD_and, rangeMask_get 0 b0 b0 hb8, ff_get b0 hb8] at hbit
    have hax := hc.diffRun b0 (by
      have := (List.pairwise_cons.mp hp0.2).1 n (by simp); exact this)
    simp [hax] at hbit
  -- assemble
  rw [hcomp, hR'] at hg ⊢
  simp only [List.map_cons, List.cons_append] at hg ⊢
  have := recognizeDiffSwitch_eq cfg first (mkI cfg s false r1) (R''.map (mkI cfg s false) ++ tail) rs
    (by rw [← hfirst]; exact mkI_sameKind _ _ _ _) (by rw [← hfirst]; rfl) hmask hg
    (by simp [rs, hR']) (by rw [hnum]; exact hc.n4) hparts (by rw [hfargs]; exact hc.someSw)
  rw [this, hfargs]
  have hs : (⟨first.time, first.label, (first.mask &&& auxBits cfg.defs) ||| diffBits cfg.defs, first.kind, first.opcode,
      first.fixed, s.args⟩ : RStmt) = s := by
    have hm : (first.mask &&& auxBits cfg.defs) ||| diffBits cfg.defs = s.mask := by
      apply mask_ext
      intro j hj
      have hall := congrArg (·.getLsbD j) hc.allDiff
      rw [← hfirst]
      simp only [mkI, BitVec.getLsbD_or, BitVec.getLsbD_and, diffBits, auxBits, BitVec.getLsbD_not, hj, decide_true,
        Bool.true_and] at hall ⊢
      have hr := fun h => range_no_aux hc 0 b0 j hj hb0n h
      simp only [auxBits] at hr
      cases hx : (rangeMask 0 b0).getLsbD j <;> cases hd : cfg.defs.defaultOn.getLsbD j <;>
        cases hmj : s.mask.getLsbD j <;> simp_all
    rw [hm, ← hfirst]
    cases s; rfl
  rw [hs]
  simp [rs, hR', List.map_map, Function.comp_def]

end Canon2

theorem compiledOf_args (cfg : Cfg) (n : Nat) (E : Mask) (s : RStmt) :
    (compiledOf cfg n E s).map (·.args) = (bitsOf E).map (fun d => s.args.map (argAt · d)) := by
  have h := ranges_fst (bitsOf E) n
  unfold compiledOf
  cases hR : ranges (bitsOf E ++ [n]) with
  | nil => rw [hR] at h; simp at h; simp [← h]
  | cons r0 rest =>
    rw [hR] at h
    rw [← h]
    simp [mkI, List.map_map, Function.comp_def]

theorem compiledOf_opcode (cfg : Cfg) (n : Nat) (E : Mask) (s : RStmt) : ∀ i ∈ compiledOf cfg n E s, i.opcode = s.opcode := by
  intro i hi
  unfold compiledOf at hi
  cases hR : ranges (bitsOf E ++ [n]) with
  | nil => rw [hR] at hi; simp at hi
  | cons r0 rest =>
    rw [hR] at hi
    simp only [List.mem_cons, List.mem_map] at hi
    rcases hi with e | ⟨q, _, e⟩ <;> subst e <;> rfl

/-- **a canonical statement compiles to `compiledOf`** (label printed and parsed, `expand`) - so
`recognize_expand` is about the image of `expand` -/
theorem lowerStmt_canonical (cfg : Cfg) (hinv : Inv cfg.defs) (n : Nat) (E : Mask) (s : RStmt) (hc : Canonical cfg n E s) :
    lowerStmt cfg.defs s = .ok ((compiledOf cfg n E s).map (·.raw)) := by
  have h := recognize_expand cfg n E s hc [] (by intro t ht; simp at ht)
  rw [List.append_nil] at h
  exact (fold_lowers cfg hinv _ s _ h).2.2

/-- more fuel than instructions changes nothing -/
theorem performGo_fuel2 (cfg : Cfg) (fuel : Nat) (l : List RInstr) (f2 : Nat) (h : l.length ≤ fuel) (h2 : l.length ≤ f2) :
    performGo cfg fuel l = performGo cfg f2 l := by
  induction fuel generalizing l f2 with
  | zero => have : l = [] := List.length_eq_zero_iff.mp (by omega)
            subst this; cases f2 <;> rfl
  | succ fuel ih =>
    cases l with
    | nil => cases f2 <;> rfl
    | cons i rest =>
      cases f2 with
      | zero => simp at h2
      | succ f2 =>
        simp only [performGo]
        split
        · rename_i s rungs hrec
          obtain ⟨a, tl0, rs, tl, hl, hr, htl, hlen, _⟩ := fold_spec hrec
          have hrl : 2 ≤ rungs.length := by rw [hr]; simpa using hlen
          have hdrop : (i :: rest).drop rungs.length = tl := by rw [htl]; simp
          have hlens : tl.length + rungs.length = rest.length + 1 := by
            have := congrArg List.length htl
            simp only [List.length_cons, List.length_append] at this
            omega
          simp only [List.length_cons] at h h2
          rw [hdrop, ih tl f2 (by omega) (by omega)]
        · simp only [List.length_cons] at h h2
          rw [ih rest f2 (by omega) (by omega)]

theorem performGo_fuel (cfg : Cfg) (fuel : Nat) (l : List RInstr) (h : l.length ≤ fuel) :
    performGo cfg fuel l = performGo cfg l.length l :=
  performGo_fuel2 cfg fuel l l.length h (Nat.le_refl _)

/-- **script level**: a script that starts with the expansion of a canonical statement decompiles
to that statement followed by the decompilation of the rest -/
theorem recognize_expand_script (cfg : Cfg) (n : Nat) (E : Mask) (s : RStmt) (hc : Canonical cfg n E s)
    (hraise : canRaise cfg s.kind s.opcode = true) (tail : List RInstr)
    (htail : ∀ t, tail.head? = some t → firstBit (diffPart cfg.defs t.mask) ≠ some n) :
    recognize cfg (compiledOf cfg n E s ++ tail) = s :: recognize cfg tail := by
  have h := recognize_expand cfg n E s hc tail htail
  unfold recognize performRecognition
  cases hl : compiledOf cfg n E s ++ tail with
  | nil => rw [hl] at h; simp [recognizeDiffSwitch] at h
  | cons i rest =>
    rw [hl] at h
    simp only [List.length_cons, performGo, h]
    have hdrop : (i :: rest).drop (compiledOf cfg n E s).length = tail := by rw [← hl]; simp
    have hlen : tail.length ≤ rest.length := by
      have := congrArg List.length hl
      have h2 : 2 ≤ (compiledOf cfg n E s).length := by
        obtain ⟨a, tl0, rs, tl, _, hr, _, hlen, _⟩ := fold_spec h
        rw [hr]; simpa using hlen
      simp only [List.length_cons, List.length_append] at this
      omega
    rw [hdrop, performGo_fuel cfg rest.length tail hlen]
    simp [render, hraise]

/-! non-vacuity of `Canonical` / `recognize_expand` -/

/-- `{label}: ins_1002((1 : 2 : 3 : ), 7)` at time 10 under the built-in table -/
def canonI : RStmt :=
  { time := 10, label := true, mask := 0xFF#8, kind := .ins, opcode := 1002, fixed := [],
    args := [.sw [some 1, some 2, some 3, none], .one 7] }

theorem canonI_canonical : Canonical cfgI 4 0b0111#8 canonI where
  n4 := by decide
  n8 := by decide
  diffRun := by decide
  allDiff := by decide
  e0 := by decide
  eLt := by decide
  two := by decide
  someSw := by decide
  swOk := by
    intro k cs h
    match k, h with
    | 0, h =>
      have : cs = [some 1, some 2, some 3, none] := by simpa [canonI] using h.symm
      subst this; decide
    | 1, h => simp [canonI] at h
    | k + 2, h => simp [canonI] at h

example : compiledOf cfgI 4 0b0111#8 canonI = ladderI.take 3 := by decide

example : recognize cfgI (ladderI.take 3 ++ [rung 10 false .ins 1002 0xFF#8 [9, 9]]) =
    canonI :: recognize cfgI [rung 10 false .ins 1002 0xFF#8 [9, 9]] :=
  recognize_expand_script cfgI 4 0b0111#8 canonI canonI_canonical rfl [rung 10 false .ins 1002 0xFF#8 [9, 9]] (by decide)

example : lowerStmt cfgI.defs canonI = .ok ((ladderI.take 3).map (·.raw)) :=
  lowerStmt_canonical cfgI inv_default 4 0b0111#8 canonI canonI_canonical

end TruthModel.C14
