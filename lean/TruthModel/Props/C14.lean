import TruthModel.Model.Diff
/-
C14 — difficulty labels and switches select exactly the stated difficulties.
-/
set_option linter.unusedSimpArgs false
namespace TruthModel.C14
open TruthModel TruthModel.Diff

/-! ### bit-level helpers (no `bv_decide`) -/

theorem getLsbD_setBit (m : Mask) (i : Nat) (on : Bool) (j : Nat) (hj : j < 8) :
    (setBit m i on).getLsbD j = if j = i then on else m.getLsbD j := by
  unfold setBit
  cases on <;> simp [BitVec.getLsbD_or, BitVec.getLsbD_and, BitVec.getLsbD_not, BitVec.getLsbD_shiftLeft, hj]
  all_goals (by_cases h : j = i <;> simp [h] <;> omega)

theorem getLsbD_foldl_setBit (L : List Nat) (on : Bool) (m : Mask) (j : Nat) (hj : j < 8) :
    (L.foldl (fun m i => setBit m i on) m).getLsbD j = if j ∈ L then on else m.getLsbD j := by
  induction L generalizing m with
  | nil => simp
  | cons i L ih =>
    simp only [List.foldl_cons, ih, getLsbD_setBit _ _ _ _ hj, List.mem_cons]
    by_cases h1 : j ∈ L <;> by_cases h2 : j = i <;> simp [h1, h2]

theorem mem_bitsOf (m : Mask) (i : Nat) : i ∈ bitsOf m ↔ i < 8 ∧ m.getLsbD i = true := by
  simp [bitsOf]

theorem mask_ext (a b : Mask) (h : ∀ j, j < 8 → a.getLsbD j = b.getLsbD j) : a = b :=
  BitVec.eq_of_getLsbD_eq (fun i hi => h i hi)


/-! ### label <-> mask -/

/-- The table invariant: every bit has a name, and looking that name up gives the bit back.
(`define_flag` can break it: see `inv_not_preserved`.) -/
structure Inv (d : Defs) : Prop where
  total : ∀ i, i < 8 → ∃ c, d.byFlag i = some c
  back : ∀ i c, i < 8 → d.byFlag i = some c → d.byName c = some i ∧ isFlagChar c = true

theorem flagChar_ne (c : Char) (h : isFlagChar c = true) : c ≠ '-' ∧ c ≠ '+' ∧ c ≠ '*' := by
  refine ⟨?_, ?_, ?_⟩ <;> (intro hc; subst hc; revert h; decide)

/-- `cs` are the by-flag names of the bits `L` -/
inductive Named (d : Defs) : List Nat → List Char → Prop where
  | nil : Named d [] []
  | cons {i c L cs} : d.byFlag i = some c → Named d L cs → Named d (i :: L) (c :: cs)

/-- `names` succeeds on bit lists under the invariant, and yields the by-flag names -/
theorem names_ok (d : Defs) (h : Inv d) (L : List Nat) (hL : ∀ i ∈ L, i < 8) :
    ∃ cs, names d L = .ok cs ∧ Named d L cs := by
  induction L with
  | nil => exact ⟨[], rfl, .nil⟩
  | cons i L ih =>
    obtain ⟨c, hc⟩ := h.total i (hL i (by simp))
    obtain ⟨cs, hcs, hf⟩ := ih (fun j hj => hL j (by simp [hj]))
    exact ⟨c :: cs, by simp [names, hc, hcs], .cons hc hf⟩

/-- parsing a run of flag names sets exactly those bits -/
theorem parseGo_names (d : Defs) (h : Inv d) (L : List Nat) (cs : List Char) (rest : List Char)
    (hL : ∀ i ∈ L, i < 8) (hf : Named d L cs) (out : Mask) (en : Bool) :
    parseGo d (cs ++ rest) out en = parseGo d rest (L.foldl (fun m i => setBit m i en) out) en := by
  induction hf generalizing out with
  | nil => rfl
  | @cons i c L cs hc _ ih =>
    have hb := h.back i c (hL i (by simp)) hc
    have hne := flagChar_ne c hb.2
    simp only [List.cons_append, parseGo, hne.1, hne.2.1, hne.2.2, if_false, hb.2, if_true, hb.1, List.foldl_cons]
    exact ih (fun j hj => hL j (by simp [hj])) _

theorem bitsOf_lt (m : Mask) : ∀ i ∈ bitsOf m, i < 8 := fun i hi => ((mem_bitsOf m i).mp hi).1

theorem ff_get : ∀ j, j < 8 → (0xFF#8 : Mask).getLsbD j = true := by decide

/-- per-bit form of the label/parse arithmetic -/
theorem parsed_bits (m dflt : Mask) (j : Nat) (hj : j < 8) :
    (~~~m &&& dflt).getLsbD j = (!m.getLsbD j && dflt.getLsbD j) ∧
    (m &&& ~~~dflt).getLsbD j = (m.getLsbD j && !dflt.getLsbD j) := by
  simp only [BitVec.getLsbD_and, BitVec.getLsbD_not, hj, decide_true, Bool.true_and, and_self]

/-- **every mask prints as a label that parses back to the same mask**, for all 256 masks and
every flag table satisfying the invariant (any names, any set of default-on bits). -/
theorem label_parse (d : Defs) (h : Inv d) (m : Mask) :
    ∃ s, label d m = .ok s ∧ parse d s = .ok m := by
  obtain ⟨as, has, hfa⟩ := names_ok d h (bitsOf (m &&& diffBits d)) (bitsOf_lt _)
  obtain ⟨bs, hbs, hfb⟩ := names_ok d h (bitsOf (~~~m &&& auxBits d)) (bitsOf_lt _)
  have hpa := fun rest out en => parseGo_names d h _ as rest (bitsOf_lt _) hfa out en
  have hpb := fun out en => parseGo_names d h _ bs [] (bitsOf_lt _) hfb out en
  simp only [List.append_nil] at hpb
  -- facts per bit
  have hstarBits : m &&& diffBits d = diffBits d → ∀ j, j < 8 → d.defaultOn.getLsbD j = false → m.getLsbD j = true := by
    intro hstar j hj hd
    have := congrArg (·.getLsbD j) hstar
    simp only [diffBits, (parsed_bits m d.defaultOn j hj).2, BitVec.getLsbD_not, hj, decide_true, Bool.true_and, hd] at this
    simpa using this
  have hdisBits : ~~~m &&& auxBits d = 0#8 → ∀ j, j < 8 → d.defaultOn.getLsbD j = true → m.getLsbD j = true := by
    intro hdis j hj hd
    have := congrArg (·.getLsbD j) hdis
    simp only [auxBits, (parsed_bits m d.defaultOn j hj).1, hd, BitVec.getLsbD_zero] at this
    simpa using this
  unfold label parse
  simp only [has, hbs]
  by_cases hstar : m &&& diffBits d = diffBits d
  · simp only [hstar, if_true]
    by_cases hdis : ~~~m &&& auxBits d = 0#8
    · refine ⟨['*'], by simp [hdis], ?_⟩
      have : parseGo d ['*'] d.defaultOn true = .ok (0xFF#8) := by simp [parseGo]
      rw [this]
      congr 1
      apply mask_ext
      intro j hj
      rw [ff_get j hj]
      cases hdj : d.defaultOn.getLsbD j
      · exact (hstarBits hstar j hj hdj).symm
      · exact (hdisBits hdis j hj hdj).symm
    · refine ⟨'*' :: '-' :: bs, by simp [hdis], ?_⟩
      have : parseGo d ('*' :: '-' :: bs) d.defaultOn true = parseGo d bs (0xFF#8) false := by simp [parseGo]
      rw [this, hpb]
      simp only [parseGo]
      congr 1
      apply mask_ext
      intro j hj
      rw [getLsbD_foldl_setBit _ _ _ _ hj, ff_get j hj]
      simp only [mem_bitsOf, hj, true_and, auxBits, (parsed_bits m d.defaultOn j hj).1]
      have hs := hstarBits hstar j hj
      generalize m.getLsbD j = mb at *
      generalize d.defaultOn.getLsbD j = db at *
      cases mb <;> cases db <;> simp_all
  · simp only [hstar, if_false]
    by_cases hdis : ~~~m &&& auxBits d = 0#8
    · refine ⟨as, by simp [hdis], ?_⟩
      have := hpa [] d.defaultOn true
      simp only [List.append_nil] at this
      rw [this]
      simp only [parseGo]
      congr 1
      apply mask_ext
      intro j hj
      rw [getLsbD_foldl_setBit _ _ _ _ hj]
      simp only [mem_bitsOf, hj, true_and, diffBits, (parsed_bits m d.defaultOn j hj).2]
      have hs := hdisBits hdis j hj
      generalize m.getLsbD j = mb at *
      generalize d.defaultOn.getLsbD j = db at *
      cases mb <;> cases db <;> simp_all
    · refine ⟨as ++ '-' :: bs, by simp [hdis], ?_⟩
      rw [hpa]
      have : ∀ out, parseGo d ('-' :: bs) out true = parseGo d bs out false := by intro out; simp [parseGo]
      rw [this, hpb]
      simp only [parseGo]
      congr 1
      apply mask_ext
      intro j hj
      rw [getLsbD_foldl_setBit _ _ _ _ hj, getLsbD_foldl_setBit _ _ _ _ hj]
      simp only [mem_bitsOf, hj, true_and, diffBits, auxBits, (parsed_bits m d.defaultOn j hj).1, (parsed_bits m d.defaultOn j hj).2]
      generalize m.getLsbD j = mb at *
      generalize d.defaultOn.getLsbD j = db at *
      cases mb <;> cases db <;> simp


example : label defaultDefs 0x0F#8 = .ok ['0', '1', '2', '3'] := by decide
example : parse defaultDefs ['0', '1', '2', '3'] = .ok 0x0F#8 := by decide

/-! ### which tables satisfy the invariant -/

theorem inv_default : Inv defaultDefs := by
  constructor
  · have : ∀ i, i < 8 → (defaultDefs.byFlag i).isSome = true := by decide
    intro i hi
    exact Option.isSome_iff_exists.mp (this i hi)
  · intro i c hi hc
    have : ∀ i, i < 8 → ∀ c, defaultDefs.byFlag i = some c → defaultDefs.byName c = some i ∧ isFlagChar c = true := by
      intro i hi
      have h8 : i = 0 ∨ i = 1 ∨ i = 2 ∨ i = 3 ∨ i = 4 ∨ i = 5 ∨ i = 6 ∨ i = 7 := by omega
      rcases h8 with h | h | h | h | h | h | h | h <;> subst h <;> intro c hc <;>
        (have : c = _ := (Option.some.inj hc).symm; subst this; decide)
    exact this i hi c hc

/-- `define_flag` keeps the invariant **provided the name is not currently the name of another
bit** (the guard the implementation does not have). -/
theorem defineFlag_inv (d d' : Defs) (name : Char) (index : Nat) (en : Bool) (h : Inv d)
    (guard : ∀ j, j < 8 → j ≠ index → d.byFlag j ≠ some name)
    (hd : defineFlag d name index en = .ok d') : Inv d' := by
  unfold defineFlag at hd
  split at hd
  · simp at hd
  · split at hd
    · simp at hd
    · rename_i hi hn
      simp at hd; subst hd
      simp at hn
      constructor
      · intro i hi8
        by_cases he : i = index
        · exact ⟨name, by simp [he]⟩
        · obtain ⟨c, hc⟩ := h.total i hi8
          exact ⟨c, by simp [he, hc]⟩
      · intro i c hi8 hc
        by_cases he : i = index
        · simp [he] at hc; subst hc; subst he; simp [hn]
        · simp [he] at hc
          have hb := h.back i c hi8 hc
          have hcn : c ≠ name := by intro hcn; subst hcn; exact guard i hi8 he hc
          simp [hcn, hb.1, hb.2]

-- the guard is satisfiable: naming bit 0 `E` on top of the default digit table
example : ∃ d', defineFlag defaultDefs 'E' 0 false = .ok d' ∧ Inv d' := by
  refine ⟨_, rfl, defineFlag_inv defaultDefs _ 'E' 0 false inv_default ?_ rfl⟩
  intro j hj hne
  have h8 : j = 1 ∨ j = 2 ∨ j = 3 ∨ j = 4 ∨ j = 5 ∨ j = 6 ∨ j = 7 := by omega
  rcases h8 with h | h | h | h | h | h | h <;> subst h <;> decide

/-- every accepted `!difficulty_flags` line keeps the invariant: `define_flag_from_mapfile` now
refuses a name that already names another flag, which is exactly the guard of `defineFlag_inv` -/
theorem defineFromMapfile_inv (d d' : Defs) (index : Int) (str : List Char) (h : Inv d)
    (hd : defineFromMapfile d index str = .ok d') : Inv d' := by
  unfold defineFromMapfile at hd
  split at hd
  · simp at hd
  · rename_i hidx
    split at hd
    · rename_i name sign
      split at hd
      · simp at hd
      · split at hd
        · simp at hd
        · split at hd
          · simp at hd
          · split at hd
            · simp at hd
            · rename_i hdup
              refine defineFlag_inv d d' name index.toNat _ h ?_ hd
              intro j hj hne hc
              apply hdup
              unfold namesOtherFlag
              apply List.any_eq_true.mpr
              exact ⟨j, by simp [hj], by simp [hne, hc]⟩
    · simp at hd

/-- tables a user can reach: the built-in digit table, extended by accepted mapfile lines -/
inductive Reachable : Defs → Prop where
  | default : Reachable defaultDefs
  | line {d d' : Defs} (index : Int) (str : List Char) :
      Reachable d → defineFromMapfile d index str = .ok d' → Reachable d'

theorem reachable_inv (d : Defs) (h : Reachable d) : Inv d := by
  induction h with
  | default => exact inv_default
  | line index str _ hd ih => exact defineFromMapfile_inv _ _ index str ih hd

theorem applyLines_reachable (d d' : Defs) (lines : List (Int × List Char)) (h : Reachable d)
    (ha : applyLines d lines = .ok d') : Reachable d' := by
  induction lines generalizing d with
  | nil => simp [applyLines] at ha; subst ha; exact h
  | cons l lines ih =>
    obtain ⟨i, s⟩ := l
    simp only [applyLines] at ha
    split at ha
    · rename_i d1 h1
      exact ih d1 (.line i s h h1) ha
    · simp at ha
    · simp at ha

/-- **label <-> mask round trip, unconditionally**: for every flag table that any sequence of
accepted `!difficulty_flags` lines produces from the built-in table, and for all 256 masks, the
mask prints as a label that parses back to the same mask. -/
theorem label_parse_reachable (d : Defs) (h : Reachable d) (m : Mask) :
    ∃ s, label d m = .ok s ∧ parse d s = .ok m :=
  label_parse d (reachable_inv d h) m

theorem label_parse_mapfile (lines : List (Int × List Char)) (d : Defs)
    (h : applyLines defaultDefs lines = .ok d) (m : Mask) :
    ∃ s, label d m = .ok s ∧ parse d s = .ok m :=
  label_parse_reachable d (applyLines_reachable _ _ lines .default h) m

example : ∃ d, applyLines defaultDefs [(0, ['E', '-']), (5, ['F', '+']), (0, ['X', '-'])] = .ok d ∧
    label d 0b00100001#8 = .ok ['X'] := by
  have key : (match applyLines defaultDefs [(0, ['E', '-']), (5, ['F', '+']), (0, ['X', '-'])] with
      | .ok d => label d 0b00100001#8 | _ => .err "") = .ok ['X'] := by decide
  cases hd : applyLines defaultDefs [(0, ['E', '-']), (5, ['F', '+']), (0, ['X', '-'])] with
  | ok d => rw [hd] at key; exact ⟨d, rfl, key⟩
  | err c => rw [hd] at key; simp at key
  | panic c => rw [hd] at key; simp at key

/-
Former witnesses of finding `diff-flag-name-at-two-indices` (fixed by commit 4145e06): before the
guard existed, the lines `0 E-`, `1 E-` were both accepted, after which mask 0b01 printed as "E",
which parsed to 0b10 (`inv_not_preserved`); likewise `0 1-` against the built-in digit name of
bit 1 (`inv_not_preserved_digit`).  Both inputs are rejected now:
-/
theorem dup_name_rejected :
    (applyLines defaultDefs [(0, ['E', '-']), (1, ['E', '-'])]).isOk = false ∧
    (applyLines defaultDefs [(0, ['1', '-'])]).isOk = false := by decide

/-! ### difficulty switches -/

def covers (r : Nat × Nat) (d : Nat) : Bool := decide (r.1 ≤ d) && decide (d < r.2)

theorem mem_ranges (l : List Nat) (r : Nat × Nat) (h : r ∈ ranges l) : r.1 ∈ l ∧ r.2 ∈ l := by
  induction l with
  | nil => simp [ranges] at h
  | cons a l ih =>
    cases l with
    | nil => simp [ranges] at h
    | cons b rest =>
      simp only [ranges, List.mem_cons] at h
      rcases h with h | h
      · subst h; simp
      · have := ih h
        exact ⟨List.mem_cons_of_mem _ this.1, List.mem_cons_of_mem _ this.2⟩

theorem ranges_lt (l : List Nat) (hs : l.Pairwise (· < ·)) (r : Nat × Nat) (h : r ∈ ranges l) : r.1 < r.2 := by
  induction l with
  | nil => simp [ranges] at h
  | cons a l ih =>
    cases l with
    | nil => simp [ranges] at h
    | cons b rest =>
      simp only [ranges, List.mem_cons] at h
      rcases h with h | h
      · subst h; exact (List.pairwise_cons.mp hs).1 b (by simp)
      · exact ih (List.pairwise_cons.mp hs).2 h

theorem ranges_none (stops : List Nat) (d : Nat) (h : ∀ s ∈ stops, s ≤ d) :
    (ranges stops).filter (covers · d) = [] := by
  apply List.filter_eq_nil_iff.mpr
  intro r hr
  have := h r.2 (mem_ranges _ _ hr).2
  simp [covers]; omega

theorem ranges_below (stops : List Nat) (d : Nat) (h : ∀ s ∈ stops, d < s) :
    (ranges stops).filter (covers · d) = [] := by
  apply List.filter_eq_nil_iff.mpr
  intro r hr
  have := h r.1 (mem_ranges _ _ hr).1
  simp [covers]; omega

/-- in a strictly increasing list of stops, a difficulty between the first stop and some later
stop lies in exactly one of the consecutive ranges, the one starting at the last stop `≤ d` -/
theorem ranges_cover (stops : List Nat) (hs : stops.Pairwise (· < ·)) (d : Nat)
    (h0 : ∀ s0, stops.head? = some s0 → s0 ≤ d) (h1 : ∃ s ∈ stops, d < s) :
    ∃ a b, (ranges stops).filter (covers · d) = [(a, b)] ∧ a ≤ d ∧ d < b ∧ a ∈ stops ∧
      ∀ s ∈ stops, s ≤ d → s ≤ a := by
  induction stops with
  | nil => simp at h1
  | cons a l ih =>
    cases l with
    | nil =>
      obtain ⟨s, hs1, hs2⟩ := h1
      simp at hs1; subst hs1
      have := h0 s rfl
      omega
    | cons b rest =>
      have ha := h0 a rfl
      have hp := List.pairwise_cons.mp hs
      by_cases hdb : d < b
      · refine ⟨a, b, ?_, ha, hdb, by simp, ?_⟩
        · simp only [ranges, List.filter_cons]
          have : covers (a, b) d = true := by simp [covers, ha, hdb]
          rw [this]
          simp only [if_true]
          rw [ranges_below (b :: rest) d]
          intro s hs'
          rcases List.mem_cons.mp hs' with h | h
          · omega
          · have := (List.pairwise_cons.mp hp.2).1 s h; omega
        · intro s hs' hsd
          rcases List.mem_cons.mp hs' with h | h
          · omega
          · rcases List.mem_cons.mp h with h | h
            · omega
            · have := (List.pairwise_cons.mp hp.2).1 s h; omega
      · have hbd : b ≤ d := by omega
        obtain ⟨a', b', hf, h1', h2', h3', h4'⟩ := ih hp.2 (by intro s0 hs0; simp at hs0; omega)
          (by
            obtain ⟨s, hs1, hs2⟩ := h1
            rcases List.mem_cons.mp hs1 with h | h
            · omega
            · exact ⟨s, h, hs2⟩)
        refine ⟨a', b', ?_, h1', h2', List.mem_cons_of_mem _ h3', ?_⟩
        · simp only [ranges, List.filter_cons]
          have : covers (a, b) d = false := by simp [covers]; omega
          rw [this]
          simpa using hf
        · intro s hs' hsd
          rcases List.mem_cons.mp hs' with h | h
          · have := h4' b (by simp) hbd
            have := hp.1 b (by simp)
            omega
          · exact h4' s h hsd

theorem rangeMask_get (a b j : Nat) (hj : j < 8) : (rangeMask a b).getLsbD j = (decide (a ≤ j) && decide (j < b)) := by
  unfold rangeMask
  rw [getLsbD_foldl_setBit _ _ _ _ hj]
  simp only [List.mem_range'_1, BitVec.getLsbD_zero]
  by_cases h1 : a ≤ j <;> by_cases h2 : j < b <;> simp [h1, h2] <;> omega

/-- one emitted copy for a range of difficulties (or none if the label excludes all of them) -/
def mkCopy (defs : Defs) (mask : Mask) (vsOf : Nat → List Int32) (r : Nat × Nat) : Option Copy :=
  if (mask &&& diffBits defs) &&& rangeMask r.1 r.2 = 0#8 then none
  else some ⟨((mask &&& diffBits defs) &&& rangeMask r.1 r.2) ||| (mask &&& auxBits defs), vsOf r.1⟩

theorem expandGo_eq (defs : Defs) (mask : Mask) (args : List Arg) (vsOf : Nat → List Int32) (rs : List (Nat × Nat))
    (h : ∀ r ∈ rs, selArgs r.1 args = .ok (vsOf r.1)) :
    expandGo defs mask args rs = .ok (rs.filterMap (mkCopy defs mask vsOf)) := by
  induction rs with
  | nil => rfl
  | cons r rs ih =>
    obtain ⟨a, b⟩ := r
    have ih' := ih (fun r hr => h r (List.mem_cons_of_mem _ hr))
    have ha := h (a, b) (by simp)
    simp only [expandGo, ih', ha, List.filterMap_cons, mkCopy]
    split <;> simp_all

theorem copy_bit (defs : Defs) (mask : Mask) (vsOf : Nat → List Int32) (r : Nat × Nat) (j : Nat) (hj : j < 8)
    (hdiff : (diffBits defs).getLsbD j = true) :
    (match mkCopy defs mask vsOf r with
      | none => (mask.getLsbD j && covers r j) = false
      | some c => c.mask.getLsbD j = (mask.getLsbD j && covers r j)) := by
  have hdef : defs.defaultOn.getLsbD j = false := by
    simpa [diffBits, BitVec.getLsbD_not, hj] using hdiff
  unfold mkCopy
  by_cases h0 : (mask &&& diffBits defs) &&& rangeMask r.1 r.2 = 0#8
  · simp only [h0, if_true]
    have := congrArg (·.getLsbD j) h0
    simp only [BitVec.getLsbD_and, hdiff, rangeMask_get _ _ _ hj, BitVec.getLsbD_zero, Bool.and_true] at this
    simpa [covers] using this
  · simp only [h0, if_false]
    simp only [BitVec.getLsbD_or, BitVec.getLsbD_and, hdiff, rangeMask_get _ _ _ hj, auxBits, hdef, covers,
      Bool.and_true, Bool.and_false, Bool.or_false]

theorem filter_copies (defs : Defs) (mask : Mask) (vsOf : Nat → List Int32) (rs : List (Nat × Nat)) (j : Nat)
    (hj : j < 8) (hdiff : (diffBits defs).getLsbD j = true) :
    (rs.filterMap (mkCopy defs mask vsOf)).filter (fun c => c.mask.getLsbD j) =
      (rs.filter (fun r => mask.getLsbD j && covers r j)).filterMap (mkCopy defs mask vsOf) := by
  induction rs with
  | nil => rfl
  | cons r rs ih =>
    have hb := copy_bit defs mask vsOf r j hj hdiff
    cases hm : mkCopy defs mask vsOf r with
    | none =>
      rw [hm] at hb
      simp only [List.filterMap_cons, hm, List.filter_cons, hb, ih]
      simp
    | some c =>
      rw [hm] at hb
      simp only [List.filterMap_cons, hm, List.filter_cons, hb]
      split
      · simp [hm, ih]
      · exact ih


/-! flat switches -/

theorem pick_isSome {α} (cs : List (Option α)) (k : Nat) :
    (pick cs k).isSome = (cs.take (k + 1)).any Option.isSome := by
  induction cs generalizing k with
  | nil => simp [pick]
  | cons c cs ih =>
    cases k with
    | zero => simp [pick]
    | succ k =>
      simp only [pick, List.take_succ_cons, List.any_cons, ← ih k]
      cases hp : pick cs k <;> simp

theorem pick_none {α} (cs : List (Option α)) (d : Nat) (h : ∀ i, i ≤ d → (cs[i]?).join = none) : pick cs d = none := by
  induction cs generalizing d with
  | nil => simp [pick]
  | cons c cs ih =>
    have h0 := h 0 (by omega)
    simp at h0
    cases d with
    | zero => simpa [pick] using h0
    | succ d =>
      have := ih d (fun i hi => by simpa using h (i + 1) (by omega))
      simp [pick, this, h0]

/-- holes between `a` and `d` do not change the selected case -/
theorem pick_stable {α} (cs : List (Option α)) (a d : Nat) (had : a ≤ d)
    (h : ∀ i, a < i → i ≤ d → (cs[i]?).join = none) : pick cs d = pick cs a := by
  induction cs generalizing a d with
  | nil => simp [pick]
  | cons c cs ih =>
    cases d with
    | zero => have : a = 0 := by omega
              subst this; rfl
    | succ d =>
      cases a with
      | zero =>
        have := pick_none cs d (fun i hi => by simpa using h (i + 1) (by omega) (by omega))
        simp [pick, this]
      | succ a =>
        have := ih a d (by omega) (fun i h1 h2 => by simpa using h (i + 1) (by omega) (by omega))
        simp [pick, this]

theorem pick_some_of_head {α} (cs : List (Option α)) (v : α) (h : cs.head? = some (some v)) (x : Nat) :
    ∃ w, pick cs x = some w := by
  cases cs with
  | nil => simp at h
  | cons c cs =>
    simp at h; subst h
    cases x with
    | zero => exact ⟨v, rfl⟩
    | succ x => cases hp : pick cs x <;> simp [pick, hp]

/-- cases of a flat switch as arguments -/
def liftCases (cs : List (Option Int32)) : List (Option Arg) := cs.map (Option.map Arg.val)

theorem selList_flat (d : Nat) (cs : List (Option Int32)) (k : Nat) :
    selList d (liftCases cs) k = (match pick cs k with | some v => .ok v | none => .panic easyMsg) := by
  induction cs generalizing k with
  | nil => simp [liftCases, selList, pick]
  | cons c cs ih =>
    cases k with
    | zero => cases c <;> simp [liftCases, selList, selOpt, selArg, pick]
    | succ k =>
      have hany : ((liftCases cs).take (k + 1)).any Option.isSome = (pick cs k).isSome := by
        rw [pick_isSome]
        simp only [liftCases, ← List.map_take, List.any_map]
        congr 1
        funext x; cases x <;> rfl
      have ih' := ih k
      simp only [liftCases, List.map_cons] at ih' ⊢
      simp only [selList]
      simp only [liftCases] at hany
      rw [hany]
      cases hp : pick cs k with
      | some v => simp [pick, hp, ih', hp]
      | none => cases c <;> simp [pick, hp, selOpt, selArg]

/-- a flat switch is selected exactly like `select_diff_switch_case` selects -/
theorem selArg_flat (d : Nat) (cs : List (Option Int32)) : selArg d (.sw (liftCases cs)) = selectCase cs d := by
  simp only [selArg, selectCase, liftCases, List.length_map]
  split
  · have := selList_flat d cs d
    simp only [liftCases] at this
    rw [this]
    cases pick cs d <;> rfl
  · rfl

/-! well-formed arguments, nested switches included -/

mutual
/-- every switch at any depth has exactly `n` cases and its first case is present (the grammar
guarantees the latter, `validate_difficulty` the former) -/
def wfArg (n : Nat) : Arg → Bool
  | .val _ => true
  | .sw cases => cases.length == n && (cases.head?).join.isSome && wfCases n cases
def wfCases (n : Nat) : List (Option Arg) → Bool
  | [] => true
  | none :: rest => wfCases n rest
  | some a :: rest => wfArg n a && wfCases n rest
end

mutual
/-- some switch inside the argument (at any depth) has an explicit case at difficulty `i` -/
def explicitIn : Arg → Nat → Bool
  | .val _, _ => false
  | .sw cases, i => (cases[i]?).join.isSome || explicitInCases cases i
def explicitInCases : List (Option Arg) → Nat → Bool
  | [], _ => false
  | none :: rest, i => explicitInCases rest i
  | some a :: rest, i => explicitIn a i || explicitInCases rest i
end

def isSw : Arg → Bool | .sw _ => true | .val _ => false

theorem head_in_take {α} (cs : List (Option α)) (k : Nat) (h : (cs.head?).join.isSome = true) :
    (cs.take (k + 1)).any Option.isSome = true := by
  cases cs with
  | nil => simp at h
  | cons c cs => cases c <;> simp_all

mutual
/-- selection succeeds on well-formed arguments at every difficulty below the number of cases -/
theorem selArg_ok (n x : Nat) (hx : x < n) : (a : Arg) → wfArg n a = true → ∃ v, selArg x a = .ok v
  | .val v, _ => ⟨v, rfl⟩
  | .sw cases, h => by
    simp only [wfArg, Bool.and_eq_true, beq_iff_eq] at h
    have := selList_ok n x hx cases h.2 x (head_in_take cases x h.1.2)
    simpa [selArg, h.1.1, hx] using this
theorem selList_ok (n x : Nat) (hx : x < n) : (cs : List (Option Arg)) → wfCases n cs = true → (k : Nat) →
    (cs.take (k + 1)).any Option.isSome = true → ∃ v, selList x cs k = .ok v
  | [], _, _, hk => by simp at hk
  | none :: cs, _, 0, hk => by simp at hk
  | some a :: cs, h, 0, _ => by
    simp only [wfCases, Bool.and_eq_true] at h
    simpa [selList, selOpt] using selArg_ok n x hx a h.1
  | none :: cs, h, k + 1, hk => by
    simp only [wfCases] at h
    simp only [List.take_succ_cons, List.any_cons, Option.isSome_none, Bool.false_or] at hk
    simpa [selList, hk] using selList_ok n x hx cs h k hk
  | some a :: cs, h, k + 1, _ => by
    simp only [wfCases, Bool.and_eq_true] at h
    simp only [selList]
    split
    · rename_i hany
      exact selList_ok n x hx cs h.2 k hany
    · simpa [selOpt] using selArg_ok n x hx a h.1
end

/-- the value an argument has on difficulty `x` (total version of `selArg`) -/
def selVal (x : Nat) (a : Arg) : Int32 := match selArg x a with | .ok v => v | _ => 0

theorem selArgs_ok (x : Nat) (args : List Arg) (h : ∀ a ∈ args, ∃ v, selArg x a = .ok v) :
    selArgs x args = .ok (args.map (selVal x)) := by
  induction args with
  | nil => rfl
  | cons a args ih =>
    obtain ⟨v, hv⟩ := h a (by simp)
    have := ih (fun a ha => h a (by simp [ha]))
    simp [selArgs, hv, this, selVal]

theorem any_take_stable {α} (cs : List (Option α)) (ka kj : Nat) (hk : ka ≤ kj)
    (h : ∀ i, ka < i → i ≤ kj → (cs[i]?).join.isSome = false) :
    (cs.take (kj + 1)).any Option.isSome = (cs.take (ka + 1)).any Option.isSome := by
  rw [← pick_isSome, ← pick_isSome, pick_stable cs ka kj hk]
  intro i h1 h2
  have := h i h1 h2
  cases hj : (cs[i]?).join <;> simp_all

theorem any_take_none {α} (cs : List (Option α)) (kj : Nat)
    (h : ∀ i, i ≤ kj → (cs[i]?).join.isSome = false) :
    (cs.take (kj + 1)).any Option.isSome = false := by
  rw [← pick_isSome, pick_none cs kj]
  · rfl
  · intro i hi
    have := h i hi
    cases hj : (cs[i]?).join <;> simp_all

/-- one step of `selList` is stable when the head and the tail are -/
theorem selList_step (a j : Nat) (c : Option Arg) (cs : List (Option Arg))
    (hopt : selOpt j c = selOpt a c)
    (hrec : ∀ ka kj, ka ≤ kj → (∀ i, ka < i → i ≤ kj → (cs[i]?).join.isSome = false) → selList j cs kj = selList a cs ka)
    (ka kj : Nat) (hk : ka ≤ kj) (hnone : ∀ i, ka < i → i ≤ kj → (((c :: cs)[i]?).join).isSome = false) :
    selList j (c :: cs) kj = selList a (c :: cs) ka := by
  cases kj with
  | zero =>
    have : ka = 0 := by omega
    subst this
    simpa [selList] using hopt
  | succ kj =>
    cases ka with
    | zero =>
      have hn : (cs.take (kj + 1)).any Option.isSome = false :=
        any_take_none cs kj (fun i hi => by simpa using hnone (i + 1) (by omega) (by omega))
      simp only [selList, hn]
      simpa using hopt
    | succ ka =>
      have hs : (cs.take (kj + 1)).any Option.isSome = (cs.take (ka + 1)).any Option.isSome :=
        any_take_stable cs ka kj (by omega) (fun i h1 h2 => by simpa using hnone (i + 1) (by omega) (by omega))
      simp only [selList, hs]
      split
      · exact hrec ka kj (by omega) (fun i h1 h2 => by simpa using hnone (i + 1) (by omega) (by omega))
      · exact hopt

mutual
/-- **the value of an argument does not change between two difficulties `a ≤ j` if no switch inside
it (at any depth) has an explicit case in `(a, j]`** -/
theorem selArg_stable (n a j : Nat) (haj : a ≤ j) (hj : j < n) : (arg : Arg) → wfArg n arg = true →
    (∀ i, a < i → i ≤ j → explicitIn arg i = false) → selArg j arg = selArg a arg
  | .val _, _, _ => rfl
  | .sw cases, h, he => by
    simp only [wfArg, Bool.and_eq_true, beq_iff_eq] at h
    have hja : a < cases.length := by omega
    have hjj : j < cases.length := by omega
    simp only [selArg, hja, hjj, if_true]
    refine selList_stable n a j haj hj cases h.2 ?_ a j haj ?_
    · intro i h1 h2
      have := he i h1 h2
      simp only [explicitIn, Bool.or_eq_false_iff] at this
      exact this.2
    · intro i h1 h2
      have := he i h1 h2
      simp only [explicitIn, Bool.or_eq_false_iff] at this
      exact this.1
theorem selList_stable (n a j : Nat) (haj : a ≤ j) (hj : j < n) : (cs : List (Option Arg)) → wfCases n cs = true →
    (∀ i, a < i → i ≤ j → explicitInCases cs i = false) → (ka kj : Nat) → ka ≤ kj →
    (∀ i, ka < i → i ≤ kj → (cs[i]?).join.isSome = false) → selList j cs kj = selList a cs ka
  | [], _, _, _, _, _, _ => by simp [selList]
  | none :: cs, h, he, ka, kj, hk, hnone => by
    simp only [wfCases] at h
    refine selList_step a j none cs rfl ?_ ka kj hk hnone
    intro ka' kj' hk' hn'
    exact selList_stable n a j haj hj cs h (fun i h1 h2 => by simpa [explicitInCases] using he i h1 h2) ka' kj' hk' hn'
  | some x :: cs, h, he, ka, kj, hk, hnone => by
    simp only [wfCases, Bool.and_eq_true] at h
    have he1 : ∀ i, a < i → i ≤ j → explicitIn x i = false := by
      intro i h1 h2
      have := he i h1 h2
      simp only [explicitInCases, Bool.or_eq_false_iff] at this
      exact this.1
    have he2 : ∀ i, a < i → i ≤ j → explicitInCases cs i = false := by
      intro i h1 h2
      have := he i h1 h2
      simp only [explicitInCases, Bool.or_eq_false_iff] at this
      exact this.2
    refine selList_step a j (some x) cs ?_ ?_ ka kj hk hnone
    · simpa [selOpt] using selArg_stable n a j haj hj x h.1 he1
    · intro ka' kj' hk' hn'
      exact selList_stable n a j haj hj cs h.2 he2 ka' kj' hk' hn'
end

mutual
/-- explicit cases only exist below the number of cases -/
theorem explicitIn_lt (n i : Nat) : (a : Arg) → wfArg n a = true → explicitIn a i = true → i < n
  | .val _, _, he => by simp [explicitIn] at he
  | .sw cases, h, he => by
    simp only [wfArg, Bool.and_eq_true, beq_iff_eq] at h
    simp only [explicitIn, Bool.or_eq_true] at he
    rcases he with he | he
    · by_cases hl : i < cases.length
      · omega
      · have : cases[i]? = none := by simp; omega
        simp [this] at he
    · exact explicitInCases_lt n i cases h.2 he
theorem explicitInCases_lt (n i : Nat) : (cs : List (Option Arg)) → wfCases n cs = true → explicitInCases cs i = true → i < n
  | [], _, he => by simp [explicitInCases] at he
  | none :: cs, h, he => by
    simp only [wfCases] at h
    simp only [explicitInCases] at he
    exact explicitInCases_lt n i cs h he
  | some a :: cs, h, he => by
    simp only [wfCases, Bool.and_eq_true] at h
    simp only [explicitInCases, Bool.or_eq_true] at he
    rcases he with he | he
    · exact explicitIn_lt n i a h.1 he
    · exact explicitInCases_lt n i cs h.2 he
end

theorem explicitIn_zero (n : Nat) (a : Arg) (h : wfArg n a = true) (hs : isSw a = true) : explicitIn a 0 = true := by
  cases a with
  | val v => simp [isSw] at hs
  | sw cases =>
    simp only [wfArg, Bool.and_eq_true, beq_iff_eq] at h
    cases cases with
    | nil => simp at h
    | cons c cs => have := h.1.2; simp at this; simp [explicitIn, this]

/-! the explicit difficulties of a statement -/

theorem update_get {α} (m : Meta) (cases : List (Option α)) (i : Nat) (hi : i < 8) :
    (m.update cases).explicit.getLsbD i = (m.explicit.getLsbD i || (cases[i]?).join.isSome) := by
  have key : ∀ k, ((List.range k).foldl (fun e i => if (cases[i]?).join.isSome then setBit e i true else e) m.explicit).getLsbD i
      = (m.explicit.getLsbD i || (decide (i < k) && (cases[i]?).join.isSome)) := by
    intro k
    induction k with
    | zero => simp
    | succ k ih =>
      rw [List.range_succ, List.foldl_append]
      simp only [List.foldl_cons, List.foldl_nil]
      split
      · rename_i hk
        rw [getLsbD_setBit _ _ _ _ hi, ih]
        by_cases hik : i = k
        · subst hik; simp [hk]
        · have : (i < k + 1) = (i < k) := by simp; omega
          simp [hik, this]
      · rename_i hk
        rw [ih]
        by_cases hik : i = k
        · subst hik; simp at hk; simp [hk]
        · have : (i < k + 1) = (i < k) := by simp; omega
          simp [this]
  simp only [Meta.update, key]
  by_cases hl : i < cases.length
  · simp [hl]
  · have : cases[i]? = none := by simp; omega
    simp [this]


mutual
/-- what `update_diff_switch_meta` adds to the meta data -/
theorem metaArg_spec (n : Nat) : (a : Arg) → wfArg n a = true → (m : Meta) →
    m.num ≤ (metaArg m a).num ∧ (m.num ≤ n → (metaArg m a).num ≤ n) ∧ (isSw a = true → n ≤ (metaArg m a).num) ∧
    ∀ i, i < 8 → (metaArg m a).explicit.getLsbD i = (m.explicit.getLsbD i || explicitIn a i)
  | .val _, _, m => by simp [metaArg, explicitIn, isSw]
  | .sw cases, h, m => by
    simp only [wfArg, Bool.and_eq_true, beq_iff_eq] at h
    have hc := metaCases_spec n cases h.2 (m.update cases)
    have hnum : (m.update cases).num = max m.num n := by simp [Meta.update, h.1.1]
    simp only [metaArg]
    refine ⟨by have := hc.1; omega, fun hm => hc.2.1 (by omega), fun _ => by have := hc.1; omega, ?_⟩
    intro i hi
    rw [hc.2.2 i hi, update_get _ _ _ hi]
    simp [explicitIn, Bool.or_assoc]
theorem metaCases_spec (n : Nat) : (cs : List (Option Arg)) → wfCases n cs = true → (m : Meta) →
    m.num ≤ (metaCases m cs).num ∧ (m.num ≤ n → (metaCases m cs).num ≤ n) ∧
    ∀ i, i < 8 → (metaCases m cs).explicit.getLsbD i = (m.explicit.getLsbD i || explicitInCases cs i)
  | [], _, m => by simp [metaCases, explicitInCases]
  | none :: cs, h, m => by
    simp only [wfCases] at h
    simpa [metaCases, explicitInCases] using metaCases_spec n cs h m
  | some a :: cs, h, m => by
    simp only [wfCases, Bool.and_eq_true] at h
    have ha := metaArg_spec n a h.1 m
    have hc := metaCases_spec n cs h.2 (metaArg m a)
    simp only [metaCases]
    refine ⟨by have := ha.1; have := hc.1; omega, fun hm => hc.2.1 (ha.2.1 hm), ?_⟩
    intro i hi
    rw [hc.2.2 i hi, ha.2.2.2 i hi]
    simp [explicitInCases, Bool.or_assoc]
end

def explicitAt (args : List Arg) (i : Nat) : Bool := args.any (explicitIn · i)

theorem metaOf_go (n : Nat) (args : List Arg) (hwf : ∀ a ∈ args, wfArg n a = true) (m0 : Meta) :
    m0.num ≤ (args.foldl metaArg m0).num ∧ (m0.num ≤ n → (args.foldl metaArg m0).num ≤ n) ∧
    (args.any isSw = true → n ≤ (args.foldl metaArg m0).num) ∧
    ∀ i, i < 8 → (args.foldl metaArg m0).explicit.getLsbD i = (m0.explicit.getLsbD i || explicitAt args i) := by
  induction args generalizing m0 with
  | nil => simp [explicitAt]
  | cons a args ih =>
    have ha := metaArg_spec n a (hwf a (by simp)) m0
    have hr := ih (fun a ha => hwf a (by simp [ha])) (metaArg m0 a)
    simp only [List.foldl_cons]
    refine ⟨by have := ha.1; have := hr.1; omega, fun hm => hr.2.1 (ha.2.1 hm), ?_, ?_⟩
    · intro hany
      simp only [List.any_cons, Bool.or_eq_true] at hany
      rcases hany with h | h
      · have := ha.2.2.1 h; have := hr.1; omega
      · exact hr.2.2.1 h
    · intro i hi
      rw [hr.2.2.2 i hi, ha.2.2.2 i hi]
      simp [explicitAt, Bool.or_assoc]

/-- **exactly one copy per permitted difficulty, carrying that difficulty's case values —
nested switches included.**

For every flag table, every statement mask, every argument list made of plain values and
switches nested to any depth, all of the same length `n` (2..8, any hole pattern, first cases
present), and every bit `j` that is a difficulty bit (not default-on): if `j < n` and the
statement's mask has bit `j`, then exactly one emitted copy has bit `j` and its arguments are the
per-difficulty selection `select_diff_for_lower_arg(arg, j)` of every argument (which is what the
VM evaluates on difficulty `j`); otherwise no copy has bit `j` (so copies are pairwise disjoint on
difficulty bits and never gain a difficulty the label excluded).  Every copy carries the
statement's default-on (aux) bits unchanged. -/
theorem expand_exactly_one (defs : Defs) (mask : Mask) (args : List Arg) (n : Nat) (hn : 2 ≤ n) (hn8 : n ≤ 8)
    (hwf : ∀ a ∈ args, wfArg n a = true) (hsw : args.any isSw = true)
    (j : Nat) (hj : j < 8) (hdiff : (diffBits defs).getLsbD j = true) :
    ∃ copies, expandCore defs mask args = .ok copies ∧
      (if j < n ∧ mask.getLsbD j = true then
          ∃ c vs, copies.filter (fun c => c.mask.getLsbD j) = [c] ∧ selArgs j args = .ok vs ∧ c.args = vs
        else copies.filter (fun c => c.mask.getLsbD j) = []) ∧
      ∀ c ∈ copies, c.mask &&& auxBits defs = mask &&& auxBits defs := by
  -- the meta data
  obtain ⟨_, hle, hge, hexp⟩ := metaOf_go n args hwf { num := 0, explicit := 0#8 }
  have hnum' : (metaOf args).num = n := by
    have h1 := hle (by simp)
    have h2 := hge hsw
    unfold metaOf; omega
  have hexp' : ∀ i, i < 8 → (metaOf args).explicit.getLsbD i = explicitAt args i := by
    intro i hi
    have := hexp i hi
    simpa [metaOf] using this
  -- a switch exists; its first case is explicit
  obtain ⟨a0, ha0, hsw0⟩ := List.any_eq_true.mp hsw
  have hE0 : explicitAt args 0 = true :=
    List.any_eq_true.mpr ⟨a0, ha0, explicitIn_zero n a0 (hwf a0 ha0) hsw0⟩
  have hElt : ∀ i, explicitAt args i = true → i < n := by
    intro i hi
    obtain ⟨a, ha, hsa⟩ := List.any_eq_true.mp hi
    exact explicitIn_lt n i a (hwf a ha) hsa
  have hEfalse : ∀ i, explicitAt args i = false → ∀ a ∈ args, explicitIn a i = false := by
    intro i hi a ha
    simpa using List.any_eq_false.mp hi a ha
  -- the stops
  let stops := bitsOf (metaOf args).explicit ++ [n]
  have hmemE : ∀ s, s ∈ bitsOf (metaOf args).explicit ↔ s < 8 ∧ explicitAt args s = true := by
    intro s; rw [mem_bitsOf]
    constructor
    · intro h; exact ⟨h.1, by rw [← hexp' s h.1]; exact h.2⟩
    · intro h; exact ⟨h.1, by rw [hexp' s h.1]; exact h.2⟩
  have hsorted : stops.Pairwise (· < ·) := by
    apply List.pairwise_append.mpr
    refine ⟨?_, by simp, ?_⟩
    · unfold bitsOf
      exact List.Pairwise.filter _ (by decide)
    · intro s hs t ht
      simp at ht; subst ht
      exact hElt s ((hmemE s).mp hs).2
  have hhead : ∀ s0, stops.head? = some s0 → s0 = 0 := by
    intro s0 hs0
    have h0mem : (metaOf args).explicit.getLsbD 0 = true := by rw [hexp' 0 (by omega)]; exact hE0
    have : bitsOf (metaOf args).explicit = 0 :: (List.range' 1 7).filter (fun i => (metaOf args).explicit.getLsbD i) := by
      unfold bitsOf
      have : List.range 8 = 0 :: List.range' 1 7 := by decide
      rw [this, List.filter_cons, h0mem]; rfl
    simp only [stops, this] at hs0
    simpa using hs0.symm
  have hstopsN : ∀ s ∈ stops, s ≤ n := by
    intro s hs
    rcases List.mem_append.mp hs with h | h
    · exact Nat.le_of_lt (hElt s ((hmemE s).mp h).2)
    · simp at h; omega
  -- every range starts below n: selection succeeds
  have hsel : ∀ x, x < n → selArgs x args = .ok (args.map (selVal x)) :=
    fun x hx => selArgs_ok x args (fun a ha => selArg_ok n x hx a (hwf a ha))
  have hranges : ∀ r ∈ ranges stops, selArgs r.1 args = .ok (args.map (selVal r.1)) := by
    intro r hr
    have h1 := ranges_lt stops hsorted r hr
    have h2 := hstopsN r.2 (mem_ranges _ _ hr).2
    exact hsel r.1 (by omega)
  have hgo := expandGo_eq defs mask args (fun x => args.map (selVal x)) (ranges stops) hranges
  have hcore : expandCore defs mask args = .ok ((ranges stops).filterMap (mkCopy defs mask (fun x => args.map (selVal x)))) := by
    unfold expandCore
    simp only [hnum']
    have : ¬ n < 2 := by omega
    simp only [this, if_false, Meta.caseRanges, hnum']
    exact hgo
  refine ⟨_, hcore, ?_, ?_⟩
  · rw [filter_copies defs mask _ _ j hj hdiff]
    split
    · rename_i hcond
      obtain ⟨hjn, hmj⟩ := hcond
      obtain ⟨a, b, hf, ha, hb, hamem, hlast⟩ := ranges_cover stops hsorted j
        (fun s0 hs0 => by have := hhead s0 hs0; omega) ⟨n, by simp [stops], hjn⟩
      have hfilter : (ranges stops).filter (fun r => mask.getLsbD j && covers r j) = [(a, b)] := by
        simp only [hmj, Bool.true_and]; exact hf
      rw [hfilter]
      -- the copy exists (its mask has bit j)
      have hb2 := copy_bit defs mask (fun x => args.map (selVal x)) (a, b) j hj hdiff
      have hcov : covers (a, b) j = true := by simp [covers, ha, hb]
      cases hm : mkCopy defs mask (fun x => args.map (selVal x)) (a, b) with
      | none => rw [hm] at hb2; simp [hmj, hcov] at hb2
      | some c =>
        refine ⟨c, args.map (selVal j), by simp [hm], hsel j hjn, ?_⟩
        have hc : c.args = args.map (selVal a) := by
          unfold mkCopy at hm
          split at hm
          · simp at hm
          · simp at hm; rw [← hm]
        rw [hc]
        -- no explicit case of any switch strictly between a and j
        have hnoexp : ∀ i, a < i → i ≤ j → explicitAt args i = false := by
          intro i h1 h2
          cases he : explicitAt args i with
          | false => rfl
          | true =>
            have : i ∈ stops := List.mem_append_left _ ((hmemE i).mpr ⟨by omega, he⟩)
            have := hlast i this h2
            omega
        apply List.map_congr_left
        intro arg harg
        unfold selVal
        rw [selArg_stable n a j ha hjn arg (hwf arg harg) (fun i h1 h2 => hEfalse i (hnoexp i h1 h2) arg harg)]
    · rename_i hcond
      have : (ranges stops).filter (fun r => mask.getLsbD j && covers r j) = [] := by
        by_cases hmj : mask.getLsbD j = true
        · have hjn : ¬ j < n := fun h => hcond ⟨h, hmj⟩
          simp only [hmj, Bool.true_and]
          exact ranges_none stops j (fun s hs => by have := hstopsN s hs; omega)
        · simp [hmj]
      rw [this]; rfl
  · intro c hc
    obtain ⟨r, _, hr⟩ := List.mem_filterMap.mp hc
    unfold mkCopy at hr
    split at hr
    · simp at hr
    · simp at hr; rw [← hr]
      apply mask_ext
      intro i hi
      simp only [BitVec.getLsbD_and, BitVec.getLsbD_or, diffBits, auxBits, BitVec.getLsbD_not, hi, decide_true, Bool.true_and]
      cases mask.getLsbD i <;> cases defs.defaultOn.getLsbD i <;> simp

mutual
theorem switchLens_wf (n : Nat) : (a : Arg) → wfArg n a = true → ∀ x ∈ switchLens a, x = n
  | .val _, _ => by simp [switchLens]
  | .sw cases, h => by
    simp only [wfArg, Bool.and_eq_true, beq_iff_eq] at h
    intro x hx
    simp only [switchLens, List.mem_append, List.mem_singleton] at hx
    rcases hx with hx | hx
    · exact switchLensList_wf n cases h.2 x hx
    · omega
theorem switchLensList_wf (n : Nat) : (cs : List (Option Arg)) → wfCases n cs = true → ∀ x ∈ switchLensList cs, x = n
  | [], _ => by simp [switchLensList]
  | none :: cs, h => by
    simp only [wfCases] at h
    simpa [switchLensList] using switchLensList_wf n cs h
  | some a :: cs, h => by
    simp only [wfCases, Bool.and_eq_true] at h
    intro x hx
    simp only [switchLensList, List.mem_append] at hx
    rcases hx with hx | hx
    · exact switchLens_wf n a h.1 x hx
    · exact switchLensList_wf n cs h.2 x hx
end

/-- well-formed statements pass the length check of `validate_difficulty` -/
theorem checkLens_ok (args : List Arg) (n : Nat) (hn8 : n ≤ 8) (hwf : ∀ a ∈ args, wfArg n a = true) :
    ∃ r, checkLens args = .ok r := by
  have hall : ∀ x ∈ args.flatMap switchLens, x = n := by
    intro x hx
    obtain ⟨a, ha, hxa⟩ := List.mem_flatMap.mp hx
    exact switchLens_wf n a (hwf a ha) x hxa
  unfold checkLens
  cases hl : args.flatMap switchLens with
  | nil => exact ⟨none, rfl⟩
  | cons x rest =>
    rw [hl] at hall
    have hx : x = n := hall x (by simp)
    have hrest : rest.any (· != x) = false := by
      apply List.any_eq_false.mpr
      intro y hy
      have := hall y (by simp [hy])
      simp [this, hx]
    simp only [hrest]
    have : ¬ x > 8 := by omega
    simp [this]

/-- **the switch half of C14 in full** (length check + elaboration, nested switches included).
Before commit fd6b777 this was false: `1 : (2:3:4:5) : :` emitted mask 0b1110 with the value 3
for difficulties 1, 2 and 3 (former theorem `nested_switch_wrong`, finding
`diff-switch-nested-switch-expanded-by-outer-cases-only`). -/
theorem expand_exactly_one_full (defs : Defs) (mask : Mask) (args : List Arg) (n : Nat) (hn : 2 ≤ n) (hn8 : n ≤ 8)
    (hwf : ∀ a ∈ args, wfArg n a = true) (hsw : args.any isSw = true)
    (j : Nat) (hj : j < 8) (hdiff : (diffBits defs).getLsbD j = true) :
    ∃ copies, expand defs mask args = .ok copies ∧
      (if j < n ∧ mask.getLsbD j = true then
          ∃ c vs, copies.filter (fun c => c.mask.getLsbD j) = [c] ∧ selArgs j args = .ok vs ∧ c.args = vs
        else copies.filter (fun c => c.mask.getLsbD j) = []) ∧
      ∀ c ∈ copies, c.mask &&& auxBits defs = mask &&& auxBits defs := by
  obtain ⟨r, hr⟩ := checkLens_ok args n hn8 hwf
  obtain ⟨copies, h1, h2⟩ := expand_exactly_one defs mask args n hn hn8 hwf hsw j hj hdiff
  exact ⟨copies, by simp [expand, hr, h1], h2⟩

-- the hypotheses are satisfiable: `ins(10 : : 30 : , 7)` under a `{"*-F"}`-like mask with flag 5 default-on
example : wfArg 4 (.sw (liftCases [some 10, none, some 30, none])) = true := by decide
example : expand (defineFlag' defaultDefs 'F' 5 true) 0b11011111#8
    [.sw (liftCases [some 10, none, some 30, none]), .val 7]
    = .ok [⟨0b00000011#8, [10, 7]⟩, ⟨0b00001100#8, [30, 7]⟩] := by decide

-- the former counterexample: the nested switch now gets a copy per difficulty
example :
    let nested := Arg.sw [some (.val 2), some (.val 3), some (.val 4), some (.val 5)]
    let args := [Arg.sw [some (.val 1), some nested, none, none]]
    wfArg 4 args[0] = true ∧
    expand defaultDefs 0xFF#8 args = .ok [⟨0b0001#8, [1]⟩, ⟨0b0010#8, [3]⟩, ⟨0b0100#8, [4]⟩, ⟨0b1000#8, [5]⟩] ∧
    selArgs 2 args = .ok [4] := by decide

/-! ### `x = a : b : c : d` with non-simple cases (`lower_assign_diff_switch`) -/

theorem explicitCasesGo_spec {α} (rest : List (Option α)) (curMask : Mask) (cur : α) (k j : Nat) (hj : j < 8)
    (hmask : ∀ i, k ≤ i → i < 8 → curMask.getLsbD i = false) :
    ((explicitCasesGo rest curMask cur k).filter (fun p => p.1.getLsbD j)).map (·.2) =
      if curMask.getLsbD j = true then [cur]
      else if k ≤ j ∧ j < k + rest.length then [(pick rest (j - k)).getD cur]
      else [] := by
  induction rest generalizing curMask cur k with
  | nil =>
    simp only [explicitCasesGo, List.filter_cons, List.filter_nil, List.length_nil, Nat.add_zero]
    by_cases hc : curMask.getLsbD j = true
    · simp [hc]
    · have : ¬ (k ≤ j ∧ j < k) := by omega
      simp [hc, this]
  | cons c rest ih =>
    cases c with
    | none =>
      have hm' : ∀ i, k + 1 ≤ i → i < 8 → (setBit curMask k true).getLsbD i = false := by
        intro i h1 h2
        rw [getLsbD_setBit _ _ _ _ h2]
        have : i ≠ k := by omega
        simp [this, hmask i (by omega) h2]
      rw [explicitCasesGo, ih _ cur (k + 1) hm', getLsbD_setBit _ _ _ _ hj]
      by_cases hc : curMask.getLsbD j = true
      · simp [hc]
      · by_cases hjk : j = k
        · subst hjk
          simp [hc, pick]
        · simp only [hjk, if_false, hc, List.length_cons]
          by_cases hlt : k + 1 ≤ j ∧ j < k + 1 + rest.length
          · have h2 : k ≤ j ∧ j < k + (rest.length + 1) := by omega
            have h3 : j - k = (j - (k + 1)) + 1 := by omega
            simp only [hlt, h2, and_self, if_true, h3, pick]
            cases pick rest (j - (k + 1)) <;> simp
          · have h2 : ¬ (k ≤ j ∧ j < k + (rest.length + 1)) := by omega
            simp [hlt, h2]
    | some c =>
      have hm' : ∀ i, k + 1 ≤ i → i < 8 → (setBit (0#8) k true).getLsbD i = false := by
        intro i h1 h2
        rw [getLsbD_setBit _ _ _ _ h2]
        have : i ≠ k := by omega
        simp [this]
      rw [explicitCasesGo, List.filter_cons]
      have ih' := ih (setBit (0#8) k true) c (k + 1) hm'
      rw [getLsbD_setBit _ _ _ _ hj] at ih'
      by_cases hc : curMask.getLsbD j = true
      · have hjk : j < k := by
          apply Nat.lt_of_not_le
          intro hle
          have := hmask j hle hj
          simp [this] at hc
        have h1 : j ≠ k := by omega
        have h2 : ¬ (k + 1 ≤ j ∧ j < k + 1 + rest.length) := by omega
        rw [if_pos hc, if_pos hc, List.map_cons, ih']
        simp [h1, h2]
      · rw [if_neg hc, if_neg hc, ih']
        by_cases hjk : j = k
        · subst hjk
          simp [pick]
        · have hlen : (some c :: rest).length = rest.length + 1 := rfl
          simp only [hjk, if_false, BitVec.getLsbD_zero, hlen]
          by_cases hlt : k + 1 ≤ j ∧ j < k + 1 + rest.length
          · have h2 : k ≤ j ∧ j < k + (rest.length + 1) := by omega
            have h3 : j - k = (j - (k + 1)) + 1 := by omega
            rw [if_pos hlt, if_pos h2, h3]
            simp only [pick]
            cases pick rest (j - (k + 1)) <;> simp
          · have h2 : ¬ (k ≤ j ∧ j < k + (rest.length + 1)) := by omega
            rw [if_neg hlt, if_neg h2]
            simp

/-- the (mask, case) pairs of `explicit_difficulty_cases` partition the difficulties `0..len`:
difficulty `j` is in exactly one pair's mask, and that pair holds `select_diff_switch_case(cases, j)` -/
theorem explicitCases_spec {α} (cases : List (Option α)) (ecs : List (Mask × α)) (h : explicitCases cases = .ok ecs)
    (j : Nat) (hj : j < 8) :
    ((ecs.filter (fun p => p.1.getLsbD j)).map (·.2)) =
      (if j < cases.length then (match selectCase cases j with | .ok v => [v] | _ => []) else []) := by
  cases cases with
  | nil => simp [explicitCases] at h
  | cons c rest =>
    cases c with
    | none => simp [explicitCases] at h
    | some c =>
      simp only [explicitCases, Outcome.ok.injEq] at h
      subst h
      have hm : ∀ i, 1 ≤ i → i < 8 → (setBit (0#8) 0 true).getLsbD i = false := by
        intro i h1 h2
        rw [getLsbD_setBit _ _ _ _ h2]
        have : i ≠ 0 := by omega
        simp [this]
      rw [explicitCasesGo_spec rest _ c 1 j hj hm, getLsbD_setBit _ _ _ _ hj]
      simp only [BitVec.getLsbD_zero, List.length_cons, selectCase]
      cases j with
      | zero => simp [pick]
      | succ m =>
        have h0 : ¬ (m + 1 = 0) := by omega
        simp only [h0, if_false]
        by_cases hlt : m < rest.length
        · have h1 : 1 ≤ m + 1 ∧ m + 1 < 1 + rest.length := by omega
          have h2 : m + 1 < rest.length + 1 := by omega
          simp only [h1, and_self, if_true, h2, pick, Nat.add_sub_cancel]
          cases pick rest m <;> simp
        · have h1 : ¬ (1 ≤ m + 1 ∧ m + 1 < 1 + rest.length) := by omega
          have h2 : ¬ (m + 1 < rest.length + 1) := by omega
          rw [if_neg h1, if_neg h2]; simp

/-- **assignment of a switch with non-simple cases**: for every difficulty bit `j`, the emitted
assignments that apply on difficulty `j` are exactly one, carrying `select(cases, j)`, if
`j < len` and the label permits `j`; none otherwise.  Every emitted assignment carries the
statement's default-on bits unchanged. -/
theorem assign_exactly_one {α} (defs : Defs) (mask : Mask) (cases : List (Option α)) (copies : List (Mask × α))
    (h : assignCopies defs mask cases = .ok copies) (j : Nat) (hj : j < 8) (hdiff : (diffBits defs).getLsbD j = true) :
    ((copies.filter (fun p => p.1.getLsbD j)).map (·.2)) =
      (if j < cases.length ∧ mask.getLsbD j = true then (match selectCase cases j with | .ok v => [v] | _ => []) else []) ∧
    ∀ p ∈ copies, p.1 &&& auxBits defs = mask &&& auxBits defs := by
  have hdef : defs.defaultOn.getLsbD j = false := by
    simpa [diffBits, BitVec.getLsbD_not, hj] using hdiff
  unfold assignCopies at h
  cases hec : explicitCases cases with
  | err c => simp [hec] at h
  | panic s => simp [hec] at h
  | ok ecs =>
    simp only [hec, Outcome.ok.injEq] at h
    subst h
    have hspec := explicitCases_spec cases ecs hec j hj
    constructor
    · -- a copy has bit j iff its case mask has bit j and the statement mask has bit j
      have key : ∀ l : List (Mask × α),
          (((l.filterMap fun (p : Mask × α) =>
              if ((mask &&& diffBits defs) &&& p.1) ||| (mask &&& auxBits defs) = 0#8 then none
              else some (((mask &&& diffBits defs) &&& p.1) ||| (mask &&& auxBits defs), p.2)).filter
            (fun p => p.1.getLsbD j)).map (·.2)) =
          (if mask.getLsbD j = true then ((l.filter (fun p => p.1.getLsbD j)).map (·.2)) else []) := by
        intro l
        induction l with
        | nil => simp
        | cons p l ih =>
          simp only [List.filterMap_cons]
          have hbit : (((mask &&& diffBits defs) &&& p.1) ||| (mask &&& auxBits defs)).getLsbD j = (mask.getLsbD j && p.1.getLsbD j) := by
            simp only [BitVec.getLsbD_or, BitVec.getLsbD_and, hdiff, auxBits, hdef, Bool.and_true, Bool.and_false, Bool.or_false]
          by_cases h0 : ((mask &&& diffBits defs) &&& p.1) ||| (mask &&& auxBits defs) = 0#8
          · rw [if_pos h0]
            have hz := congrArg (·.getLsbD j) h0
            simp only [hbit, BitVec.getLsbD_zero] at hz
            rw [ih]
            by_cases hm : mask.getLsbD j = true
            · simp only [hm, Bool.true_and] at hz
              simp [hm, List.filter_cons, hz]
            · simp [hm]
          · rw [if_neg h0]
            simp only [List.filter_cons, hbit]
            by_cases hm : mask.getLsbD j = true
            · by_cases hp : p.1.getLsbD j = true
              · rw [if_pos (by simp [hm, hp]), if_pos hm, if_pos hp, List.map_cons, List.map_cons, ih, if_pos hm]
              · rw [if_neg (by simp [hm, hp]), if_pos hm, if_neg hp, ih, if_pos hm]
            · rw [if_neg (by simp [hm]), if_neg hm, ih, if_neg hm]
      rw [key ecs, hspec]
      by_cases hm : mask.getLsbD j = true <;> by_cases hl : j < cases.length <;> simp [hm, hl]
    · intro p hp
      obtain ⟨q, _, hq⟩ := List.mem_filterMap.mp hp
      by_cases h0 : ((mask &&& diffBits defs) &&& q.1) ||| (mask &&& auxBits defs) = 0#8
      · rw [if_pos h0] at hq; simp at hq
      · rw [if_neg h0] at hq
        simp only [Option.some.injEq] at hq
        rw [← hq]
        apply mask_ext
        intro i hi
        simp only [BitVec.getLsbD_and, BitVec.getLsbD_or, diffBits, auxBits, BitVec.getLsbD_not, hi, decide_true, Bool.true_and]
        cases mask.getLsbD i <;> cases defs.defaultOn.getLsbD i <;> simp

example : assignCopies defaultDefs 0x0F#8 [some 3, none, some 5, some 8] = .ok [(0b0011#8, 3), (0b0100#8, 5), (0b1000#8, 8)] := by decide

end TruthModel.C14
