import TruthModel.Props.C03Instr
import TruthModel.Props.C03Files
import TruthModel.Props.C03Anm
import TruthModel.Props.C03Ecl10
/-
C03 — a successful compile never writes a file that differs from what was asked.

* `Props/C03Instr.lean`: instruction level - the checked writer rejects exactly the instructions
  that do not fit the on-disk header of each of the 8 layouts, and what it writes reads back
  (`read_write`, `read_write_iff`, `write_injective`, `readInstrs_writeInstrs`).
* `Props/C03Files.lean`: container level - whole MSG, STD (both layouts), mission MSG and old ECL
  files (`*_read_write`, `*_write_err_iff`), on the models of `Model/Files.lean`, `Model/FilesEcl.lean`.
* `Props/C03Anm.lean`: the ANM container, every version (`anm_read_write`, `anm_write_err_iff`, and the witnesses of
  what `write_anm` narrows or drops without a diagnostic), on the model of `Model/FilesAnm.lean`.
* `Props/C03Ecl10.lean`: stack ECL (TH10 and later) - the 16-byte instruction header (`read_write10`,
  `write10_err_iff_not_fits`, `readInstrs10_writeInstrs10`) on `Model/InstrIO10.lean`, and the container
  (`string_list_roundtrip`, `ecl10_read_write`, `ecl10_write_err_iff`, `ecl10_write_ok_no_narrowing`, and since dcd07d9
  `ecl10_nul_in_name_rejected` / `ecl10_write_ok_nul_free` / `ecl10_read_write_full`) on `Model/FilesEcl10.lean`.
-/
