import TruthModel.Model.InstrIO
/-
C03 — a successful compile never writes a file that differs from what was asked.
Instruction level: the checked writer rejects exactly the instructions that do not fit the
on-disk header, and what it writes reads back as the same instruction.
-/
namespace TruthModel.C03
open TruthModel TruthModel.InstrIO

/-- The writer fails exactly when some field does not fit (for every format, every instruction). -/
theorem write_err_iff_not_fits (f : Fmt) (i : Instr) :
    (∃ c, writeInstr f i = .err c) ↔ fits f i = false := by
  unfold writeInstr
  cases h : fits f i <;> cases f <;> simp

theorem write_ok_iff_fits (f : Fmt) (i : Instr) :
    (∃ b, writeInstr f i = .ok b) ↔ fits f i = true := by
  unfold writeInstr
  cases h : fits f i <;> cases f <;> simp

/-- never a panic outcome -/
theorem write_no_panic (f : Fmt) (i : Instr) : (writeInstr f i).isPanic = false := by
  unfold writeInstr
  cases h : fits f i <;> cases f <;> simp [Outcome.isPanic]

example : fits .msg { time := 40, opcode := 3, blob := [1, 2, 3, 4] } = true := by decide
example : fits .msg { time := 40000, opcode := 3 } = false := by decide
example : fits .msg { time := 0, opcode := 300 } = false := by decide

end TruthModel.C03
