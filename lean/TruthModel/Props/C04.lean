import TruthModel.Model.Diag
import TruthModel.Model.Pipeline
import TruthModel.Lemmas.Types
import TruthModel.Props.C09
/-
C04 — any text input ends in success or a rendered diagnostic, never a crash.

What is proved here (about the models in `Model/Diag.lean` and `Model/Pipeline.lean`):

1. error plumbing: for every trace of emitter / `ErrorFlag` / `collect_with_recovery` / `?`
   operations, the failing token is honest (`fail_token_honest`), an error that was rendered and
   not explicitly ignored or dropped makes the run fail (`error_implies_fail`), and for disciplined
   traces the exit status is 1 iff an error-severity diagnostic was rendered (`exit_iff_error`);
   warnings alone never fail; `collect_with_recovery` reports every element's error.  The ways the
   API allows to break the iff are exhibited as witnesses (`warning_as_error_fails_silently`,
   `empty_emit_fails_silently`, `dropped_flag_succeeds_after_error`).
2. spans: everything the parser glue builds from valid lexer token spans is valid
   (`built_spans_valid`), the combinators do not hit their assertions on such spans, rendering
   panics exactly when a label's file is unknown (`render_panics_iff`), hence never for built
   spans, and (since c4ddfe9) a diagnostic made through `primary` / `secondary` with a file-less span
   (`Span::NULL`) renders: the span becomes a note (`null_span_renders`, `renderDiag_panics_iff`).
3. progress: a program accepted by the type-checker model reaches no `panic` outcome in the
   const-variable evaluator and the const-simplification pass (`progress_partial`).

NOT modelled (searched only, see harness/src/props/c04.rs): the logos lexer, the LALRPOP parser
tables, the mapfile / seqmap / ABI parsers, name resolution errors, lowering, codespan rendering.
-/
namespace TruthModel.C04
open TruthModel TruthModel.Diag

/-! ## 1. Error plumbing -/

def stackVis (st : List Val) : Bool := st.any Val.vis

/-- evidence held by the machine that an error was rendered -/
def evid (s : State) : Bool := stackVis s.stack || decide (0 < s.lost)

/-- the invariant: the machine holds evidence iff the log contains an error-severity diagnostic -/
def Inv (s : State) : Prop := evid s = hasErr s.log

def elemVis : Elem → Bool
  | none => false
  | some (w, ds) => (emitTok w ds).vis

/-- the error evidence an operation creates -/
def _root_.TruthModel.Diag.Op.evidence : Op → Bool
  | .emit w ds => (emitTok w ds).vis
  | .emitIgnore w ds => (emitTok w ds).vis
  | .collectEmit es => es.any elemVis
  | _ => false

@[simp] theorem vis_tok (t : Token) : Val.vis (.tok t) = t.vis := rfl
@[simp] theorem vis_flag_none : Val.vis (.flag none) = false := rfl
@[simp] theorem vis_flag_some (t : Token) : Val.vis (.flag (some t)) = t.vis := rfl
@[simp] theorem vis_res_ok (u : Unit) : Val.vis (.res (.ok u)) = false := rfl
@[simp] theorem vis_res_error (t : Token) : Val.vis (.res (.error t)) = t.vis := rfl

theorem hasErr_emitLog (w : Writer) (ds : List Severity) (log : Log) :
    hasErr (emitLog w ds log) = (hasErr log || (emitTok w ds).vis) := by
  unfold emitLog emitTok hasErr
  cases hw : w.visible <;> simp [List.any_append, List.any_map, Function.comp_def]

theorem vis_setFlag (f : Option Token) (t : Token) :
    Val.vis (.flag (setFlag f t)) = (Val.vis (.flag f) || t.vis) := by
  cases f <;> simp [setFlag]

theorem vis_absorb (f : Option Token) (r : Except Token Unit) :
    Val.vis (.flag (absorb f r)) = (Val.vis (.flag f) || Val.vis (.res r)) := by
  cases r with
  | ok u => simp [absorb]
  | error t => simp [absorb, vis_setFlag]

theorem vis_flagResult (f : Option Token) : Val.vis (.res (flagResult f)) = Val.vis (.flag f) := by
  cases f <;> simp [flagResult]

theorem vis_foldl_absorb (rs : List (Except Token Unit)) (f : Option Token) :
    Val.vis (.flag (rs.foldl absorb f)) = (Val.vis (.flag f) || rs.any (fun r => Val.vis (.res r))) := by
  induction rs generalizing f with
  | nil => simp
  | cons r rs ih => simp [List.foldl, ih, vis_absorb, Bool.or_assoc]

theorem vis_collectRes (rs : List (Except Token Unit)) :
    Val.vis (.res (collectRes rs)) = rs.any (fun r => Val.vis (.res r)) := by
  simp [collectRes, vis_flagResult, vis_foldl_absorb]

theorem popRes_vis : (n : Nat) → (st : List Val) → (rs : List (Except Token Unit)) → (st' : List Val) →
    popRes n st = some (rs, st') →
    stackVis st = (rs.any (fun r => Val.vis (.res r)) || stackVis st')
  | 0, st, rs, st', h => by simp [popRes] at h; obtain ⟨rfl, rfl⟩ := h; simp
  | n + 1, [], rs, st', h => by simp [popRes] at h
  | n + 1, .tok _ :: st, rs, st', h => by simp [popRes] at h
  | n + 1, .flag _ :: st, rs, st', h => by simp [popRes] at h
  | n + 1, .res r :: st, rs, st', h => by
    simp only [popRes] at h
    cases hp : popRes n st with
    | none => simp [hp] at h
    | some p =>
      obtain ⟨rs0, st0⟩ := p
      simp [hp] at h
      obtain ⟨rfl, rfl⟩ := h
      have ih := popRes_vis n st rs0 st0 hp
      simp only [stackVis] at ih ⊢
      simp [List.any_append, ih, Bool.or_comm, Bool.or_left_comm]

theorem runElems_spec : (es : List Elem) → (log : Log) → (f : Option Token) →
    hasErr (runElems es log f).1 = (hasErr log || es.any elemVis) ∧
    Val.vis (.flag (runElems es log f).2) = (Val.vis (.flag f) || es.any elemVis)
  | [], log, f => by simp [runElems]
  | none :: es, log, f => by
    have ih := runElems_spec es log f
    simp [runElems, ih, elemVis]
  | some (w, ds) :: es, log, f => by
    have ih := runElems_spec es (emitLog w ds log) (setFlag f (emitTok w ds))
    simp [runElems, ih, elemVis, hasErr_emitLog, vis_setFlag, Bool.or_assoc]

macro "fin" : tactic => `(tactic| (first | done | ac_rfl | (constructor <;> first | done | ac_rfl | rfl)))

theorem lost_add (n : Nat) (b : Bool) :
    decide (0 < n + (if b then 1 else 0)) = (decide (0 < n) || b) := by
  cases b <;> simp

/-- one step adds the same evidence to the machine and to the log -/
theorem step_next (s s' : State) (op : Op) (h : step s op = .next s') :
    evid s' = (evid s || op.evidence) ∧ hasErr s'.log = (hasErr s.log || op.evidence) := by
  obtain ⟨stack, log, lost⟩ := s
  cases op with
  | emit w ds =>
    simp only [step, Step.next.injEq] at h; subst h
    simp [evid, stackVis, Op.evidence, hasErr_emitLog, Bool.or_comm, Bool.or_left_comm]
    fin
  | emitIgnore w ds =>
    simp only [step, Step.next.injEq] at h; subst h
    simp [evid, Op.evidence, hasErr_emitLog, lost_add, Bool.or_assoc]
    fin
  | ignore =>
    match stack, h with
    | .tok t :: st, h =>
      simp only [step, Step.next.injEq] at h; subst h
      simp [evid, stackVis, Op.evidence, lost_add, Bool.or_comm, Bool.or_left_comm]
      fin
    | [], h => simp [step] at h
    | .flag _ :: _, h => simp [step] at h
    | .res _ :: _, h => simp [step] at h
  | drop =>
    match stack, h with
    | v :: st, h =>
      simp only [step, Step.next.injEq] at h; subst h
      simp [evid, stackVis, Op.evidence, lost_add, Bool.or_comm, Bool.or_left_comm]
      fin
    | [], h => simp [step] at h
  | flagNew =>
    simp only [step, Step.next.injEq] at h; subst h
    simp [evid, stackVis, Op.evidence]
    fin
  | flagSet =>
    match stack, h with
    | .tok t :: .flag f :: st, h =>
      simp only [step, Step.next.injEq] at h; subst h
      simp [evid, stackVis, vis_setFlag, Op.evidence, Bool.or_comm, Bool.or_left_comm]
      fin
    | [], h => simp [step] at h
    | [.tok _], h => simp [step] at h
    | .tok _ :: .tok _ :: _, h => simp [step] at h
    | .tok _ :: .res _ :: _, h => simp [step] at h
    | .flag _ :: _, h => simp [step] at h
    | .res _ :: _, h => simp [step] at h
  | flagRes =>
    match stack, h with
    | .flag f :: st, h =>
      simp only [step, Step.next.injEq] at h; subst h
      simp [evid, stackVis, vis_flagResult, Op.evidence]
      fin
    | [], h => simp [step] at h
    | .tok _ :: _, h => simp [step] at h
    | .res _ :: _, h => simp [step] at h
  | errOf =>
    match stack, h with
    | .tok t :: st, h =>
      simp only [step, Step.next.injEq] at h; subst h
      simp [evid, stackVis, Op.evidence]
      fin
    | [], h => simp [step] at h
    | .flag _ :: _, h => simp [step] at h
    | .res _ :: _, h => simp [step] at h
  | okUnit =>
    simp only [step, Step.next.injEq] at h; subst h
    simp [evid, stackVis, Op.evidence]
    fin
  | orElse =>
    match stack, h with
    | .res r :: .flag f :: st, h =>
      simp only [step, Step.next.injEq] at h; subst h
      simp [evid, stackVis, vis_absorb, Op.evidence, Bool.or_comm, Bool.or_left_comm]
      fin
    | [], h => simp [step] at h
    | [.res _], h => simp [step] at h
    | .res _ :: .tok _ :: _, h => simp [step] at h
    | .res _ :: .res _ :: _, h => simp [step] at h
    | .flag _ :: _, h => simp [step] at h
    | .tok _ :: _, h => simp [step] at h
  | collect n =>
    simp only [step] at h
    cases hp : popRes n stack with
    | none => simp [hp] at h
    | some p =>
      obtain ⟨rs, st⟩ := p
      simp [hp] at h; subst h
      have := popRes_vis n stack rs st hp
      simp only [stackVis] at this
      simp [evid, this, Op.evidence, vis_collectRes, stackVis]
      fin
  | collectEmit es =>
    simp only [step, Step.next.injEq] at h; subst h
    have hs := runElems_spec es log none
    simp [evid, stackVis, vis_flagResult, hs.1, hs.2, Op.evidence, Bool.or_comm, Bool.or_left_comm]
    fin
  | try_ =>
    match stack, h with
    | .res (.ok u) :: st, h =>
      simp only [step, Step.next.injEq] at h; subst h
      simp [evid, stackVis, Op.evidence]
      fin
    | .res (.error t) :: st, h => simp [step] at h
    | [], h => simp [step] at h
    | .flag _ :: _, h => simp [step] at h
    | .tok _ :: _, h => simp [step] at h

theorem step_halt_stack (s s' : State) (op : Op) (t : Token) (h : step s op = .halt t s') :
    s' = s ∧ ∃ st, s.stack = .res (.error t) :: st := by
  obtain ⟨stack, log, lost⟩ := s
  cases op with
  | try_ =>
    match stack, h with
    | .res (.error t0) :: st, h =>
      simp only [step, Step.halt.injEq] at h
      obtain ⟨rfl, rfl⟩ := h
      exact ⟨rfl, st, rfl⟩
    | .res (.ok u) :: st, h => simp [step] at h
    | [], h => simp [step] at h
    | .flag _ :: _, h => simp [step] at h
    | .tok _ :: _, h => simp [step] at h
  | emit w ds => simp [step] at h
  | emitIgnore w ds => simp [step] at h
  | flagNew => simp [step] at h
  | okUnit => simp [step] at h
  | collectEmit es => simp [step] at h
  | ignore => simp only [step] at h; split at h <;> simp at h
  | drop => simp only [step] at h; split at h <;> simp at h
  | flagSet => simp only [step] at h; split at h <;> simp at h
  | flagRes => simp only [step] at h; split at h <;> simp at h
  | errOf => simp only [step] at h; split at h <;> simp at h
  | orElse => simp only [step] at h; split at h <;> simp at h
  | collect n => simp only [step] at h; split at h <;> simp at h

theorem step_halt (s s' : State) (op : Op) (t : Token) (h : step s op = .halt t s') :
    s' = s ∧ (t.vis = true → stackVis s.stack = true) := by
  obtain ⟨rfl, st, hst⟩ := step_halt_stack s s' op t h
  exact ⟨rfl, fun hv => by simp [stackVis, hst, hv]⟩

theorem inv_step (s s' : State) (op : Op) (hi : Inv s) (h : step s op = .next s') : Inv s' := by
  have := step_next s s' op h
  unfold Inv at *
  rw [this.1, this.2, hi]

/-- the invariant holds in the state a run ends in -/
theorem exec_inv : (ops : List Op) → (s : State) → Inv s → (r : Except Token Unit) → (s' : State) →
    exec s ops = some (r, s') → Inv s'
  | [], s, hi, r, s', h => by
    simp only [exec] at h
    split at h <;> simp at h
    obtain ⟨_, rfl⟩ := h; exact hi
  | op :: ops, s, hi, r, s', h => by
    simp only [exec] at h
    cases hs : step s op with
    | next s1 => rw [hs] at h; exact exec_inv ops s1 (inv_step s s1 op hi hs) r s' h
    | halt t s1 =>
      rw [hs] at h; simp at h
      obtain ⟨_, rfl⟩ := h
      rw [(step_halt s s1 op t hs).1]; exact hi
    | stuck => rw [hs] at h; simp at h

/-- if the run failed with token `t`, `t` is among the evidence of the final state -/
theorem exec_error_evid : (ops : List Op) → (s : State) → (t : Token) → (s' : State) →
    exec s ops = some (.error t, s') → t.vis = true → stackVis s'.stack = true
  | [], s, t, s', h, hv => by
    simp only [exec] at h
    split at h <;> simp at h
    rename_i r hst
    obtain ⟨rfl, rfl⟩ := h
    simp [stackVis, hst, hv]
  | op :: ops, s, t, s', h, hv => by
    simp only [exec] at h
    cases hs : step s op with
    | next s1 => rw [hs] at h; exact exec_error_evid ops s1 t s' h hv
    | halt t1 s1 =>
      rw [hs] at h; simp at h
      obtain ⟨rfl, rfl⟩ := h
      have := step_halt s s1 op t1 hs
      rw [this.1]; exact this.2 hv
    | stuck => rw [hs] at h; simp at h

theorem inv_init : Inv State.init := by unfold Inv; rfl

/-- **The failing token is honest.**  For every trace, from every state satisfying the invariant
(e.g. the initial one): if the run fails with a token whose ghost bit says "an error was
rendered", the log does contain an error-severity diagnostic.  (The ghost bit is set only by
`emit`; no operation can forge it.) -/
theorem fail_token_honest (ops : List Op) (s : State) (hi : Inv s) (t : Token) (s' : State)
    (h : exec s ops = some (.error t, s')) (hv : t.vis = true) : hasErr s'.log = true := by
  have hinv := exec_inv ops s hi _ s' h
  have := exec_error_evid ops s t s' h hv
  unfold Inv evid at hinv
  rw [← hinv, this]; rfl

/-- **A rendered error makes the run fail**, unless its token was explicitly ignored or a value
holding it was dropped (`lost` counts those). -/
theorem error_implies_fail (ops : List Op) (s : State) (hi : Inv s) (r : Except Token Unit)
    (s' : State) (h : exec s ops = some (r, s')) (hl : s'.lost = 0)
    (he : hasErr s'.log = true) : exitCode r = 1 := by
  have hinv := exec_inv ops s hi r s' h
  unfold Inv evid at hinv
  rw [he, hl] at hinv
  simp at hinv
  -- the final stack holds evidence; it is either `[res r]` or the run halted with an error
  clear hi
  induction ops generalizing s with
  | nil =>
    simp only [exec] at h
    split at h <;> simp at h
    rename_i r0 hst
    obtain ⟨rfl, rfl⟩ := h
    cases r0 with
    | ok u => simp [stackVis, hst] at hinv
    | error t => rfl
  | cons op ops ih =>
    simp only [exec] at h
    cases hs : step s op with
    | next s1 => rw [hs] at h; exact ih s1 h
    | halt t s1 => rw [hs] at h; simp at h; obtain ⟨rfl, _⟩ := h; rfl
    | stuck => rw [hs] at h; simp at h

/-! ### Disciplined traces -/

def Val.clean : Val → Bool
  | .tok t => t.vis
  | .flag (some t) => t.vis
  | .flag none => true
  | .res (.error t) => t.vis
  | .res (.ok _) => true

def Clean (s : State) : Prop := ∀ v ∈ s.stack, Val.clean v = true

theorem clean_setFlag (f : Option Token) (t : Token) (hf : Val.clean (.flag f) = true)
    (ht : t.vis = true) : Val.clean (.flag (setFlag f t)) = true := by
  cases f <;> simp_all [setFlag, Val.clean]

theorem clean_absorb (f : Option Token) (r : Except Token Unit) (hf : Val.clean (.flag f) = true)
    (hr : Val.clean (.res r) = true) : Val.clean (.flag (absorb f r)) = true := by
  cases r with
  | ok u => simpa [absorb] using hf
  | error t => exact clean_setFlag f t hf (by simpa [Val.clean] using hr)

theorem clean_flagResult (f : Option Token) (hf : Val.clean (.flag f) = true) :
    Val.clean (.res (flagResult f)) = true := by
  cases f <;> simp_all [flagResult, Val.clean]

theorem clean_foldl (rs : List (Except Token Unit)) (f : Option Token)
    (hf : Val.clean (.flag f) = true) (hr : ∀ r ∈ rs, Val.clean (.res r) = true) :
    Val.clean (.flag (rs.foldl absorb f)) = true := by
  induction rs generalizing f with
  | nil => simpa using hf
  | cons r rs ih =>
    simp only [List.foldl]
    exact ih _ (clean_absorb f r hf (hr r (by simp))) (fun x hx => hr x (by simp [hx]))

theorem popRes_clean : (n : Nat) → (st : List Val) → (rs : List (Except Token Unit)) → (st' : List Val) →
    popRes n st = some (rs, st') → (∀ v ∈ st, Val.clean v = true) →
    (∀ r ∈ rs, Val.clean (.res r) = true) ∧ (∀ v ∈ st', Val.clean v = true)
  | 0, st, rs, st', h, hc => by simp [popRes] at h; obtain ⟨rfl, rfl⟩ := h; simp; exact hc
  | n + 1, [], rs, st', h, hc => by simp [popRes] at h
  | n + 1, .tok _ :: st, rs, st', h, hc => by simp [popRes] at h
  | n + 1, .flag _ :: st, rs, st', h, hc => by simp [popRes] at h
  | n + 1, .res r :: st, rs, st', h, hc => by
    simp only [popRes] at h
    cases hp : popRes n st with
    | none => simp [hp] at h
    | some p =>
      obtain ⟨rs0, st0⟩ := p
      simp [hp] at h
      obtain ⟨rfl, rfl⟩ := h
      have ih := popRes_clean n st rs0 st0 hp (fun v hv => hc v (by simp [hv]))
      refine ⟨?_, ih.2⟩
      intro x hx
      simp at hx
      rcases hx with hx | rfl
      · exact ih.1 x hx
      · exact hc _ (by simp)

theorem runElems_clean : (es : List Elem) → (log : Log) → (f : Option Token) →
    Val.clean (.flag f) = true →
    (es.all fun e => match e with
      | none => true
      | some (w, ds) => w.visible && ds.any (·.isError)) = true →
    Val.clean (.flag (runElems es log f).2) = true
  | [], log, f, hf, _ => by simpa [runElems] using hf
  | none :: es, log, f, hf, he => by
    simp only [runElems]
    exact runElems_clean es log f hf (by simpa using he)
  | some (w, ds) :: es, log, f, hf, he => by
    simp only [runElems]
    simp only [List.all_cons, Bool.and_eq_true] at he
    exact runElems_clean es _ _ (clean_setFlag f _ hf (by simpa [emitTok] using he.1)) he.2

theorem clean_step (s s' : State) (op : Op) (hc : Clean s) (hd : op.disciplined = true)
    (h : step s op = .next s') : Clean s' := by
  obtain ⟨stack, log, lost⟩ := s
  unfold Clean at *
  simp only at hc
  cases op with
  | emit w ds =>
    simp only [step, Step.next.injEq] at h; subst h
    intro v hv; simp at hv
    rcases hv with rfl | hv
    · simpa [Val.clean, emitTok, Op.disciplined] using hd
    · exact hc v hv
  | emitIgnore w ds => simp only [step, Step.next.injEq] at h; subst h; exact hc
  | ignore =>
    match stack, h with
    | .tok t :: st, h =>
      simp only [step, Step.next.injEq] at h; subst h
      intro v hv; exact hc v (by simp [hv])
    | [], h => simp [step] at h
    | .flag _ :: _, h => simp [step] at h
    | .res _ :: _, h => simp [step] at h
  | drop =>
    match stack, h with
    | v0 :: st, h =>
      simp only [step, Step.next.injEq] at h; subst h
      intro v hv; exact hc v (by simp [hv])
    | [], h => simp [step] at h
  | flagNew =>
    simp only [step, Step.next.injEq] at h; subst h
    intro v hv; simp at hv
    rcases hv with rfl | hv
    · rfl
    · exact hc v hv
  | flagSet =>
    match stack, h with
    | .tok t :: .flag f :: st, h =>
      simp only [step, Step.next.injEq] at h; subst h
      intro v hv; simp at hv
      rcases hv with rfl | hv
      · exact clean_setFlag f t (hc _ (by simp)) (by simpa [Val.clean] using hc (.tok t) (by simp))
      · exact hc v (by simp [hv])
    | [], h => simp [step] at h
    | [.tok _], h => simp [step] at h
    | .tok _ :: .tok _ :: _, h => simp [step] at h
    | .tok _ :: .res _ :: _, h => simp [step] at h
    | .flag _ :: _, h => simp [step] at h
    | .res _ :: _, h => simp [step] at h
  | flagRes =>
    match stack, h with
    | .flag f :: st, h =>
      simp only [step, Step.next.injEq] at h; subst h
      intro v hv; simp at hv
      rcases hv with rfl | hv
      · exact clean_flagResult f (hc _ (by simp))
      · exact hc v (by simp [hv])
    | [], h => simp [step] at h
    | .tok _ :: _, h => simp [step] at h
    | .res _ :: _, h => simp [step] at h
  | errOf =>
    match stack, h with
    | .tok t :: st, h =>
      simp only [step, Step.next.injEq] at h; subst h
      intro v hv; simp at hv
      rcases hv with rfl | hv
      · simpa [Val.clean] using hc (.tok t) (by simp)
      · exact hc v (by simp [hv])
    | [], h => simp [step] at h
    | .flag _ :: _, h => simp [step] at h
    | .res _ :: _, h => simp [step] at h
  | okUnit =>
    simp only [step, Step.next.injEq] at h; subst h
    intro v hv; simp at hv
    rcases hv with rfl | hv
    · rfl
    · exact hc v hv
  | orElse =>
    match stack, h with
    | .res r :: .flag f :: st, h =>
      simp only [step, Step.next.injEq] at h; subst h
      intro v hv; simp at hv
      rcases hv with rfl | hv
      · exact clean_absorb f r (hc _ (by simp)) (hc _ (by simp))
      · exact hc v (by simp [hv])
    | [], h => simp [step] at h
    | [.res _], h => simp [step] at h
    | .res _ :: .tok _ :: _, h => simp [step] at h
    | .res _ :: .res _ :: _, h => simp [step] at h
    | .flag _ :: _, h => simp [step] at h
    | .tok _ :: _, h => simp [step] at h
  | collect n =>
    simp only [step] at h
    cases hp : popRes n stack with
    | none => simp [hp] at h
    | some p =>
      obtain ⟨rs, st⟩ := p
      simp [hp] at h; subst h
      have := popRes_clean n stack rs st hp hc
      intro v hv; simp at hv
      rcases hv with rfl | hv
      · exact clean_flagResult _ (clean_foldl rs none rfl this.1)
      · exact this.2 v hv
  | collectEmit es =>
    simp only [step, Step.next.injEq] at h; subst h
    intro v hv; simp at hv
    rcases hv with rfl | hv
    · exact clean_flagResult _ (runElems_clean es log none rfl hd)
    · exact hc v hv
  | try_ =>
    match stack, h with
    | .res (.ok u) :: st, h =>
      simp only [step, Step.next.injEq] at h; subst h
      intro v hv; exact hc v (by simp [hv])
    | .res (.error t) :: st, h => simp [step] at h
    | [], h => simp [step] at h
    | .flag _ :: _, h => simp [step] at h
    | .tok _ :: _, h => simp [step] at h

/-- in a disciplined trace the failing token always stands for a rendered error -/
theorem disciplined_token_vis : (ops : List Op) → (s : State) → Clean s →
    (∀ op ∈ ops, op.disciplined = true) → (t : Token) → (s' : State) →
    exec s ops = some (.error t, s') → t.vis = true
  | [], s, hc, _, t, s', h => by
    simp only [exec] at h
    split at h <;> simp at h
    rename_i r hst
    obtain ⟨rfl, rfl⟩ := h
    have := hc (.res (.error t)) (by simp [hst])
    simpa [Val.clean] using this
  | op :: ops, s, hc, hd, t, s', h => by
    simp only [exec] at h
    cases hs : step s op with
    | next s1 =>
      rw [hs] at h
      exact disciplined_token_vis ops s1 (clean_step s s1 op hc (hd op (by simp)) hs)
        (fun o ho => hd o (by simp [ho])) t s' h
    | halt t1 s1 =>
      rw [hs] at h; simp at h
      obtain ⟨rfl, rfl⟩ := h
      obtain ⟨_, st, hst⟩ := step_halt_stack s s1 op t1 hs
      have := hc (.res (.error t1)) (by simp [hst])
      simpa [Val.clean] using this
    | stuck => rw [hs] at h; simp at h

/-- **Exit status iff error diagnostic.**  For every disciplined trace (every token that is kept
comes from an emit that rendered an error-severity diagnostic on a visible writer; warnings are
emitted with `.ignore()`) in which no error-bearing token was ignored or dropped: the process exit
status is 1 iff the log contains an error-severity diagnostic. -/
theorem exit_iff_error (ops : List Op) (hd : ∀ op ∈ ops, op.disciplined = true)
    (r : Except Token Unit) (s : State) (h : exec State.init ops = some (r, s)) (hl : s.lost = 0) :
    exitCode r = 1 ↔ hasErr s.log = true := by
  constructor
  · intro he
    cases r with
    | ok u => simp [exitCode] at he
    | error t =>
      have hv := disciplined_token_vis ops State.init (by intro v hv; simp [State.init] at hv) hd t s h
      exact fail_token_honest ops State.init inv_init t s h hv
  · exact error_implies_fail ops State.init inv_init r s h hl

/-! ### Warnings alone never fail -/

def Val.tokFree : Val → Bool
  | .flag none => true
  | .res (.ok _) => true
  | _ => false

theorem runElems_none : (es : List Elem) → (log : Log) → (f : Option Token) →
    es.all (·.isNone) = true → runElems es log f = (log, f)
  | [], log, f, _ => rfl
  | none :: es, log, f, h => by simp only [runElems]; exact runElems_none es log f (by simpa using h)
  | some _ :: es, log, f, h => by simp at h

theorem popRes_tokFree : (n : Nat) → (st : List Val) → (rs : List (Except Token Unit)) → (st' : List Val) →
    popRes n st = some (rs, st') → (∀ v ∈ st, Val.tokFree v = true) →
    (∀ r ∈ rs, r = .ok ()) ∧ (∀ v ∈ st', Val.tokFree v = true)
  | 0, st, rs, st', h, hc => by simp [popRes] at h; obtain ⟨rfl, rfl⟩ := h; simp; exact hc
  | n + 1, [], rs, st', h, hc => by simp [popRes] at h
  | n + 1, .tok _ :: st, rs, st', h, hc => by simp [popRes] at h
  | n + 1, .flag _ :: st, rs, st', h, hc => by simp [popRes] at h
  | n + 1, .res r :: st, rs, st', h, hc => by
    simp only [popRes] at h
    cases hp : popRes n st with
    | none => simp [hp] at h
    | some p =>
      obtain ⟨rs0, st0⟩ := p
      simp [hp] at h
      obtain ⟨rfl, rfl⟩ := h
      have ih := popRes_tokFree n st rs0 st0 hp (fun v hv => hc v (by simp [hv]))
      refine ⟨?_, ih.2⟩
      intro x hx
      simp at hx
      rcases hx with hx | rfl
      · exact ih.1 x hx
      · have := hc (.res x) (by simp)
        cases x with
        | ok u => rfl
        | error t => simp [Val.tokFree] at this

theorem foldl_absorb_ok (rs : List (Except Token Unit)) (h : ∀ r ∈ rs, r = .ok ()) :
    rs.foldl absorb none = none := by
  induction rs with
  | nil => rfl
  | cons r rs ih =>
    have := h r (by simp); subst this
    simp only [List.foldl, absorb]
    exact ih (fun x hx => h x (by simp [hx]))

theorem tokFree_step (s s' : State) (op : Op) (hc : ∀ v ∈ s.stack, Val.tokFree v = true)
    (hd : op.tokenFree = true) (h : step s op = .next s') : ∀ v ∈ s'.stack, Val.tokFree v = true := by
  obtain ⟨stack, log, lost⟩ := s
  simp only at hc
  cases op with
  | emit w ds => simp [Op.tokenFree] at hd
  | emitIgnore w ds => simp only [step, Step.next.injEq] at h; subst h; exact hc
  | ignore =>
    match stack, h with
    | .tok t :: st, h => have := hc (.tok t) (by simp); simp [Val.tokFree] at this
    | [], h => simp [step] at h
    | .flag _ :: _, h => simp [step] at h
    | .res _ :: _, h => simp [step] at h
  | drop =>
    match stack, h with
    | v0 :: st, h =>
      simp only [step, Step.next.injEq] at h; subst h
      intro v hv; exact hc v (by simp [hv])
    | [], h => simp [step] at h
  | flagNew =>
    simp only [step, Step.next.injEq] at h; subst h
    intro v hv; simp at hv
    rcases hv with rfl | hv
    · rfl
    · exact hc v hv
  | flagSet =>
    match stack, h with
    | .tok t :: .flag f :: st, h => have := hc (.tok t) (by simp); simp [Val.tokFree] at this
    | [], h => simp [step] at h
    | [.tok _], h => simp [step] at h
    | .tok _ :: .tok _ :: _, h => simp [step] at h
    | .tok _ :: .res _ :: _, h => simp [step] at h
    | .flag _ :: _, h => simp [step] at h
    | .res _ :: _, h => simp [step] at h
  | flagRes =>
    match stack, h with
    | .flag f :: st, h =>
      simp only [step, Step.next.injEq] at h; subst h
      have hf := hc (.flag f) (by simp)
      cases f with
      | some t => simp [Val.tokFree] at hf
      | none =>
        intro v hv; simp at hv
        rcases hv with rfl | hv
        · rfl
        · exact hc v (by simp [hv])
    | [], h => simp [step] at h
    | .tok _ :: _, h => simp [step] at h
    | .res _ :: _, h => simp [step] at h
  | errOf =>
    match stack, h with
    | .tok t :: st, h => have := hc (.tok t) (by simp); simp [Val.tokFree] at this
    | [], h => simp [step] at h
    | .flag _ :: _, h => simp [step] at h
    | .res _ :: _, h => simp [step] at h
  | okUnit =>
    simp only [step, Step.next.injEq] at h; subst h
    intro v hv; simp at hv
    rcases hv with rfl | hv
    · rfl
    · exact hc v hv
  | orElse =>
    match stack, h with
    | .res r :: .flag f :: st, h =>
      simp only [step, Step.next.injEq] at h; subst h
      have hr := hc (.res r) (by simp)
      have hf := hc (.flag f) (by simp)
      cases r with
      | error t => simp [Val.tokFree] at hr
      | ok u =>
        intro v hv; simp at hv
        rcases hv with rfl | hv
        · simpa [absorb] using hf
        · exact hc v (by simp [hv])
    | [], h => simp [step] at h
    | [.res _], h => simp [step] at h
    | .res _ :: .tok _ :: _, h => simp [step] at h
    | .res _ :: .res _ :: _, h => simp [step] at h
    | .flag _ :: _, h => simp [step] at h
    | .tok _ :: _, h => simp [step] at h
  | collect n =>
    simp only [step] at h
    cases hp : popRes n stack with
    | none => simp [hp] at h
    | some p =>
      obtain ⟨rs, st⟩ := p
      simp [hp] at h; subst h
      have := popRes_tokFree n stack rs st hp hc
      intro v hv; simp at hv
      rcases hv with rfl | hv
      · simp [collectRes, foldl_absorb_ok rs this.1, flagResult, Val.tokFree]
      · exact this.2 v hv
  | collectEmit es =>
    simp only [step, Step.next.injEq] at h; subst h
    have := runElems_none es log none (by simpa [Op.tokenFree] using hd)
    intro v hv; simp [this] at hv
    rcases hv with rfl | hv
    · rfl
    · exact hc v hv
  | try_ =>
    match stack, h with
    | .res (.ok u) :: st, h =>
      simp only [step, Step.next.injEq] at h; subst h
      intro v hv; exact hc v (by simp [hv])
    | .res (.error t) :: st, h => simp [step] at h
    | [], h => simp [step] at h
    | .flag _ :: _, h => simp [step] at h
    | .tok _ :: _, h => simp [step] at h

theorem tokFree_exec : (ops : List Op) → (s : State) → (∀ v ∈ s.stack, Val.tokFree v = true) →
    (∀ op ∈ ops, op.tokenFree = true) → (r : Except Token Unit) → (s' : State) →
    exec s ops = some (r, s') → exitCode r = 0
  | [], s, hc, _, r, s', h => by
    simp only [exec] at h
    split at h <;> simp at h
    rename_i r0 hst
    obtain ⟨rfl, rfl⟩ := h
    have := hc (.res r0) (by simp [hst])
    cases r0 with
    | ok u => rfl
    | error t => simp [Val.tokFree] at this
  | op :: ops, s, hc, hd, r, s', h => by
    simp only [exec] at h
    cases hs : step s op with
    | next s1 =>
      rw [hs] at h
      exact tokFree_exec ops s1 (tokFree_step s s1 op hc (hd op (by simp)) hs)
        (fun o ho => hd o (by simp [ho])) r s' h
    | halt t s1 =>
      obtain ⟨_, st, hst⟩ := step_halt_stack s s1 op t hs
      have := hc (.res (.error t)) (by simp [hst])
      simp [Val.tokFree] at this
    | stuck => rw [hs] at h; simp at h

/-- **Warnings alone never fail.**  A trace that keeps no token (every diagnostic, of whatever
severity, is emitted with `.ignore()`; iterators given to `collect_with_recovery` yield only `Ok`)
exits with status 0. -/
theorem warnings_never_fail (ops : List Op) (hd : ∀ op ∈ ops, op.tokenFree = true)
    (r : Except Token Unit) (s : State) (h : exec State.init ops = some (r, s)) : exitCode r = 0 :=
  tokFree_exec ops State.init (by intro v hv; simp [State.init] at hv) hd r s h

/-! ### `collect_with_recovery` -/

def elemEntries : Elem → Log
  | none => []
  | some (w, ds) => if w.visible then ds.map (fun s => ⟨s, w.depth⟩) else []

theorem runElems_log : (es : List Elem) → (log : Log) → (f : Option Token) →
    (runElems es log f).1 = log ++ es.flatMap elemEntries
  | [], log, f => by simp [runElems]
  | none :: es, log, f => by simp [runElems, runElems_log es log f, elemEntries]
  | some (w, ds) :: es, log, f => by
    simp only [runElems, runElems_log es _ _, emitLog, elemEntries, List.flatMap_cons]
    split <;> simp

theorem runElems_flag : (es : List Elem) → (log : Log) → (f : Option Token) →
    ((runElems es log f).2.isSome = (f.isSome || es.any (·.isSome)))
  | [], log, f => by simp [runElems]
  | none :: es, log, f => by simp [runElems, runElems_flag es log f]
  | some (w, ds) :: es, log, f => by
    simp only [runElems, runElems_flag es _ _]
    cases f <;> simp [setFlag]

/-- **`collect_with_recovery` reports every element's error**: all elements are evaluated (the
diagnostics of every failing element are in the log, in order, none skipped after the first
failure), and the result is `Err` iff some element failed. -/
theorem collect_reports_every_error (es : List Elem) (s s' : State)
    (h : step s (.collectEmit es) = .next s') :
    s'.log = s.log ++ es.flatMap elemEntries ∧
    ∃ r, s'.stack = .res r :: s.stack ∧ (exitCode r = 1 ↔ es.any (·.isSome) = true) := by
  simp only [step, Step.next.injEq] at h; subst h
  refine ⟨runElems_log es s.log none, _, rfl, ?_⟩
  have := runElems_flag es s.log none
  cases hf : (runElems es s.log none).2 with
  | none =>
    rw [hf] at this
    simp only [flagResult, exitCode]
    constructor
    · intro h; cases h
    · intro h; rw [h] at this; simp at this
  | some t =>
    rw [hf] at this
    simp only [flagResult, exitCode]
    constructor
    · intro _; simpa using this.symm
    · intro _; trivial

/-! ### Non-vacuity and the ways around the iff that the API leaves open -/

/-- a disciplined trace with an error in an iterator, a warning, and a flag: fails, error in the log -/
def exTrace : List Op :=
  [.flagNew, .emitIgnore .root [.warning],
   .collectEmit [none, some (.chain 2, [.error]), none, some (.root, [.error, .note])], .orElse,
   .okUnit, .try_, .flagRes]

example : ∀ op ∈ exTrace, op.disciplined = true := by decide
example : (exec State.init exTrace).map (fun p => (exitCode p.1, p.2.log.length, p.2.lost)) = some (1, 4, 0) := by
  decide
example : ∀ op ∈ [Op.emitIgnore .root [.warning], .okUnit], op.tokenFree = true := by decide
example : (exec State.init [.emitIgnore .root [.warning], .okUnit]).map (fun p => exitCode p.1) = some 0 := by
  decide

/-- `Err(emitter.emit(warning!(..)))`: the API hands out a token for a warning.  The run fails
and no error-severity diagnostic is in the log (the defect class of the fixed finding
"read-fails-without-error-diagnostic", C16). -/
theorem warning_as_error_fails_silently :
    ∃ t s, exec State.init [.emit .root [.warning], .errOf] = some (.error t, s) ∧
      hasErr s.log = false ∧ t.vis = false := ⟨_, _, rfl, by decide, rfl⟩

/-- `emit(Vec::new())` and `DummyEmitter` / `dev_null()` emitters hand out tokens as well -/
theorem empty_emit_fails_silently :
    (∃ t s, exec State.init [.emit .root [], .errOf] = some (.error t, s) ∧ s.log = []) ∧
    (∃ t s, exec State.init [.emit .dummy [.error], .errOf] = some (.error t, s) ∧ s.log = []) ∧
    (∃ t s, exec State.init [.emit .null [.error], .errOf] = some (.error t, s) ∧ s.log = []) :=
  ⟨⟨_, _, rfl, rfl⟩, ⟨_, _, rfl, rfl⟩, ⟨_, _, rfl, rfl⟩⟩

/-- an `ErrorFlag` that is set and then goes out of scope without `into_result`: error rendered,
exit status 0.  The API still allows it; the one instance found in the code
(`src/formats/ecl/ecl_10.rs:196-265`, modern ECL) is repaired (b5d9cfe adds
`errors.into_result(())?`). -/
theorem dropped_flag_succeeds_after_error :
    ∃ s, exec State.init [.flagNew, .emit .root [.error], .flagSet, .drop, .okUnit] = some (.ok (), s) ∧
      hasErr s.log = true ∧ s.lost = 1 := ⟨_, rfl, by decide, rfl⟩

/-- hence without the two side conditions the iff is false -/
theorem exit_iff_error_needs_discipline :
    ¬ ∀ (ops : List Op) (r : Except Token Unit) (s : State), exec State.init ops = some (r, s) →
      (exitCode r = 1 ↔ hasErr s.log = true) := by
  intro h
  obtain ⟨t, s, he, hl, _⟩ := warning_as_error_fails_silently
  have := (h _ _ _ he).1 rfl
  rw [hl] at this
  cases this

/-! ## 2. Spans -/

theorem isCharBoundary_zero (src : List UInt8) : isCharBoundary src 0 = true := by simp [isCharBoundary]
theorem isCharBoundary_len (src : List UInt8) : isCharBoundary src src.length = true := by
  simp [isCharBoundary]

theorem valid_known (fs : Files) (s : Span) (h : s.valid fs = true) : s.known fs = true := by
  unfold Span.valid at h
  unfold Span.known
  cases hf : s.file with
  | none => simp [hf] at h
  | some f =>
    simp only [hf] at h ⊢
    cases hg : fs[f]? with
    | none => simp [hg] at h
    | some src =>
      have := List.getElem?_eq_some_iff.mp hg
      obtain ⟨hlt, _⟩ := this
      simpa using hlt

/-- what validity means, unfolded -/
theorem valid_iff (fs : Files) (s : Span) :
    s.valid fs = true ↔ ∃ f src, s.file = some f ∧ fs[f]? = some src ∧ s.lo ≤ s.hi ∧
      s.hi ≤ src.length ∧ isCharBoundary src s.lo = true ∧ isCharBoundary src s.hi = true := by
  obtain ⟨file, lo, hi⟩ := s
  cases file with
  | none => simp [Span.valid]
  | some f =>
    cases hg : fs[f]? with
    | none => simp [Span.valid, hg]
    | some src => simp [Span.valid, hg, and_assoc]

theorem min_cases (a b : Nat) : min a b = a ∨ min a b = b := by omega
theorem max_cases (a b : Nat) : max a b = a ∨ max a b = b := by omega

/-- **Everything built from valid token spans is valid.** -/
theorem built_spans_valid (fs : Files) (toks : List Span) (ht : ∀ t ∈ toks, t.valid fs = true)
    (s : Span) (h : Built fs toks s) : s.valid fs = true := by
  induction h with
  | tok hm => exact ht _ hm
  | @join a b _ _ hf hle iha ihb =>
    obtain ⟨f, src, haf, hsrc, _, _, hal, _⟩ := (valid_iff fs a).mp iha
    obtain ⟨f', src', hbf, hsrc', _, hbh, _, hbb⟩ := (valid_iff fs b).mp ihb
    have : f' = f := by rw [haf, hbf] at hf; exact (Option.some.inj hf).symm
    subst this
    have : src' = src := by rw [hsrc] at hsrc'; exact (Option.some.inj hsrc').symm
    subst this
    exact (valid_iff fs _).mpr ⟨f', src', haf, hsrc, hle, hbh, hal, hbb⟩
  | @merge a b _ _ hf iha ihb =>
    obtain ⟨f, src, haf, hsrc, hale, hah, hal, hahb⟩ := (valid_iff fs a).mp iha
    obtain ⟨f', src', hbf, hsrc', hble, hbh, hbl, hbb⟩ := (valid_iff fs b).mp ihb
    have : f' = f := by rw [haf, hbf] at hf; exact (Option.some.inj hf).symm
    subst this
    have : src' = src := by rw [hsrc] at hsrc'; exact (Option.some.inj hsrc').symm
    subst this
    refine (valid_iff fs _).mpr ⟨f', src', haf, hsrc, by simp only; omega, by simp only; omega, ?_, ?_⟩
    · simp only; rcases min_cases a.lo b.lo with h | h <;> rw [h] <;> assumption
    · simp only; rcases max_cases a.hi b.hi with h | h <;> rw [h] <;> assumption
  | @start a _ iha =>
    obtain ⟨f, src, haf, hsrc, hale, hah, hal, _⟩ := (valid_iff fs a).mp iha
    exact (valid_iff fs _).mpr ⟨f, src, haf, hsrc, Nat.le_refl _, by simp only [Span.startSpan]; omega, hal, hal⟩
  | @stop a _ iha =>
    obtain ⟨f, src, haf, hsrc, hale, hah, _, hab⟩ := (valid_iff fs a).mp iha
    exact (valid_iff fs _).mpr ⟨f, src, haf, hsrc, Nat.le_refl _, hah, hab, hab⟩
  | @initial f src hsrc =>
    exact (valid_iff fs _).mpr ⟨f, src, rfl, hsrc, Nat.le_refl _, Nat.zero_le _, isCharBoundary_zero src, isCharBoundary_zero src⟩
  | @eof f src hsrc =>
    exact (valid_iff fs _).mpr ⟨f, src, rfl, hsrc, Nat.le_refl _, Nat.le_refl _, isCharBoundary_len src, isCharBoundary_len src⟩

/-- the combinators do not hit their assertions on spans of one file in source order -/
theorem join_ok (a b : Span) (hle : a.lo ≤ b.hi) :
    Span.join a b = .ok ⟨a.file, a.lo, b.hi⟩ := by simp [Span.join, Span.new, hle]

theorem merge_ok (fs : Files) (a b : Span) (ha : a.valid fs = true) (hb : b.valid fs = true)
    (hf : a.file = b.file) : Span.merge a b = .ok ⟨a.file, min a.lo b.lo, max a.hi b.hi⟩ := by
  obtain ⟨_, _, _, _, hale, _⟩ := (valid_iff fs a).mp ha
  obtain ⟨_, _, _, _, hble, _⟩ := (valid_iff fs b).mp hb
  have : min a.lo b.lo ≤ max a.hi b.hi := by omega
  simp [Span.merge, Span.new, hf, this]

/-- the assertions are reachable otherwise (they are what the model's `panic` arms mirror) -/
theorem merge_panics_across_files (a b : Span) (h : a.file ≠ b.file) :
    Span.merge a b = .panic "assertion `left == right` failed" := by simp [Span.merge, h]
theorem new_panics_reversed (f : Option Nat) (lo hi : Nat) (h : hi < lo) :
    Span.new f lo hi = .panic "assertion failed: end >= start" := by
  simp [Span.new]; omega

/-- **Rendering panics exactly when a label's file is unknown.** -/
theorem render_panics_iff (fs : Files) (labels : List Span) :
    (∃ p, render fs labels = .panic p) ↔ ∃ l ∈ labels, l.known fs = false := by
  induction labels with
  | nil => simp [render]
  | cons l ls ih =>
    simp only [render, renderLabel]
    cases hk : l.known fs with
    | true => simp [hk, ih]
    | false => simp [hk]

theorem render_never_errs (fs : Files) (labels : List Span) (c : String) : render fs labels ≠ .err c := by
  induction labels with
  | nil => simp [render]
  | cons l ls ih =>
    simp only [render, renderLabel]
    cases hk : l.known fs <;> simp [hk, ih]

/-- hence a diagnostic whose labels were built from valid token spans renders -/
theorem built_spans_render (fs : Files) (toks : List Span) (ht : ∀ t ∈ toks, t.valid fs = true)
    (labels : List Span) (hl : ∀ l ∈ labels, Built fs toks l) : render fs labels = .ok () := by
  cases h : render fs labels with
  | ok u => rfl
  | err c => exact absurd h (render_never_errs fs labels c)
  | panic p =>
    obtain ⟨l, hm, hk⟩ := (render_panics_iff fs labels).mp ⟨p, h⟩
    have := valid_known fs l (built_spans_valid fs toks ht l (hl l hm))
    rw [this] at hk; cases hk

/-! ### labels are made by `primary` / `secondary` (c4ddfe9): file-less spans become notes -/

theorem ofSpans_go (d : DiagB) (spans : List Span) :
    (spans.foldl DiagB.addLabel d).labels = d.labels ++ spans.filter (fun s => s.file.isSome) ∧
    (spans.foldl DiagB.addLabel d).notes = d.notes + (spans.filter (fun s => s.file.isNone)).length := by
  induction spans generalizing d with
  | nil => simp
  | cons s ss ih =>
    obtain ⟨file, lo, hi⟩ := s
    cases file with
    | none =>
      have := ih (DiagB.addLabel d ⟨none, lo, hi⟩)
      simp only [List.foldl, DiagB.addLabel] at this ⊢
      simp [this]; omega
    | some f =>
      have := ih (DiagB.addLabel d ⟨some f, lo, hi⟩)
      simp only [List.foldl, DiagB.addLabel] at this ⊢
      simp [this]

/-- the labels of a built diagnostic are exactly the spans that have a file, in order; every other
span is a note -/
theorem ofSpans_labels (spans : List Span) :
    (DiagB.ofSpans spans).labels = spans.filter (fun s => s.file.isSome) ∧
    (DiagB.ofSpans spans).notes = (spans.filter (fun s => s.file.isNone)).length := by
  have := ofSpans_go DiagB.empty spans
  simpa [DiagB.ofSpans, DiagB.empty] using this

/-- **A diagnostic built through `primary` / `secondary` fails to render exactly when one of its
spans names a file id that the database does not know**; file-less spans (`Span::NULL`) never do. -/
theorem renderDiag_panics_iff (fs : Files) (spans : List Span) :
    (∃ p, renderDiag fs spans = .panic p) ↔ ∃ s ∈ spans, ∃ f, s.file = some f ∧ ¬ f < fs.length := by
  unfold renderDiag
  rw [render_panics_iff, (ofSpans_labels spans).1]
  constructor
  · rintro ⟨l, hm, hk⟩
    simp only [List.mem_filter] at hm
    obtain ⟨hm, hs⟩ := hm
    cases hf : l.file with
    | none => simp [hf] at hs
    | some f => exact ⟨l, hm, f, hf, by simpa [Span.known, hf] using hk⟩
  · rintro ⟨s, hm, f, hf, hlt⟩
    exact ⟨s, by simp [List.mem_filter, hm, hf], by simp [Span.known, hf, hlt]⟩

/-- **`Span::NULL` renders** (as a note): a diagnostic whose spans all are file-less or valid
renders.  This replaces `null_span_panics`, which held of the code before c4ddfe9 (a raw label
without file still panics in `render`, see `render_panics_iff`, but no public constructor makes
one any more). -/
theorem null_span_renders (fs : Files) : renderDiag fs [⟨none, 0, 0⟩] = .ok () := rfl

theorem renderDiag_ok (fs : Files) (spans : List Span)
    (h : ∀ s ∈ spans, s.file = none ∨ s.valid fs = true) : renderDiag fs spans = .ok () := by
  cases hr : renderDiag fs spans with
  | ok u => rfl
  | err c => exact absurd hr (render_never_errs fs _ c)
  | panic p =>
    obtain ⟨s, hm, f, hf, hlt⟩ := (renderDiag_panics_iff fs spans).mp ⟨p, hr⟩
    rcases h s hm with hn | hv
    · rw [hf] at hn; cases hn
    · have := valid_known fs s hv
      simp [Span.known, hf] at this
      exact absurd this hlt

/-- non-vacuity: `int x = "あ";` (the string literal has multi-byte characters) -/
def exSrc : List UInt8 := "ab \"あ\" c".toUTF8.data.toList
def exFiles : Files := [exSrc]
def exToks : List Span := [⟨some 0, 0, 2⟩, ⟨some 0, 3, 8⟩, ⟨some 0, 9, 10⟩]

example : ∀ t ∈ exToks, t.valid exFiles = true := by decide
example : Span.valid exFiles ⟨some 0, 3, 5⟩ = false := by decide   -- inside `あ`
example : Built exFiles exToks ⟨some 0, 0, 8⟩ :=
  Built.join (a := ⟨some 0, 0, 2⟩) (b := ⟨some 0, 3, 8⟩) (.tok (by decide)) (.tok (by decide)) rfl (by decide)
example : render exFiles [⟨some 0, 0, 8⟩, ⟨some 0, 10, 10⟩] = .ok () := by decide
example : render exFiles [⟨some 0, 0, 8⟩, ⟨some 1, 0, 0⟩] = .panic "Internal compiler error while formatting error" := by
  decide
-- "ambiguous value for enum const": first span of the built-in definition (no file), second in the mapfile
example : DiagB.ofSpans [⟨none, 0, 0⟩, ⟨some 0, 3, 8⟩] = ⟨[⟨some 0, 3, 8⟩], 1⟩ := by decide
example : renderDiag exFiles [⟨none, 0, 0⟩, ⟨some 0, 3, 8⟩] = .ok () := by decide
example : renderDiag exFiles [⟨some 7, 0, 0⟩] = .panic "Internal compiler error while formatting error" := by decide

section Progress
open TruthModel.Types TruthModel.Pipeline TruthModel.C09

/-! ## 3. Progress -/

/-- no `panic` outcome -/
def NP {α : Type} (x : Outcome α) : Prop := ∀ p, x ≠ .panic p

/-- the cached const values respect the declared types -/
def CsOk (Γ : Ctx) (cs : Consts) : Prop := ∀ n v, cs n = some v → Γ.varTy n = .typed v.ty

theorem toConstT_ofValue (w : Value) : toConstT (ofValue w) = some w := by cases w <;> rfl

theorem unop_typed (F : FloatOps) (op : UnOp) (v : Value) (t t' : Ty) (hv : v.ty = t)
    (hop : UnopTy op t t') :
    (∀ p, unop F op v ≠ .panic p) ∧ (∀ w, unop F op v = .ok (some w) → w.ty = t') := by
  cases v <;> simp only [Value.ty] at hv <;> subst hv <;>
    cases op <;> simp_all [UnopTy, Numeric, unop, Value.ty]

theorem ty_of_toConstT_lit (e : TExpr) (v : Value) (h : toConstT e = some v) : e = ofValue v := by
  cases e <;> simp [toConstT] at h <;> subst h <;> rfl

mutual
/-- simplification of a well-typed expression does not panic, and a literal it produces has the
static type -/
theorem simpE_typed (F : FloatOps) (Γ : Ctx) (cs : Consts) (hcs : CsOk Γ cs) :
    (e : TExpr) → (τ : ETy) → HasType Γ e τ →
    NP (simpE F cs e) ∧
      (∀ e' k, simpE F cs e = .ok (e', k) → ∀ t, τ = .value t → ∀ v, toConstT e' = some v → v.ty = t)
  | .litI x, τ, h => by
    cases h
    refine ⟨by intro p; simp [simpE, simpNode], ?_⟩
    intro e' k he t ht v hv
    simp [simpE, simpNode] at he; obtain ⟨rfl, _⟩ := he
    simp [toConstT] at hv; subst hv; cases ht; rfl
  | .litF x, τ, h => by
    cases h
    refine ⟨by intro p; simp [simpE, simpNode], ?_⟩
    intro e' k he t ht v hv
    simp [simpE, simpNode] at he; obtain ⟨rfl, _⟩ := he
    simp [toConstT] at hv; subst hv; cases ht; rfl
  | .litS x, τ, h => by
    cases h
    refine ⟨by intro p; simp [simpE, simpNode], ?_⟩
    intro e' k he t ht v hv
    simp [simpE, simpNode] at he; obtain ⟨rfl, _⟩ := he
    simp [toConstT] at hv; subst hv; cases ht; rfl
  | .reg r sig, τ, h => by
    refine ⟨by intro p; simp [simpE, simpNode], ?_⟩
    intro e' k he t ht v hv
    simp [simpE, simpNode] at he; obtain ⟨rfl, _⟩ := he
    simp [toConstT] at hv
  | .var n sig, τ, h => by
    cases h with
    | var hr =>
      rename_i t0
      cases hc : cs n with
      | none =>
        refine ⟨by intro p; simp [simpE, simpNode, hc], ?_⟩
        intro e' k he t ht v hv
        simp [simpE, simpNode, hc] at he; obtain ⟨rfl, _⟩ := he
        simp [toConstT] at hv
      | some c =>
        have hty := hcs n c hc
        rw [hty] at hr
        obtain ⟨w, hw, hwt⟩ := castBySigil_ty F c sig t0 hr
        refine ⟨by intro p; simp [simpE, simpNode, hc, hw], ?_⟩
        intro e' k he t ht v hv
        simp [simpE, simpNode, hc, hw] at he; obtain ⟨rfl, _⟩ := he
        rw [toConstT_ofValue] at hv; cases hv; cases ht; exact hwt
  | .unop op x, τ, h => by
    cases h with
    | unop hop hx =>
      rename_i tx t'
      obtain ⟨hnp, hty⟩ := simpE_typed F Γ cs hcs x (.value tx) hx
      cases hs : simpE F cs x with
      | panic p => exact absurd hs (hnp p)
      | err c =>
        refine ⟨by intro p; simp [simpE, hs], ?_⟩
        intro e' k he; simp [simpE, hs] at he
      | ok r =>
        obtain ⟨x', kx⟩ := r
        cases hcx : toConstT x' with
        | none =>
          refine ⟨by intro p; simp [simpE, hs, simpNode, hcx], ?_⟩
          intro e' k he t ht v hv
          simp [simpE, hs, simpNode, hcx] at he; obtain ⟨rfl, _⟩ := he
          simp [toConstT] at hv
        | some bv =>
          have hbv := hty x' kx hs tx rfl bv hcx
          obtain ⟨hunp, hut⟩ := unop_typed F op bv tx t' hbv hop
          cases hu : unop F op bv with
          | panic p => exact absurd hu (hunp p)
          | err c =>
            refine ⟨by intro p; simp [simpE, hs, simpNode, hcx, hu], ?_⟩
            intro e' k he t ht v hv
            simp [simpE, hs, simpNode, hcx, hu] at he; obtain ⟨rfl, _⟩ := he
            simp [toConstT] at hv
          | ok ow =>
            cases ow with
            | none =>
              refine ⟨by intro p; simp [simpE, hs, simpNode, hcx, hu], ?_⟩
              intro e' k he t ht v hv
              simp [simpE, hs, simpNode, hcx, hu] at he; obtain ⟨rfl, _⟩ := he
              simp [toConstT] at hv
            | some w =>
              refine ⟨by intro p; simp [simpE, hs, simpNode, hcx, hu], ?_⟩
              intro e' k he t ht v hv
              simp [simpE, hs, simpNode, hcx, hu] at he; obtain ⟨rfl, _⟩ := he
              rw [toConstT_ofValue] at hv; cases hv; cases ht; exact hut w hu
  | .binop op a b, τ, h => by
    cases h with
    | binop hop ha hb =>
      rename_i tx t'
      obtain ⟨hnpa, htya⟩ := simpE_typed F Γ cs hcs a (.value tx) ha
      obtain ⟨hnpb, htyb⟩ := simpE_typed F Γ cs hcs b (.value tx) hb
      cases hsa : simpE F cs a with
      | panic p => exact absurd hsa (hnpa p)
      | err c =>
        refine ⟨by intro p; simp [simpE, hsa], ?_⟩
        intro e' k he; simp [simpE, hsa] at he
      | ok ra =>
        obtain ⟨a', ka⟩ := ra
        cases hsb : simpE F cs b with
        | panic p => exact absurd hsb (hnpb p)
        | err c =>
          refine ⟨by intro p; simp [simpE, hsa, hsb], ?_⟩
          intro e' k he; simp [simpE, hsa, hsb] at he
        | ok rb =>
          obtain ⟨b', kb⟩ := rb
          cases hca : toConstT a' with
          | none =>
            refine ⟨by intro p; simp [simpE, hsa, hsb, simpNode, hca], ?_⟩
            intro e' k he t ht v hv
            simp [simpE, hsa, hsb, simpNode, hca] at he; obtain ⟨rfl, _⟩ := he
            simp [toConstT] at hv
          | some av =>
            cases hcb : toConstT b' with
            | none =>
              refine ⟨by intro p; simp [simpE, hsa, hsb, simpNode, hca, hcb], ?_⟩
              intro e' k he t ht v hv
              simp [simpE, hsa, hsb, simpNode, hca, hcb] at he; obtain ⟨rfl, _⟩ := he
              simp [toConstT] at hv
            | some bv =>
              have hav := htya a' ka hsa tx rfl av hca
              have hbv := htyb b' kb hsb tx rfl bv hcb
              obtain ⟨hbt, hbnp⟩ := binop_ty F op av bv tx t' hav hbv hop
              cases hbo : binop F op av bv with
              | panic p => exact absurd hbo (hbnp p)
              | err c =>
                refine ⟨by intro p; simp [simpE, hsa, hsb, simpNode, hca, hcb, hbo], ?_⟩
                intro e' k he t ht v hv
                simp [simpE, hsa, hsb, simpNode, hca, hcb, hbo] at he; obtain ⟨rfl, _⟩ := he
                simp [toConstT] at hv
              | ok w =>
                refine ⟨by intro p; simp [simpE, hsa, hsb, simpNode, hca, hcb, hbo], ?_⟩
                intro e' k he t ht v hv
                simp [simpE, hsa, hsb, simpNode, hca, hcb, hbo] at he; obtain ⟨rfl, _⟩ := he
                rw [toConstT_ofValue] at hv; cases hv; cases ht; exact hbt w hbo
  | .ternary c l r, τ, h => by
    cases h with
    | ternary hc hl hr =>
      rename_i t0
      obtain ⟨hnpc, htyc⟩ := simpE_typed F Γ cs hcs c (.value .int) hc
      obtain ⟨hnpl, htyl⟩ := simpE_typed F Γ cs hcs l (.value t0) hl
      obtain ⟨hnpr, htyr⟩ := simpE_typed F Γ cs hcs r (.value t0) hr
      cases hsc : simpE F cs c with
      | panic p => exact absurd hsc (hnpc p)
      | err e =>
        refine ⟨by intro p; simp [simpE, hsc], ?_⟩
        intro e' k he; simp [simpE, hsc] at he
      | ok rc =>
        obtain ⟨c', kc⟩ := rc
        cases hsl : simpE F cs l with
        | panic p => exact absurd hsl (hnpl p)
        | err e =>
          refine ⟨by intro p; simp [simpE, hsc, hsl], ?_⟩
          intro e' k he; simp [simpE, hsc, hsl] at he
        | ok rl =>
          obtain ⟨l', kl⟩ := rl
          cases hsr : simpE F cs r with
          | panic p => exact absurd hsr (hnpr p)
          | err e =>
            refine ⟨by intro p; simp [simpE, hsc, hsl, hsr], ?_⟩
            intro e' k he; simp [simpE, hsc, hsl, hsr] at he
          | ok rr =>
            obtain ⟨r', kr⟩ := rr
            cases hcc : toConstT c' with
            | none =>
              refine ⟨by intro p; simp [simpE, hsc, hsl, hsr, simpNode, hcc], ?_⟩
              intro e' k he t ht v hv
              simp [simpE, hsc, hsl, hsr, simpNode, hcc] at he; obtain ⟨rfl, _⟩ := he
              simp [toConstT] at hv
            | some cv =>
              obtain ⟨x, rfl⟩ := ty_int_cases cv (htyc c' kc hsc .int rfl cv hcc)
              by_cases hx : x = 0
              · refine ⟨by intro p; simp [simpE, hsc, hsl, hsr, simpNode, hcc, hx], ?_⟩
                intro e' k he t ht v hv
                simp [simpE, hsc, hsl, hsr, simpNode, hcc, hx] at he; obtain ⟨rfl, _⟩ := he
                exact htyr _ kr hsr t ht v hv
              · refine ⟨by intro p; simp [simpE, hsc, hsl, hsr, simpNode, hcc, hx], ?_⟩
                intro e' k he t ht v hv
                simp [simpE, hsc, hsl, hsr, simpNode, hcc, hx] at he; obtain ⟨rfl, _⟩ := he
                exact htyl _ kl hsl t ht v hv
  | .call f args, τ, h => by
    cases h with
    | call hsig hargs =>
      rename_i ps
      have hnp := simpArgs_typed F Γ cs hcs args (required ps) hargs
      cases hs : simpArgs F cs args with
      | panic p => exact absurd hs (hnp p)
      | err c =>
        refine ⟨by intro p; simp [simpE, hs], ?_⟩
        intro e' k he; simp [simpE, hs] at he
      | ok r =>
        refine ⟨by intro p; simp [simpE, hs], ?_⟩
        intro e' k he t ht; cases ht
  | .diffSwitch first rest, τ, h => by
    cases h with
    | diffSwitch hf hr =>
      rename_i t0
      obtain ⟨hnpf, _⟩ := simpE_typed F Γ cs hcs first (.value t0) hf
      have hnpr := simpCases_typed F Γ cs hcs rest t0 hr
      cases hsf : simpE F cs first with
      | panic p => exact absurd hsf (hnpf p)
      | err c =>
        refine ⟨by intro p; simp [simpE, hsf], ?_⟩
        intro e' k he; simp [simpE, hsf] at he
      | ok rf =>
        cases hsr : simpCases F cs rest with
        | panic p => exact absurd hsr (hnpr p)
        | err c =>
          refine ⟨by intro p; simp [simpE, hsf, hsr], ?_⟩
          intro e' k he; simp [simpE, hsf, hsr] at he
        | ok rr =>
          refine ⟨by intro p; simp [simpE, hsf, hsr], ?_⟩
          intro e' k he t ht v hv
          simp [simpE, hsf, hsr] at he; obtain ⟨rfl, _⟩ := he
          simp [toConstT] at hv
  | .xcrement pre inc v, τ, h => by
    refine ⟨by intro p; simp [simpE, simpNode], ?_⟩
    intro e' k he t ht w hw
    simp [simpE, simpNode] at he; obtain ⟨rfl, _⟩ := he
    simp [toConstT] at hw
  | .enumConst en n, τ, h => by
    refine ⟨by intro p; simp [simpE, simpNode], ?_⟩
    intro e' k he t ht w hw
    simp [simpE, simpNode] at he; obtain ⟨rfl, _⟩ := he
    simp [toConstT] at hw
  | .labelProp l, τ, h => by
    refine ⟨by intro p; simp [simpE, simpNode], ?_⟩
    intro e' k he t ht w hw
    simp [simpE, simpNode] at he; obtain ⟨rfl, _⟩ := he
    simp [toConstT] at hw
  | .callx user f pseudos args, τ, h => by
    have hnpp : NP (simpPseudos F cs pseudos) ∧ NP (simpArgs F cs args) := by
      cases h with
      | callIns hp _ _ hargs =>
        exact ⟨simpPseudos_typed F Γ cs hcs pseudos hp, simpArgs_typed F Γ cs hcs args _ hargs⟩
      | callBlob hp _ =>
        exact ⟨simpPseudos_typed F Γ cs hcs pseudos hp, by intro p; simp [simpArgs]⟩
      | callUser hargs =>
        exact ⟨by intro p; simp [simpPseudos], simpArgs_typed F Γ cs hcs args _ hargs⟩
    cases hsp : simpPseudos F cs pseudos with
    | panic p => exact absurd hsp (hnpp.1 p)
    | err c =>
      refine ⟨by intro p; simp [simpE, hsp], ?_⟩
      intro e' k he; simp [simpE, hsp] at he
    | ok rp =>
      cases hsa : simpArgs F cs args with
      | panic p => exact absurd hsa (hnpp.2 p)
      | err c =>
        refine ⟨by intro p; simp [simpE, hsp, hsa], ?_⟩
        intro e' k he; simp [simpE, hsp, hsa] at he
      | ok ra =>
        refine ⟨by intro p; simp [simpE, hsp, hsa], ?_⟩
        intro e' k he t ht w hw
        simp [simpE, hsp, hsa] at he; obtain ⟨rfl, _⟩ := he
        simp [toConstT] at hw
theorem simpArgs_typed (F : FloatOps) (Γ : Ctx) (cs : Consts) (hcs : CsOk Γ cs) :
    (as : TArgs) → (ps : List Param) → ArgsTyped Γ as ps → NP (simpArgs F cs as)
  | .nil, _, _ => by intro p; simp [simpArgs]
  | .cons a as, ps, h => by
    cases h with
    | cons ha hp has =>
      rename_i p0 ps0 t
      obtain ⟨hnpa, _⟩ := simpE_typed F Γ cs hcs a (.value t) ha
      have hnps := simpArgs_typed F Γ cs hcs as ps0 has
      intro p
      simp only [simpArgs]
      cases hsa : simpE F cs a with
      | panic q => exact absurd hsa (hnpa q)
      | err c => simp
      | ok r =>
        cases hss : simpArgs F cs as with
        | panic q => exact absurd hss (hnps q)
        | err c => simp
        | ok r2 => simp
theorem simpCases_typed (F : FloatOps) (Γ : Ctx) (cs : Consts) (hcs : CsOk Γ cs) :
    (rest : TCases) → (t : Ty) → CasesTyped Γ t rest → NP (simpCases F cs rest)
  | .nil, _, _ => by intro p; simp [simpCases]
  | .blank rest, t, h => by
    cases h with
    | blank hr =>
      have hnpr := simpCases_typed F Γ cs hcs rest t hr
      intro p
      simp only [simpCases]
      cases hsr : simpCases F cs rest with
      | panic q => exact absurd hsr (hnpr q)
      | err c => simp
      | ok r => simp
  | .case e rest, t, h => by
    cases h with
    | case he hr =>
      obtain ⟨hnpe, _⟩ := simpE_typed F Γ cs hcs e (.value t) he
      have hnpr := simpCases_typed F Γ cs hcs rest t hr
      intro p
      simp only [simpCases]
      cases hse : simpE F cs e with
      | panic q => exact absurd hse (hnpe q)
      | err c => simp
      | ok r =>
        cases hsr : simpCases F cs rest with
        | panic q => exact absurd hsr (hnpr q)
        | err c => simp
        | ok r2 => simp
theorem simpPseudos_typed (F : FloatOps) (Γ : Ctx) (cs : Consts) (hcs : CsOk Γ cs) :
    (ps : TPseudos) → PseudosTyped Γ ps → NP (simpPseudos F cs ps)
  | .nil, _ => by intro p; simp [simpPseudos]
  | .cons k e rest, h => by
    cases h with
    | cons he _ hr =>
      obtain ⟨hnpe, _⟩ := simpE_typed F Γ cs hcs e _ he
      have hnpr := simpPseudos_typed F Γ cs hcs rest hr
      intro p
      simp only [simpPseudos]
      cases hse : simpE F cs e with
      | panic q => exact absurd hse (hnpe q)
      | err c => simp
      | ok r =>
        cases hsr : simpPseudos F cs rest with
        | panic q => exact absurd hsr (hnpr q)
        | err c => simp
        | ok r2 => simp
end

theorem exprN_np (F : FloatOps) (Γ : Ctx) (cs : Consts) (hcs : CsOk Γ cs) (e : TExpr) (τ : ETy)
    (h : HasType Γ e τ) : NP (exprN F cs e) := by
  have := (simpE_typed F Γ cs hcs e τ h).1
  intro p
  unfold exprN
  cases hs : simpE F cs e with
  | panic q => exact absurd hs (this q)
  | err c => simp
  | ok r => simp

theorem seqN_np (a b : Outcome Nat) (ha : NP a) (hb : NP b) : NP (seqN a b) := by
  intro p
  unfold seqN
  cases a with
  | panic q => exact absurd rfl (ha q)
  | err c => simp
  | ok k =>
    cases b with
    | panic q => exact absurd rfl (hb q)
    | err c => simp
    | ok j => simp

theorem declsN_np (F : FloatOps) (Γ : Ctx) (cs : Consts) (hcs : CsOk Γ cs) :
    (ds : List (Nat × Option TExpr)) → (∀ p ∈ ds, DeclOk Γ p.1 p.2) → NP (declsN F cs ds)
  | [], _ => by intro p; simp [declsN]
  | (x, init) :: rest, h => by
    simp only [declsN]
    refine seqN_np _ _ ?_ (declsN_np F Γ cs hcs rest (fun p hp => h p (by simp [hp])))
    have h0 := h (x, init) (by simp)
    cases init with
    | none => intro p; simp [optN]
    | some e =>
      obtain ⟨t, _, he⟩ := h0
      simp only [optN]; exact exprN_np F Γ cs hcs e _ he

theorem constDeclsN_np (F : FloatOps) (Γ : Ctx) (cs : Consts) (hcs : CsOk Γ cs) :
    (ds : List (Nat × TExpr)) → (∀ p ∈ ds, DeclOk Γ p.1 (some p.2)) → NP (constDeclsN F cs ds)
  | [], _ => by intro p; simp [constDeclsN]
  | (x, e) :: rest, h => by
    simp only [constDeclsN]
    refine seqN_np _ _ ?_ (constDeclsN_np F Γ cs hcs rest (fun p hp => h p (by simp [hp])))
    obtain ⟨t, _, he⟩ := h (x, e) (by simp)
    exact exprN_np F Γ cs hcs e _ he

mutual
theorem simpStmt_np (F : FloatOps) (Γ : Ctx) (cs : Consts) (hcs : CsOk Γ cs) :
    (ρ : Option ETy) → (s : Stmt) → WellTypedStmt Γ ρ s → NP (simpStmt F cs s)
  | ρ, .exprStmt e, h => by
    simp only [WellTypedStmt] at h; simp only [simpStmt]; exact exprN_np F Γ cs hcs e _ h
  | ρ, .assign v op e, h => by
    simp only [WellTypedStmt] at h
    obtain ⟨_, t, _, he, _⟩ := h
    simp only [simpStmt]; exact exprN_np F Γ cs hcs e _ he
  | ρ, .decl x none, _ => by intro p; simp [simpStmt, optN]
  | ρ, .decl x (some e), h => by
    simp only [WellTypedStmt] at h
    obtain ⟨t, _, he⟩ := h
    simp only [simpStmt, optN]; exact exprN_np F Γ cs hcs e _ he
  | ρ, .constDecl x e, h => by
    simp only [WellTypedStmt] at h
    obtain ⟨t, _, he⟩ := h
    simp only [simpStmt]; exact exprN_np F Γ cs hcs e _ he
  | ρ, .ite c t e, h => by
    simp only [WellTypedStmt] at h
    simp only [simpStmt]
    exact seqN_np _ _ (exprN_np F Γ cs hcs c _ h.1)
      (seqN_np _ _ (simpStmts_np F Γ cs hcs ρ t h.2.1) (simpStmts_np F Γ cs hcs ρ e h.2.2))
  | ρ, .while_ c b, h => by
    simp only [WellTypedStmt] at h
    simp only [simpStmt]
    exact seqN_np _ _ (exprN_np F Γ cs hcs c _ h.1) (simpStmts_np F Γ cs hcs ρ b h.2)
  | ρ, .doWhile c b, h => by
    simp only [WellTypedStmt] at h
    simp only [simpStmt]
    exact seqN_np _ _ (simpStmts_np F Γ cs hcs ρ b h.2) (exprN_np F Γ cs hcs c _ h.1)
  | ρ, .loop b, h => by
    simp only [WellTypedStmt] at h
    simp only [simpStmt]; exact simpStmts_np F Γ cs hcs ρ b h
  | ρ, .times cl count b, h => by
    simp only [WellTypedStmt] at h
    simp only [simpStmt]
    exact seqN_np _ _ (exprN_np F Γ cs hcs count _ h.1) (simpStmts_np F Γ cs hcs ρ b h.2.2)
  | ρ, .condJump c, h => by
    simp only [WellTypedStmt] at h; simp only [simpStmt]; exact exprN_np F Γ cs hcs c _ h
  | ρ, .inert, _ => by intro p; simp [simpStmt]
  | ρ, .block b, h => by
    simp only [WellTypedStmt] at h
    simp only [simpStmt]; exact simpStmts_np F Γ cs hcs ρ b h
  | ρ, .ret none, _ => by intro p; simp [simpStmt, optN]
  | ρ, .ret (some e), h => by
    simp only [WellTypedStmt] at h
    obtain ⟨t, he, _⟩ := h
    simp only [simpStmt, optN]; exact exprN_np F Γ cs hcs e _ he
  | ρ, .func rt b, h => by
    simp only [WellTypedStmt] at h
    simp only [simpStmt]; exact simpStmts_np F Γ cs hcs (some rt) b h
  | ρ, .script b, h => by
    simp only [WellTypedStmt] at h
    simp only [simpStmt]; exact simpStmts_np F Γ cs hcs ρ b h
  | ρ, .interruptLabel e, h => by
    simp only [WellTypedStmt] at h; simp only [simpStmt]; exact exprN_np F Γ cs hcs e _ h
  | ρ, .relTimeLabel e, h => by
    simp only [WellTypedStmt] at h; simp only [simpStmt]; exact exprN_np F Γ cs hcs e _ h
  | ρ, .decls ds, h => by
    simp only [WellTypedStmt] at h; simp only [simpStmt]; exact declsN_np F Γ cs hcs ds h
  | ρ, .constDecls ds, h => by
    simp only [WellTypedStmt] at h; simp only [simpStmt]; exact constDeclsN_np F Γ cs hcs ds h
theorem simpStmts_np (F : FloatOps) (Γ : Ctx) (cs : Consts) (hcs : CsOk Γ cs) :
    (ρ : Option ETy) → (ss : Stmts) → WellTypedStmts Γ ρ ss → NP (simpStmts F cs ss)
  | ρ, .nil, _ => by intro p; simp [simpStmts]
  | ρ, .cons s ss, h => by
    simp only [WellTypedStmts] at h
    simp only [simpStmts]
    exact seqN_np _ _ (simpStmt_np F Γ cs hcs ρ s h.1) (simpStmts_np F Γ cs hcs ρ ss h.2)
end

/-! ### the type checker itself never panics, on any program -/

theorem checkVar_np (inh : VarTy) (sig : Option Sigil) : NP (checkVar inh sig) := by
  intro p; unfold checkVar
  cases inh <;> cases sig <;> simp [readTy] <;> (try split) <;> simp

theorem requireExact_np (a b : Ty) : NP (requireExact a b) := by
  intro p; unfold requireExact; split <;> simp
theorem requireSame_np (a b : Ty) : NP (requireSame a b) := by
  intro p; unfold requireSame; split <;> simp

theorem checkValue_np (Γ : Ctx) (e : TExpr) : NP (check Γ e >>= requireValue) :=
  fun _ => bind_requireValue_ne_panic (fun s => check_ne_panic Γ e s)

theorem checkCond_np (Γ : Ctx) (c : TExpr) : NP (checkCond Γ c) := by
  intro p; unfold checkCond
  cases h : (check Γ c >>= requireValue) with
  | ok t => exact requireExact_np _ _ p
  | err c => simp
  | panic q => exact absurd h (checkValue_np Γ c q)

theorem checkAssign_np (Γ : Ctx) (v : VarRef) (op : AssignOp) (e : TExpr) : NP (checkAssign Γ v op e) := by
  intro p; unfold checkAssign
  have hA : ∀ q, checkAssignable Γ v ≠ .panic q := by intro q; unfold checkAssignable; split <;> simp
  cases ha : checkAssignable Γ v with
  | panic q => exact absurd ha (hA q)
  | err c => simp
  | ok u =>
  simp only
  unfold checkAssignTyped
  cases hv : checkVar (Γ.refTy v) v.sig with
  | panic q => exact absurd hv (checkVar_np _ _ q)
  | err c => simp
  | ok tv =>
    cases he : (check Γ e >>= requireValue) with
    | panic q => exact absurd he (checkValue_np Γ e q)
    | err c => simp
    | ok te =>
      simp only
      cases op.binop with
      | none =>
        simp only
        cases hs : requireSame tv te with
        | panic q => exact absurd hs (requireSame_np _ _ q)
        | err c => simp
        | ok t => simp
      | some b => exact binopCheck_ne_panic b tv te p

theorem checkClobber_np (Γ : Ctx) (v : VarRef) (tc : Ty) : NP (checkClobber Γ v tc) := by
  intro p; unfold checkClobber
  have hA : ∀ q, checkAssignable Γ v ≠ .panic q := by intro q; unfold checkAssignable; split <;> simp
  cases ha : checkAssignable Γ v with
  | panic q => exact absurd ha (hA q)
  | err c => simp
  | ok u =>
  simp only
  cases hv : checkVar (Γ.refTy v) v.sig with
  | panic q => exact absurd hv (checkVar_np _ _ q)
  | err c => simp
  | ok tv =>
    simp only
    cases hs : requireSame tv tc with
    | panic q => exact absurd hs (requireSame_np _ _ q)
    | err c => simp
    | ok t => simp

theorem checkTimes_np (Γ : Ctx) (cl : Option VarRef) (count : TExpr) : NP (checkTimes Γ cl count) := by
  intro p; unfold checkTimes
  cases he : (check Γ count >>= requireValue) with
  | panic q => exact absurd he (checkValue_np Γ count q)
  | err c => simp
  | ok tc =>
    simp only
    cases hx : requireExact tc .int with
    | panic q => exact absurd hx (requireExact_np _ _ q)
    | err c => simp
    | ok u =>
      cases cl with
      | none => simp
      | some v => exact checkClobber_np Γ v tc p

theorem checkDecl_np (Γ : Ctx) (x : Nat) (init : Option TExpr) : NP (checkDecl Γ x init) := by
  intro p; unfold checkDecl
  cases init with
  | none => simp
  | some e =>
    simp only
    cases hv : checkVar (Γ.varTy x) none with
    | panic q => exact absurd hv (checkVar_np _ _ q)
    | err c => simp
    | ok tv =>
      cases he : (check Γ e >>= requireValue) with
      | panic q => exact absurd he (checkValue_np Γ e q)
      | err c => simp
      | ok te => exact requireExact_np _ _ p

theorem checkConstDecl_np (cfg : Cfg) (Γ : Ctx) (x : Nat) (e : TExpr) : NP (checkConstDecl cfg Γ x e) := by
  intro p; unfold checkConstDecl
  split
  · exact checkDecl_np Γ x (some e) p
  · cases h : check Γ e with
    | panic q => exact absurd h (check_ne_panic Γ e q)
    | err c => simp
    | ok t => simp

theorem checkReturn_np (Γ : Ctx) (ρ : Option ETy) (e : Option TExpr) : NP (checkReturn Γ ρ e) := by
  intro p; unfold checkReturn
  cases ρ with
  | none => simp [returnOutsideFunction]
  | some rt =>
    cases e with
    | none => simp only; split <;> simp
    | some v =>
      simp only
      cases he : (check Γ v >>= requireValue) with
      | panic q => exact absurd he (checkValue_np Γ v q)
      | err c => simp
      | ok t => simp only; split <;> simp

theorem checkExprStmt_np (Γ : Ctx) (e : TExpr) : NP (checkExprStmt Γ e) := by
  intro p; unfold checkExprStmt
  cases h : check Γ e with
  | panic q => exact absurd h (check_ne_panic Γ e q)
  | err c => simp
  | ok t => cases t <;> simp [requireVoid]

theorem andThen_np (a b : Outcome Unit) (ha : NP a) (hb : NP b) : NP (a.andThen b) := by
  intro p
  cases a with
  | panic q => exact absurd rfl (ha q)
  | err c =>
    cases b with
    | panic q => exact absurd rfl (hb q)
    | err d => simp [Outcome.andThen]
    | ok u => simp [Outcome.andThen]
  | ok u =>
    cases b with
    | panic q => exact absurd rfl (hb q)
    | err d => simp [Outcome.andThen]
    | ok u => simp [Outcome.andThen]

theorem checkDecls_np (Γ : Ctx) : (ds : List (Nat × Option TExpr)) → NP (checkDecls Γ ds)
  | [] => by intro p; simp [checkDecls]
  | (x, init) :: rest => by
    simp only [checkDecls]; exact andThen_np _ _ (checkDecl_np Γ x init) (checkDecls_np Γ rest)

theorem checkConstDecls_np (cfg : Cfg) (Γ : Ctx) :
    (ds : List (Nat × TExpr)) → NP (checkConstDecls cfg Γ ds)
  | [] => by intro p; simp [checkConstDecls]
  | (x, e) :: rest => by
    simp only [checkConstDecls]
    exact andThen_np _ _ (checkConstDecl_np cfg Γ x e) (checkConstDecls_np cfg Γ rest)

mutual
theorem checkStmt_np (cfg : Cfg) (Γ : Ctx) : (ρ : Option ETy) → (s : Stmt) → NP (checkStmt cfg Γ ρ s)
  | ρ, .exprStmt e => by simp only [checkStmt]; exact checkExprStmt_np Γ e
  | ρ, .assign v op e => by simp only [checkStmt]; exact checkAssign_np Γ v op e
  | ρ, .decl x init => by simp only [checkStmt]; exact checkDecl_np Γ x init
  | ρ, .constDecl x e => by simp only [checkStmt]; exact checkConstDecl_np cfg Γ x e
  | ρ, .ite c t e => by
    simp only [checkStmt]
    exact andThen_np _ _ (checkCond_np Γ c) (andThen_np _ _ (checkStmts_np cfg Γ ρ t) (checkStmts_np cfg Γ ρ e))
  | ρ, .while_ c b => by
    simp only [checkStmt]; exact andThen_np _ _ (checkStmts_np cfg Γ ρ b) (checkCond_np Γ c)
  | ρ, .doWhile c b => by
    simp only [checkStmt]; exact andThen_np _ _ (checkCond_np Γ c) (checkStmts_np cfg Γ ρ b)
  | ρ, .loop b => by simp only [checkStmt]; exact checkStmts_np cfg Γ ρ b
  | ρ, .times cl count b => by
    simp only [checkStmt]; exact andThen_np _ _ (checkTimes_np Γ cl count) (checkStmts_np cfg Γ ρ b)
  | ρ, .condJump c => by simp only [checkStmt]; exact checkCond_np Γ c
  | ρ, .inert => by intro p; simp [checkStmt]
  | ρ, .block b => by
    simp only [checkStmt]; split
    · exact checkStmts_np cfg Γ ρ b
    · intro p; simp
  | ρ, .ret e => by simp only [checkStmt]; exact checkReturn_np Γ ρ e
  | ρ, .func rt b => by simp only [checkStmt]; exact checkStmts_np cfg Γ (some rt) b
  | ρ, .script b => by simp only [checkStmt]; exact checkStmts_np cfg Γ ρ b
  | ρ, .interruptLabel e => by
    simp only [checkStmt]; split
    · exact checkCond_np Γ e
    · intro p; simp
  | ρ, .relTimeLabel e => by
    simp only [checkStmt]; split
    · exact checkCond_np Γ e
    · intro p; simp
  | ρ, .decls ds => by simp only [checkStmt]; exact checkDecls_np Γ ds
  | ρ, .constDecls ds => by simp only [checkStmt]; exact checkConstDecls_np cfg Γ ds
theorem checkStmts_np (cfg : Cfg) (Γ : Ctx) : (ρ : Option ETy) → (ss : Stmts) → NP (checkStmts cfg Γ ρ ss)
  | ρ, .nil => by intro p; simp [checkStmts]
  | ρ, .cons s ss => by
    simp only [checkStmts]; exact andThen_np _ _ (checkStmt_np cfg Γ ρ s) (checkStmts_np cfg Γ ρ ss)
end

/-! ### const items: declared type = type of the value -/

def DefsTyped (Γ : Ctx) (ds : List (Nat × TExpr)) : Prop :=
  ∀ x e, (x, e) ∈ ds → ∃ t, Γ.varTy x = .typed t ∧ HasType Γ e (.value t)

mutual
theorem constsS_typed (Γ : Ctx) : (ρ : Option ETy) → (s : Stmt) → WellTypedStmt Γ ρ s →
    DefsTyped Γ (constsS s)
  | ρ, .constDecl x e, h => by
    simp only [WellTypedStmt] at h
    intro y e' hm; simp [constsS] at hm; obtain ⟨rfl, rfl⟩ := hm; exact h
  | ρ, .ite c t e, h => by
    simp only [WellTypedStmt] at h
    intro y e' hm; simp only [constsS, List.mem_append] at hm
    rcases hm with hm | hm
    · exact constsSS_typed Γ ρ t h.2.1 y e' hm
    · exact constsSS_typed Γ ρ e h.2.2 y e' hm
  | ρ, .while_ c b, h => by
    simp only [WellTypedStmt] at h; simp only [constsS]; exact constsSS_typed Γ ρ b h.2
  | ρ, .doWhile c b, h => by
    simp only [WellTypedStmt] at h; simp only [constsS]; exact constsSS_typed Γ ρ b h.2
  | ρ, .loop b, h => by
    simp only [WellTypedStmt] at h; simp only [constsS]; exact constsSS_typed Γ ρ b h
  | ρ, .times cl count b, h => by
    simp only [WellTypedStmt] at h; simp only [constsS]; exact constsSS_typed Γ ρ b h.2.2
  | ρ, .block b, h => by
    simp only [WellTypedStmt] at h; simp only [constsS]; exact constsSS_typed Γ ρ b h
  | ρ, .func rt b, h => by
    simp only [WellTypedStmt] at h; simp only [constsS]; exact constsSS_typed Γ (some rt) b h
  | ρ, .script b, h => by
    simp only [WellTypedStmt] at h; simp only [constsS]; exact constsSS_typed Γ ρ b h
  | ρ, .exprStmt _, _ => by intro y e' hm; simp [constsS] at hm
  | ρ, .assign _ _ _, _ => by intro y e' hm; simp [constsS] at hm
  | ρ, .decl _ _, _ => by intro y e' hm; simp [constsS] at hm
  | ρ, .condJump _, _ => by intro y e' hm; simp [constsS] at hm
  | ρ, .inert, _ => by intro y e' hm; simp [constsS] at hm
  | ρ, .ret _, _ => by intro y e' hm; simp [constsS] at hm
  | ρ, .interruptLabel _, _ => by intro y e' hm; simp [constsS] at hm
  | ρ, .relTimeLabel _, _ => by intro y e' hm; simp [constsS] at hm
  | ρ, .decls _, _ => by intro y e' hm; simp [constsS] at hm
  | ρ, .constDecls ds, h => by
    simp only [WellTypedStmt] at h
    intro y e' hm; simp only [constsS] at hm
    simpa [DeclOk] using h (y, e') hm
theorem constsSS_typed (Γ : Ctx) : (ρ : Option ETy) → (ss : Stmts) → WellTypedStmts Γ ρ ss →
    DefsTyped Γ (constsSS ss)
  | ρ, .nil, _ => by intro y e' hm; simp [constsSS] at hm
  | ρ, .cons s ss, h => by
    simp only [WellTypedStmts] at h
    intro y e' hm; simp only [constsSS, List.mem_append] at hm
    rcases hm with hm | hm
    · exact constsS_typed Γ ρ s h.1 y e' hm
    · exact constsSS_typed Γ ρ ss h.2 y e' hm
end

theorem lookup_mem (ds : List (Nat × TExpr)) (n : Nat) (e : TExpr) (h : lookup ds n = some e) :
    (n, e) ∈ ds := by
  induction ds with
  | nil => simp [lookup] at h
  | cons d ds ih =>
    obtain ⟨m, e0⟩ := d
    simp only [lookup] at h
    split at h
    · rename_i hm; cases h; subst hm; simp
    · simp [ih h]

/-- what the recursive calls of the const evaluator return -/
def RecOk (Γ : Ctx) (rec : List Nat → Nat → Outcome Value) : Prop :=
  ∀ st n, NP (rec st n) ∧ ∀ v, rec st n = .ok v → Γ.varTy n = .typed v.ty

theorem erase_unop {op : UnOp} {x : TExpr} {e' : Expr} (h : (TExpr.unop op x).erase = some e') :
    ∃ x', x.erase = some x' ∧ e' = .unop op x' := by
  simp only [TExpr.erase] at h
  cases hx : x.erase with
  | none => simp [hx] at h
  | some x' => simp [hx] at h; exact ⟨x', rfl, h.symm⟩

theorem erase_binop {op : BinOp} {a b : TExpr} {e' : Expr} (h : (TExpr.binop op a b).erase = some e') :
    ∃ a' b', a.erase = some a' ∧ b.erase = some b' ∧ e' = .binop op a' b' := by
  simp only [TExpr.erase] at h
  cases ha : a.erase with
  | none => simp [ha] at h
  | some a' =>
    cases hb : b.erase with
    | none => simp [ha, hb] at h
    | some b' => simp [ha, hb] at h; exact ⟨a', b', rfl, rfl, h.symm⟩

theorem erase_ternary {c l r : TExpr} {e' : Expr} (h : (TExpr.ternary c l r).erase = some e') :
    ∃ c' l' r', c.erase = some c' ∧ l.erase = some l' ∧ r.erase = some r' ∧
      e' = .ternary c' l' r' := by
  simp only [TExpr.erase] at h
  cases hc : c.erase with
  | none => simp [hc] at h
  | some c' =>
    cases hl : l.erase with
    | none => simp [hc, hl] at h
    | some l' =>
      cases hr : r.erase with
      | none => simp [hc, hl, hr] at h
      | some r' => simp [hc, hl, hr] at h; exact ⟨c', l', r', rfl, rfl, rfl, h.symm⟩

/-- whenever a value-typed expression is an expression of the const evaluator's language
(`erase`; anything else has no constant value: `defsOf` gives `none`, the error path of
`_const_eval`), evaluating it does not panic and gives a value of the static type -/
theorem evalConstExpr_typed (F : FloatOps) (Γ : Ctx) (defs : Nat → Option Expr)
    (rec : List Nat → Nat → Outcome Value) (hrec : RecOk Γ rec) (stack : List Nat) :
    (e : TExpr) → (t : Ty) → HasType Γ e (.value t) → (e' : Expr) → e.erase = some e' →
    NP (evalConstExpr F defs rec stack e') ∧
      (∀ v, evalConstExpr F defs rec stack e' = .ok v → v.ty = t)
  | .litI x, t, h, e', he => by
    simp only [TExpr.erase, Option.some.injEq] at he; subst he
    cases h; exact ⟨by intro p; simp [evalConstExpr], by intro v hv; simp [evalConstExpr] at hv; subst hv; rfl⟩
  | .litF x, t, h, e', he => by
    simp only [TExpr.erase, Option.some.injEq] at he; subst he
    cases h; exact ⟨by intro p; simp [evalConstExpr], by intro v hv; simp [evalConstExpr] at hv; subst hv; rfl⟩
  | .litS x, t, h, e', he => by
    simp only [TExpr.erase, Option.some.injEq] at he; subst he
    cases h; exact ⟨by intro p; simp [evalConstExpr], by intro v hv; simp [evalConstExpr] at hv; subst hv; rfl⟩
  | .reg r sig, t, h, e', he => by
    simp only [TExpr.erase, Option.some.injEq] at he; subst he
    exact ⟨by intro p; simp [evalConstExpr], by intro v hv; simp [evalConstExpr] at hv⟩
  | .var n sig, t, h, e', he => by
    simp only [TExpr.erase, Option.some.injEq] at he; subst he
    cases h with
    | var hr =>
      refine ⟨?_, ?_⟩
      · intro p
        simp only [evalConstExpr]
        cases hc : rec stack n with
        | panic q => exact absurd hc ((hrec stack n).1 q)
        | err c => simp
        | ok c =>
          have hty := (hrec stack n).2 c hc
          rw [hty] at hr
          obtain ⟨w, hw, _⟩ := castBySigil_ty F c sig t hr
          simp [hw]
      · intro v hv
        simp only [evalConstExpr] at hv
        cases hc : rec stack n with
        | panic q => simp [hc] at hv
        | err c => simp [hc] at hv
        | ok c =>
          have hty := (hrec stack n).2 c hc
          rw [hty] at hr
          obtain ⟨w, hw, hwt⟩ := castBySigil_ty F c sig t hr
          simp [hc, hw] at hv; subst hv; exact hwt
  | .unop op x, t, h, e', he => by
    obtain ⟨x', hx', rfl⟩ := erase_unop he
    cases h with
    | unop hop hx =>
      rename_i tx
      obtain ⟨hnp, hty⟩ := evalConstExpr_typed F Γ defs rec hrec stack x tx hx x' hx'
      refine ⟨?_, ?_⟩
      · intro p
        simp only [evalConstExpr]
        cases hev : evalConstExpr F defs rec stack x' with
        | panic q => exact absurd hev (hnp q)
        | err c => simp
        | ok vx =>
          obtain ⟨hunp, _⟩ := unop_typed F op vx tx t (hty vx hev) hop
          cases hu : unop F op vx with
          | panic q => exact absurd hu (hunp q)
          | err c => simp [hu]
          | ok ow => cases ow <;> simp [hu]
      · intro v hv
        simp only [evalConstExpr] at hv
        cases hev : evalConstExpr F defs rec stack x' with
        | panic q => simp [hev] at hv
        | err c => simp [hev] at hv
        | ok vx =>
          obtain ⟨_, hut⟩ := unop_typed F op vx tx t (hty vx hev) hop
          cases hu : unop F op vx with
          | panic q => simp [hev, hu] at hv
          | err c => simp [hev, hu] at hv
          | ok ow =>
            cases ow with
            | none => simp [hev, hu] at hv
            | some w => simp [hev, hu] at hv; subst hv; exact hut w hu
  | .binop op a b, t, h, e', he => by
    obtain ⟨a', b', ha', hb', rfl⟩ := erase_binop he
    cases h with
    | binop hop ha hb =>
      rename_i tx
      obtain ⟨hnpa, htya⟩ := evalConstExpr_typed F Γ defs rec hrec stack a tx ha a' ha'
      obtain ⟨hnpb, htyb⟩ := evalConstExpr_typed F Γ defs rec hrec stack b tx hb b' hb'
      refine ⟨?_, ?_⟩
      · intro p
        simp only [evalConstExpr]
        cases hea : evalConstExpr F defs rec stack a' with
        | panic q => exact absurd hea (hnpa q)
        | err c => simp
        | ok va =>
          cases heb : evalConstExpr F defs rec stack b' with
          | panic q => exact absurd heb (hnpb q)
          | err c => simp
          | ok vb => exact (binop_ty F op va vb tx t (htya va hea) (htyb vb heb) hop).2 p
      · intro v hv
        simp only [evalConstExpr] at hv
        cases hea : evalConstExpr F defs rec stack a' with
        | panic q => simp [hea] at hv
        | err c => simp [hea] at hv
        | ok va =>
          cases heb : evalConstExpr F defs rec stack b' with
          | panic q => simp [hea, heb] at hv
          | err c => simp [hea, heb] at hv
          | ok vb =>
            simp only [hea, heb] at hv
            exact (binop_ty F op va vb tx t (htya va hea) (htyb vb heb) hop).1 v hv
  | .ternary c l r, t, h, e', he => by
    obtain ⟨c', l', r', hc', hl', hr', rfl⟩ := erase_ternary he
    cases h with
    | ternary hc hl hr =>
      obtain ⟨hnpc, htyc⟩ := evalConstExpr_typed F Γ defs rec hrec stack c .int hc c' hc'
      obtain ⟨hnpl, htyl⟩ := evalConstExpr_typed F Γ defs rec hrec stack l t hl l' hl'
      obtain ⟨hnpr, htyr⟩ := evalConstExpr_typed F Γ defs rec hrec stack r t hr r' hr'
      refine ⟨?_, ?_⟩
      · intro p
        simp only [evalConstExpr]
        cases hec : evalConstExpr F defs rec stack c' with
        | panic q => exact absurd hec (hnpc q)
        | err e => simp
        | ok cv =>
          cases hel : evalConstExpr F defs rec stack l' with
          | panic q => exact absurd hel (hnpl q)
          | err e => simp
          | ok lv =>
            cases her : evalConstExpr F defs rec stack r' with
            | panic q => exact absurd her (hnpr q)
            | err e => simp
            | ok rv =>
              obtain ⟨x, rfl⟩ := ty_int_cases cv (htyc cv hec)
              simp only; split <;> simp
      · intro v hv
        simp only [evalConstExpr] at hv
        cases hec : evalConstExpr F defs rec stack c' with
        | panic q => simp [hec] at hv
        | err e => simp [hec] at hv
        | ok cv =>
          cases hel : evalConstExpr F defs rec stack l' with
          | panic q => simp [hec, hel] at hv
          | err e => simp [hec, hel] at hv
          | ok lv =>
            cases her : evalConstExpr F defs rec stack r' with
            | panic q => simp [hec, hel, her] at hv
            | err e => simp [hec, hel, her] at hv
            | ok rv =>
              obtain ⟨x, rfl⟩ := ty_int_cases cv (htyc cv hec)
              simp only [hec, hel, her] at hv
              split at hv
              · cases hv; exact htyr _ her
              · cases hv; exact htyl _ hel
  | .call _ _, t, h, e', he | .diffSwitch _ _, t, h, e', he | .xcrement _ _ _, t, h, e', he
  | .enumConst _ _, t, h, e', he | .labelProp _, t, h, e', he | .callx _ _ _ _, t, h, e', he => by
    simp [TExpr.erase] at he

theorem evalConst_typed (F : FloatOps) (Γ : Ctx) (ds : List (Nat × TExpr)) (hds : DefsTyped Γ ds) :
    (fuel : Nat) → RecOk Γ (evalConst F (defsOf ds) fuel)
  | 0 => by
    intro st n
    exact ⟨by intro p; simp [evalConst], by intro v hv; simp [evalConst] at hv⟩
  | fuel + 1 => by
    intro st n
    have ih := evalConst_typed F Γ ds hds fuel
    simp only [evalConst]
    split
    · exact ⟨by intro p; simp, by intro v hv; simp at hv⟩
    · cases hd : defsOf ds n with
      | none => exact ⟨by intro p; simp, by intro v hv; simp at hv⟩
      | some e =>
        simp only
        unfold defsOf at hd
        cases hl : lookup ds n with
        | none => simp [hl] at hd
        | some te =>
          simp only [hl] at hd
          obtain ⟨t, hvt, hte⟩ := hds n te (lookup_mem ds n te hl)
          obtain ⟨hnp, hty⟩ :=
            evalConstExpr_typed F Γ (defsOf ds) (evalConst F (defsOf ds) fuel) ih (n :: st) te t hte e hd
          exact ⟨hnp, fun v hv => by rw [hvt, hty v hv]⟩

theorem evalAll_np (F : FloatOps) (defs : Nat → Option Expr) (fuel : Nat)
    (h : ∀ n, NP (evalConst F defs fuel [] n)) : (ns : List Nat) → NP (evalAll F defs fuel ns)
  | [] => by intro p; simp [evalAll]
  | n :: ns => by
    intro p
    simp only [evalAll]
    cases he : evalConst F defs fuel [] n with
    | panic q => exact absurd he (h n q)
    | err c => simp
    | ok v => exact evalAll_np F defs fuel h ns p

/-- the statement one would like: no pass of the compiler after type checking panics on an
accepted program.  `run` covers const-variable evaluation and const simplification only; block
desugaring, lowering, register allocation, argument encoding and the file writers are not part of
the composed model (their models use other program representations), hence `_partial`. -/
def progress_full : Prop :=
  ∀ (compileRest : Ctx → Stmts → Outcome Unit) (F : FloatOps) (Γ : Ctx), SigsOk Γ → ∀ prog : Stmts,
    checkStmts codeCfg Γ none prog = .ok () → NP (run F Γ prog) ∧ NP (compileRest Γ prog)

/-- **Progress (partial).**  For every float semantics, every context whose signatures are
well-formed and EVERY program: the composition type check -> const-variable evaluation -> const
simplification never reaches a `panic` outcome.  The type checker has no panic of its own; if it
accepts, every `expect("shoulda been type-checked")`, `uncaught_type_error()` and
`panic!("uncaught type error")` arm of the two later passes is unreachable. -/
theorem progress_partial (F : FloatOps) (Γ : Ctx) (hΓ : SigsOk Γ) (prog : Stmts) :
    NP (run F Γ prog) := by
  intro p
  unfold run
  cases hc : checkStmts codeCfg Γ none prog with
  | panic q => exact absurd hc (checkStmts_np codeCfg Γ none prog q)
  | err c => simp
  | ok u =>
    have hwt : WellTypedStmts Γ none prog := (C09.stmts_accept_iff_welltyped Γ hΓ none prog).mp hc
    have hds := constsSS_typed Γ none prog hwt
    have hrec := evalConst_typed F Γ (constsSS prog) hds ((constsSS prog).length + 1)
    simp only
    cases hall : evalAll F (defsOf (constsSS prog)) ((constsSS prog).length + 1)
        ((constsSS prog).map (·.1)) with
    | panic q =>
      exact absurd hall (evalAll_np F _ _ (fun n => (hrec [] n).1) _ q)
    | err c => simp
    | ok u2 =>
      simp only
      have hcs : CsOk Γ (cacheOf F (defsOf (constsSS prog)) ((constsSS prog).length + 1)) := by
        intro n v hv
        unfold cacheOf at hv
        cases he : evalConst F (defsOf (constsSS prog)) ((constsSS prog).length + 1) [] n with
        | ok w => simp [he] at hv; subst hv; exact (hrec [] n).2 w he
        | err c => simp [he] at hv
        | panic q => simp [he] at hv
      have := simpStmts_np F Γ _ hcs none prog hwt
      cases hs : simpStmts F (cacheOf F (defsOf (constsSS prog)) ((constsSS prog).length + 1)) prog with
      | panic q => exact absurd hs (this q)
      | err c => simp
      | ok k => cases k <;> simp

/-- the accepted / rejected split is as C09 proves it: `run` stops at `typecheck` exactly for the
programs that are not well-typed -/
theorem stops_at_typecheck_iff (F : FloatOps) (Γ : Ctx) (hΓ : SigsOk Γ) (prog : Stmts) :
    (∃ c, run F Γ prog = .ok (.typecheck c)) ↔ ¬ WellTypedStmts Γ none prog := by
  rw [← C09.stmts_accept_iff_welltyped Γ hΓ none prog]
  unfold run
  cases hc : checkStmts codeCfg Γ none prog with
  | panic q => exact absurd hc (checkStmts_np codeCfg Γ none prog q)
  | err c => simp
  | ok u =>
    simp only
    constructor
    · rintro ⟨c, h⟩
      split at h <;> try (cases h)
      split at h <;> cases h
    · intro h; exact absurd trivial h

/-- non-vacuity: a well-typed program with a const chain and a folded division goes `through`;
a division by zero is reported by the simplification pass, a cyclic const by the evaluator. -/
def exProg : Stmts :=
  .cons (.constDecl 0 (.binop .add (.litI 1) (.litI 2)))
  (.cons (.constDecl 1 (.binop .mul (.var 0 none) (.litI 2)))
  (.cons (.script (.cons (.assign ⟨true, 0, none⟩ .assign (.binop .div (.var 1 none) (.litI 3))) .nil)) .nil))

def exΓ : Ctx where
  regTy := fun _ => .typed .int
  varTy := fun _ => .typed .int
  sig := fun _ => none
  isConst := fun n => n < 2

def zeroF : FloatOps := ⟨fun a _ => a, fun a _ => a, fun a _ => a, fun a _ => a, fun a _ => a, id,
  fun _ _ => false, fun _ _ => false, fun _ _ => false, fun _ => 0, fun _ => 0, fun _ x => x⟩

example : run zeroF exΓ exProg = .ok .through := by decide
example : run zeroF exΓ (.cons (.script (.cons (.assign ⟨true, 0, none⟩ .assign
    (.binop .div (.litI 1) (.litI 0))) .nil)) .nil) = .ok (.simplify constEvalErr) := by decide
example : run zeroF exΓ (.cons (.constDecl 0 (.var 0 none)) .nil) =
    .ok (.constvars "cycle in const definition") := by decide
example : run zeroF exΓ (.cons (.script (.cons (.assign ⟨true, 0, none⟩ .assign (.litF 0)) .nil)) .nil) =
    .ok (.typecheck tyErr) := by decide


end Progress

end TruthModel.C04
