import TruthModel.Model.Regs
/-
C05 — scratch registers never collide with registers the script uses.

Property theorems about `Regs.assign` (the model of `assign_registers`).  They quantify over every
`LowerStmt` stream, every hook table, every parameter list.

* `assign_inv`      the loop invariant (pool / live disjoint, no two live locals share a register,
                    everything handed out comes from general-purpose minus (explicit ∪ parameters)),
                    established by `init` and preserved by every `step`.
* `assign_result`   a successful `alloc` picks a register that is general-purpose for the local's type,
                    not `explicit`, not a parameter register, not held by any live local.
* `assign_locals`   the same for every entry of the debug-info `locals` of a whole successful run.
* `assign_result_deep`   with the repaired `get_explicitly_used_regs` (`ExplicitMode.deep`) the chosen
                    registers are not `mentioned` anywhere in the stream (the property as stated).
* `topLevel_violates`    the unchanged code (`ExplicitMode.topLevel`) does violate it: Lean evaluates the
                    model on the TH07 witness and the local is bound to a register named inside a
                    difficulty switch.  `assign_result_topLevel_partial` is what remains true.
* `assign_no_reuse_empty`, `assign_no_reuse_anti`, `finish_anti`   an empty pool or an anti-scratch
                    instruction give `err`, never a register.
* `rewrite_total`   every `Local` argument, at any depth of difficulty switches, is replaced by the
                    register recorded for it, and nothing else changes.
-/
namespace TruthModel.C05
open TruthModel TruthModel.Regs

/-! ## 0. independent reading of "mentioned" -/

/-- `r` occurs syntactically in the argument, at any depth of difficulty switches -/
inductive Mentions (r : Reg) : Arg → Prop
  | raw (ty : RTy) : Mentions r (.raw r ty)
  | switch (cs : List Arg) (a : Arg) : a ∈ cs → Mentions r a → Mentions r (.switch cs)

mutual
theorem mentions_of_mem_regs (r : Reg) : ∀ a : Arg, r ∈ a.regs → Mentions r a
  | .raw r' ty, h => by
    simp [Arg.regs] at h; subst h; exact .raw ty
  | .switch cs, h => by
    simp only [Arg.regs] at h
    obtain ⟨a, ha, hm⟩ := mentions_of_mem_regsList r cs h
    exact .switch cs a ha hm
  | .imm _, h => by simp [Arg.regs] at h
  | .loc _ _, h => by simp [Arg.regs] at h
  | .absent, h => by simp [Arg.regs] at h
  | .label _, h => by simp [Arg.regs] at h
  | .timeOf _, h => by simp [Arg.regs] at h
theorem mentions_of_mem_regsList (r : Reg) : ∀ cs : List Arg, r ∈ regsList cs → ∃ a, a ∈ cs ∧ Mentions r a
  | [], h => by simp [regsList] at h
  | a :: as, h => by
    simp only [regsList, List.mem_append] at h
    cases h with
    | inl h => exact ⟨a, by simp, mentions_of_mem_regs r a h⟩
    | inr h =>
      obtain ⟨b, hb, hm⟩ := mentions_of_mem_regsList r as h
      exact ⟨b, by simp [hb], hm⟩
end

theorem mem_regsList_of_mem {r : Reg} {a : Arg} : ∀ {cs : List Arg}, a ∈ cs → r ∈ a.regs → r ∈ regsList cs
  | [], h, _ => by cases h
  | b :: bs, h, hr => by
    simp only [regsList, List.mem_append]
    cases h with
    | head => exact Or.inl hr
    | tail _ h => exact Or.inr (mem_regsList_of_mem h hr)

theorem mem_regs_of_mentions {r : Reg} {a : Arg} (h : Mentions r a) : r ∈ a.regs := by
  induction h with
  | raw ty => simp [Arg.regs]
  | switch cs a ha _ ih => simp only [Arg.regs]; exact mem_regsList_of_mem ha ih

/-- `mentioned` is exactly "occurs syntactically in some argument of some instruction" -/
theorem mem_mentioned_iff (r : Reg) (s : List Stmt) :
    r ∈ mentioned s ↔ ∃ st ∈ s, ∃ a ∈ st.args, Mentions r a := by
  simp only [mentioned, List.mem_flatMap]
  constructor
  · rintro ⟨st, hst, a, ha, hr⟩; exact ⟨st, hst, a, ha, mentions_of_mem_regs r a hr⟩
  · rintro ⟨st, hst, a, ha, hm⟩; exact ⟨st, hst, a, ha, mem_regs_of_mentions hm⟩

theorem explicit_deep_eq_mentioned (s : List Stmt) : explicit .deep s = mentioned s := rfl

theorem topRegs_subset_regs (a : Arg) : ∀ r ∈ a.topRegs, r ∈ a.regs := by
  cases a <;> simp [Arg.topRegs, Arg.regs]

/-- what the unchanged code computes is contained in the specification, never the other way round -/
theorem explicit_topLevel_subset (s : List Stmt) : ∀ r ∈ explicit .topLevel s, r ∈ mentioned s := by
  intro r h
  simp only [explicit, mentioned, List.mem_flatMap, Arg.explicitRegs] at *
  obtain ⟨st, hst, a, ha, hr⟩ := h
  exact ⟨st, hst, a, ha, topRegs_subset_regs a r hr⟩

/-! ## 1. helper lemmas on `lookup` / `remove` -/

theorem mem_of_lookup {live : List (Def × Reg)} {d : Def} {r : Reg} (h : lookup live d = some r) :
    (d, r) ∈ live := by
  induction live with
  | nil => simp [lookup] at h
  | cons e rest ih =>
    obtain ⟨d', r'⟩ := e
    simp only [lookup] at h
    split at h
    · rename_i heq; subst heq; simp at h; subst h; simp
    · simp [ih h]

theorem lookup_isSome_of_mem {live : List (Def × Reg)} {d : Def} {r : Reg} (h : (d, r) ∈ live) :
    (lookup live d).isSome := by
  induction live with
  | nil => cases h
  | cons e rest ih =>
    obtain ⟨d', r'⟩ := e
    simp only [lookup]
    split
    · simp
    · rename_i hne
      cases h with
      | head => exact absurd rfl hne
      | tail _ h => exact ih h

theorem mem_remove {live : List (Def × Reg)} {d : Def} {e : Def × Reg} :
    e ∈ remove live d ↔ e ∈ live ∧ e.1 ≠ d := by
  simp [remove]

/-! ## 2. the invariant -/

def pools (st : State) : List Reg := st.poolInt ++ st.poolFloat

theorem mem_pools {st : State} {r : Reg} : r ∈ pools st ↔ ∃ ty, r ∈ st.pool ty := by
  simp only [pools, List.mem_append]
  constructor
  · rintro (h | h)
    · exact ⟨.int, h⟩
    · exact ⟨.float, h⟩
  · rintro ⟨ty, h⟩; cases ty
    · exact Or.inl h
    · exact Or.inr h

/-- `assign_inv` -/
structure Inv (h : Hooks) (tyOf : Def → RTy) (ex : List Reg) (ps : List Param) (st : State) : Prop where
  /-- pool and live are disjoint -/
  disjoint : ∀ r ∈ pools st, ∀ e ∈ st.live, e.2 ≠ r
  /-- no register is in the pool twice -/
  nodup : (pools st).Nodup
  /-- the live map is injective: two live locals never share a compiler-chosen register -/
  inj : ∀ e1 ∈ st.live, ∀ e2 ∈ st.live, e1.2 = e2.2 → e1.2 ∉ paramRegs ps → e1.1 = e2.1
  /-- pool ⊆ general-purpose of its type, minus explicit, minus parameter registers -/
  poolGood : ∀ ty, ∀ r ∈ st.pool ty, r ∈ h.general ty ∧ r ∉ ex ∧ r ∉ paramRegs ps
  /-- compiler-chosen live registers likewise -/
  liveGood : ∀ e ∈ st.live, e.2 ∉ paramRegs ps → e.2 ∈ h.general (tyOf e.1) ∧ e.2 ∉ ex
  /-- a parameter register is only ever held by a parameter -/
  paramOnly : ∀ e ∈ st.live, e.2 ∈ paramRegs ps → e.1 ∈ paramDefs ps

/-- the general-purpose tables list every register once -/
def HooksOk (h : Hooks) : Prop := (h.general .int ++ h.general .float).Nodup

theorem mem_initLive {ps : List Param} {e : Def × Reg} (he : e ∈ initLive ps) :
    e.2 ∈ paramRegs ps ∧ e.1 ∈ paramDefs ps := by
  induction ps with
  | nil => simp [initLive] at he
  | cons p ps ih =>
    simp only [initLive] at he
    cases hn : p.name with
    | none =>
      rw [hn] at he
      have := ih he
      exact ⟨by simp [paramRegs] at *; exact Or.inr this.1, by simp [paramDefs, hn] at *; exact this.2⟩
    | some d =>
      rw [hn] at he
      simp only [List.mem_cons] at he
      cases he with
      | inl he =>
        subst he
        exact ⟨by simp [paramRegs], by simp [paramDefs, hn]⟩
      | inr he =>
        have := ih he
        exact ⟨by simp [paramRegs] at *; exact Or.inr this.1, by simp [paramDefs, hn] at *; exact Or.inr this.2⟩

theorem mem_initPool {h : Hooks} {ex : List Reg} {ps : List Param} {ty : RTy} {r : Reg}
    (hr : r ∈ initPool h ex ps ty) : r ∈ h.general ty ∧ r ∉ ex ∧ r ∉ paramRegs ps := by
  simp [initPool] at hr
  exact ⟨hr.1, hr.2.1, hr.2.2⟩

/-- the invariant holds initially -/
theorem inv_init (h : Hooks) (tyOf : Def → RTy) (ex : List Reg) (ps : List Param) (hk : HooksOk h) :
    Inv h tyOf ex ps (init h ex ps) where
  disjoint := by
    intro r hr e he
    simp only [init, List.mem_reverse] at he
    have h1 := (mem_initLive he).1
    obtain ⟨ty, hr⟩ := mem_pools.mp hr
    have h2 : r ∉ paramRegs ps := by
      cases ty <;> exact (mem_initPool hr).2.2
    intro heq; rw [heq] at h1; exact h2 h1
  nodup := by
    have : (pools (init h ex ps)).Sublist (h.general .int ++ h.general .float) := by
      simp only [pools, init, initPool]
      exact List.Sublist.append List.filter_sublist List.filter_sublist
    exact this.nodup hk
  inj := by
    intro e1 he1 _ _ _ hnp
    simp only [init, List.mem_reverse] at he1
    exact absurd (mem_initLive he1).1 hnp
  poolGood := by
    intro ty r hr
    cases ty <;> exact mem_initPool hr
  liveGood := by
    intro e he hnp
    simp only [init, List.mem_reverse] at he
    exact absurd (mem_initLive he).1 hnp
  paramOnly := by
    intro e he _
    simp only [init, List.mem_reverse] at he
    exact (mem_initLive he).2

/-- statements the invariant is preserved by: everything except freeing a parameter (which no
stream produced by the lowering contains: `ScopeEnd` is only inserted for declarations) -/
def StmtOk (ps : List Param) : Stmt → Prop
  | .free d => d ∉ paramDefs ps
  | _ => True

theorem pool_setPool_same (st : State) (ty : RTy) (p : List Reg) : (st.setPool ty p).pool ty = p := by
  cases ty <;> rfl

theorem pool_setPool_other (st : State) {ty ty' : RTy} (p : List Reg) (hne : ty' ≠ ty) :
    (st.setPool ty p).pool ty' = st.pool ty' := by
  cases ty <;> cases ty' <;> simp_all [State.setPool, State.pool]

theorem live_setPool (st : State) (ty : RTy) (p : List Reg) : (st.setPool ty p).live = st.live := by
  cases ty <;> rfl

theorem mem_pool_setPool {st : State} {ty ty' : RTy} {p : List Reg} {r : Reg}
    (hr : r ∈ (st.setPool ty p).pool ty') : (ty' = ty ∧ r ∈ p) ∨ (ty' ≠ ty ∧ r ∈ st.pool ty') := by
  by_cases hty : ty' = ty
  · subst hty; rw [pool_setPool_same] at hr; exact Or.inl ⟨rfl, hr⟩
  · rw [pool_setPool_other st p hty] at hr; exact Or.inr ⟨hty, hr⟩

/-- shrinking one pool to a tail keeps the pools duplicate-free -/
theorem nodup_pools_tail {st : State} {ty : RTy} {r : Reg} {rest : List Reg}
    (hp : st.pool ty = r :: rest) (hn : (pools st).Nodup) :
    (pools (st.setPool ty rest)).Nodup ∧ r ∉ pools (st.setPool ty rest) := by
  cases ty with
  | int =>
    simp only [State.pool] at hp
    simp only [pools, State.setPool, hp] at *
    simp only [List.cons_append, List.nodup_cons] at hn
    exact ⟨hn.2, hn.1⟩
  | float =>
    simp only [State.pool] at hp
    simp only [pools, State.setPool, hp] at *
    rw [List.nodup_append] at hn ⊢
    simp only [List.nodup_cons, List.mem_cons] at hn
    refine ⟨⟨hn.1, hn.2.1.2, fun a ha b hb => hn.2.2 a ha b (Or.inr hb)⟩, ?_⟩
    simp only [List.mem_append, not_or]
    exact ⟨fun hmem => hn.2.2 r hmem r (Or.inl rfl) rfl, hn.2.1.1⟩

theorem nodup_pools_cons {st : State} {ty : RTy} {r : Reg}
    (hn : (pools st).Nodup) (hr : r ∉ pools st) : (pools (st.setPool ty (r :: st.pool ty))).Nodup := by
  cases ty with
  | int =>
    simp only [pools, State.setPool, State.pool] at *
    simp only [List.cons_append, List.nodup_cons]
    exact ⟨hr, hn⟩
  | float =>
    simp only [pools, State.setPool, State.pool] at *
    rw [List.nodup_append] at hn ⊢
    simp only [List.mem_append, not_or] at hr
    refine ⟨hn.1, ?_, ?_⟩
    · simp only [List.nodup_cons]; exact ⟨hr.2, hn.2.1⟩
    · intro a ha b hb
      simp only [List.mem_cons] at hb
      cases hb with
      | inl hb => subst hb; intro heq; subst heq; exact hr.1 ha
      | inr hb => exact hn.2.2 a ha b hb

/-- what a successful `alloc` does (used by `assign_inv` and `assign_result`) -/
theorem step_alloc_ok {h : Hooks} {tyOf : Def → RTy} {clash : List Reg} {st st' : State} {d : Def}
    (hs : step h tyOf clash st (.alloc d) = .ok st') :
    ∃ r rest, st.pool (tyOf d) = r :: rest ∧ lookup st.live d = none ∧
      st' = { (st.setPool (tyOf d) rest) with
        live := (d, r) :: st.live, usedScratch := true,
        locals := ⟨d, tyOf d, r⟩ :: st.locals, out := .alloc d :: st.out } := by
  simp only [step] at hs
  split at hs
  · cases hs
  · rename_i r rest hp
    split at hs
    · cases hs
    · rename_i hl
      split at hs
      · cases hs
      · simp only [Outcome.ok.injEq] at hs
        refine ⟨r, rest, hp, ?_, hs.symm⟩
        cases hlk : lookup st.live d with
        | none => rfl
        | some _ => simp [hlk] at hl

/-- `assign_inv`, step case -/
theorem step_inv {h : Hooks} {tyOf : Def → RTy} {ex clash : List Reg} {ps : List Param} {st st' : State}
    {s : Stmt} (hi : Inv h tyOf ex ps st) (hok : StmtOk ps s) (hs : step h tyOf clash st s = .ok st') :
    Inv h tyOf ex ps st' := by
  cases s with
  | alloc d =>
    obtain ⟨r, rest, hp, _, rfl⟩ := step_alloc_ok hs
    have hrpool : r ∈ st.pool (tyOf d) := by rw [hp]; simp
    have hrgood := hi.poolGood _ r hrpool
    have hrp : r ∈ pools st := mem_pools.mpr ⟨_, hrpool⟩
    obtain ⟨hnd, hrnot⟩ := nodup_pools_tail hp hi.nodup
    have hsub : ∀ x ∈ pools (st.setPool (tyOf d) rest), x ∈ pools st := by
      intro x hx
      obtain ⟨ty', hx⟩ := mem_pools.mp hx
      rcases mem_pool_setPool hx with ⟨rfl, hxr⟩ | ⟨_, hxr⟩
      · exact mem_pools.mpr ⟨_, by rw [hp]; simp [hxr]⟩
      · exact mem_pools.mpr ⟨_, hxr⟩
    refine ⟨?_, ?_, ?_, ?_, ?_, ?_⟩
    · intro x hx e he
      have hx' : x ∈ pools (st.setPool (tyOf d) rest) := hx
      simp only [List.mem_cons] at he
      cases he with
      | inl he => subst he; intro heq; simp only at heq; subst heq; exact hrnot hx'
      | inr he => exact hi.disjoint x (hsub x hx') e he
    · exact hnd
    · intro e1 he1 e2 he2 heq hnp
      simp only [List.mem_cons] at he1 he2
      rcases he1 with rfl | he1 <;> rcases he2 with rfl | he2
      · rfl
      · exact absurd heq.symm (hi.disjoint r hrp e2 he2)
      · exact absurd heq (hi.disjoint r hrp e1 he1)
      · exact hi.inj e1 he1 e2 he2 heq hnp
    · intro ty' x hx
      have hx' : x ∈ (st.setPool (tyOf d) rest).pool ty' := hx
      rcases mem_pool_setPool hx' with ⟨rfl, hxr⟩ | ⟨_, hxr⟩
      · exact hi.poolGood _ x (by rw [hp]; simp [hxr])
      · exact hi.poolGood _ x hxr
    · intro e he hnp
      simp only [List.mem_cons] at he
      cases he with
      | inl he => subst he; exact ⟨hrgood.1, hrgood.2.1⟩
      | inr he => exact hi.liveGood e he hnp
    · intro e he hp'
      simp only [List.mem_cons] at he
      cases he with
      | inl he => subst he; exact absurd hp' hrgood.2.2
      | inr he => exact hi.paramOnly e he hp'
  | free d =>
    simp only [step] at hs
    split at hs
    · cases hs
    · rename_i r hl
      simp only [Outcome.ok.injEq] at hs
      subst hs
      have hmem := mem_of_lookup hl
      have hnp : r ∉ paramRegs ps := fun hp' => hok (hi.paramOnly _ hmem hp')
      have hgood := hi.liveGood _ hmem hnp
      have hrnot : r ∉ pools st := fun hx => hi.disjoint r hx _ hmem rfl
      refine ⟨?_, ?_, ?_, ?_, ?_, ?_⟩
      · intro x hx e he
        have he' : e ∈ remove st.live d := he
        obtain ⟨he1, he2⟩ := mem_remove.mp he'
        have hx' : x ∈ pools (st.setPool (tyOf d) (r :: st.pool (tyOf d))) := hx
        obtain ⟨ty', hx'⟩ := mem_pools.mp hx'
        rcases mem_pool_setPool hx' with ⟨rfl, hxr⟩ | ⟨_, hxr⟩
        · simp only [List.mem_cons] at hxr
          cases hxr with
          | inl hxr =>
            subst hxr
            intro heq
            exact he2 (hi.inj e he1 (d, x) hmem heq (by rw [heq]; exact hnp))
          | inr hxr => exact hi.disjoint x (mem_pools.mpr ⟨_, hxr⟩) e he1
        · exact hi.disjoint x (mem_pools.mpr ⟨_, hxr⟩) e he1
      · exact nodup_pools_cons hi.nodup hrnot
      · intro e1 he1 e2 he2 heq hnp'
        exact hi.inj e1 (mem_remove.mp he1).1 e2 (mem_remove.mp he2).1 heq hnp'
      · intro ty' x hx
        have hx' : x ∈ (st.setPool (tyOf d) (r :: st.pool (tyOf d))).pool ty' := hx
        rcases mem_pool_setPool hx' with ⟨rfl, hxr⟩ | ⟨_, hxr⟩
        · simp only [List.mem_cons] at hxr
          cases hxr with
          | inl hxr => subst hxr; exact ⟨hgood.1, hgood.2, hnp⟩
          | inr hxr => exact hi.poolGood _ x hxr
        · exact hi.poolGood _ x hxr
      · intro e he hnp'
        exact hi.liveGood e (mem_remove.mp he).1 hnp'
      · intro e he hp'
        exact hi.paramOnly e (mem_remove.mp he).1 hp'
  | instr t m op args =>
    simp only [step] at hs
    have key : ∀ st1 : State, st1.poolInt = st.poolInt → st1.poolFloat = st.poolFloat → st1.live = st.live →
        Inv h tyOf ex ps st1 := by
      intro st1 h1 h2 h3
      have hp : pools st1 = pools st := by simp [pools, h1, h2]
      have hpool : ∀ ty, st1.pool ty = st.pool ty := by intro ty; cases ty <;> simp [State.pool, h1, h2]
      exact ⟨by rw [hp, h3]; exact hi.disjoint, by rw [hp]; exact hi.nodup, by rw [h3]; exact hi.inj,
        by intro ty; rw [hpool]; exact hi.poolGood ty, by rw [h3]; exact hi.liveGood, by rw [h3]; exact hi.paramOnly⟩
    cases args with
    | none =>
      simp only [Outcome.ok.injEq] at hs
      subst hs
      cases h.antiScratch op with
      | none => exact key _ rfl rfl rfl
      | some b => cases b <;> exact key _ rfl rfl rfl
    | some as =>
      simp only at hs
      split at hs
      · simp only [Outcome.ok.injEq] at hs
        subst hs
        cases h.antiScratch op with
        | none => exact key _ rfl rfl rfl
        | some b => cases b <;> exact key _ rfl rfl rfl
      · cases hs
  | label t l =>
    simp only [step, Outcome.ok.injEq] at hs
    subst hs
    exact ⟨hi.disjoint, hi.nodup, hi.inj, hi.poolGood, hi.liveGood, hi.paramOnly⟩

/-- **assign_inv**: the invariant holds in every state the loop of `assign_registers` reaches. -/
theorem assign_inv {h : Hooks} {tyOf : Def → RTy} {ex clash : List Reg} {ps : List Param} :
    ∀ (s : List Stmt) {st st' : State}, Inv h tyOf ex ps st → (∀ x ∈ s, StmtOk ps x) →
      run h tyOf clash st s = .ok st' → Inv h tyOf ex ps st'
  | [], st, st', hi, _, hr => by simp only [run, Outcome.ok.injEq] at hr; subst hr; exact hi
  | x :: rest, st, st', hi, hok, hr => by
    simp only [run] at hr
    split at hr
    · rename_i st1 hs
      exact assign_inv rest (step_inv hi (hok x (by simp)) hs) (fun y hy => hok y (by simp [hy])) hr
    · cases hr
    · cases hr

/-- **assign_result**: for every `alloc` that succeeds in a state satisfying the invariant, the chosen
register is general-purpose for the local's type, not explicitly used, not a parameter register and
not held by any live local. -/
theorem assign_result {h : Hooks} {tyOf : Def → RTy} {ex clash : List Reg} {ps : List Param} {st st' : State}
    {d : Def} (hi : Inv h tyOf ex ps st) (hs : step h tyOf clash st (.alloc d) = .ok st') :
    ∃ r, st'.live = (d, r) :: st.live ∧ st'.locals = ⟨d, tyOf d, r⟩ :: st.locals ∧
      r ∈ h.general (tyOf d) ∧ r ∉ ex ∧ r ∉ paramRegs ps ∧ ∀ e ∈ st.live, e.2 ≠ r := by
  obtain ⟨r, rest, hp, _, rfl⟩ := step_alloc_ok hs
  have hrpool : r ∈ st.pool (tyOf d) := by rw [hp]; simp
  have hg := hi.poolGood _ r hrpool
  exact ⟨r, rfl, rfl, hg.1, hg.2.1, hg.2.2, fun e he => hi.disjoint r (mem_pools.mpr ⟨_, hrpool⟩) e he⟩

/-! ## 3. whole runs: every recorded local is fine -/

def LocalOk (h : Hooks) (ex : List Reg) (ps : List Param) (l : LocalInfo) : Prop :=
  l ∈ initLocals ps ∨ (l.reg ∈ h.general l.ty ∧ l.reg ∉ ex ∧ l.reg ∉ paramRegs ps)

theorem step_locals {h : Hooks} {tyOf : Def → RTy} {ex clash : List Reg} {ps : List Param} {st st' : State}
    {s : Stmt} (hi : Inv h tyOf ex ps st) (hl : ∀ l ∈ st.locals, LocalOk h ex ps l)
    (hs : step h tyOf clash st s = .ok st') : ∀ l ∈ st'.locals, LocalOk h ex ps l := by
  cases s with
  | alloc d =>
    obtain ⟨r, _, hloc, hg, hne, hnp, _⟩ := assign_result hi hs
    intro l hl'
    rw [hloc] at hl'
    simp only [List.mem_cons] at hl'
    cases hl' with
    | inl e => subst e; exact Or.inr ⟨hg, hne, hnp⟩
    | inr e => exact hl l e
  | free d =>
    simp only [step] at hs
    split at hs
    · cases hs
    · simp only [Outcome.ok.injEq] at hs; subst hs
      intro l hl'
      have : l ∈ st.locals := by cases htd : tyOf d <;> simpa [State.setPool, htd] using hl'
      exact hl l this
  | instr t m op args =>
    simp only [step] at hs
    have key : ∀ st1 : State, st1.locals = st.locals → ∀ l ∈ st1.locals, LocalOk h ex ps l := by
      intro st1 e; rw [e]; exact hl
    cases args with
    | none =>
      simp only [Outcome.ok.injEq] at hs; subst hs
      cases h.antiScratch op with
      | none => exact key _ rfl
      | some b => cases b <;> exact key _ rfl
    | some as =>
      simp only at hs
      split at hs
      · simp only [Outcome.ok.injEq] at hs; subst hs
        cases h.antiScratch op with
        | none => exact key _ rfl
        | some b => cases b <;> exact key _ rfl
      · cases hs
  | label t l =>
    simp only [step, Outcome.ok.injEq] at hs; subst hs; exact hl

theorem run_locals {h : Hooks} {tyOf : Def → RTy} {ex clash : List Reg} {ps : List Param} :
    ∀ (s : List Stmt) {st st' : State}, Inv h tyOf ex ps st → (∀ x ∈ s, StmtOk ps x) →
      (∀ l ∈ st.locals, LocalOk h ex ps l) → run h tyOf clash st s = .ok st' →
      ∀ l ∈ st'.locals, LocalOk h ex ps l
  | [], st, st', _, _, hl, hr => by simp only [run, Outcome.ok.injEq] at hr; subst hr; exact hl
  | x :: rest, st, st', hi, hok, hl, hr => by
    simp only [run] at hr
    split at hr
    · rename_i st1 hs
      exact run_locals rest (step_inv hi (hok x (by simp)) hs) (fun y hy => hok y (by simp [hy]))
        (step_locals hi hl hs) hr
    · cases hr
    · cases hr

/-- **assign_locals**: every entry of the debug-info `locals` of a successful `assign_registers` is
either a parameter or bound to a register that is general-purpose for its type, not explicitly used
and not a parameter register. -/
theorem assign_locals {m : ExplicitMode} {h : Hooks} {tyOf : Def → RTy} {ps : List Param} {s : List Stmt}
    {res : Result} (hk : HooksOk h) (hok : ∀ x ∈ s, StmtOk ps x) (ha : assign m h tyOf ps s = .ok res) :
    ∀ l ∈ res.locals, LocalOk h (explicit m s) ps l := by
  simp only [assign] at ha
  split at ha
  · rename_i st hr
    split at ha
    · cases ha
    · simp only [Outcome.ok.injEq] at ha
      subst ha
      intro l hl
      simp only [List.mem_reverse] at hl
      refine run_locals s (inv_init h tyOf _ ps hk) hok ?_ hr l hl
      intro l' hl'
      simp only [init, List.mem_reverse] at hl'
      exact Or.inl hl'
  · cases ha
  · cases ha

/-- **assign_result_deep**: with the repaired explicit-register scan (recursing into difficulty
switches) no compiler-chosen register is mentioned anywhere in the script.  This is property C05. -/
theorem assign_result_deep {h : Hooks} {tyOf : Def → RTy} {ps : List Param} {s : List Stmt} {res : Result}
    (hk : HooksOk h) (hok : ∀ x ∈ s, StmtOk ps x) (ha : assign .deep h tyOf ps s = .ok res) :
    ∀ l ∈ res.locals, l ∈ initLocals ps ∨
      (l.reg ∈ h.general l.ty ∧ l.reg ∉ mentioned s ∧ l.reg ∉ paramRegs ps) := by
  intro l hl
  have := assign_locals hk hok ha l hl
  rw [explicit_deep_eq_mentioned] at this
  exact this

/-- what is true of the unchanged code: the property holds for the streams in which every mentioned
register also occurs at the top level of some argument list -/
theorem assign_result_topLevel_partial {h : Hooks} {tyOf : Def → RTy} {ps : List Param} {s : List Stmt}
    {res : Result} (hk : HooksOk h) (hok : ∀ x ∈ s, StmtOk ps x)
    (hcover : ∀ r ∈ mentioned s, r ∈ explicit .topLevel s)
    (ha : assign .topLevel h tyOf ps s = .ok res) :
    ∀ l ∈ res.locals, l ∈ initLocals ps ∨
      (l.reg ∈ h.general l.ty ∧ l.reg ∉ mentioned s ∧ l.reg ∉ paramRegs ps) := by
  intro l hl
  rcases assign_locals hk hok ha l hl with h1 | ⟨h1, h2, h3⟩
  · exact Or.inl h1
  · exact Or.inr ⟨h1, fun hm => h2 (hcover _ hm), h3⟩

/-- the whole property for the code as it is; FALSE (see `topLevel_violates`) -/
def C05_full_topLevel : Prop :=
  ∀ (h : Hooks) (tyOf : Def → RTy) (ps : List Param) (s : List Stmt) (res : Result),
    HooksOk h → (∀ x ∈ s, StmtOk ps x) → assign .topLevel h tyOf ps s = .ok res →
    ∀ l ∈ res.locals, l ∈ initLocals ps ∨
      (l.reg ∈ h.general l.ty ∧ l.reg ∉ mentioned s ∧ l.reg ∉ paramRegs ps)

/-! ### the witness (TH07 ECL): `int x = I1 + 3; ins_10(x, 7); ins_10(I0:I0:I0:I2, 8);` -/

def th07 : Hooks where
  general
    | .int => [10000, 10001, 10002, 10003, 10012, 10013, 10014, 10015]
    | .float => [10004, 10005, 10006, 10007, 10008, 10009, 10010, 10011, 10072, 10074]
  antiScratch op := if op = 130 then some .waterElf else none

def witness : List Stmt := [
  .alloc 0,
  .instr 0 255 20 (some [.loc 0 .int, .raw 10001 .int, .imm (.int 3)]),
  .instr 0 255 10 (some [.loc 0 .int, .imm (.int 7)]),
  .instr 0 255 10 (some [.switch [.raw 10000 .int, .raw 10000 .int, .raw 10000 .int, .raw 10002 .int], .imm (.int 8)]),
  .free 0]

theorem th07_ok : HooksOk th07 := by unfold HooksOk; decide

/-- **the unchanged code violates C05**: the model of the code as written binds the local to `I0`
(10000), which the script names inside a difficulty switch. -/
theorem topLevel_violates :
    ∃ res, assign .topLevel th07 (fun _ => .int) [] witness = .ok res ∧
      res.locals = [⟨0, .int, 10000⟩] ∧ (10000 : Reg) ∈ mentioned witness := by
  refine ⟨_, rfl, rfl, ?_⟩
  decide

theorem C05_full_topLevel_false : ¬ C05_full_topLevel := by
  intro hf
  obtain ⟨res, ha, hl, hm⟩ := topLevel_violates
  have := hf th07 (fun _ => .int) [] witness res th07_ok (by intro x hx; cases x <;> simp [StmtOk, paramDefs]) ha
    ⟨0, .int, 10000⟩ (by rw [hl]; simp)
  rcases this with h1 | ⟨_, h2, _⟩
  · simp [initLocals] at h1
  · exact h2 hm

/-- the repaired scan on the same witness picks `I3`, which is named nowhere -/
example : ∃ res, assign .deep th07 (fun _ => .int) [] witness = .ok res ∧ res.locals = [⟨0, .int, 10003⟩] :=
  ⟨_, rfl, rfl⟩

/-! ## 4. failure instead of reuse -/

/-- **assign_no_reuse** (empty pool): no register of the needed type left means an error, whatever
else is live. -/
theorem assign_no_reuse_empty (h : Hooks) (tyOf : Def → RTy) (clash : List Reg) (st : State) (d : Def)
    (hp : st.pool (tyOf d) = []) : step h tyOf clash st (.alloc d) = .err errTooComplex := by
  simp [step, hp]

def isAlloc : Stmt → Bool
  | .alloc _ => true
  | _ => false

def isAnti (h : Hooks) : Stmt → Bool
  | .instr _ _ op _ => h.antiScratch op == some .thisFunction
  | _ => false

def isWaterElf (h : Hooks) : Stmt → Bool
  | .instr _ _ op _ => h.antiScratch op == some .waterElf
  | _ => false

theorem step_flags {h : Hooks} {tyOf : Def → RTy} {clash : List Reg} {st st' : State} {s : Stmt}
    (hs : step h tyOf clash st s = .ok st') :
    st'.usedScratch = (st.usedScratch || isAlloc s) ∧ st'.antiLocal = (st.antiLocal || isAnti h s) ∧
    st'.antiGlobal = (st.antiGlobal || isWaterElf h s) := by
  cases s with
  | alloc d =>
    obtain ⟨r, rest, _, _, rfl⟩ := step_alloc_ok hs
    cases htd : tyOf d <;> simp [isAlloc, isAnti, isWaterElf, State.setPool]
  | free d =>
    simp only [step] at hs
    split at hs
    · cases hs
    · simp only [Outcome.ok.injEq] at hs; subst hs
      cases htd : tyOf d <;> simp [isAlloc, isAnti, isWaterElf, State.setPool]
  | instr t m op args =>
    simp only [step] at hs
    cases args with
    | none =>
      simp only [Outcome.ok.injEq] at hs; subst hs
      cases hb : h.antiScratch op with
      | none => simp [isAlloc, isAnti, isWaterElf, hb]
      | some b => cases b <;> simp [isAlloc, isAnti, isWaterElf, hb]
    | some as =>
      simp only at hs
      split at hs
      · simp only [Outcome.ok.injEq] at hs; subst hs
        cases hb : h.antiScratch op with
        | none => simp [isAlloc, isAnti, isWaterElf, hb]
        | some b => cases b <;> simp [isAlloc, isAnti, isWaterElf, hb]
      · cases hs
  | label t l =>
    simp only [step, Outcome.ok.injEq] at hs; subst hs
    simp [isAlloc, isAnti, isWaterElf]

theorem run_flags {h : Hooks} {tyOf : Def → RTy} {clash : List Reg} :
    ∀ (s : List Stmt) {st st' : State}, run h tyOf clash st s = .ok st' →
      st'.usedScratch = (st.usedScratch || s.any isAlloc) ∧ st'.antiLocal = (st.antiLocal || s.any (isAnti h)) ∧
      st'.antiGlobal = (st.antiGlobal || s.any (isWaterElf h))
  | [], st, st', hr => by simp only [run, Outcome.ok.injEq] at hr; subst hr; simp
  | x :: rest, st, st', hr => by
    simp only [run] at hr
    split at hr
    · rename_i st1 hs
      obtain ⟨a1, a2, a3⟩ := step_flags hs
      obtain ⟨b1, b2, b3⟩ := run_flags rest hr
      simp only [List.any_cons]
      rw [b1, b2, b3, a1, a2, a3]
      simp [Bool.or_assoc]
    · cases hr
    · cases hr

/-- **assign_no_reuse** (anti-scratch): a script that contains an instruction forbidding scratch use
and needs a register for anything never compiles to `ok` - it ends in a diagnostic. -/
theorem assign_no_reuse_anti (m : ExplicitMode) (h : Hooks) (tyOf : Def → RTy) (ps : List Param) (s : List Stmt)
    (hanti : s.any (isAnti h) = true) (halloc : s.any isAlloc = true) :
    ∀ res, assign m h tyOf ps s ≠ .ok res := by
  intro res ha
  simp only [assign] at ha
  split at ha
  · rename_i st hr
    obtain ⟨h1, h2, _⟩ := run_flags s hr
    rw [h1, h2, hanti, halloc] at ha
    simp at ha
  · cases ha
  · cases ha

/-- and in that case the outcome is the diagnostic (or the earlier "too complex"), never a panic, as long
as the run itself does not panic -/
theorem assign_anti_is_err (m : ExplicitMode) (h : Hooks) (tyOf : Def → RTy) (ps : List Param) (s : List Stmt)
    (st : State) (hr : run h tyOf (clashing (explicit m s) ps) (init h (explicit m s) ps) s = .ok st)
    (hanti : s.any (isAnti h) = true) (halloc : s.any isAlloc = true) :
    assign m h tyOf ps s = .err errDisabled := by
  obtain ⟨h1, h2, _⟩ := run_flags s hr
  simp only [assign, hr]
  rw [h1, h2, hanti, halloc]
  simp [init]

/-- the file-wide variant (`PersistentState::finish`): one sub with the Patchouli instruction and one
sub that used scratch registers reject the whole file -/
theorem finish_anti (subs : List Result) (a b : Result) (ha : a ∈ subs) (hb : b ∈ subs)
    (h1 : a.antiGlobal = true) (h2 : b.usedScratch = true) : finish subs = .err errDisabledFile := by
  have e1 : subs.any (·.antiGlobal) = true := List.any_eq_true.mpr ⟨a, ha, h1⟩
  have e2 : subs.any (·.usedScratch) = true := List.any_eq_true.mpr ⟨b, hb, h2⟩
  simp [finish, e1, e2]

/-! ## 5. `rewrite_total` -/

mutual
/-- the argument with every `Local` replaced through `f` -/
def substArg (f : Def → Reg) : Arg → Arg
  | .loc d ty => .raw (f d) ty
  | .switch cs => .switch (substList f cs)
  | a => a
def substList (f : Def → Reg) : List Arg → List Arg
  | [] => []
  | a :: as => substArg f a :: substList f as
end

mutual
def hasLoc : Arg → Bool
  | .loc _ _ => true
  | .switch cs => hasLocList cs
  | _ => false
def hasLocList : List Arg → Bool
  | [] => false
  | a :: as => hasLoc a || hasLocList as
end

mutual
/-- locals occurring in the argument at any depth -/
def locsOf : Arg → List Def
  | .loc d _ => [d]
  | .switch cs => locsOfList cs
  | _ => []
def locsOfList : List Arg → List Def
  | [] => []
  | a :: as => locsOf a ++ locsOfList as
end

def recorded (live : List (Def × Reg)) (d : Def) : Reg := (lookup live d).getD 0

mutual
theorem rewrite_spec (live : List (Def × Reg)) : ∀ (a a' : Arg), a.rewrite live = some a' →
    a' = substArg (recorded live) a ∧ hasLoc a' = false
  | .loc d ty, a', h => by
    simp only [Arg.rewrite] at h
    split at h
    · rename_i r hl
      simp only [Option.some.injEq] at h; subst h
      simp [substArg, recorded, hl, hasLoc]
    · cases h
  | .switch cs, a', h => by
    simp only [Arg.rewrite] at h
    split at h
    · rename_i cs' hl
      simp only [Option.some.injEq] at h; subst h
      obtain ⟨h1, h2⟩ := rewriteList_spec live cs cs' hl
      simp [substArg, hasLoc, h1]
      rw [← h1]; exact h2
    · cases h
  | .raw r ty, a', h => by simp only [Arg.rewrite, Option.some.injEq] at h; subst h; simp [substArg, hasLoc]
  | .imm v, a', h => by simp only [Arg.rewrite, Option.some.injEq] at h; subst h; simp [substArg, hasLoc]
  | .absent, a', h => by simp only [Arg.rewrite, Option.some.injEq] at h; subst h; simp [substArg, hasLoc]
  | .label l, a', h => by simp only [Arg.rewrite, Option.some.injEq] at h; subst h; simp [substArg, hasLoc]
  | .timeOf l, a', h => by simp only [Arg.rewrite, Option.some.injEq] at h; subst h; simp [substArg, hasLoc]
theorem rewriteList_spec (live : List (Def × Reg)) : ∀ (as as' : List Arg), rewriteList live as = some as' →
    as' = substList (recorded live) as ∧ hasLocList as' = false
  | [], as', h => by simp only [rewriteList, Option.some.injEq] at h; subst h; simp [substList, hasLocList]
  | a :: as, as', h => by
    simp only [rewriteList] at h
    split at h
    · rename_i a' ha
      split at h
      · rename_i as'' has
        simp only [Option.some.injEq] at h; subst h
        obtain ⟨h1, h2⟩ := rewrite_spec live a a' ha
        obtain ⟨h3, h4⟩ := rewriteList_spec live as as'' has
        simp [substList, hasLocList, ← h1, ← h3, h2, h4]
      · cases h
    · cases h
end

mutual
theorem rewrite_none (live : List (Def × Reg)) : ∀ (a : Arg), a.rewrite live = none →
    ∃ d ∈ locsOf a, lookup live d = none
  | .loc d ty, h => by
    simp only [Arg.rewrite] at h
    split at h
    · cases h
    · rename_i hl; exact ⟨d, by simp [locsOf], hl⟩
  | .switch cs, h => by
    simp only [Arg.rewrite] at h
    split at h
    · cases h
    · rename_i hl
      obtain ⟨d, hd, hn⟩ := rewriteList_none live cs hl
      exact ⟨d, by simpa [locsOf] using hd, hn⟩
  | .raw r ty, h => by simp [Arg.rewrite] at h
  | .imm v, h => by simp [Arg.rewrite] at h
  | .absent, h => by simp [Arg.rewrite] at h
  | .label l, h => by simp [Arg.rewrite] at h
  | .timeOf l, h => by simp [Arg.rewrite] at h
theorem rewriteList_none (live : List (Def × Reg)) : ∀ (as : List Arg), rewriteList live as = none →
    ∃ d ∈ locsOfList as, lookup live d = none
  | [], h => by simp [rewriteList] at h
  | a :: as, h => by
    simp only [rewriteList] at h
    split at h
    · rename_i a' ha
      split at h
      · cases h
      · rename_i has
        obtain ⟨d, hd, hn⟩ := rewriteList_none live as has
        exact ⟨d, by simp [locsOfList, hd], hn⟩
    · rename_i ha
      obtain ⟨d, hd, hn⟩ := rewrite_none live a ha
      exact ⟨d, by simp [locsOfList, hd], hn⟩
end

/-- **rewrite_total**: an instruction is emitted with every `Local` argument - also inside
difficulty switches - replaced by the register recorded for that local, no `Local` is left, nothing
else changes; the only way this step fails is a local that has no register (never allocated, or
already freed), and then it is the index panic of the real code. -/
theorem rewrite_total (h : Hooks) (tyOf : Def → RTy) (clash : List Reg) (st : State)
    (t : Int) (m op : Nat) (as : List Arg) :
    (∃ st' as', step h tyOf clash st (.instr t m op (some as)) = .ok st' ∧
        st'.out = .instr t m op (some as') :: st.out ∧
        as' = substList (recorded st.live) as ∧ hasLocList as' = false) ∨
    (∃ site, step h tyOf clash st (.instr t m op (some as)) = .panic site ∧
        ∃ d ∈ locsOfList as, lookup st.live d = none) := by
  cases hr : rewriteList st.live as with
  | some as' =>
    left
    obtain ⟨h1, h2⟩ := rewriteList_spec st.live as as' hr
    refine ⟨_, as', by simp only [step, hr]; rfl, ?_, h1, h2⟩
    cases h.antiScratch op with
    | none => rfl
    | some b => cases b <;> rfl
  | none =>
    right
    exact ⟨"index out of bounds: local_regs[&def_id]", by simp only [step, hr], rewriteList_none st.live as hr⟩

/-! ## 6. the hypotheses are satisfiable by non-trivial inputs -/

def anm : Hooks where
  general
    | .int => [10000, 10001, 10002, 10003, 10008, 10009]
    | .float => [10004, 10005, 10006, 10007]
  antiScratch op := if op = 509 then some .thisFunction else none

example : HooksOk anm := by unfold HooksOk; decide

/-- a body with two nested locals, one temporary and a register named at top level -/
def sample : List Stmt := [
  .alloc 1, .instr 0 255 6 (some [.loc 1 .int, .raw 10000 .int]),
  .alloc 2, .instr 0 255 6 (some [.loc 2 .float, .switch [.loc 1 .int, .absent, .raw 10004 .float, .absent]]),
  .free 2, .alloc 3, .instr 0 255 7 (some [.loc 3 .int, .loc 1 .int]), .free 3, .free 1]

def sampleTy : Def → RTy := fun d => if d = 2 then .float else .int

/-- the debug-info `locals` of a run, for evaluation by `decide` -/
def localsOf : Outcome Result → Option (List LocalInfo)
  | .ok r => some r.locals
  | _ => none

example : localsOf (assign .deep anm sampleTy [] sample) =
    some [⟨1, .int, 10001⟩, ⟨2, .float, 10005⟩, ⟨3, .int, 10002⟩] := by decide +kernel

example : ∀ x ∈ sample, StmtOk [] x := by
  intro x hx; cases x <;> simp [StmtOk, paramDefs]

/-- EoSD: the parameter registers `I0`/`F0` are general-purpose and are kept out of the pool -/
def eosd : Hooks where
  general
    | .int => [-10001, -10002, -10003, -10004, -10009, -10010, -10011, -10012]
    | .float => [-10005, -10006, -10007, -10008]
  antiScratch op := if op = 130 then some .waterElf else none

example : HooksOk eosd := by unfold HooksOk; decide

example : localsOf (assign .deep eosd (fun _ => .int) [⟨some 7, -10001, .int⟩, ⟨none, -10005, .float⟩]
      [.alloc 1, .instr 0 255 4 (some [.loc 1 .int, .loc 7 .int]), .free 1]) =
    some [⟨7, .int, -10001⟩, ⟨1, .int, -10002⟩] := by decide

/-- anti-scratch: rejected -/
def errOf : Outcome Result → Option String
  | .err c => some c
  | _ => none

example : errOf (assign .deep anm (fun _ => .int) [] [.alloc 1, .instr 0 255 509 (some []), .free 1]) = some errDisabled := by decide

/-- pool exhaustion: rejected -/
example : errOf (assign .deep { anm with general := fun _ => [10000] } (fun _ => .int) []
    [.alloc 1, .alloc 2]) = some errTooComplex := by decide

end TruthModel.C05
