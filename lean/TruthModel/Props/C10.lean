import TruthModel.Model.Scope
import TruthModel.Lemmas.Scope
import TruthModel.Lemmas.ScopeIds
import TruthModel.Lemmas.ScopeRename
/-
C10 — names resolve by lexical scope, independent of how they are spelled.  Property theorems.
-/
namespace TruthModel.C10
open TruthModel TruthModel.Scope

/-- The rib-stack resolver computes exactly the declarative specification: the same events (self
resolutions, redefinition errors, resolutions, errors) in the same order, for every block and
every global environment. -/
theorem ribs_eq_spec_block (g : Globals) (b : List Stmt) : resolveRibsBlock g b = resolveSpecBlock g b := by
  unfold resolveRibsBlock resolveSpecBlock Globals.initialStacks
  have h := visitBlock_eq g b (some g.funcsLang) [] [] (fun _ h => by simp at h) (fun _ h => by simp at h)
  simpa [envOf, fenvOf, Env.empty] using h

/-- a script file: its top-level statements are items (the AST cannot hold a local declaration there) -/
def TopLevel (items : List Stmt) : Prop := ∀ s ∈ items, s.isDecl = false

theorem ribs_eq_spec (g : Globals) (items : List Stmt) (h : TopLevel items) :
    resolveRibs g items = resolveSpec g items := by
  unfold resolveRibs resolveSpec
  simp only [Rib.new]
  rw [addItems_eq]
  have h' := visitStmts_free g items h (some g.funcsLang)
    [⟨.items, pushItems .vars (itemDecls items) []⟩] [⟨.items, pushItems .funcs (itemDecls items) []⟩]
    (fun _ => false) (userRibs_cons _ _ (userRib_items _) (fun _ h => by simp at h))
    (itemRibs_cons _ _ (fun _ h => by simp at h))
  simp only [List.cons_append, List.nil_append] at h'
  rw [h']
  have hw := withItems_eq [] [] (itemDecls items)
  rw [envOf_locals_nil] at hw
  have he : (⟨envOf [], fenvOf []⟩ : Env) = Env.empty := rfl
  rw [he] at hw
  rw [hw]
  congr 1
  show declEvents itemNoun (seenOf [] []) (itemDecls items) = _
  congr 1
  funext ns n
  cases ns <;> rfl

/-- Every identifier occurrence of the program gets exactly one primary event (self resolution,
resolution or error), in the order `blockIds` lists them, and no assertion of the resolver fires
(`evKey` of a fired assertion is `none`). -/
theorem each_ident_visited_once (g : Globals) (items : List Stmt) (h : TopLevel items) :
    (resolveRibs g items).flatMap evKey = (blockIds items).map some := by
  rw [ribs_eq_spec g items h]
  unfold resolveSpec blockIds
  simp only [List.flatMap_append, List.map_append]
  rw [declEvents_key, specStmts_key g items _ _ _ (envClean_withItems _ envClean_empty _)]

/-- With pairwise distinct occurrence ids (what `assign_res_ids` provides) the `Resolutions` table
is filled without the "ident resolved multiple times" assertion (or any other) firing, and it
then maps every resolved identifier to the definition of its one resolution event, every
declaring identifier to its own definition, and leaves the identifiers with an error unresolved. -/
theorem each_ident_resolved_once (g : Globals) (items : List Stmt) (h : TopLevel items)
    (hn : (blockIds items).Nodup) :
    ∃ tbl, applyEvents [] (resolveRibs g items) = .ok tbl ∧
      (∀ id d, Event.res id d ∈ resolveRibs g items → tbl.lookup id = some d) ∧
      (∀ id, Event.selfRes id ∈ resolveRibs g items → tbl.lookup id = some (.decl id)) ∧
      (∀ id e, Event.err id e ∈ resolveRibs g items → tbl.lookup id = none) := by
  obtain ⟨tbl, ht⟩ := applyEvents_ok _ _ [] (each_ident_visited_once g items h) hn (fun _ _ => rfl)
  exact ⟨tbl, ht, applyEvents_table _ _ [] tbl (each_ident_visited_once g items h) hn (fun _ _ => rfl) ht⟩

/-- `x` is declared somewhere in the program (local, parameter, const or function, at any depth) -/
def Declared (items : List Stmt) (x : Name) : Prop := x ∈ stmtsDeclNames items
/-- `x` occurs somewhere in the program, as a declaration or as a use -/
def Occurs (items : List Stmt) (x : Name) : Prop := x ∈ stmtsNames items

theorem envRel_empty (ρ : Name → Name) (P : Name → Prop) : EnvRel ρ P Env.empty Env.empty :=
  ⟨⟨fun _ _ => rfl, fun _ _ => rfl, fun _ h => absurd rfl h⟩, ⟨fun _ _ => rfl, fun _ _ => rfl, fun _ h => absurd rfl h⟩⟩

theorem spec_rename (g : Globals) (ρ : Name → Name) (items : List Stmt)
    (hinj : ∀ x y, Declared items x → Declared items y → ρ x = ρ y → x = y)
    (hfresh : ∀ x, Declared items x → ¬ Occurs items (ρ x)) :
    resolveSpec g (renameFile ρ items) = resolveSpec g items := by
  have hr : RenOK ρ (Declared items) (Occurs items) := ⟨hinj, hfresh⟩
  have hd : ∀ d ∈ itemDecls items, Declared items d.2.2 := fun d hd => itemDecls_names items d hd
  unfold resolveSpec renameFile
  rw [itemDecls_ren, declEvents_ren hr itemNoun _ _ _ seenRel_false hd]
  rw [renStmts_ok hr g items (some g.funcsLang) _ _ _ _ (envRel_withItems hr (envRel_empty _ _) _ hd)
    hereRel_false (envClean_withItems _ envClean_empty _) (fun _ h => h) (fun _ h => h)]

/-- Renaming invariance.  Let `ρ` be injective on the names declared in the program and map them to
names that do not occur in the program.  Renaming every declaration and every use bound to (or
blocked by) a declaration along `ρ` (`renameFile`) leaves the resolver's result unchanged: the
same events in the same order, i.e. every use binds to the same declaration occurrence / global
definition, and exactly the same occurrences are errors of the same class.  (`ρ x` may even
coincide with the name of a register alias, enum const or builtin: a declaration shadows those.) -/
theorem rename_invariant (g : Globals) (ρ : Name → Name) (items : List Stmt) (htop : TopLevel items)
    (hinj : ∀ x y, Declared items x → Declared items y → ρ x = ρ y → x = y)
    (hfresh : ∀ x, Declared items x → ¬ Occurs items (ρ x)) :
    resolveRibs g (renameFile ρ items) = resolveRibs g items := by
  have htop' : TopLevel (renameFile ρ items) := renStmts_isDecl items _ htop
  rw [ribs_eq_spec g items htop, ribs_eq_spec g _ htop']
  exact spec_rename g ρ items hinj hfresh

/-- the same for a bare block (`resolve_names` on an `ast::Block`) -/
theorem rename_invariant_block (g : Globals) (ρ : Name → Name) (b : List Stmt)
    (hinj : ∀ x y, Declared b x → Declared b y → ρ x = ρ y → x = y)
    (hfresh : ∀ x, Declared b x → ¬ Occurs b (ρ x)) :
    resolveRibsBlock g (renameBlock ρ b) = resolveRibsBlock g b := by
  have hr : RenOK ρ (Declared b) (Occurs b) := ⟨hinj, hfresh⟩
  rw [ribs_eq_spec_block, ribs_eq_spec_block]
  unfold resolveSpecBlock renameBlock
  exact specBlock_ren hr g b (renStmts_ok hr g b) _ (envRel_empty _ _) envClean_empty (fun _ h => h) (fun _ h => h)

/-! ## Non-vacuity: a program exercising every rule satisfies all hypotheses

```
const int a = a();                       // 0 1     functions are a separate namespace; no function `a`
const int f(int p, int p) { return a; }  // 2 3 4 5 duplicate parameter; `a` is the const (whole-file scope)
script {
  int b = b;                             // 6 7     a local is not in scope in its own initialiser
  { int a = a; a; }                      // 8 9 10  initialiser sees the const, the use after it the local
  d; c; f(b);                            // 11..14  enum const, ambiguous enum const, forward-declared function
  E2.c; E1.a; E9.c;                      // 15..17  qualified enum consts ignore scope: ok, no such const, no such enum
}
```
-/

def exampleGlobals : Globals :=
  { langs := ["ecl", "anm"], regAliases := [("anm", "a", 10000), ("ecl", "a", 100)],
    insAliases := [("anm", "f", 7)], enums := ["E1", "E2"], enumConsts := [("E1", "c"), ("E2", "c"), ("E1", "d")],
    builtins := ["PI"], funcsLang := "ecl", scriptsLang := "anm" }

def exampleProg : List Stmt :=
  [ .const [⟨0, "a", [⟨1, .funcs, "a", none, none⟩]⟩],
    .func 2 "f" .const [(3, "p"), (4, "p")] [.expr [⟨5, .vars, "a", none, none⟩]],
    .script [ .decl [⟨6, "b", [⟨7, .vars, "b", none, none⟩]⟩],
              .block [.decl [⟨8, "a", [⟨9, .vars, "a", none, none⟩]⟩], .expr [⟨10, .vars, "a", none, none⟩]],
              .expr [⟨11, .vars, "d", none, none⟩, ⟨12, .vars, "c", none, none⟩, ⟨13, .funcs, "f", none, none⟩,
                     ⟨14, .vars, "b", none, none⟩],
              .expr [⟨15, .vars, "c", none, some "E2"⟩, ⟨16, .vars, "a", none, some "E1"⟩,
                     ⟨17, .vars, "c", none, some "E9"⟩]] ]

def exampleRho : Name → Name := fun x =>
  if x = "a" then "alpha" else if x = "b" then "beta" else if x = "f" then "phi" else if x = "p" then "pi" else x

theorem example_topLevel : TopLevel exampleProg := by unfold TopLevel; decide

/-- what the resolver (and hence the specification) says about the example -/
example : resolveRibs exampleGlobals exampleProg =
    [.selfRes 0, .selfRes 2, .err 1 .unknown, .selfRes 3, .selfRes 4, .redef 4 .param, .res 5 (.decl 0),
     .err 7 .unknown, .selfRes 6, .res 9 (.decl 0), .selfRes 8, .res 10 (.decl 8),
     .res 11 (.enumConst "E1" "d"), .err 12 .ambiguousEnum, .res 13 (.decl 2), .res 14 (.decl 6),
     .res 15 (.enumConst "E2" "c"), .err 16 .noEnumConst, .err 17 .noSuchEnum] := by decide

example : resolveRibs exampleGlobals exampleProg = resolveSpec exampleGlobals exampleProg :=
  ribs_eq_spec _ _ example_topLevel

example : ∃ tbl, applyEvents [] (resolveRibs exampleGlobals exampleProg) = .ok tbl :=
  let ⟨tbl, h, _⟩ := each_ident_resolved_once _ _ example_topLevel (by decide)
  ⟨tbl, h⟩

/-- the occurrence ids matter: with a repeated id the assertion of `Resolutions` does fire -/
example : applyEvents [] (resolveRibs exampleGlobals
    [.script [.expr [⟨0, .vars, "PI", none, none⟩, ⟨0, .vars, "PI", none, none⟩]]]) =
    .panic "(bug!) ident resolved multiple times" := by decide

theorem example_inj : ∀ x y, Declared exampleProg x → Declared exampleProg y →
    exampleRho x = exampleRho y → x = y := by
  have h : ∀ x ∈ stmtsDeclNames exampleProg, ∀ y ∈ stmtsDeclNames exampleProg,
      exampleRho x = exampleRho y → x = y := by decide
  exact fun x y hx hy => h x hx y hy

theorem example_fresh : ∀ x, Declared exampleProg x → ¬ Occurs exampleProg (exampleRho x) := by
  have h : ∀ x ∈ stmtsDeclNames exampleProg, ¬ exampleRho x ∈ stmtsNames exampleProg := by decide
  exact fun x hx => h x hx

example : resolveRibs exampleGlobals (renameFile exampleRho exampleProg) =
    resolveRibs exampleGlobals exampleProg :=
  rename_invariant _ _ _ example_topLevel example_inj example_fresh

/-- the renaming really renames: bound names change, the free `d`, `c` and the unbound `a()`, `b` stay -/
example : stmtsNames (renameFile exampleRho exampleProg) =
    ["alpha", "a", "phi", "pi", "pi", "alpha", "beta", "b", "alpha", "alpha", "alpha", "d", "c", "phi", "beta",
     "c", "a", "c"] := by
  decide

end TruthModel.C10
