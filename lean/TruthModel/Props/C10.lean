import TruthModel.Model.Scope
import TruthModel.Lemmas.Scope
import TruthModel.Lemmas.ScopeIds
import TruthModel.Lemmas.ScopeRename
/-
C10 — names resolve by lexical scope, independent of how they are spelled.  Property theorems.
-/
namespace TruthModel.C10
open TruthModel TruthModel.Scope

/-- The rib-stack resolver computes exactly the declarative specification: the same events (self
resolutions, redefinition errors, resolutions, errors) in the same order, for every block and
every global environment. -/
theorem ribs_eq_spec_block (g : Globals) (b : List Stmt) : resolveRibsBlock g b = resolveSpecBlock g b := by
  unfold resolveRibsBlock resolveSpecBlock Globals.initialStacks
  have h := visitBlock_eq (g.withProgram b) b (some g.funcsLang) [] [] (fun _ h => by simp at h) (fun _ h => by simp at h)
  simpa [envOf, fenvOf, Env.empty] using h

/-- a script file: its top-level statements are items (the AST cannot hold a local declaration there) -/
def TopLevel (items : List Stmt) : Prop := ∀ s ∈ items, s.isDecl = false

/-- the file-level statement for any table of function signatures -/
theorem ribs_eq_spec_with (g : Globals) (items : List Stmt) (h : TopLevel items) :
    resolveRibsWith g items = resolveSpecWith g items := by
  unfold resolveRibsWith resolveSpecWith
  simp only [Rib.new]
  rw [addItems_eq]
  have h' := visitStmts_free g items h (some g.funcsLang)
    [⟨.items, pushItems .vars (itemDecls items) []⟩] [⟨.items, pushItems .funcs (itemDecls items) []⟩]
    (fun _ => false) (userRibs_cons _ _ (userRib_items _) (fun _ h => by simp at h))
    (itemRibs_cons _ _ (fun _ h => by simp at h))
  simp only [List.cons_append, List.nil_append] at h'
  rw [h']
  have hw := withItems_eq [] [] (itemDecls items)
  rw [envOf_locals_nil] at hw
  have he : (⟨envOf [], fenvOf []⟩ : Env) = Env.empty := rfl
  rw [he] at hw
  rw [hw]
  congr 1
  show declEvents itemNoun (seenOf [] []) (itemDecls items) = _
  congr 1
  funext ns n
  cases ns <;> rfl

/-- The rib-stack resolver of a whole script file (`visit_file`: the table of function signatures
is the one of the program, `Globals.withProgram`) computes exactly the declarative specification,
including which arguments of a call are looked at at all, the enum every argument is expected to
be, `times(x = n)` clobber variables (uses) and function declarations without body (their
parameter names declare nothing). -/
theorem ribs_eq_spec (g : Globals) (items : List Stmt) (h : TopLevel items) :
    resolveRibs g items = resolveSpec g items :=
  ribs_eq_spec_with (g.withProgram items) items h

/-- Every identifier occurrence of the program gets exactly one primary event (self resolution,
resolution, error, or `skipped` for an identifier the resolver never looks at), in the order
`blockIds` lists them, and no assertion of the resolver fires (`evKey` of a fired assertion is
`none`). -/
theorem each_ident_visited_once (g : Globals) (items : List Stmt) (h : TopLevel items) :
    (resolveRibs g items).flatMap evKey = (blockIds items).map some := by
  rw [ribs_eq_spec g items h]
  unfold resolveSpec resolveSpecWith blockIds
  simp only [List.flatMap_append, List.map_append]
  rw [declEvents_key, specStmts_key _ items _ _ _ (envClean_withItems _ envClean_empty _)]

/-- With pairwise distinct occurrence ids (what `assign_res_ids` provides) the `Resolutions` table
is filled without the "ident resolved multiple times" assertion (or any other) firing, and it
then maps every resolved identifier to the definition of its one resolution event, every
declaring identifier to its own definition, and leaves the identifiers with an error and the
identifiers that are never looked at (arguments beyond the callee's parameter count, parameter
names of a declaration without body) unresolved. -/
theorem each_ident_resolved_once (g : Globals) (items : List Stmt) (h : TopLevel items)
    (hn : (blockIds items).Nodup) :
    ∃ tbl, applyEvents [] (resolveRibs g items) = .ok tbl ∧
      (∀ id d, Event.res id d ∈ resolveRibs g items → tbl.lookup id = some d) ∧
      (∀ id, Event.selfRes id ∈ resolveRibs g items → tbl.lookup id = some (.decl id)) ∧
      (∀ id e, Event.err id e ∈ resolveRibs g items → tbl.lookup id = none) ∧
      (∀ id, Event.skipped id ∈ resolveRibs g items → tbl.lookup id = none) := by
  obtain ⟨tbl, ht⟩ := applyEvents_ok _ _ [] (each_ident_visited_once g items h) hn (fun _ _ => rfl)
  exact ⟨tbl, ht, applyEvents_table _ _ [] tbl (each_ident_visited_once g items h) hn (fun _ _ => rfl) ht⟩

/-- `x` is declared somewhere in the program (local, parameter, const or function, at any depth) -/
def Declared (items : List Stmt) (x : Name) : Prop := x ∈ stmtsDeclNames items
/-- `x` occurs somewhere in the program, as a declaration or as a use -/
def Occurs (items : List Stmt) (x : Name) : Prop := x ∈ stmtsNames items

theorem envRel_empty (ρ : Name → Name) (P : Name → Prop) : EnvRel ρ P Env.empty Env.empty :=
  ⟨⟨fun _ _ => rfl, fun _ _ => rfl, fun _ h => absurd rfl h⟩, ⟨fun _ _ => rfl, fun _ _ => rfl, fun _ h => absurd rfl h⟩⟩

theorem spec_rename (g : Globals) (ρ : Name → Name) (items : List Stmt)
    (hinj : ∀ x y, Declared items x → Declared items y → ρ x = ρ y → x = y)
    (hfresh : ∀ x, Declared items x → ¬ Occurs items (ρ x)) :
    resolveSpec g (renameFile ρ items) = resolveSpec g items := by
  have hr : RenOK ρ (Declared items) (Occurs items) := ⟨hinj, hfresh⟩
  have hd : ∀ d ∈ itemDecls items, Declared items d.2.2 := fun d hd => itemDecls_names items d hd
  -- renaming changes no function signature
  have hg : g.withProgram (renameFile ρ items) = g.withProgram items := by
    unfold Globals.withProgram renameFile
    rw [stmtsFuncSigs_ren]
  unfold resolveSpec
  rw [hg]
  unfold resolveSpecWith renameFile
  rw [itemDecls_ren, declEvents_ren hr itemNoun _ _ _ seenRel_false hd]
  rw [renStmts_ok hr (g.withProgram items) items (some (g.withProgram items).funcsLang) _ _ _ _
    (envRel_withItems hr (envRel_empty _ _) _ hd)
    hereRel_false (envClean_withItems _ envClean_empty _) (fun _ h => h) (fun _ h => h)]

/-- Renaming invariance.  Let `ρ` be injective on the names declared in the program and map them to
names that do not occur in the program.  Renaming every declaration and every use bound to (or
blocked by) a declaration along `ρ` (`renameFile`) leaves the resolver's result unchanged: the
same events in the same order, i.e. every use binds to the same declaration occurrence / global
definition, and exactly the same occurrences are errors of the same class.  (`ρ x` may even
coincide with the name of a register alias, enum const or builtin: a declaration shadows those.) -/
theorem rename_invariant (g : Globals) (ρ : Name → Name) (items : List Stmt) (htop : TopLevel items)
    (hinj : ∀ x y, Declared items x → Declared items y → ρ x = ρ y → x = y)
    (hfresh : ∀ x, Declared items x → ¬ Occurs items (ρ x)) :
    resolveRibs g (renameFile ρ items) = resolveRibs g items := by
  have htop' : TopLevel (renameFile ρ items) := renStmts_isDecl items _ htop
  rw [ribs_eq_spec g items htop, ribs_eq_spec g _ htop']
  exact spec_rename g ρ items hinj hfresh

/-- the same for a bare block (`resolve_names` on an `ast::Block`) -/
theorem rename_invariant_block (g : Globals) (ρ : Name → Name) (b : List Stmt)
    (hinj : ∀ x y, Declared b x → Declared b y → ρ x = ρ y → x = y)
    (hfresh : ∀ x, Declared b x → ¬ Occurs b (ρ x)) :
    resolveRibsBlock g (renameBlock ρ b) = resolveRibsBlock g b := by
  have hr : RenOK ρ (Declared b) (Occurs b) := ⟨hinj, hfresh⟩
  have hg : g.withProgram (renameBlock ρ b) = g.withProgram b := by
    unfold Globals.withProgram renameBlock
    rw [stmtsFuncSigs_ren]
  rw [ribs_eq_spec_block, ribs_eq_spec_block]
  unfold resolveSpecBlock
  rw [hg]
  unfold renameBlock
  exact specBlock_ren hr (g.withProgram b) b (renStmts_ok hr (g.withProgram b) b) _ (envRel_empty _ _) envClean_empty
    (fun _ h => h) (fun _ h => h)

/-! ## Non-vacuity: a program exercising every rule satisfies all hypotheses

```
const int a = a();                       // 0 1     functions are a separate namespace; no function `a`
const int f(int p, int p) { return a; }  // 2 3 4 5 duplicate parameter; `a` is the const (whole-file scope)
script {
  int b = b;                             // 6 7     a local is not in scope in its own initialiser
  { int a = a; a; }                      // 8 9 10  initialiser sees the const, the use after it the local
  d; c; f(b);                            // 11..14  enum const, ambiguous enum const, forward-declared function
  E2.c; E1.a; E9.c;                      // 15..17  qualified enum consts ignore scope: ok, no such const, no such enum
}
```
-/

def exampleGlobals : Globals :=
  { langs := ["ecl", "anm"], regAliases := [("anm", "a", 10000), ("ecl", "a", 100)],
    insAliases := [("anm", "f", 7)], enums := ["E1", "E2"], enumConsts := [("E1", "c"), ("E2", "c"), ("E1", "d")],
    builtins := ["PI"], funcsLang := "ecl", scriptsLang := "anm" }

def exampleProg : List Stmt :=
  [ .const [⟨0, "a", [.call ⟨1, .funcs, "a", none, none⟩ []]⟩],
    .func 2 "f" .const [(3, "p"), (4, "p")] [.expr [.use ⟨5, .vars, "a", none, none⟩]],
    .script [ .decl [⟨6, "b", [.use ⟨7, .vars, "b", none, none⟩]⟩],
              .block [.decl [⟨8, "a", [.use ⟨9, .vars, "a", none, none⟩]⟩], .expr [.use ⟨10, .vars, "a", none, none⟩]],
              .expr [.use ⟨11, .vars, "d", none, none⟩, .use ⟨12, .vars, "c", none, none⟩,
                     .call ⟨13, .funcs, "f", none, none⟩ [.use ⟨14, .vars, "b", none, none⟩]],
              .expr [.use ⟨15, .vars, "c", none, some "E2"⟩, .use ⟨16, .vars, "a", none, some "E1"⟩,
                     .use ⟨17, .vars, "c", none, some "E9"⟩]] ]

def exampleRho : Name → Name := fun x =>
  if x = "a" then "alpha" else if x = "b" then "beta" else if x = "f" then "phi" else if x = "p" then "pi" else x

theorem example_topLevel : TopLevel exampleProg := by unfold TopLevel; decide

/-- what the resolver (and hence the specification) says about the example -/
example : resolveRibs exampleGlobals exampleProg =
    [.selfRes 0, .selfRes 2, .err 1 .unknown, .selfRes 3, .selfRes 4, .redef 4 .param, .res 5 (.decl 0),
     .err 7 .unknown, .selfRes 6, .res 9 (.decl 0), .selfRes 8, .res 10 (.decl 8),
     .res 11 (.enumConst "E1" "d"), .err 12 .ambiguousEnum, .res 13 (.decl 2), .res 14 (.decl 6),
     .res 15 (.enumConst "E2" "c"), .err 16 .noEnumConst, .err 17 .noSuchEnum] := by decide

example : resolveRibs exampleGlobals exampleProg = resolveSpec exampleGlobals exampleProg :=
  ribs_eq_spec _ _ example_topLevel

example : ∃ tbl, applyEvents [] (resolveRibs exampleGlobals exampleProg) = .ok tbl :=
  let ⟨tbl, h, _⟩ := each_ident_resolved_once _ _ example_topLevel (by decide)
  ⟨tbl, h⟩

/-- the occurrence ids matter: with a repeated id the assertion of `Resolutions` does fire -/
example : applyEvents [] (resolveRibs exampleGlobals
    [.script [.expr [.use ⟨0, .vars, "PI", none, none⟩, .use ⟨0, .vars, "PI", none, none⟩]]]) =
    .panic "(bug!) ident resolved multiple times" := by decide

theorem example_inj : ∀ x y, Declared exampleProg x → Declared exampleProg y →
    exampleRho x = exampleRho y → x = y := by
  have h : ∀ x ∈ stmtsDeclNames exampleProg, ∀ y ∈ stmtsDeclNames exampleProg,
      exampleRho x = exampleRho y → x = y := by decide
  exact fun x y hx hy => h x hx y hy

theorem example_fresh : ∀ x, Declared exampleProg x → ¬ Occurs exampleProg (exampleRho x) := by
  have h : ∀ x ∈ stmtsDeclNames exampleProg, ¬ exampleRho x ∈ stmtsNames exampleProg := by decide
  exact fun x hx => h x hx

example : resolveRibs exampleGlobals (renameFile exampleRho exampleProg) =
    resolveRibs exampleGlobals exampleProg :=
  rename_invariant _ _ _ example_topLevel example_inj example_fresh

/-- the renaming really renames: bound names change, the free `d`, `c` and the unbound `a()`, `b` stay -/
example : stmtsNames (renameFile exampleRho exampleProg) =
    ["alpha", "a", "phi", "pi", "pi", "alpha", "beta", "b", "alpha", "alpha", "alpha", "d", "c", "phi", "beta",
     "c", "a", "c"] := by
  decide

/-! ## The global ribs (`Defs::initial_ribs`) and which global definition of a spelling wins

`Globals.initialRibsVec` is the vector `initial_ribs` returns (instruction alias ribs, register
alias ribs, builtin consts, enum consts), `ribStacksFromIter` what `RibStacks::from_iter` makes of
it.  The theorems say, per namespace and per context (language of the use, or none in a const
context), which of several global definitions of one spelling a use means: a const of an enum
before a builtin const before a register alias of the language of the use; aliases of other
languages never; every declaration of the program before all of them. -/

theorem foldl_push_funcs (r : Lang → Rib) : ∀ (ls : List Lang) (st : Stacks),
    (ls.map fun l => (Ns.funcs, r l)).foldl pushRib st = { st with funcs := ls.reverse.map r ++ st.funcs } := by
  intro ls
  induction ls with
  | nil => intro st; rfl
  | cons l ls ih => intro st; simp only [List.map_cons, List.foldl_cons]; rw [ih]; simp [pushRib]

theorem foldl_push_vars (r : Lang → Rib) : ∀ (ls : List Lang) (st : Stacks),
    (ls.map fun l => (Ns.vars, r l)).foldl pushRib st = { st with vars := ls.reverse.map r ++ st.vars } := by
  intro ls
  induction ls with
  | nil => intro st; rfl
  | cons l ls ih => intro st; simp only [List.map_cons, List.foldl_cons]; rw [ih]; simp [pushRib]

/-- the rib stacks name resolution starts from are `initial_ribs` pushed in order on the dummy roots -/
theorem initial_ribs_stacks (g : Globals) : ribStacksFromIter g.initialRibsVec = g.initialStacks := by
  unfold ribStacksFromIter Globals.initialRibsVec Globals.initialStacks Globals.initialVars Globals.initialFuncs
  rw [List.foldl_append, List.foldl_append, foldl_push_funcs, foldl_push_vars]
  rfl

/-- Variables: which global definition a spelling means (`Globals.globalVar`: enum const, else
builtin const, else the newest register alias of that name in the language of the use; in a const
context, or in a language without mapfile rib, no alias at all). -/
theorem global_var_precedence (g : Globals) (lang : Option Lang) (n : Name) :
    resolve lang n none (ribStacksFromIter g.initialRibsVec).vars = g.globalVar lang n := by
  rw [initial_ribs_stacks]; exact resolve_initialVars g lang n

/-- Functions: the newest instruction alias of that name in the language of the use, nothing else. -/
theorem global_func_precedence (g : Globals) (lang : Option Lang) (n : Name) :
    resolve lang n none (ribStacksFromIter g.initialRibsVec).funcs = g.globalFunc lang n := by
  rw [initial_ribs_stacks]; exact resolve_initialFuncs g lang n

/-- a const of an enum (a sprite, script or sub name, or a mapfile enum const) shadows a builtin
const and a register alias of the same spelling, in every language and in const contexts -/
theorem enum_const_shadows_builtin_and_alias (g : Globals) (lang : Option Lang) (n : Name)
    (h : g.enumConsts.any (fun p => p.2 == n) = true) :
    resolve lang n none (ribStacksFromIter g.initialRibsVec).vars = .ok .enumDummy := by
  rw [global_var_precedence]; unfold Globals.globalVar; rw [if_pos h]

/-- a builtin const shadows a register alias of the same spelling -/
theorem builtin_shadows_alias (g : Globals) (lang : Option Lang) (n : Name)
    (h1 : g.enumConsts.any (fun p => p.2 == n) = false) (h2 : g.builtins.contains n = true) :
    resolve lang n none (ribStacksFromIter g.initialRibsVec).vars = .ok (.builtin n) := by
  rw [global_var_precedence]; unfold Globals.globalVar
  rw [if_neg (by rw [h1]; exact Bool.false_ne_true), if_pos h2]

/-- a register alias is visible only in its own language: not in a const context ... -/
theorem alias_invisible_in_const_context (g : Globals) (n : Name)
    (h1 : g.enumConsts.any (fun p => p.2 == n) = false) (h2 : g.builtins.contains n = false) :
    resolve none n none (ribStacksFromIter g.initialRibsVec).vars = .error .unknown := by
  rw [global_var_precedence]; unfold Globals.globalVar
  rw [if_neg (by rw [h1]; exact Bool.false_ne_true), if_neg (by rw [h2]; exact Bool.false_ne_true)]

/-- ... and in language `l` only the aliases of `l` count, whatever other languages call `n` -/
theorem alias_only_of_own_language (g : Globals) (l : Lang) (n : Name)
    (h1 : g.enumConsts.any (fun p => p.2 == n) = false) (h2 : g.builtins.contains n = false)
    (h3 : lastAlias g.regAliases l n = none) :
    resolve (some l) n none (ribStacksFromIter g.initialRibsVec).vars = .error .unknown := by
  rw [global_var_precedence]; unfold Globals.globalVar
  rw [if_neg (by rw [h1]; exact Bool.false_ne_true), if_neg (by rw [h2]; exact Bool.false_ne_true)]
  simp only [h3]
  split <;> rfl

/-- every declaration of the program that is in scope shadows every global definition: with any
stack of block / parameter / item / barrier ribs on top of the global ribs, a name that one of
them declares never reaches the global ribs -/
theorem declaration_shadows_globals (g : Globals) (user : List Rib) (hu : UserRibs user)
    (lang : Option Lang) (n : Name) (e : VEntry) (he : envOf user n = some e) :
    resolve lang n none (user ++ (ribStacksFromIter g.initialRibsVec).vars) =
      (match e with
       | .loc _ d => .ok d
       | .item d => .ok d
       | .blocked k ik => .error (.crossBarrier k ik)) := by
  rw [initial_ribs_stacks]
  show resolve lang n none (user ++ g.initialVars) = _
  rw [resolve_user lang n g.initialVars (initialVars_noLocals g) user hu none]
  simp only [hideOpt, he, finishEntry]
  cases e <;> rfl

/-! ## The ribs of a function body: `Locals` on `Items` on `Params` on the barrier -/

/-- The statements of the body of `T f(params) { body }` are resolved on these stacks: the
`Locals` rib of the body block, the rib of the items of the body block (pre-declared), the
`Params` rib, the function barrier, then whatever was there.  A const of the body's own top-level
block therefore shadows a parameter of the same name, in the whole body. -/
theorem func_body_stacks (st : Stacks) (params : List (Nat × Name)) (body : List Stmt) :
    (enterBlock (addParams { st with vars := Rib.new .params :: Rib.new (.barrier .function) :: st.vars } params).1
        body).1 =
      ⟨⟨.locals, []⟩ :: ⟨.items, pushItems .vars (itemDecls body) []⟩ :: ⟨.params, pushParams params []⟩ ::
          ⟨.barrier .function, []⟩ :: st.vars,
        ⟨.items, pushItems .funcs (itemDecls body) []⟩ :: st.funcs⟩ := by
  have hp := (addParams_eq [⟨.barrier .function, []⟩] st.vars st.funcs (fun _ => none) params []).1
  simp only [List.cons_append, List.nil_append] at hp
  simp only [Rib.new]
  rw [hp]
  simp only [enterBlock, Rib.new]
  rw [addItems_eq]

/-- the environment in which the specification resolves the statements of a function body -/
def bodyEnv (env : Env) (params : List (Nat × Name)) (body : List Stmt) : Env :=
  (paramEnv (env.hide .function) params).withItems (itemDecls body)

theorem body_item_shadows_param (env : Env) (params : List (Nat × Name)) (body : List Stmt) (n : Name) (cid : Nat)
    (h : lastDecl (itemDecls body) .vars n = some cid) :
    (bodyEnv env params body).vars n = some (.item (.decl cid)) := by
  simp only [bodyEnv, Env.withItems, h]

theorem param_visible_unless_body_item (env : Env) (params : List (Nat × Name)) (body : List Stmt) (n : Name)
    (h : lastDecl (itemDecls body) .vars n = none) :
    (bodyEnv env params body).vars n = (paramEnv (env.hide .function) params).vars n := by
  simp only [bodyEnv, Env.withItems, h]

/-! ## Things the resolver never looks at -/

/-- once the parameters of the callee are used up, the remaining arguments are not visited -/
theorem excess_args_skipped (g : Globals) (lang : Option Lang) (look : Use → Event) (c : Option Name) :
    ∀ (es : List Expr), walkArgs g lang look c (some []) es = skipExprs es := by
  intro es
  induction es with
  | nil => simp [walkArgs, skipExprs]
  | cons e es ih => simp only [walkArgs, skipExprs, ih]

/-- without a signature (the callee name did not resolve, or its instruction has none) every
argument is visited, under the enum that was expected before -/
theorem args_without_signature (g : Globals) (lang : Option Lang) (look : Use → Event) (c : Option Name) :
    ∀ (es : List Expr), walkArgs g lang look c none es = walkExprs g lang look c es := by
  intro es
  induction es with
  | nil => simp [walkArgs, walkExprs]
  | cons e es ih => simp only [walkArgs, walkExprs, ih]

/-- a declaration without body: the name is an item of its block, the parameter names are skipped -/
theorem funcDecl_declares_only_its_name (g : Globals) (lang : Option Lang) (st : Stacks) (id : Nat) (name : Name)
    (qual : FuncQual) (params : List (Nat × Name)) (rest : List Stmt) :
    visitStmt g lang st (.funcDecl id name qual params) = (st, params.map fun p => Event.skipped p.1) ∧
      itemDecls (.funcDecl id name qual params :: rest) = (.funcs, id, name) :: itemDecls rest :=
  ⟨by simp only [visitStmt], by simp only [itemDecls]⟩

/-- `times(x = n) { b }`: the clobbered variable is an ordinary use in the scope around the loop -/
theorem times_clobber_is_a_use (g : Globals) (lang : Option Lang) (st : Stacks) (x : Use) (es : List Expr)
    (b : List Stmt) :
    visitStmts g lang st (Stmt.timesClobber x es b) =
      visitUse g lang st { x with color := none } :: visitStmts g lang st (Stmt.times es b) := by
  simp only [Stmt.timesClobber, Stmt.times, visitStmts, visitStmt, walkExprs, walkExpr, List.cons_append,
    List.nil_append, List.append_assoc]

/-! ### Non-vacuity of the extensions

```
int g(int a);                 // 0 1      declaration without body: `a` declares nothing
void f(int p, int q) {        // 2 3 4
  p;                          // 5        the const below (whole block, also before its declaration), not the parameter
  const int p = 1;            // 6
  times(q = p) { }            // 7 8      clobber `q`: the parameter; count `p`: the const
  g(p, nowhere);              // 9 10 11  `g` has one parameter: the second argument is never looked at
  h(nowhere);                 // 12 13    unknown function: the argument is still visited
  wait(RAND, INF);            // 14 15 16 ECL alias with one parameter; RAND: the sprite, not the ECL register alias
  INF;                        // 17       the builtin, not the ECL register alias
}
script { RAND; ins_900(x, x); }  // 18 19 20  in ANM: still the sprite; one parameter of enum E1
```
-/

def exampleGlobals2 : Globals :=
  { langs := ["ecl", "anm"],
    regAliases := [("anm", "RAND", 10000), ("ecl", "RAND", 100), ("ecl", "INF", 101), ("anm", "I0", 10001)],
    insAliases := [("ecl", "wait", 7)], enums := ["E1", "AnmSprite"],
    enumConsts := [("AnmSprite", "RAND"), ("E1", "x")],
    builtins := ["INF", "PI"], funcsLang := "ecl", scriptsLang := "anm",
    insSigs := [("ecl", 7, [none]), ("anm", 900, [some "E1"])] }

def exV (id : Nat) (n : Name) : Expr := .use ⟨id, .vars, n, none, none⟩

def exampleProg2 : List Stmt :=
  [ .funcDecl 0 "g" .plain [(1, "a")],
    .func 2 "f" .plain [(3, "p"), (4, "q")]
      ([ .expr [exV 5 "p"], .const [⟨6, "p", []⟩] ] ++
       Stmt.timesClobber ⟨7, .vars, "q", none, none⟩ [exV 8 "p"] [] ++
       [ .expr [.call ⟨9, .funcs, "g", none, none⟩ [exV 10 "p", exV 11 "nowhere"]],
         .expr [.call ⟨12, .funcs, "h", none, none⟩ [exV 13 "nowhere"]],
         .expr [.call ⟨14, .funcs, "wait", none, none⟩ [exV 15 "RAND", exV 16 "INF"]],
         .expr [exV 17 "INF"] ]),
    .script [ .expr [exV 18 "RAND", .raw 900 [exV 19 "x", exV 20 "x"]] ] ]

theorem example2_topLevel : TopLevel exampleProg2 := by unfold TopLevel; decide

example : resolveRibs exampleGlobals2 exampleProg2 =
    [.selfRes 0, .selfRes 2, .skipped 1, .selfRes 3, .selfRes 4, .selfRes 6, .res 5 (.decl 6),
     .res 7 (.decl 4), .res 8 (.decl 6), .res 9 (.decl 0), .res 10 (.decl 6), .skipped 11,
     .err 12 .unknown, .err 13 .unknown, .res 14 (.insAlias "ecl" 7), .res 15 (.enumConst "AnmSprite" "RAND"),
     .skipped 16, .res 17 (.builtin "INF"), .res 18 (.enumConst "AnmSprite" "RAND"),
     .res 19 (.enumConst "E1" "x"), .skipped 20] := by decide

example : resolveRibs exampleGlobals2 exampleProg2 = resolveSpec exampleGlobals2 exampleProg2 :=
  ribs_eq_spec _ _ example2_topLevel

example : ∃ tbl, applyEvents [] (resolveRibs exampleGlobals2 exampleProg2) = .ok tbl ∧
    tbl.lookup 11 = none ∧ tbl.lookup 1 = none :=
  let ⟨tbl, h, _, _, _, hs⟩ := each_ident_resolved_once _ _ example2_topLevel (by decide)
  ⟨tbl, h, hs 11 (by decide), hs 1 (by decide)⟩

/-- renaming the colliding declarations (`p` twice, `q`, `f`, `g`) to fresh names changes nothing -/
def exampleRho2 : Name → Name := fun x =>
  if x = "p" then "p_" else if x = "q" then "q_" else if x = "f" then "f_" else if x = "g" then "g_" else x

example : resolveRibs exampleGlobals2 (renameFile exampleRho2 exampleProg2) =
    resolveRibs exampleGlobals2 exampleProg2 :=
  rename_invariant _ _ _ example2_topLevel
    (by
      have h : ∀ x ∈ stmtsDeclNames exampleProg2, ∀ y ∈ stmtsDeclNames exampleProg2,
          exampleRho2 x = exampleRho2 y → x = y := by decide
      exact fun x y hx hy => h x hx y hy)
    (by
      have h : ∀ x ∈ stmtsDeclNames exampleProg2, ¬ exampleRho2 x ∈ stmtsNames exampleProg2 := by decide
      exact fun x hx => h x hx)

/-! the hypotheses of the precedence theorems are satisfiable: `RAND` is a sprite and a register alias of
both languages, `INF` a builtin and an ECL register alias, `I0` an ANM register alias only -/

example : resolve (some "ecl") "RAND" none (ribStacksFromIter exampleGlobals2.initialRibsVec).vars = .ok .enumDummy :=
  enum_const_shadows_builtin_and_alias _ _ _ (by decide)
example : resolve (some "ecl") "INF" none (ribStacksFromIter exampleGlobals2.initialRibsVec).vars =
    .ok (.builtin "INF") :=
  builtin_shadows_alias _ _ _ (by decide) (by decide)
example : resolve none "I0" none (ribStacksFromIter exampleGlobals2.initialRibsVec).vars = .error .unknown :=
  alias_invisible_in_const_context _ _ (by decide) (by decide)
example : resolve (some "ecl") "I0" none (ribStacksFromIter exampleGlobals2.initialRibsVec).vars = .error .unknown :=
  alias_only_of_own_language _ _ _ (by decide) (by decide) (by decide)
example : resolve (some "anm") "I0" none (ribStacksFromIter exampleGlobals2.initialRibsVec).vars =
    .ok (.regAlias "anm" 10001) := by rw [global_var_precedence]; rfl
/-- a local named `RAND` shadows the sprite, the builtin-free spelling and both register aliases -/
example : resolve (some "anm") "RAND" none
    ([⟨.locals, [("RAND", .decl 5)]⟩] ++ (ribStacksFromIter exampleGlobals2.initialRibsVec).vars) = .ok (.decl 5) :=
  declaration_shadows_globals exampleGlobals2 [⟨.locals, [("RAND", .decl 5)]⟩]
    (userRibs_cons _ _ (userRib_locals _) (fun _ h => by simp at h)) (some "anm") "RAND" (.loc .local (.decl 5))
    (by decide)
/-- in `void f(int p, int q) { p; const int p = 1; .. }` the name `p` means the const, `q` the parameter -/
example : (bodyEnv Env.empty [(3, "p"), (4, "q")] [.expr [exV 5 "p"], .const [⟨6, "p", []⟩]]).vars "p" =
    some (.item (.decl 6)) :=
  body_item_shadows_param _ _ _ _ _ (by decide)
example : (bodyEnv Env.empty [(3, "p"), (4, "q")] [.expr [exV 5 "p"], .const [⟨6, "p", []⟩]]).vars "q" =
    some (.loc .param (.decl 4)) := by
  rw [param_visible_unless_body_item _ _ _ _ (by decide)]; decide

/-- the global ribs of the example, bottom first, as `initial_ribs` returns them -/
example : exampleGlobals2.initialRibsVec.map (fun r => (r.1, r.2.kind)) =
    [(.funcs, .mapfile "ecl"), (.funcs, .mapfile "anm"), (.vars, .mapfile "ecl"), (.vars, .mapfile "anm"),
     (.vars, .builtinConsts), (.vars, .enumConsts)] := by decide

end TruthModel.C10
