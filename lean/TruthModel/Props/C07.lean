/-
C07 - recovering loops and conditionals while decompiling preserves behaviour.

Property theorems about `Decomp.postprocess` (the model of `passes::postprocess_decompiled` with
`blocks = true`), for ARBITRARY statement lists, i.e. all jump graphs.  Helper lemmas are in
`Lemmas/Decomp.lean`.  What is proved is the structural half of the property: reconstruction only
ever consumes untagged jumps without an explicit time, drops only labels nobody refers to any
more, and leaves every other statement (time labels, instructions, interrupt labels, tagged or
timed jumps) in place and in order.  The semantic statement is `C07_full` (checked by the
correspondence and the VM search, not proved).
-/
import TruthModel.Lemmas.Decomp
import TruthModel.Model.DecompSem
namespace TruthModel.C07
open TruthModel TruthModel.Decomp List

/-- Master lemma: no observation of the leaves that ignores (a) label definitions, (b) untagged
gotos / conditional gotos without an explicit time and (c) the destination of gotos without an
explicit time can tell the reconstructed tree from the flat input. -/
theorem postprocess_observation {β} {f : Option String × Atom → Option β} (hf : Good f) {ss out : Block}
    (h : postprocess ss = .ok out) : (atomsL out).filterMap f = (atomsL ss).filterMap f := by
  unfold postprocess at h
  split at h
  · cases h
  · split at h
    · cases h
    · cases h
    · rename_i a ha
      split at h
      · cases h
      · cases h
      · rename_i b hb
        cases h
        have h1 := (decompileLoop_spec hf.toGood0 ha).1
        have h2 := (ifElseBlock_step hf.toGood0 (rc := refcount a) _ _ _ hb).fm
        unfold removeUnusedLabels decompileBreak
        rw [unusedL_filterMap f hf.toGood0, breakL_filterMap f hf, h2, h1]

/-! ### time labels, instructions, interrupt labels -/

/-- statements that are neither label definitions nor jumps -/
def isPlain : Atom → Bool
  | .label _ => false
  | .jump _ => false
  | .condJump _ _ _ => false
  | _ => true

theorem filterMap_guard {α} (p : α → Bool) (l : List α) :
    l.filterMap (fun x => if p x then some x else none) = l.filter p := by
  induction l with
  | nil => rfl
  | cons x xs ih => by_cases hp : p x <;> simp [List.filterMap_cons, List.filter_cons, hp, ih]

theorem filterMap_guard_map {α β} (p : α → Bool) (g : α → β) (l : List α) :
    l.filterMap (fun x => if p x then some (g x) else none) = (l.filter p).map g := by
  induction l with
  | nil => rfl
  | cons x xs ih => by_cases hp : p x <;> simp [List.filterMap_cons, List.filter_cons, hp, ih]

/-- `time_labels_preserved`: the subsequence of time labels, instructions, assignments and
interrupt labels (with their difficulty tags) of the flattened result is that of the input. -/
theorem time_labels_preserved {ss out : Block} (h : postprocess ss = .ok out) :
    (atomsL out).filter (fun p => isPlain p.2) = (atomsL ss).filter (fun p => isPlain p.2) := by
  have := postprocess_observation (f := fun p => if isPlain p.2 then some p else none)
    ⟨⟨by simp [isPlain], by simp [isPlain], by simp [isPlain]⟩, by simp [isPlain], by simp [isPlain]⟩ h
  simpa [filterMap_guard] using this

example : postprocess [.atom none (.label 1), .atom none (.relTime 5), .atom (some "E") (.ins 5 []),
      .atom none (.jump (.goto 1 none)), .atom none (.absTime 9)]
    = .ok [.node (.loop 3) [.atom none (.relTime 5), .atom (some "E") (.ins 5 [])], .atom none (.absTime 9)] := by rfl

/-! ### jumps with an explicit time argument -/

def isTimedJump : Atom → Bool
  | .jump (.goto _ (some _)) => true
  | .condJump _ _ (.goto _ (some _)) => true
  | _ => false

/-- `timed_jumps_untouched`: every jump with an explicit time argument is still a statement of the
result, unchanged, in the same order (so none was consumed into a loop, a chain or a `break`). -/
theorem timed_jumps_untouched {ss out : Block} (h : postprocess ss = .ok out) :
    (atomsL out).filter (fun p => isTimedJump p.2) = (atomsL ss).filter (fun p => isTimedJump p.2) := by
  have := postprocess_observation (f := fun p => if isTimedJump p.2 then some p else none)
    ⟨⟨by simp [isTimedJump], by simp [isTimedJump], by simp [isTimedJump]⟩, by simp [isTimedJump], by simp [isTimedJump]⟩ h
  simpa [filterMap_guard] using this

example : postprocess [.atom none (.label 1), .atom none (.ins 5 []), .atom none (.jump (.goto 1 (some 30)))]
    = .ok [.atom none (.label 1), .atom none (.ins 5 []), .atom none (.jump (.goto 1 (some 30)))] := by rfl

/-! ### difficulty-tagged jumps -/

def isJump : Atom → Bool
  | .jump _ => true
  | .condJump _ _ _ => true
  | _ => false

/-- a jump statement that carries a difficulty tag -/
def taggedJump (p : Option String × Atom) : Bool := p.1.isSome && isJump p.2

theorem taggedJump_none (a : Atom) : taggedJump (none, a) = false := rfl
theorem taggedJump_label (d : Option String) (l : Nat) : taggedJump (d, .label l) = false := by
  simp [taggedJump, isJump]

/-- `difficulty_tagged_jumps_untouched`, loops and chains: after `decompile_loop` and
`decompile_if_else` every difficulty-tagged jump is still there, unchanged and in order. -/
theorem difficulty_tagged_jumps_untouched {ss a b : Block} (ha : decompileLoop ss = .ok a)
    (hb : decompileIfElse a = .ok b) :
    (atomsL b).filter taggedJump = (atomsL ss).filter taggedJump := by
  have hf : Good0 (fun p : Option String × Atom => if taggedJump p then some p else none) :=
    ⟨by simp [taggedJump_label], by simp [taggedJump_none], by simp [taggedJump_none]⟩
  have h1 := (decompileLoop_spec hf ha).1
  have h2 := (ifElseBlock_step hf (rc := refcount a) _ _ _ hb).fm
  rw [filterMap_guard, filterMap_guard] at h1 h2
  exact h2.trans h1

/-- what `decompile_break` may do to a jump: forget the destination of a goto without explicit time -/
def forgetDest (p : Option String × Atom) : Option String × Atom :=
  match p with
  | (d, .jump (.goto _ none)) => (d, .jump .brk)
  | (d, .condJump kw c (.goto _ none)) => (d, .condJump kw c .brk)
  | p => p

/-- `difficulty_tagged_jumps_untouched`, whole pipeline: every difficulty-tagged jump is still
there under the same tag, in order, either unchanged or (if it had no explicit time) as `break`. -/
theorem difficulty_tagged_jumps_kept {ss out : Block} (h : postprocess ss = .ok out) :
    ((atomsL out).filter taggedJump).map forgetDest = ((atomsL ss).filter taggedJump).map forgetDest := by
  have := postprocess_observation (f := fun p => if taggedJump p then some (forgetDest p) else none)
    ⟨⟨by simp [taggedJump_label], by simp [taggedJump_none], by simp [taggedJump_none]⟩,
     by intro d l; simp [taggedJump, isJump, forgetDest], by intro d kw c l; simp [taggedJump, isJump, forgetDest]⟩ h
  rw [filterMap_guard_map, filterMap_guard_map] at this
  exact this

example : postprocess [.atom none (.label 1), .atom none (.ins 5 []), .atom (some "E") (.jump (.goto 1 none))]
    = .ok [.atom none (.label 1), .atom none (.ins 5 []), .atom (some "E") (.jump (.goto 1 none))] := by rfl

/-! ### labels -/

/-- the stages of `postprocess`, for the label theorems -/
theorem postprocess_stages {ss out : Block} (h : postprocess ss = .ok out) :
    ∃ a b, decompileLoop ss = .ok a ∧ decompileIfElse a = .ok b ∧
      out = removeUnusedLabels (decompileBreak b) := by
  unfold postprocess at h
  split at h
  · cases h
  · split at h
    · cases h
    · cases h
    · rename_i a ha
      split at h
      · cases h
      · cases h
      · rename_i b hb
        cases h
        exact ⟨a, b, ha, hb, rfl⟩

theorem trivial_good0 : Good0 (fun _ : Option String × Atom => (none : Option Unit)) := ⟨by simp, by simp, by simp⟩

theorem count_unused_le (rc : Nat → Nat) (l : Nat) (ss : Block) :
    (labelsL (unusedL rc ss)).count l ≤ (labelsL ss).count l := (unusedL_labels_sub rc ss).count_le l

/-- reconstruction never duplicates a label definition -/
theorem labels_not_duplicated {ss out : Block} (h : postprocess ss = .ok out) (l : Nat) :
    (labelsL out).count l ≤ (labelsL ss).count l := by
  obtain ⟨a, b, ha, hb, rfl⟩ := postprocess_stages h
  have h1 := (decompileLoop_spec trivial_good0 ha).2.1
  have h2 := (ifElseBlock_step trivial_good0 (rc := refcount a) _ _ _ hb).labels l
  unfold removeUnusedLabels decompileBreak
  refine Nat.le_trans (count_unused_le _ l _) ?_
  rw [breakL_labels, ← h1]
  exact h2

/-- `labels_with_referrers_survive`: a label that is still mentioned in the result (destination of
a remaining goto or conditional goto, `offsetof` / `timeof`) is defined in the result exactly as
often as in the input - exactly once when the input defines every label once. -/
theorem labels_with_referrers_survive {ss out : Block} (h : postprocess ss = .ok out) (l : Nat)
    (hl : l ∈ refsL out) : (labelsL out).count l = (labelsL ss).count l := by
  obtain ⟨a, b, ha, hb, rfl⟩ := postprocess_stages h
  obtain ⟨_, h1, h1r⟩ := decompileLoop_spec trivial_good0 ha
  have h2 := ifElseBlock_step trivial_good0 (rc := refcount a) _ _ _ hb
  unfold removeUnusedLabels decompileBreak at hl ⊢
  rw [unusedL_refs] at hl
  -- `l` is mentioned after `decompile_break`, so `unused_labels` keeps its definitions
  have hpos : refcount (breakL (endLabels b) none b) l > 0 := List.count_pos_iff.mpr hl
  rw [unusedL_labels _ l hpos, breakL_labels, ← h1]
  -- ... and `decompile_if_else` cannot have dropped one: it only drops labels whose single mention it consumes
  have hle := h2.labels l
  by_cases hlt : (labelsL b).count l < (labelsL a).count l
  · obtain ⟨hrc, hdec⟩ := h2.dropped l hlt
    have : (refsL (breakL (endLabels b) none b)).count l ≤ (refsL b).count l := (breakL_refs _ _ b).count_le l
    unfold refcount at hrc hpos
    omega
  · omega

-- label 1 keeps a second referrer (a jump with an explicit time, never consumed) and survives inside the chain
example : postprocess [.atom none (.condJump .if_ (.bin .eq (.reg 1) (.lit 0)) (.goto 1 none)), .atom none (.ins 5 []),
      .atom none (.label 1), .atom none (.jump (.goto 1 (some 7)))]
    = .ok [.node .chain [.node (.arm .if_ (.bin .ne (.reg 1) (.lit 0))) [.atom none (.ins 5 []), .atom none (.label 1)]],
           .atom none (.jump (.goto 1 (some 7)))] := by rfl

/-! ### interrupt labels -/

/-- `interrupts_not_captured`: for a flat input (what the raiser produces) no block that
reconstruction creates - loop, do-while, cond chain, at any depth - contains an interrupt label;
all interrupt labels of the result are statements of the outermost block (and by
`time_labels_preserved` they are all still there, in order). -/
theorem interrupts_not_captured {ss out : Block} (hflat : Flat ss) (h : postprocess ss = .ok out) :
    ∀ k b, Stmt.node k b ∈ out → ∀ p ∈ atomsL b, isIntLeaf p = false := by
  obtain ⟨a, b, ha, hb, rfl⟩ := postprocess_stages h
  have h1 : TopOnly a := decompileLoop_topOnly hflat ha
  have h2 : TopOnly b := ifElseBlock_topOnly h1 hb
  exact unusedL_topOnly (breakL_topOnly h2)

-- an interrupt label between a label and a backward jump to it: no loop
example : postprocess [.atom none (.label 1), .atom none (.interrupt 2), .atom none (.ins 5 []), .atom none (.jump (.goto 1 none))]
    = .ok [.atom none (.label 1), .atom none (.interrupt 2), .atom none (.ins 5 []), .atom none (.jump (.goto 1 none))] := by rfl

/-! ### one reconstruction step is the inverse of lowering (loops) -/

/-- what a `loop` / `do .. while` node that stands right behind the label `l` is lowered to by the
compiler, re-using `l` as the loop label: the body followed by the jump back -/
def unloop (l : Nat) : Kind → List Stmt → List Stmt
  | .loop _, body => body ++ [.atom none (.jump (.goto l none))]
  | .doWhile _ c, body => body ++ [.atom none (.condJump .if_ c (.goto l none))]
  | _, body => body

/-- `desugar_postprocess_partial`, single loop: whenever the scan of `decompile_loop` over a flat
block folds statements into a loop - at any point `n` of the scan, whatever was reconstructed
before - the new node stands right behind the label `l` its back-jump went to, and lowering it
again (`unloop`: body, then `goto l` resp. `if (c) goto l`) gives back, statement for statement,
what the scan had in hand: `out_before ++ [stmt n] = pre ++ [l:] ++ unloop l node`.  Together with
the soundness of lowering (C06) this is semantic equivalence for one loop step; the analogous
statement for cond chains and `break` is only checked (`C07_full`). -/
theorem desugar_postprocess_partial {ss : Block} (hflat : Flat ss) {n : Nat} (hn : n < ss.length)
    {st st' : ScanState}
    (hst : loopScan ss (interruptIndices ss) (ss.take n) 0 ⟨[], []⟩ = .ok st)
    (hstep : loopStep ss (interruptIndices ss) st n ss[n] = .ok st') :
    st'.out = st.out ++ [ss[n]] ∨
    ∃ pre dl l k body, st'.out = pre ++ [.atom dl (.label l), .node k body] ∧
      st.out ++ [ss[n]] = pre ++ .atom dl (.label l) :: unloop l k body := by
  have hinv := loopScan_prefix_inv hflat n st (by omega) hst
  obtain ⟨d, a, hda⟩ := hflat ss[n] (List.getElem_mem hn)
  have hs : ss[n]? = some (.atom d a) := by rw [List.getElem?_eq_getElem hn, hda]
  rw [hda] at hstep ⊢
  rcases loopStep_shape hinv hs hstep with h | ⟨pre, dl, l, body, h1, h2⟩
  · left; exact h
  · right
    rcases h2 with ⟨rfl, rfl, h3⟩ | ⟨c, rfl, rfl, h3⟩
    · exact ⟨pre, dl, l, .loop n, body, h3, by rw [h1]; simp [unloop]⟩
    · exact ⟨pre, dl, l, .doWhile n c, body, h3, by rw [h1]; simp [unloop]⟩

example : decompileLoop [.atom none (.label 1), .atom none (.ins 5 []), .atom none (.condJump .if_ (.val (.dec 3)) (.goto 1 none))]
    = .ok [.atom none (.label 1), .node (.doWhile 2 (.val (.dec 3))) [.atom none (.ins 5 [])]] := by rfl

/-! ### the full property (not proved) -/

/-- what a run leaves behind: instruction log (opcode, arguments, real time), time, real time, registers -/
def SameResult (a b : VmState) : Prop :=
  a.log = b.log ∧ a.time = b.time ∧ a.realTime = b.realTime ∧ ∀ r, a.regs r = b.regs r

/-- every label is defined at most once and every jump goes to a defined label (what the raiser produces) -/
def WellLabelled (ss : Block) : Prop :=
  (∀ l, (labelsL ss).count l ≤ 1) ∧ ∀ l ∈ refsL ss, l ∈ labelsL ss

/-- `C07_full`: for every flat statement list the raiser can produce, the reconstructed tree -
lowered back to labels and jumps the way the compiler does - runs exactly like the flat list, from
every initial state, on every difficulty: same instruction log, time, real time and registers,
and it terminates exactly when the flat list does.

NOT PROVED.  The machine (`Decomp.run`) and the lowering (`Decomp.lower`) are compared with
`AstVm` and `desugar_blocks` on every `sem` case of the correspondence check, the statement itself
is evaluated on the model for every such case (driver output `same`), and searched on the
implementation (`vm`, `e2e` cases).  Proved instead: the structural theorems above, which are the
preconditions whose absence the property text names (labels with referrers, jumps with explicit
times, time labels). -/
def C07_full : Prop :=
  ∀ (ss out : Block), (∀ s ∈ ss, ∃ d a, s = Stmt.atom d a) → WellLabelled ss → postprocess ss = .ok out →
  ∀ (env : VmEnv) (st : VmState),
    (∀ fuel r, run env (atomsL ss) fuel st = some r →
      ∃ fuel' r', run env (lower (maxLabel ss + 1) out) fuel' st = some r' ∧ SameResult r r') ∧
    (∀ fuel' r', run env (lower (maxLabel ss + 1) out) fuel' st = some r' →
      ∃ fuel r, run env (atomsL ss) fuel st = some r ∧ SameResult r r')

end TruthModel.C07
