/-
C07 - recovering loops and conditionals while decompiling preserves behaviour.

Property theorems about `Decomp.postprocess` (the model of `passes::postprocess_decompiled` with
`blocks = true`), for ARBITRARY statement lists, i.e. all jump graphs.  Helper lemmas are in
`Lemmas/Decomp*.lean`.  Structural half: reconstruction only ever consumes untagged jumps without an
explicit time, drops only labels nobody refers to any more, and leaves every other statement (time
labels, instructions, interrupt labels, tagged or timed jumps) in place and in order.  Semantic half
(`C07_sound_partial`): the reconstructed tree, lowered back to labels and jumps, runs exactly like
the flat input.  The statement `C07_full` as first written is refuted by two artefact inputs
(`C07_full_false`); the two hypotheses `C07_sound_partial` adds are exactly those.
-/
import TruthModel.Lemmas.Decomp
import TruthModel.Lemmas.DecompSem
import TruthModel.Model.DecompSem
namespace TruthModel.C07
open TruthModel TruthModel.Decomp List

/-- Master lemma: no observation of the leaves that ignores (a) label definitions, (b) untagged
gotos / conditional gotos without an explicit time and (c) the destination of gotos without an
explicit time can tell the reconstructed tree from the flat input. -/
theorem postprocess_observation {β} {f : Option String × Atom → Option β} (hf : Good f) {ss out : Block}
    (h : postprocess ss = .ok out) : (atomsL out).filterMap f = (atomsL ss).filterMap f := by
  unfold postprocess at h
  split at h
  · cases h
  · split at h
    · cases h
    · cases h
    · rename_i a ha
      split at h
      · cases h
      · cases h
      · rename_i b hb
        cases h
        have h1 := (decompileLoop_spec hf.toGood0 ha).1
        have h2 := (ifElseBlock_step hf.toGood0 (rc := refcount a) _ _ _ hb).fm
        unfold removeUnusedLabels decompileBreak
        rw [unusedL_filterMap f hf.toGood0, breakL_filterMap f hf, h2, h1]

/-! ### time labels, instructions, interrupt labels -/

/-- statements that are neither label definitions nor jumps -/
def isPlain : Atom → Bool
  | .label _ => false
  | .jump _ => false
  | .condJump _ _ _ => false
  | _ => true

theorem filterMap_guard {α} (p : α → Bool) (l : List α) :
    l.filterMap (fun x => if p x then some x else none) = l.filter p := by
  induction l with
  | nil => rfl
  | cons x xs ih => by_cases hp : p x <;> simp [List.filterMap_cons, List.filter_cons, hp, ih]

theorem filterMap_guard_map {α β} (p : α → Bool) (g : α → β) (l : List α) :
    l.filterMap (fun x => if p x then some (g x) else none) = (l.filter p).map g := by
  induction l with
  | nil => rfl
  | cons x xs ih => by_cases hp : p x <;> simp [List.filterMap_cons, List.filter_cons, hp, ih]

/-- `time_labels_preserved`: the subsequence of time labels, instructions, assignments and
interrupt labels (with their difficulty tags) of the flattened result is that of the input. -/
theorem time_labels_preserved {ss out : Block} (h : postprocess ss = .ok out) :
    (atomsL out).filter (fun p => isPlain p.2) = (atomsL ss).filter (fun p => isPlain p.2) := by
  have := postprocess_observation (f := fun p => if isPlain p.2 then some p else none)
    ⟨⟨by simp [isPlain], by simp [isPlain], by simp [isPlain]⟩, by simp [isPlain], by simp [isPlain]⟩ h
  simpa [filterMap_guard] using this

example : postprocess [.atom none (.label 1), .atom none (.relTime 5), .atom (some "E") (.ins 5 []),
      .atom none (.jump (.goto 1 none)), .atom none (.absTime 9)]
    = .ok [.node (.loop 3) [.atom none (.relTime 5), .atom (some "E") (.ins 5 [])], .atom none (.absTime 9)] := by rfl

/-! ### jumps with an explicit time argument -/

def isTimedJump : Atom → Bool
  | .jump (.goto _ (some _)) => true
  | .condJump _ _ (.goto _ (some _)) => true
  | _ => false

/-- `timed_jumps_untouched`: every jump with an explicit time argument is still a statement of the
result, unchanged, in the same order (so none was consumed into a loop, a chain or a `break`). -/
theorem timed_jumps_untouched {ss out : Block} (h : postprocess ss = .ok out) :
    (atomsL out).filter (fun p => isTimedJump p.2) = (atomsL ss).filter (fun p => isTimedJump p.2) := by
  have := postprocess_observation (f := fun p => if isTimedJump p.2 then some p else none)
    ⟨⟨by simp [isTimedJump], by simp [isTimedJump], by simp [isTimedJump]⟩, by simp [isTimedJump], by simp [isTimedJump]⟩ h
  simpa [filterMap_guard] using this

example : postprocess [.atom none (.label 1), .atom none (.ins 5 []), .atom none (.jump (.goto 1 (some 30)))]
    = .ok [.atom none (.label 1), .atom none (.ins 5 []), .atom none (.jump (.goto 1 (some 30)))] := by rfl

/-! ### difficulty-tagged jumps -/

def isJump : Atom → Bool
  | .jump _ => true
  | .condJump _ _ _ => true
  | _ => false

/-- a jump statement that carries a difficulty tag -/
def taggedJump (p : Option String × Atom) : Bool := p.1.isSome && isJump p.2

theorem taggedJump_none (a : Atom) : taggedJump (none, a) = false := rfl
theorem taggedJump_label (d : Option String) (l : Nat) : taggedJump (d, .label l) = false := by
  simp [taggedJump, isJump]

/-- `difficulty_tagged_jumps_untouched`, loops and chains: after `decompile_loop` and
`decompile_if_else` every difficulty-tagged jump is still there, unchanged and in order. -/
theorem difficulty_tagged_jumps_untouched {ss a b : Block} (ha : decompileLoop ss = .ok a)
    (hb : decompileIfElse a = .ok b) :
    (atomsL b).filter taggedJump = (atomsL ss).filter taggedJump := by
  have hf : Good0 (fun p : Option String × Atom => if taggedJump p then some p else none) :=
    ⟨by simp [taggedJump_label], by simp [taggedJump_none], by simp [taggedJump_none]⟩
  have h1 := (decompileLoop_spec hf ha).1
  have h2 := (ifElseBlock_step hf (rc := refcount a) _ _ _ hb).fm
  rw [filterMap_guard, filterMap_guard] at h1 h2
  exact h2.trans h1

/-- what `decompile_break` may do to a jump: forget the destination of a goto without explicit time -/
def forgetDest (p : Option String × Atom) : Option String × Atom :=
  match p with
  | (d, .jump (.goto _ none)) => (d, .jump .brk)
  | (d, .condJump kw c (.goto _ none)) => (d, .condJump kw c .brk)
  | p => p

/-- `difficulty_tagged_jumps_untouched`, whole pipeline: every difficulty-tagged jump is still
there under the same tag, in order, either unchanged or (if it had no explicit time) as `break`. -/
theorem difficulty_tagged_jumps_kept {ss out : Block} (h : postprocess ss = .ok out) :
    ((atomsL out).filter taggedJump).map forgetDest = ((atomsL ss).filter taggedJump).map forgetDest := by
  have := postprocess_observation (f := fun p => if taggedJump p then some (forgetDest p) else none)
    ⟨⟨by simp [taggedJump_label], by simp [taggedJump_none], by simp [taggedJump_none]⟩,
     by intro d l; simp [taggedJump, isJump, forgetDest], by intro d kw c l; simp [taggedJump, isJump, forgetDest]⟩ h
  rw [filterMap_guard_map, filterMap_guard_map] at this
  exact this

example : postprocess [.atom none (.label 1), .atom none (.ins 5 []), .atom (some "E") (.jump (.goto 1 none))]
    = .ok [.atom none (.label 1), .atom none (.ins 5 []), .atom (some "E") (.jump (.goto 1 none))] := by rfl

/-! ### labels -/

/-- the stages of `postprocess`, for the label theorems -/
theorem postprocess_stages {ss out : Block} (h : postprocess ss = .ok out) :
    ∃ a b, decompileLoop ss = .ok a ∧ decompileIfElse a = .ok b ∧
      out = removeUnusedLabels (decompileBreak b) := by
  unfold postprocess at h
  split at h
  · cases h
  · split at h
    · cases h
    · cases h
    · rename_i a ha
      split at h
      · cases h
      · cases h
      · rename_i b hb
        cases h
        exact ⟨a, b, ha, hb, rfl⟩

theorem trivial_good0 : Good0 (fun _ : Option String × Atom => (none : Option Unit)) := ⟨by simp, by simp, by simp⟩

theorem count_unused_le (rc : Nat → Nat) (l : Nat) (ss : Block) :
    (labelsL (unusedL rc ss)).count l ≤ (labelsL ss).count l := (unusedL_labels_sub rc ss).count_le l

/-- reconstruction never duplicates a label definition -/
theorem labels_not_duplicated {ss out : Block} (h : postprocess ss = .ok out) (l : Nat) :
    (labelsL out).count l ≤ (labelsL ss).count l := by
  obtain ⟨a, b, ha, hb, rfl⟩ := postprocess_stages h
  have h1 := (decompileLoop_spec trivial_good0 ha).2.1
  have h2 := (ifElseBlock_step trivial_good0 (rc := refcount a) _ _ _ hb).labels l
  unfold removeUnusedLabels decompileBreak
  refine Nat.le_trans (count_unused_le _ l _) ?_
  rw [breakL_labels, ← h1]
  exact h2

/-- `labels_with_referrers_survive`: a label that is still mentioned in the result (destination of
a remaining goto or conditional goto, `offsetof` / `timeof`) is defined in the result exactly as
often as in the input - exactly once when the input defines every label once. -/
theorem labels_with_referrers_survive {ss out : Block} (h : postprocess ss = .ok out) (l : Nat)
    (hl : l ∈ refsL out) : (labelsL out).count l = (labelsL ss).count l := by
  obtain ⟨a, b, ha, hb, rfl⟩ := postprocess_stages h
  obtain ⟨_, h1, h1r⟩ := decompileLoop_spec trivial_good0 ha
  have h2 := ifElseBlock_step trivial_good0 (rc := refcount a) _ _ _ hb
  unfold removeUnusedLabels decompileBreak at hl ⊢
  rw [unusedL_refs] at hl
  -- `l` is mentioned after `decompile_break`, so `unused_labels` keeps its definitions
  have hpos : refcount (breakL (endLabels b) none b) l > 0 := List.count_pos_iff.mpr hl
  rw [unusedL_labels _ l hpos, breakL_labels, ← h1]
  -- ... and `decompile_if_else` cannot have dropped one: it only drops labels whose single mention it consumes
  have hle := h2.labels l
  by_cases hlt : (labelsL b).count l < (labelsL a).count l
  · obtain ⟨hrc, hdec⟩ := h2.dropped l hlt
    have : (refsL (breakL (endLabels b) none b)).count l ≤ (refsL b).count l := (breakL_refs _ _ b).count_le l
    unfold refcount at hrc hpos
    omega
  · omega

-- label 1 keeps a second referrer (a jump with an explicit time, never consumed) and survives inside the chain
example : postprocess [.atom none (.condJump .if_ (.bin .eq (.reg 1) (.lit 0)) (.goto 1 none)), .atom none (.ins 5 []),
      .atom none (.label 1), .atom none (.jump (.goto 1 (some 7)))]
    = .ok [.node .chain [.node (.arm .if_ (.bin .ne (.reg 1) (.lit 0))) [.atom none (.ins 5 []), .atom none (.label 1)]],
           .atom none (.jump (.goto 1 (some 7)))] := by rfl

/-! ### interrupt labels -/

/-- `interrupts_not_captured`: for a flat input (what the raiser produces) no block that
reconstruction creates - loop, do-while, cond chain, at any depth - contains an interrupt label;
all interrupt labels of the result are statements of the outermost block (and by
`time_labels_preserved` they are all still there, in order). -/
theorem interrupts_not_captured {ss out : Block} (hflat : Flat ss) (h : postprocess ss = .ok out) :
    ∀ k b, Stmt.node k b ∈ out → ∀ p ∈ atomsL b, isIntLeaf p = false := by
  obtain ⟨a, b, ha, hb, rfl⟩ := postprocess_stages h
  have h1 : TopOnly a := decompileLoop_topOnly hflat ha
  have h2 : TopOnly b := ifElseBlock_topOnly h1 hb
  exact unusedL_topOnly (breakL_topOnly h2)

-- an interrupt label between a label and a backward jump to it: no loop
example : postprocess [.atom none (.label 1), .atom none (.interrupt 2), .atom none (.ins 5 []), .atom none (.jump (.goto 1 none))]
    = .ok [.atom none (.label 1), .atom none (.interrupt 2), .atom none (.ins 5 []), .atom none (.jump (.goto 1 none))] := by rfl

/-! ### one reconstruction step is the inverse of lowering (loops) -/

/-- what a `loop` / `do .. while` node that stands right behind the label `l` is lowered to by the
compiler, re-using `l` as the loop label: the body followed by the jump back -/
def unloop (l : Nat) : Kind → List Stmt → List Stmt
  | .loop _, body => body ++ [.atom none (.jump (.goto l none))]
  | .doWhile _ c, body => body ++ [.atom none (.condJump .if_ c (.goto l none))]
  | _, body => body

/-- `desugar_postprocess_partial`, single loop: whenever the scan of `decompile_loop` over a flat
block folds statements into a loop - at any point `n` of the scan, whatever was reconstructed
before - the new node stands right behind the label `l` its back-jump went to, and lowering it
again (`unloop`: body, then `goto l` resp. `if (c) goto l`) gives back, statement for statement,
what the scan had in hand: `out_before ++ [stmt n] = pre ++ [l:] ++ unloop l node`.  Together with
the soundness of lowering (C06) this is semantic equivalence for one loop step; the analogous
statement for cond chains and `break` is only checked (`C07_full`). -/
theorem desugar_postprocess_partial {ss : Block} (hflat : Flat ss) {n : Nat} (hn : n < ss.length)
    {st st' : ScanState}
    (hst : loopScan ss (interruptIndices ss) (ss.take n) 0 ⟨[], []⟩ = .ok st)
    (hstep : loopStep ss (interruptIndices ss) st n ss[n] = .ok st') :
    st'.out = st.out ++ [ss[n]] ∨
    ∃ pre dl l k body, st'.out = pre ++ [.atom dl (.label l), .node k body] ∧
      st.out ++ [ss[n]] = pre ++ .atom dl (.label l) :: unloop l k body := by
  have hinv := loopScan_prefix_inv hflat n st (by omega) hst
  obtain ⟨d, a, hda⟩ := hflat ss[n] (List.getElem_mem hn)
  have hs : ss[n]? = some (.atom d a) := by rw [List.getElem?_eq_getElem hn, hda]
  rw [hda] at hstep ⊢
  rcases loopStep_shape hinv hs hstep with h | ⟨pre, dl, l, body, h1, h2⟩
  · left; exact h
  · right
    rcases h2 with ⟨rfl, rfl, h3⟩ | ⟨c, rfl, rfl, h3⟩
    · exact ⟨pre, dl, l, .loop n, body, h3, by rw [h1]; simp [unloop]⟩
    · exact ⟨pre, dl, l, .doWhile n c, body, h3, by rw [h1]; simp [unloop]⟩

example : decompileLoop [.atom none (.label 1), .atom none (.ins 5 []), .atom none (.condJump .if_ (.val (.dec 3)) (.goto 1 none))]
    = .ok [.atom none (.label 1), .node (.doWhile 2 (.val (.dec 3))) [.atom none (.ins 5 [])]] := by rfl

/-! ### the full property -/

/-- what a run leaves behind: instruction log (opcode, arguments, real time), time, real time, registers -/
def SameResult (a b : VmState) : Prop :=
  a.log = b.log ∧ a.time = b.time ∧ a.realTime = b.realTime ∧ ∀ r, a.regs r = b.regs r

/-- every label is defined at most once and every jump goes to a defined label (what the raiser produces) -/
def WellLabelled (ss : Block) : Prop :=
  (∀ l, (labelsL ss).count l ≤ 1) ∧ ∀ l ∈ refsL ss, l ∈ labelsL ss

/-- `C07_full`, as written before the proof was attempted: for every flat statement list, the
reconstructed tree - lowered back to labels and jumps the way the compiler does - runs exactly like
the flat list, from every initial state, on every difficulty: same instruction log, time, real time
and registers, and it terminates exactly when the flat list does.

FALSE as it stands (`C07_full_false`), for two reasons that are artefacts of the model's input space
and not behaviours of the implementation: a flat list may contain a difficulty-tagged `break` (the
raiser never emits `break`; `postprocess` rejects only untagged ones), and the initial state may have
a negative time (the VM starts at time 0).  With these two excluded it is a theorem:
`C07_sound_partial`. -/
def C07_full : Prop :=
  ∀ (ss out : Block), (∀ s ∈ ss, ∃ d a, s = Stmt.atom d a) → WellLabelled ss → postprocess ss = .ok out →
  ∀ (env : VmEnv) (st : VmState),
    (∀ fuel r, run env (atomsL ss) fuel st = some r →
      ∃ fuel' r', run env (lower (maxLabel ss + 1) out) fuel' st = some r' ∧ SameResult r r') ∧
    (∀ fuel' r', run env (lower (maxLabel ss + 1) out) fuel' st = some r' →
      ∃ fuel r, run env (atomsL ss) fuel st = some r ∧ SameResult r r')

/-- the flat list contains no `break` (the raiser never produces one) -/
def NoBreak (ss : Block) : Prop := ∀ p ∈ atomsL ss, isBrkLeaf p = false

theorem sameResult_refl (r : VmState) : SameResult r r := ⟨rfl, rfl, rfl, fun _ => rfl⟩

theorem nodup_of_count_le_one {l : List Nat} (h : ∀ x, l.count x ≤ 1) : l.Nodup :=
  List.nodup_iff_count.mpr h

/-- `postprocess_resolved`: the lowering of the reconstructed tree and the flat input have the same
resolved code: the same non-label statements in the same order (`unless (a op b)` read as
`if (a negop b)`), every jump going to the same code index. -/
theorem postprocess_resolved {ss out : Block} (hflat : ∀ s ∈ ss, ∃ d a, s = Stmt.atom d a) (hwl : WellLabelled ss)
    (hnb : NoBreak ss) (h : postprocess ss = .ok out) :
    resolve (lower (maxLabel ss + 1) out) = resolve (atomsL ss) := by
  obtain ⟨a, b, ha, hb, hout⟩ := postprocess_stages h
  have hnd : (labelsL ss).Nodup := nodup_of_count_le_one hwl.1
  obtain ⟨hden, hinv⟩ := passes_den hflat hnd hnb ha hb
  rw [← hout] at hden hinv
  rw [← hden]
  -- the labels of the result: pairwise distinct, below the first fresh label, every mentioned one defined
  have hsub : ∀ l ∈ labelsL out, l ∈ labelsL ss := by
    intro l hl
    have h1 := labels_not_duplicated h l
    have : 0 < (labelsL out).count l := List.count_pos_iff.mpr hl
    exact List.count_pos_iff.mp (by omega)
  have hnd' : (labelsL out).Nodup :=
    nodup_of_count_le_one (fun l => Nat.le_trans (labels_not_duplicated h l) (hwl.1 l))
  have hlt : ∀ l ∈ labelsL out, l < maxLabel ss + 1 := by
    intro l hl
    have : l ≤ maxLabel ss := le_foldl_max _ 0 l (.inl (List.mem_append.mpr (.inl (hsub l hl))))
    omega
  have hrefs : ∀ l ∈ refsL out, l ∈ refsL ss := by
    intro l hl
    have h1 := (decompileLoop_spec trivial_good0 ha).2.2 l
    have h2 := (ifElseBlock_step trivial_good0 (rc := refcount a) _ _ _ hb).refs l
    have h3 : (refsL out).count l ≤ (refsL b).count l := by
      rw [hout]; unfold removeUnusedLabels decompileBreak
      rw [unusedL_refs]; exact (breakL_refs _ _ b).count_le l
    have : 0 < (refsL out).count l := List.count_pos_iff.mpr hl
    exact List.count_pos_iff.mp (by omega)
  have hdef : ∀ l ∈ refsL out, l ∈ labelsL out := by
    intro l hl
    have h1 := labels_with_referrers_survive h l hl
    have h2 : 0 < (labelsL ss).count l := List.count_pos_iff.mpr (hwl.2 l (hrefs l hl))
    exact List.count_pos_iff.mp (by omega)
  exact resolve_lower hnd' hlt hinv hdef

/-- `C07_sound_partial`: for every flat statement list without `break` in which every label is
defined at most once and every mentioned label is defined, and every initial state whose time is not
negative (every register valuation, every difficulty, every `offsetof` / `timeof` interpretation):
the reconstructed tree, lowered back to labels and jumps, runs exactly like the flat list - it
terminates iff the flat list does, and then with the same instruction log (opcodes, arguments, real
times), time, real time and registers (in fact the same final state).  "Partial" only in the two
extra hypotheses `NoBreak ss` and `0 ≤ st.time`; both are necessary (`nobreak_necessary`,
`nonneg_time_necessary`). -/
theorem C07_sound_partial (ss out : Block) (hflat : ∀ s ∈ ss, ∃ d a, s = Stmt.atom d a) (hwl : WellLabelled ss)
    (hnb : NoBreak ss) (h : postprocess ss = .ok out) (env : VmEnv) (st : VmState) (h0 : 0 ≤ st.time) :
    (∀ fuel r, run env (atomsL ss) fuel st = some r →
      ∃ fuel' r', run env (lower (maxLabel ss + 1) out) fuel' st = some r' ∧ SameResult r r') ∧
    (∀ fuel' r', run env (lower (maxLabel ss + 1) out) fuel' st = some r' →
      ∃ fuel r, run env (atomsL ss) fuel st = some r ∧ SameResult r r') := by
  have hres := postprocess_resolved hflat hwl hnb h
  constructor
  · intro fuel r hr
    obtain ⟨fuel', hr'⟩ := (run_congr env hres h0 r).mpr ⟨fuel, hr⟩
    exact ⟨fuel', r, hr', sameResult_refl r⟩
  · intro fuel' r' hr'
    obtain ⟨fuel, hr⟩ := (run_congr env hres h0 r').mp ⟨fuel', hr'⟩
    exact ⟨fuel, r', hr, sameResult_refl r'⟩

/-- decidable forms of the hypotheses, for examples -/
def isAtomStmt : Stmt → Bool
  | .atom _ _ => true
  | .node _ _ => false

theorem flat_of_all {ss : Block} (h : ss.all isAtomStmt = true) : ∀ s ∈ ss, ∃ d a, s = Stmt.atom d a := by
  intro s hs
  have := List.all_eq_true.mp h s hs
  cases s with
  | atom d a => exact ⟨d, a, rfl⟩
  | node k b => cases this

theorem wellLabelled_of {ss : Block} (h1 : (labelsL ss).Nodup) (h2 : ∀ l ∈ refsL ss, l ∈ labelsL ss) : WellLabelled ss :=
  ⟨List.nodup_iff_count.mp h1, h2⟩

/-- a loop with a cond block inside it and a jump out of the loop -/
def exampleFlat : Block :=
  [.atom none (.label 1), .atom none (.condJump .if_ (.bin .eq (.reg 1) (.lit 0)) (.goto 2 none)),
    .atom none (.ins 5 []), .atom none (.jump (.goto 3 none)), .atom none (.label 2),
    .atom none (.jump (.goto 1 none)), .atom none (.label 3), .atom none (.ins 7 [])]

-- the hypotheses are satisfiable by a program whose reconstruction has a loop, a cond chain and a `break`
example : (∀ s ∈ exampleFlat, ∃ d a, s = Stmt.atom d a) ∧ WellLabelled exampleFlat ∧ NoBreak exampleFlat ∧
    postprocess exampleFlat = .ok [.node (.loop 5) [.node .chain [
        .node (.arm .if_ (.bin .ne (.reg 1) (.lit 0))) [.atom none (.ins 5 []), .atom none (.jump .brk)]]],
      .atom none (.ins 7 [])] :=
  ⟨flat_of_all (by decide), wellLabelled_of (by decide) (by decide), by unfold NoBreak; decide, by rfl⟩

/-! ### both extra hypotheses are necessary; `C07_full` as first written is false -/

def envOn : VmEnv := { tagOn := fun _ => true, labelProp := fun _ _ => 0 }
def st0 (t : Int) : VmState := { regs := fun _ => 0, time := t, realTime := 0, log := [] }

/-- a difficulty-tagged `break` between a label and a jump back to it: the flat list is stuck at the
`break` (outside any loop), the reconstruction captures it in a loop and it leaves that loop -/
def brkFlat : Block := [.atom none (.label 1), .atom (some "E") (.jump .brk), .atom none (.jump (.goto 1 none))]
def brkOut : Block := [.node (.loop 2) [.atom (some "E") (.jump .brk)]]

theorem brkFlat_stuck : ∀ fuel, run envOn (atomsL brkFlat) fuel (st0 0) = none
  | 0 => rfl
  | 1 => rfl
  | _ + 2 => rfl

/-- `NoBreak` cannot be dropped from `C07_sound_partial` -/
theorem nobreak_necessary :
    (∀ s ∈ brkFlat, ∃ d a, s = Stmt.atom d a) ∧ WellLabelled brkFlat ∧ postprocess brkFlat = .ok brkOut ∧
    0 ≤ (st0 0).time ∧
    ¬ (∀ fuel' r', run envOn (lower (maxLabel brkFlat + 1) brkOut) fuel' (st0 0) = some r' →
        ∃ fuel r, run envOn (atomsL brkFlat) fuel (st0 0) = some r ∧ SameResult r r') := by
  refine ⟨flat_of_all (by decide), wellLabelled_of (by decide) (by decide), by rfl, by decide, ?_⟩
  intro hall
  have hsome : (run envOn (lower (maxLabel brkFlat + 1) brkOut) 4 (st0 0)).isSome = true := by rfl
  obtain ⟨r', hr'⟩ := Option.isSome_iff_exists.mp hsome
  obtain ⟨fuel, r, hr, _⟩ := hall 4 r' hr'
  rw [brkFlat_stuck fuel] at hr
  cases hr

/-- an unreferenced label in front of a time label that goes below zero: executing the label raises a
negative initial time to 0 (and the real time with it), the reconstruction has dropped the label -/
def timeFlat : Block := [.atom none (.label 1), .atom none (.absTime (-10)), .atom none (.ins 5 [])]
def timeOut : Block := [.atom none (.absTime (-10)), .atom none (.ins 5 [])]

theorem timeOut_runs : ∀ fuel r, run envOn (lower (maxLabel timeFlat + 1) timeOut) fuel (st0 (-5)) = some r → r.realTime = 0
  | 0, r, h => by cases h
  | 1, r, h => by cases h
  | 2, r, h => by cases h
  | n + 3, r, h => by
    have : run envOn (lower (maxLabel timeFlat + 1) timeOut) (n + 3) (st0 (-5)) =
        some { regs := fun _ => 0, time := -5, realTime := 0, log := [(0, 5, [])] } := rfl
    rw [this] at h; cases h; rfl

/-- `0 ≤ st.time` cannot be dropped from `C07_sound_partial` -/
theorem nonneg_time_necessary :
    (∀ s ∈ timeFlat, ∃ d a, s = Stmt.atom d a) ∧ WellLabelled timeFlat ∧ NoBreak timeFlat ∧
    postprocess timeFlat = .ok timeOut ∧
    ¬ (∀ fuel r, run envOn (atomsL timeFlat) fuel (st0 (-5)) = some r →
        ∃ fuel' r', run envOn (lower (maxLabel timeFlat + 1) timeOut) fuel' (st0 (-5)) = some r' ∧ SameResult r r') := by
  refine ⟨flat_of_all (by decide), wellLabelled_of (by decide) (by decide), by unfold NoBreak; decide, by rfl, ?_⟩
  intro hall
  have hflat : (run envOn (atomsL timeFlat) 4 (st0 (-5))).map (·.realTime) = some 5 := by rfl
  obtain ⟨r, hr, hrt⟩ := Option.map_eq_some_iff.mp hflat
  obtain ⟨fuel', r', hr', hsame⟩ := hall 4 r hr
  have h0 := timeOut_runs fuel' r' hr'
  have h1 : r.realTime = r'.realTime := hsame.2.2.1
  rw [hrt, h0] at h1
  cases h1

/-- the statement as first written does not hold -/
theorem C07_full_false : ¬ C07_full := by
  intro h
  exact nobreak_necessary.2.2.2.2
    (h brkFlat brkOut nobreak_necessary.1 nobreak_necessary.2.1 nobreak_necessary.2.2.1 envOn (st0 0)).2

end TruthModel.C07
