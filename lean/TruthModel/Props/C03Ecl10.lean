import TruthModel.Props.C03Files
import TruthModel.Props.C16Ecl10
/-
C03 for stack ECL (TH10 and later) — a successful compile never writes a file that differs from what
was asked; values that do not fit are diagnosed.

Instruction level (`Model/InstrIO10.lean`):
* `write10_err_iff_not_fits`, `write10_no_panic`: the writer fails exactly when a header field does not
  fit (in the Rust types: the instruction size beyond `u16`), never panics;
* `read_write10`: what it writes reads back as the SAME instruction (every field of this header is
  stored, no normal form needed); `write10_injective`;
* `readInstrs10_writeInstrs10`, `writeInstrs10_decides`: whole scripts.

Container level (`Model/FilesEcl10.lean`):
* `string_list_roundtrip`: for EVERY list of NUL-free byte strings, what `write_string_list` writes is a
  multiple of 4 bytes long and `read_string_list` reads the same strings back, consuming exactly the
  section.  (The padding is computed from the bytes WRITTEN; a writer that pads by any other count,
  e.g. the UTF-8 lengths, breaks this statement: `string_list_wrong_padding_breaks`.)
* `ecl10_read_write`: a file `write` accepts, smaller than 4 GiB, whose strings satisfy the codec laws
  (`wfEcl10`, decidable) reads back as exactly the same file;
* `ecl10_write_err_iff`: `write` fails exactly when a string cannot be encoded or its encoding contains a NUL, the include section
  does not fit its 16-bit length field, or an instruction does not fit its header; it never panics
  (`ecl10_write_no_panic`), and below 4 GiB no `as u32` narrows anything (`ecl10_write_ok_no_narrowing`);
* since dcd07d9 a name whose encoding contains a NUL is a diagnostic (`ecl10_nul_in_name_rejected`,
  `ecl10_write_ok_nul_free`); the proof attempt had exposed that such a name was written silently into a
  file the reader rejected.  `ecl10_read_write_full`: for a codec whose decoder inverts its encoder EVERY
  accepted file with distinct sub names below 4 GiB reads back as itself.
-/
namespace TruthModel.C03
open TruthModel TruthModel.InstrIO TruthModel.Files TruthModel.C16

/-! ## instruction level -/

theorem write10_err_iff_not_fits (i : Instr10) : (∃ c, writeInstr10 i = .err c) ↔ fits10 i = false := by
  unfold writeInstr10
  cases h : fits10 i <;> simp

theorem write10_ok_iff_fits (i : Instr10) : (∃ bs, writeInstr10 i = .ok bs) ↔ fits10 i = true := by
  unfold writeInstr10
  cases h : fits10 i <;> simp

theorem write10_no_panic (i : Instr10) : (writeInstr10 i).isPanic = false := by
  unfold writeInstr10
  split <;> rfl

example : fits10 { time := -5, opcode := 65535, mask := 65535, difficulty := 0, argCount := 255, pop := 255, blob := List.replicate 8 7 } = true := by decide
/-- the one misfit the Rust types allow: 16 + 65520 bytes does not fit the 16-bit size field -/
example (b : Bytes) (h : b.length = 65520) : fits10 { time := 0, opcode := 1, blob := b } = false := by
  simp [fits10, instrSize10, headerSize10, fitsU, h]
example (b : Bytes) (h : b.length = 65519) : fits10 { time := 0, opcode := 1, blob := b } = true := by
  simp [fits10, instrSize10, headerSize10, fitsU, fitsI, h]

theorem fits10_iff (i : Instr10) : fits10 i = true ↔
    fitsI 32 i.time = true ∧ i.opcode < 2 ^ 16 ∧ instrSize10 i < 2 ^ 16 ∧ i.mask < 2 ^ 16 ∧
    i.difficulty < 2 ^ 8 ∧ i.argCount < 2 ^ 8 ∧ i.pop < 2 ^ 8 := by
  simp only [fits10, fitsU, Bool.and_eq_true, decide_eq_true_eq]
  constructor
  · rintro ⟨⟨⟨⟨⟨⟨a, b⟩, c⟩, d⟩, e⟩, f⟩, g⟩; exact ⟨a, b, c, d, e, f, g⟩
  · rintro ⟨a, b, c, d, e, f, g⟩; exact ⟨⟨⟨⟨⟨⟨a, b⟩, c⟩, d⟩, e⟩, f⟩, g⟩

theorem write10_ok {i : Instr10} {bs : Bytes} (h : writeInstr10 i = .ok bs) :
    fits10 i = true ∧ bs = i32 i.time ++ u16 i.opcode ++ u16 (instrSize10 i) ++ u16 i.mask ++ u8 i.difficulty ++ u8 i.argCount ++ u8 i.pop ++ [0, 0, 0] ++ i.blob := by
  unfold writeInstr10 at h
  split at h
  · cases h
  · rename_i hf
    cases h
    exact ⟨by simpa using hf, rfl⟩

theorem write10_length {i : Instr10} {bs : Bytes} (h : writeInstr10 i = .ok bs) : bs.length = instrSize10 i := by
  obtain ⟨_, rfl⟩ := write10_ok h
  simp [i32, u32, u16, u8, instrSize10, headerSize10]
  omega

/-- **Round trip of one instruction**: whatever the writer accepts reads back as the same instruction
(all seven header fields and the blob), followed by whatever followed it. -/
theorem read_write10 (i : Instr10) (rest bs : Bytes) (hw : writeInstr10 i = .ok bs) :
    readInstr10 (bs ++ rest) = .ok (i, rest) := by
  obtain ⟨hf, rfl⟩ := write10_ok hw
  obtain ⟨h1, h2, h3, h4, h5, h6, h7⟩ := (fits10_iff i).1 hf
  have hpad : ∀ x : Bytes, rdBytes 3 ([0, 0, 0] ++ x) = some ([0, 0, 0], x) := fun x => rdBytes_append [0, 0, 0] x
  have hsz : ¬ instrSize10 i < 16 := by simp [instrSize10, headerSize10]
  have hbl : instrSize10 i - 16 = i.blob.length := by simp [instrSize10, headerSize10]
  simp only [readInstr10, List.append_assoc, rdI32_i32 _ _ h1, rdU16_u16 _ _ h2, rdU16_u16 _ _ h3, rdU16_u16 _ _ h4,
    rdU8_u8 _ _ h5, rdU8_u8 _ _ h6, rdU8_u8 _ _ h7, hpad, hsz, if_false, hbl, rdBytes_append]

/-- **The writer is injective**: two accepted instructions with the same bytes are the same instruction. -/
theorem write10_injective (i1 i2 : Instr10) (bs : Bytes) (h1 : writeInstr10 i1 = .ok bs) (h2 : writeInstr10 i2 = .ok bs) : i1 = i2 := by
  have a := read_write10 i1 [] bs h1
  have b := read_write10 i2 [] bs h2
  rw [a] at b
  injection b with b
  exact (Prod.mk.inj b).1

example : ∃ bs, writeInstr10 { time := 5, opcode := 10, mask := 3, difficulty := 255, argCount := 5, pop := 2, blob := [1, 0, 0, 0] } = .ok bs ∧
    bs = [5, 0, 0, 0, 10, 0, 20, 0, 3, 0, 255, 5, 2, 0, 0, 0, 1, 0, 0, 0] := ⟨_, rfl, by decide⟩

theorem writeInstrs10_cons_ok {i : Instr10} {is : List Instr10} {bs : Bytes} (h : writeInstrs10 (i :: is) = .ok bs) :
    ∃ b bs', writeInstr10 i = .ok b ∧ writeInstrs10 is = .ok bs' ∧ bs = b ++ bs' := by
  rw [writeInstrs10] at h
  repeat' split at h
  all_goals first | (cases h; done) | skip
  rename_i b hb _ bs' hbs'
  cases h
  exact ⟨b, bs', hb, hbs', rfl⟩

theorem writeInstrs10_length : ∀ {is : List Instr10} {bs : Bytes}, writeInstrs10 is = .ok bs → bs.length = sizeSum10 is := by
  intro is
  induction is with
  | nil => intro bs h; rw [writeInstrs10] at h; cases h; rfl
  | cons i is ih =>
    intro bs h
    obtain ⟨b, bs', hb, hbs', rfl⟩ := writeInstrs10_cons_ok h
    rw [List.length_append, write10_length hb, ih hbs', sizeSum10_cons]

theorem endCheck_go10 (e cur : Nat) (h : cur < e) : endCheck (some e) cur = .go := by simp [endCheck, h]
theorem endCheck_stop_self10 (cur : Nat) : endCheck (some cur) cur = .stop := by simp [endCheck]

/-- a script followed by anything, read up to the offset where the script ends -/
theorem readInstrs10Aux_write : ∀ (is : List Instr10) (n : Nat) (acc : List Instr10) (cur : Nat) (bs rest : Bytes),
    writeInstrs10 is = .ok bs → bs.length < n →
      readInstrs10Aux (some (cur + bs.length)) n acc cur (bs ++ rest) = .ok (acc.reverse ++ is) := by
  intro is
  induction is with
  | nil =>
    intro n acc cur bs rest hw hn
    rw [writeInstrs10] at hw
    cases hw
    cases n with
    | zero => omega
    | succ n => rw [readInstrs10Aux_succ]; simp [endCheck_stop_self10]
  | cons i is ih =>
    intro n acc cur bs rest hw hn
    obtain ⟨b, bs', hb, hbs', rfl⟩ := writeInstrs10_cons_ok hw
    have hlen := write10_length hb
    have h16 : 16 ≤ instrSize10 i := by simp [instrSize10, headerSize10]
    cases n with
    | zero => omega
    | succ n =>
      rw [readInstrs10Aux_succ, endCheck_go10 _ _ (by rw [List.length_append]; omega), List.append_assoc,
        read_write10 i (bs' ++ rest) b hb]
      simp only
      have := ih n (i :: acc) (cur + instrSize10 i) bs' rest hbs' (by rw [List.length_append] at hn; omega)
      rw [List.length_append, hlen, ← Nat.add_assoc, this]
      simp

/-- **Round trip of a whole sub**: the instructions `write_instrs` wrote, read by `read_instrs` from
`start` to the end offset `start + length`, are the same instructions. -/
theorem readInstrs10_writeInstrs10 (is : List Instr10) (bs rest : Bytes) (start : Nat) (hw : writeInstrs10 is = .ok bs) :
    readInstrs10 (some (start + bs.length)) start (bs ++ rest) = .ok is := by
  unfold readInstrs10
  rw [readInstrs10Aux_write is _ [] start bs rest hw (by rw [List.length_append]; omega)]
  rfl

/-- the script writer fails exactly when one of its instructions does not fit -/
theorem writeInstrs10_decides : ∀ is : List Instr10, Decides (writeInstrs10 is) (∀ i ∈ is, fits10 i = true) := by
  intro is
  induction is with
  | nil => exact ⟨fun _ => ⟨_, rfl⟩, fun h => absurd (fun i hi => by cases hi) h⟩
  | cons i is ih =>
    rw [writeInstrs10]
    by_cases h1 : fits10 i = true
    · obtain ⟨b, hb⟩ := (write10_ok_iff_fits i).2 h1
      simp only [hb]
      constructor
      · intro hall
        obtain ⟨p, hp⟩ := ih.1 (fun j hj => hall j (List.mem_cons_of_mem _ hj))
        rw [hp]; exact ⟨_, rfl⟩
      · intro hnot
        have : ¬ ∀ j ∈ is, fits10 j = true := by
          intro hall
          apply hnot
          intro j hj
          rcases List.mem_cons.1 hj with rfl | hj
          · exact h1
          · exact hall j hj
        obtain ⟨c, hc⟩ := ih.2 this
        rw [hc]; exact ⟨_, rfl⟩
    · obtain ⟨c, hc⟩ := (write10_err_iff_not_fits i).2 (by simpa using h1)
      simp only [hc]
      exact ⟨fun hall => absurd (hall i (List.mem_cons_self ..)) h1, fun _ => ⟨_, rfl⟩⟩

/-! ## string lists -/

theorem readCStr1_write : ∀ (s rest : Bytes), (0 : UInt8) ∉ s → readCStr1 (s ++ 0 :: rest) = some (s, rest) := by
  intro s
  induction s with
  | nil => intro rest _; simp [readCStr1]
  | cons b t ih =>
    intro rest h
    simp only [List.mem_cons, not_or] at h
    have hb : ¬ b = 0 := fun e => h.1 e.symm
    simp only [List.cons_append, readCStr1, hb, if_false, ih rest h.2]

/-- the byte count the writer accumulates is the number of bytes it wrote -/
theorem strListBody_count (bs : List Bytes) : (strListBody bs).2 = (strListBody bs).1.length := by
  induction bs with
  | nil => rfl
  | cons b bs ih => simp only [strListBody, List.length_append, List.length_cons, List.length_nil, ih]

theorem padLen_mod (n : Nat) : (n + padLen n) % 4 = 0 := by
  unfold padLen
  split <;> omega

theorem padLen_lt (n : Nat) : padLen n < 4 := by
  unfold padLen
  split <;> omega

theorem writeStrListBytes_length (bs : List Bytes) :
    (writeStrListBytes bs).length = (strListBody bs).2 + padLen (strListBody bs).2 := by
  simp only [writeStrListBytes, List.length_append, List.length_replicate, strListBody_count]

/-- the string loop of the reader on what the string loop of the writer wrote (any decoder that
accepts the strings) -/
theorem readStrsAux_write {α} (dec : Bytes → Option α) (g : Bytes → α) : ∀ (raws : List Bytes) (acc : List α) (n : Nat) (rest : Bytes),
    (∀ r ∈ raws, (0 : UInt8) ∉ r) → (∀ r ∈ raws, dec r = some (g r)) →
      readStrsAux dec raws.length acc n ((strListBody raws).1 ++ rest) = .ok (acc.reverse ++ raws.map g, n + (strListBody raws).2, rest) := by
  intro raws
  induction raws with
  | nil => intro acc n rest _ _; simp [readStrsAux, strListBody]
  | cons r raws ih =>
    intro acc n rest h0 hd
    have hr0 := h0 r (List.mem_cons_self ..)
    have hrd := hd r (List.mem_cons_self ..)
    have := ih (g r :: acc) (n + r.length + 1) rest (fun x hx => h0 x (List.mem_cons_of_mem _ hx)) (fun x hx => hd x (List.mem_cons_of_mem _ hx))
    have hread : readCStr1 (r ++ 0 :: ((strListBody raws).1 ++ rest)) = some (r, (strListBody raws).1 ++ rest) := readCStr1_write r _ hr0
    simp only [List.length_cons, readStrsAux, strListBody, List.append_assoc, hread, hrd, this,
      List.reverse_cons, List.map_cons, List.cons_append, List.nil_append]
    have e : n + r.length + 1 + (strListBody raws).2 = n + (r.length + 1 + (strListBody raws).2) := by omega
    rw [e]

/-- `read_string_list` on what `write_string_list` wrote -/
theorem readStringList_write {α} (dec : Bytes → Option α) (g : Bytes → α) (raws : List Bytes) (rest : Bytes)
    (h0 : ∀ r ∈ raws, (0 : UInt8) ∉ r) (hd : ∀ r ∈ raws, dec r = some (g r)) :
    readStringList dec raws.length (writeStrListBytes raws ++ rest) = .ok (raws.map g, (writeStrListBytes raws).length, rest) := by
  unfold readStringList
  have h1 := readStrsAux_write dec g raws [] 0 rest h0 hd
  have hpad := rdBytes_append (List.replicate (padLen (strListBody raws).2) 0) rest
  rw [List.length_replicate] at hpad
  rw [writeStrListBytes, List.append_assoc]
  have h2 := readStrsAux_write dec g raws [] 0 (List.replicate (padLen (strListBody raws).2) 0 ++ rest) h0 hd
  simp only [List.reverse_nil, List.nil_append, Nat.zero_add] at h2
  simp only [h2, hpad]
  rw [← writeStrListBytes_length, writeStrListBytes]

/-- **String lists round trip, for every list of NUL-free byte strings**: the section `write_string_list`
writes is a multiple of 4 bytes long (the padding is computed from the bytes written), and
`read_string_list` with the same count reads exactly these strings, consumes exactly the section, and
leaves whatever follows untouched. -/
theorem string_list_roundtrip (ss : List Bytes) (rest : Bytes) (h0 : ∀ s ∈ ss, (0 : UInt8) ∉ s) :
    (writeStrListBytes ss).length % 4 = 0 ∧
    readStringList some ss.length (writeStrListBytes ss ++ rest) = .ok (ss, (writeStrListBytes ss).length, rest) := by
  refine ⟨by rw [writeStrListBytes_length]; exact padLen_mod _, ?_⟩
  have := readStringList_write some id ss rest h0 (fun _ _ => rfl)
  simpa using this

/-- names of 0, 1, 2, 3, 4 bytes and a two-byte character: 17 bytes of strings, 3 of padding -/
example : writeStrListBytes [[], [97], [97, 98], [97, 98, 99], [97, 98, 99, 100], [130, 160]] =
    [0, 97, 0, 97, 98, 0, 97, 98, 99, 0, 97, 98, 99, 100, 0, 130, 160, 0, 0, 0] := by decide

/-- A writer that computes the padding from any other count than the bytes written - here from the
UTF-8 length of a name whose Shift-JIS encoding is one byte shorter - produces a section that is not a
multiple of 4, and the reader, which pads by what it read, is left at the wrong position. -/
theorem string_list_wrong_padding_breaks :
    let body := (strListBody [[130, 160]]).1                      -- "あ": 2 bytes in Shift-JIS, 3 in UTF-8
    let wrong := body ++ List.replicate (padLen 4) 0             -- padding from the UTF-8 length 3 + 1
    wrong.length % 4 ≠ 0 ∧
    readStringList some 1 (wrong ++ [69, 67, 76, 73]) ≠ .ok ([[130, 160]], wrong.length, [69, 67, 76, 73]) := by
  decide

/-! ## the container: text layer -/

/-- the codec law the round trip needs of one string: `Encoded::decode` maps what `Encoded::encode` produced
back to the string.  (`encoding_rs::SHIFT_JIS`: true of every string without the three scalars C15 pins as
ambiguous; decidable for a concrete codec.)  That the encoding is NUL-free is no longer a hypothesis: since
dcd07d9 a successful write implies it (`encAll_nul_free`). -/
def codecOk (sj : Abi.Sjis) (t : Text) : Bool :=
  match sj.enc t with
  | some b => sj.dec b == some t
  | none => true

theorem codecOk_spec {sj : Abi.Sjis} {t : Text} {b : Bytes} (h : codecOk sj t = true) (he : sj.enc t = some b) :
    sj.dec b = some t := by
  unfold codecOk at h
  rw [he] at h
  simpa using h

/-- what `write_string_list` got past is NUL-free (dcd07d9) -/
theorem encAll_nul_free (sj : Abi.Sjis) : ∀ (ts : List Text) (raws : List Bytes), encAll sj ts = .ok raws →
    ∀ r ∈ raws, (0 : UInt8) ∉ r := by
  intro ts
  induction ts with
  | nil => intro raws h; rw [encAll] at h; cases h; intro r hr; cases hr
  | cons t ts ih =>
    intro raws h
    rw [encAll] at h
    repeat' split at h
    all_goals first | (cases h; done) | skip
    rename_i b hb hnul _ bs hbs
    cases h
    intro r hr
    rcases List.mem_cons.1 hr with rfl | hr
    · intro hm
      exact hnul (List.contains_iff_mem.2 hm)
    · exact ih bs hbs r hr

theorem encAll_spec (sj : Abi.Sjis) : ∀ (ts : List Text) (raws : List Bytes), encAll sj ts = .ok raws → (∀ t ∈ ts, codecOk sj t = true) →
    raws.length = ts.length ∧ (∀ r ∈ raws, (0 : UInt8) ∉ r) ∧ (∀ r ∈ raws, sj.dec r = some ((sj.dec r).getD [])) ∧
    raws.map (fun r => (sj.dec r).getD []) = ts := by
  intro ts
  induction ts with
  | nil => intro raws h _; rw [encAll] at h; cases h; simp
  | cons t ts ih =>
    intro raws h hok
    rw [encAll] at h
    repeat' split at h
    all_goals first | (cases h; done) | skip
    rename_i b hb hnul _ bs hbs
    cases h
    have hd := codecOk_spec (hok t (List.mem_cons_self ..)) hb
    have h0 : (0 : UInt8) ∉ b := fun hm => hnul (List.contains_iff_mem.2 hm)
    obtain ⟨i1, i2, i3, i4⟩ := ih bs hbs (fun x hx => hok x (List.mem_cons_of_mem _ hx))
    refine ⟨by simp [i1], ?_, ?_, ?_⟩
    · intro r hr; rcases List.mem_cons.1 hr with rfl | hr
      · exact h0
      · exact i2 r hr
    · intro r hr; rcases List.mem_cons.1 hr with rfl | hr
      · rw [hd]; rfl
      · exact i3 r hr
    · simp only [List.map_cons, hd, Option.getD_some, i4]

/-- `read_string_list` on what `write_string_list` wrote, with the text layer -/
theorem readStringList_writeStringList (sj : Abi.Sjis) (ts : List Text) (b rest : Bytes) (hw : writeStringList sj ts = .ok b)
    (hok : ∀ t ∈ ts, codecOk sj t = true) :
    readStringList sj.dec ts.length (b ++ rest) = .ok (ts, b.length, rest) ∧ b.length % 4 = 0 ∧ ts.length ≤ b.length := by
  unfold writeStringList at hw
  split at hw
  · rename_i raws hraws
    cases hw
    obtain ⟨h1, h2, h3, h4⟩ := encAll_spec sj ts raws hraws hok
    have := readStringList_write sj.dec (fun r => (sj.dec r).getD []) raws rest h2 h3
    rw [h1, h4] at this
    refine ⟨this, (string_list_roundtrip raws [] h2).1, ?_⟩
    have hl := readStringList_len this
    simp only [List.length_append] at hl
    omega
  · cases hw
  · cases hw

theorem expectMagic_append (m x : Bytes) : expectMagic m (m ++ x) = .ok x := by
  unfold expectMagic
  rw [rdBytes_append]
  simp

theorem readInclude_writeInclude (sj : Abi.Sjis) (m : Bytes) (ts : List Text) (b rest : Bytes) (hw : writeInclude sj m ts = .ok b)
    (hok : ∀ t ∈ ts, codecOk sj t = true) (hn : ts.length < 2 ^ 32) :
    readInclude sj.dec m (b ++ rest) = .ok (ts, b.length, rest) := by
  unfold writeInclude at hw
  split at hw
  · rename_i sb hsb
    cases hw
    obtain ⟨h1, _, _⟩ := readStringList_writeStringList sj ts sb rest hsb hok
    unfold readInclude
    simp only [List.append_assoc, expectMagic_append, rdU32_u32 _ _ hn, h1]
    simp [u32]
    omega
  · cases hw
  · cases hw

theorem writeInclude_length {sj : Abi.Sjis} {m : Bytes} {ts : List Text} {b : Bytes} (hw : writeInclude sj m ts = .ok b)
    (hok : ∀ t ∈ ts, codecOk sj t = true) : m.length + 4 + ts.length ≤ b.length := by
  unfold writeInclude at hw
  split at hw
  · rename_i sb hsb
    cases hw
    obtain ⟨_, _, h3⟩ := readStringList_writeStringList sj ts sb [] hsb hok
    simp [u32]
    omega
  · cases hw
  · cases hw

/-! ## the container: subs -/

/-- a list of subs and the instruction bytes of each -/
def Blobs10 : List (List Instr10) → List Bytes → Prop
  | [], [] => True
  | s :: ss, b :: bs => writeInstrs10 s = .ok b ∧ Blobs10 ss bs
  | _, _ => False

theorem Blobs10.length_eq : ∀ {ss : List (List Instr10)} {bs : List Bytes}, Blobs10 ss bs → ss.length = bs.length := by
  intro ss
  induction ss with
  | nil => intro bs h; cases bs with | nil => rfl | cons b bs => cases h
  | cons s ss ih => intro bs h; cases bs with | nil => cases h | cons b bs => simp [ih h.2]

/-- header and instructions of every sub, one after the other -/
def subsBody (blobs : List Bytes) : Bytes := (blobs.map (fun b => subHeader ++ b)).flatten

def subLens (blobs : List Bytes) : List Nat := blobs.map (fun b => 16 + b.length)

theorem subHeader_length : subHeader.length = 16 := by decide

theorem subsBody_length (blobs : List Bytes) : (subsBody blobs).length = (subLens blobs).sum := by
  induction blobs with
  | nil => rfl
  | cons b bs ih =>
    have : subsBody (b :: bs) = subHeader ++ b ++ subsBody bs := by simp [subsBody]
    rw [this]
    simp only [List.length_append, subHeader_length, ih, subLens, List.map_cons, List.sum_cons]

theorem writeSubs10_spec : ∀ (scripts : List (List Instr10)) (pos : Nat) (sb : Bytes) (offs : List Nat),
    writeSubs10 pos scripts = .ok (sb, offs) →
    ∃ blobs, Blobs10 scripts blobs ∧ sb = subsBody blobs ∧ offs = offsetsFrom pos (subLens blobs) := by
  intro scripts
  induction scripts with
  | nil => intro pos sb offs h; rw [writeSubs10] at h; cases h; exact ⟨[], trivial, rfl, rfl⟩
  | cons s scripts ih =>
    intro pos sb offs h
    rw [writeSubs10] at h
    repeat' split at h
    all_goals first | (cases h; done) | skip
    rename_i b hb _ bs' offs' hrec
    cases h
    obtain ⟨blobs, hbl, rfl, rfl⟩ := ih _ _ _ hrec
    refine ⟨b :: blobs, ⟨hb, hbl⟩, by simp [subsBody], ?_⟩
    simp only [subLens, List.map_cons, offsetsFrom]
    congr 2
    omega

/-- the sub offsets followed by the end of the file, as the reader sees them -/
def offsE (base : Nat) (lens : List Nat) : List Nat := offsetsFrom base lens ++ [base + lens.sum]

theorem offsE_nil (base : Nat) : offsE base [] = [base] := by simp [offsE, offsetsFrom]

theorem offsE_cons (base l : Nat) (ls : List Nat) : offsE base (l :: ls) = base :: offsE (base + l) ls := by
  simp [offsE, offsetsFrom, Nat.add_assoc]

theorem offsE_head (base : Nat) (ls : List Nat) : ∃ t, offsE base ls = base :: t := by
  cases ls with
  | nil => exact ⟨[], offsE_nil base⟩
  | cons l ls => exact ⟨_, offsE_cons base l ls⟩

theorem readSubHeader_write (x : Bytes) : readSubHeader (subHeader ++ x) = .ok x := by
  unfold readSubHeader subHeader
  rw [List.append_assoc, List.append_assoc, List.append_assoc, expectMagic_append]
  have := rdU32s_u32s [16, 0, 0] x (by intro y hy; simp at hy; rcases hy with rfl | rfl | rfl <;> decide)
  simp only [u32s, List.flatMap_cons, List.flatMap_nil, List.append_nil, List.append_assoc, List.length_cons, List.length_nil] at this
  simp only [this]

theorem insertSub_new (acc : List (Text × List Instr10)) (name : Text) (is : List Instr10) (h : name ∉ acc.map (·.1)) :
    insertSub acc name is = acc ++ [(name, is)] := by
  unfold insertSub
  rw [if_neg]
  intro hany
  obtain ⟨x, hx, hxn⟩ := List.any_eq_true.1 hany
  exact h (List.mem_map.2 ⟨x, hx, beq_iff_eq.1 hxn⟩)

/-- the sub loop of the reader on what the sub loop of the writer wrote -/
theorem readSubsAux_write : ∀ (subs : List (Text × List Instr10)) (blobs : List Bytes), Blobs10 (subs.map (·.2)) blobs →
    ∀ (pre : Bytes) (acc : List (Text × List Instr10)), ((acc ++ subs).map (·.1)).Nodup →
    readSubsAux (pre ++ subsBody blobs) (offsE pre.length (subLens blobs)) (subs.map (·.1)) acc = .ok (acc ++ subs) := by
  intro subs
  induction subs with
  | nil =>
    intro blobs _ pre acc _
    rw [List.map_nil, readSubsAux_nil_names, List.append_nil]
  | cons s subs ih =>
    intro blobs hb pre acc hnd
    cases blobs with
    | nil => cases hb
    | cons b blobs =>
      obtain ⟨name, is⟩ := s
      obtain ⟨hwb, hrest⟩ := hb
      have hbody : subsBody (b :: blobs) = subHeader ++ (b ++ subsBody blobs) := by simp [subsBody]
      obtain ⟨t, ht⟩ := offsE_head (pre.length + (16 + b.length)) (subLens blobs)
      have hoffs : offsE pre.length (subLens (b :: blobs)) = pre.length :: (pre.length + (16 + b.length)) :: t := by
        simp only [subLens, List.map_cons, offsE_cons]
        simp only [subLens] at ht
        rw [ht]
      have hsub : readSub10 (pre ++ subsBody (b :: blobs)) pre.length (pre.length + (16 + b.length)) = .ok is := by
        unfold readSub10
        rw [if_neg (by omega), hbody, drop_prefix, readSubHeader_write]
        have := readInstrs10_writeInstrs10 is b (subsBody blobs) (pre.length + 16) hwb
        rw [show pre.length + (16 + b.length) = pre.length + 16 + b.length by omega]
        exact this
      have hname : name ∉ acc.map (·.1) := by
        rw [List.map_append, List.nodup_append] at hnd
        intro hm
        exact hnd.2.2 _ hm _ (by simp) rfl
      rw [hoffs, List.map_cons, readSubsAux_step, hsub]
      simp only
      rw [insertSub_new acc name is hname]
      have hih := ih blobs hrest (pre ++ (subHeader ++ b)) (acc ++ [(name, is)]) (by simpa [List.append_assoc] using hnd)
      simp only [List.length_append, subHeader_length, List.append_assoc] at hih
      rw [show pre.length + (16 + b.length) = pre.length + (16 + b.length) from rfl] at hih
      rw [← ht, hbody]
      simp only [List.singleton_append] at hih ⊢
      exact hih

/-! ## the container: the whole file -/

/-- the explicit well-formedness predicate of a stack ECL file (decidable for a concrete codec): every
string is decoded back to itself from its encoding (`codecOk`), and the sub names are distinct (an
invariant of the `IndexMap` that holds the subs).  The compiler's output satisfies it whenever no name
contains one of the three ambiguous scalars of C15.  NUL-freeness is not part of it any more: a
successful write implies it (dcd07d9, `encAll_nul_free`, `ecl10_write_ok_nul_free`). -/
def wfEcl10 (sj : Abi.Sjis) (f : Ecl10File) : Bool :=
  f.anim.all (codecOk sj) && f.ecli.all (codecOk sj) && f.subs.all (fun s => codecOk sj s.1) &&
  decide ((f.subs.map (·.1)).Nodup)

theorem ecl10Header_length (il n : Nat) : (ecl10Header il n).length = 36 := by
  simp [ecl10Header, scptMagic, i16, u16, u32, u32s]

/-- the 36 header bytes of `read` -/
theorem readEcl10_header (sj : Abi.Sjis) (file : Bytes) (il io n : Nat) (rest : Bytes)
    (hfile : file = scptMagic ++ (i16 1 ++ (u16 il ++ (u32 io ++ (u32 0 ++ (u32 n ++ (u32s [0, 0, 0, 0] ++ rest)))))))
    (hil : il < 2 ^ 16) (hio : io < 2 ^ 32) (hn : n < 2 ^ 32) :
    readEcl10 sj file = readEcl10Includes sj file il io n rest := by
  have hm : expectMagic scptMagic file = .ok (i16 1 ++ (u16 il ++ (u32 io ++ (u32 0 ++ (u32 n ++ (u32s [0, 0, 0, 0] ++ rest)))))) := by
    rw [hfile, expectMagic_append]
  have hz := rdU32s_u32s [0, 0, 0, 0] rest (by intro y hy; simp at hy; subst hy; decide)
  simp only [List.length_cons, List.length_nil] at hz
  unfold readEcl10
  simp only [hm, rdI16_i16 1 _ (by decide), rdU16_u16 _ _ hil, rdU32_u32 io _ hio, rdU32_u32 0 _ (by decide), rdU32_u32 n _ hn, hz]

/-- **stack ECL round trip** (TH10 and later): a file that `write` accepts, that is smaller than 4 GiB
and whose strings obey the codec laws, is read back by `read` as exactly the same include lists and
the same subs (names, order, every instruction field).  Not part of the model, hence not compared:
source spans, `RawScript::file_offset`, `binary_filename`; `extra_arg` is not stored by this format and
read as `None`. -/
theorem ecl10_read_write (sj : Abi.Sjis) (f : Ecl10File) (bs : Bytes)
    (hw : writeEcl10 sj f = .ok bs) (hwf : wfEcl10 sj f = true) (hlen : bs.length < 2 ^ 32) :
    readEcl10 sj bs = .ok f := by
  simp only [wfEcl10, Bool.and_eq_true, List.all_eq_true, decide_eq_true_eq] at hwf
  obtain ⟨⟨⟨hoka, hoke⟩, hoks⟩, hnd⟩ := hwf
  unfold writeEcl10 at hw
  simp only [] at hw
  repeat' split at hw
  all_goals first | (cases hw; done) | skip
  rename_i a ha _ e he hil _ _ nb hnb _ sb offs hsubs _
  cases hw
  obtain ⟨blobs, hbl, rfl, rfl⟩ := writeSubs10_spec _ _ _ _ hsubs
  have hil' : a.length + e.length < 2 ^ 16 := by omega
  have hna : f.anim.length < 2 ^ 32 := by
    have := writeInclude_length ha hoka; omega
  have hne : f.ecli.length < 2 ^ 32 := by
    have := writeInclude_length he hoke; omega
  have hoksn : ∀ t ∈ f.subs.map (·.1), codecOk sj t = true := by
    intro t ht
    obtain ⟨x, hx, rfl⟩ := List.mem_map.1 ht
    exact hoks x hx
  -- the position of the first sub header
  obtain ⟨base, hbase⟩ : ∃ base, base = 36 + (a.length + e.length) + 4 * f.subs.length + nb.length := ⟨_, rfl⟩
  rw [← hbase] at hlen ⊢
  have hblen : blobs.length = f.subs.length := by rw [← hbl.length_eq, List.length_map]
  have hofl : (offsetsFrom base (subLens blobs)).length = f.subs.length := by
    rw [offsetsFrom_length, subLens, List.length_map, hblen]
  -- length of the file
  have hfl : (ecl10Header (a.length + e.length) f.subs.length ++ a ++ e ++ u32s (offsetsFrom base (subLens blobs)) ++ nb ++ subsBody blobs).length =
      base + (subLens blobs).sum := by
    simp only [List.length_append, ecl10Header_length, u32s_length, hofl, subsBody_length]
    omega
  rw [hfl] at hlen
  have hns : f.subs.length < 2 ^ 32 := by omega
  have hoff_fit : ∀ x ∈ offsetsFrom base (subLens blobs), x < 2 ^ 32 := by
    intro x hx
    have := offsetsFrom_le _ _ x hx
    omega
  obtain ⟨pre, hpre⟩ : ∃ pre, pre = ecl10Header (a.length + e.length) f.subs.length ++ a ++ e ++ u32s (offsetsFrom base (subLens blobs)) ++ nb := ⟨_, rfl⟩
  have hpre_len : pre.length = base := by
    rw [hpre]
    simp only [List.length_append, ecl10Header_length, u32s_length, hofl]
    omega
  have hfile : ecl10Header (a.length + e.length) f.subs.length ++ a ++ e ++ u32s (offsetsFrom base (subLens blobs)) ++ nb ++ subsBody blobs =
      pre ++ subsBody blobs := by rw [hpre]
  -- the three string sections
  have hra := readInclude_writeInclude sj animMagic f.anim a (e ++ (u32s (offsetsFrom base (subLens blobs)) ++ (nb ++ subsBody blobs))) ha hoka hna
  have hre := readInclude_writeInclude sj ecliMagic f.ecli e (u32s (offsetsFrom base (subLens blobs)) ++ (nb ++ subsBody blobs)) he hoke hne
  obtain ⟨hrn, _, _⟩ := readStringList_writeStringList sj (f.subs.map (·.1)) nb (subsBody blobs) hnb hoksn
  rw [List.length_map] at hrn
  have hroff := rdU32s_u32s (offsetsFrom base (subLens blobs)) (nb ++ subsBody blobs) hoff_fit
  rw [hofl] at hroff
  -- the subs
  have hsubsr := readSubsAux_write f.subs blobs hbl pre [] (by simpa using hnd)
  rw [hpre_len, List.nil_append] at hsubsr
  have hoffsE : offsE base (subLens blobs) = offsetsFrom base (subLens blobs) ++ [(pre ++ subsBody blobs).length] := by
    rw [offsE, List.length_append, hpre_len, subsBody_length]
  rw [hoffsE] at hsubsr
  -- the tail of `read`
  have htail : readEcl10Subs sj (pre ++ subsBody blobs) f.subs.length (u32s (offsetsFrom base (subLens blobs)) ++ (nb ++ subsBody blobs)) = .ok f.subs := by
    unfold readEcl10Subs
    simp only [hroff, hrn, hsubsr]
  -- the middle
  have hmid : readEcl10Includes sj (pre ++ subsBody blobs) (a.length + e.length) 36 f.subs.length
      (a ++ (e ++ (u32s (offsetsFrom base (subLens blobs)) ++ (nb ++ subsBody blobs)))) = .ok f := by
    unfold readEcl10Includes
    simp only [ne_eq, not_true_eq_false, decide_false, Bool.false_eq_true, if_false, hra, hre]
    have h1 : ¬ (36 + a.length + e.length < 36) := by omega
    have h2 : 36 + a.length + e.length - 36 = a.length + e.length := by omega
    simp only [h1, if_false, h2, not_true_eq_false, decide_false, Bool.false_eq_true]
    have h3 : 36 + a.length + e.length = 36 + (a.length + e.length) := by omega
    simp only [h3, not_true_eq_false, if_false, htail]
  -- the header
  rw [hfile]
  have hfile2 : pre ++ subsBody blobs = scptMagic ++ (i16 1 ++ (u16 (a.length + e.length) ++ (u32 36 ++ (u32 0 ++ (u32 f.subs.length ++
      (u32s [0, 0, 0, 0] ++ (a ++ (e ++ (u32s (offsetsFrom base (subLens blobs)) ++ (nb ++ subsBody blobs)))))))))) := by
    rw [hpre]; simp only [ecl10Header, List.append_assoc]
  rw [readEcl10_header sj (pre ++ subsBody blobs) (a.length + e.length) 36 f.subs.length _ hfile2 hil' (by decide) hns]
  exact hmid

/-! ## when the writer fails -/

/-- the encoding the writer uses for a string (`[]` where there is none: only used under "every string encodes") -/
def encOf (sj : Abi.Sjis) (t : Text) : Bytes := (sj.enc t).getD []

/-- what `write_string_list` demands of one string: it has an encoding, and the encoding contains no NUL -/
def nameFits (sj : Abi.Sjis) (t : Text) : Bool :=
  match sj.enc t with
  | some b => !b.contains 0
  | none => false

theorem encAll_decides (sj : Abi.Sjis) : ∀ ts : List Text,
    Decides (encAll sj ts) (∀ t ∈ ts, nameFits sj t = true) ∧ ∀ raws, encAll sj ts = .ok raws → raws = ts.map (encOf sj) := by
  intro ts
  induction ts with
  | nil => exact ⟨⟨fun _ => ⟨_, rfl⟩, fun h => absurd (fun t ht => by cases ht) h⟩, fun raws h => by rw [encAll] at h; cases h; rfl⟩
  | cons t ts ih =>
    rw [encAll]
    cases ht : sj.enc t with
    | none =>
      refine ⟨⟨fun hall => ?_, fun _ => ⟨_, rfl⟩⟩, fun raws h => by cases h⟩
      have := hall t (List.mem_cons_self ..)
      simp [nameFits, ht] at this
    | some b =>
      simp only
      by_cases hnul : b.contains 0 = true
      · rw [if_pos hnul]
        refine ⟨⟨fun hall => ?_, fun _ => ⟨_, rfl⟩⟩, fun raws h => by cases h⟩
        have := hall t (List.mem_cons_self ..)
        simp [nameFits, ht] at this
        exact absurd (List.contains_iff_mem.1 hnul) this
      · rw [if_neg hnul]
        have htfit : nameFits sj t = true := by
          simp [nameFits, ht]
          exact fun hm => hnul (List.contains_iff_mem.2 hm)
        obtain ⟨ihd, ihv⟩ := ih
        by_cases hall : ∀ x ∈ ts, nameFits sj x = true
        · obtain ⟨raws, hr⟩ := ihd.1 hall
          rw [hr]
          refine ⟨⟨fun _ => ⟨_, rfl⟩, fun hn => absurd (fun x hx => ?_) hn⟩, fun raws' h => ?_⟩
          · rcases List.mem_cons.1 hx with rfl | hx
            · exact htfit
            · exact hall x hx
          · cases h
            simp only [List.map_cons, encOf, ht, Option.getD_some, List.cons.injEq, true_and]
            exact ihv raws hr
        · obtain ⟨c, hc⟩ := ihd.2 hall
          rw [hc]
          exact ⟨⟨fun h => absurd (fun x hx => h x (List.mem_cons_of_mem _ hx)) hall, fun _ => ⟨_, rfl⟩⟩, fun raws' h => by cases h⟩

/-- bytes `write_string_list` writes for encoded strings: every string and its NUL, padded to a multiple of 4 -/
def listLen (raws : List Bytes) : Nat :=
  (raws.map (fun r => r.length + 1)).sum + padLen (raws.map (fun r => r.length + 1)).sum

theorem strListBody_sum (raws : List Bytes) : (strListBody raws).2 = (raws.map (fun r => r.length + 1)).sum := by
  induction raws with
  | nil => rfl
  | cons r rs ih => simp only [strListBody, ih, List.map_cons, List.sum_cons]

theorem writeInclude_decides (sj : Abi.Sjis) (m : Bytes) (ts : List Text) :
    Decides (writeInclude sj m ts) (∀ t ∈ ts, nameFits sj t = true) ∧
    ∀ b, writeInclude sj m ts = .ok b → b.length = m.length + 4 + listLen (ts.map (encOf sj)) := by
  obtain ⟨hd, hv⟩ := encAll_decides sj ts
  unfold writeInclude writeStringList
  by_cases hall : ∀ t ∈ ts, nameFits sj t = true
  · obtain ⟨raws, hr⟩ := hd.1 hall
    have := hv raws hr
    subst this
    simp only [hr]
    refine ⟨⟨fun _ => ⟨_, rfl⟩, fun hn => absurd hall hn⟩, fun b hb => ?_⟩
    cases hb
    simp only [List.length_append, writeStrListBytes_length, strListBody_sum, listLen]
    simp [u32]
  · obtain ⟨c, hc⟩ := hd.2 hall
    simp only [hc]
    exact ⟨⟨fun h => absurd h hall, fun _ => ⟨_, rfl⟩⟩, fun b hb => by cases hb⟩

theorem writeStringList_decides (sj : Abi.Sjis) (ts : List Text) :
    Decides (writeStringList sj ts) (∀ t ∈ ts, nameFits sj t = true) := by
  obtain ⟨hd, _⟩ := encAll_decides sj ts
  unfold writeStringList
  by_cases hall : ∀ t ∈ ts, nameFits sj t = true
  · obtain ⟨raws, hr⟩ := hd.1 hall
    simp only [hr]
    exact ⟨fun _ => ⟨_, rfl⟩, fun hn => absurd hall hn⟩
  · obtain ⟨c, hc⟩ := hd.2 hall
    simp only [hc]
    exact ⟨fun h => absurd h hall, fun _ => ⟨_, rfl⟩⟩

theorem writeSubs10_decides : ∀ (scripts : List (List Instr10)) (pos : Nat),
    Decides (writeSubs10 pos scripts) (∀ s ∈ scripts, ∀ i ∈ s, fits10 i = true) ∧
    ∀ sb offs, writeSubs10 pos scripts = .ok (sb, offs) → offs.length = scripts.length := by
  intro scripts
  induction scripts with
  | nil => intro pos; exact ⟨⟨fun _ => ⟨_, rfl⟩, fun h => absurd (fun s hs => by cases hs) h⟩, fun sb offs h => by rw [writeSubs10] at h; cases h; rfl⟩
  | cons s scripts ih =>
    intro pos
    rw [writeSubs10]
    have hd := writeInstrs10_decides s
    by_cases h1 : ∀ i ∈ s, fits10 i = true
    · obtain ⟨b, hb⟩ := hd.1 h1
      simp only [hb]
      obtain ⟨ihd, ihl⟩ := ih (pos + 16 + b.length)
      by_cases h2 : ∀ t ∈ scripts, ∀ i ∈ t, fits10 i = true
      · obtain ⟨⟨sb', offs'⟩, hp⟩ := ihd.1 h2
        rw [hp]
        refine ⟨⟨fun _ => ⟨_, rfl⟩, fun hn => absurd (fun t ht => ?_) hn⟩, fun sb offs h => ?_⟩
        · rcases List.mem_cons.1 ht with rfl | ht
          · exact h1
          · exact h2 t ht
        · cases h
          simp [ihl _ _ hp]
      · obtain ⟨c, hc⟩ := ihd.2 h2
        rw [hc]
        exact ⟨⟨fun h => absurd (fun t ht => h t (List.mem_cons_of_mem _ ht)) h2, fun _ => ⟨_, rfl⟩⟩, fun sb offs h => by cases h⟩
    · obtain ⟨c, hc⟩ := hd.2 h1
      simp only [hc]
      exact ⟨⟨fun hall => absurd (hall s (List.mem_cons_self ..)) h1, fun _ => ⟨_, rfl⟩⟩, fun sb offs h => by cases h⟩

/-- `include_length`: both include sections (magic, count, padded strings) -/
def includeLen (sj : Abi.Sjis) (f : Ecl10File) : Nat :=
  (4 + 4 + listLen (f.anim.map (encOf sj))) + (4 + 4 + listLen (f.ecli.map (encOf sj)))

/-- everything `write` has to fit or encode: every include name and every sub name has an encoding
without a NUL byte (`nameFits`), the include section fits its 16-bit length field, every instruction
fits its header -/
def Ecl10Fits (sj : Abi.Sjis) (f : Ecl10File) : Prop :=
  (∀ t ∈ f.anim, nameFits sj t = true) ∧ (∀ t ∈ f.ecli, nameFits sj t = true) ∧ includeLen sj f ≤ 65535 ∧
  (∀ s ∈ f.subs, nameFits sj s.1 = true) ∧ ∀ s ∈ f.subs, ∀ i ∈ s.2, fits10 i = true

/-- **stack ECL: the writer fails exactly when a string has no encoding or an encoding that contains a
NUL (dcd07d9), the include section does not fit its 16-bit length field, or an instruction does not fit
its header - and never panics**: the
`unwrap` of `u32::try_from(include_offset)` and the `assert_eq!` on the number of offsets are dead. -/
theorem ecl10_write_err_iff (sj : Abi.Sjis) (f : Ecl10File) : Decides (writeEcl10 sj f) (Ecl10Fits sj f) := by
  unfold writeEcl10
  simp only []
  obtain ⟨hda, hla⟩ := writeInclude_decides sj animMagic f.anim
  obtain ⟨hde, hle⟩ := writeInclude_decides sj ecliMagic f.ecli
  by_cases h1 : ∀ t ∈ f.anim, nameFits sj t = true
  · obtain ⟨a, ha⟩ := hda.1 h1
    simp only [ha]
    by_cases h2 : ∀ t ∈ f.ecli, nameFits sj t = true
    · obtain ⟨e, he⟩ := hde.1 h2
      simp only [he]
      have hlen : a.length + e.length = includeLen sj f := by
        rw [hla a ha, hle e he]; rfl
      by_cases h3 : includeLen sj f ≤ 65535
      · rw [if_neg (by omega), if_neg (by decide)]
        have hdn := writeStringList_decides sj (f.subs.map (·.1))
        by_cases h4 : ∀ s ∈ f.subs, nameFits sj s.1 = true
        · obtain ⟨nb, hnb⟩ := hdn.1 (by
            intro t ht
            obtain ⟨x, hx, rfl⟩ := List.mem_map.1 ht
            exact h4 x hx)
          simp only [hnb]
          obtain ⟨hds, hls⟩ := writeSubs10_decides (f.subs.map (·.2)) (36 + (a.length + e.length) + 4 * f.subs.length + nb.length)
          by_cases h5 : ∀ s ∈ f.subs, ∀ i ∈ s.2, fits10 i = true
          · obtain ⟨⟨sb, offs⟩, hp⟩ := hds.1 (by
              intro t ht
              obtain ⟨x, hx, rfl⟩ := List.mem_map.1 ht
              exact h5 x hx)
            simp only [hp]
            rw [if_neg (by rw [hls _ _ hp, List.length_map]; exact fun h => h rfl)]
            exact ⟨fun _ => ⟨_, rfl⟩, fun hn => absurd ⟨h1, h2, h3, h4, h5⟩ hn⟩
          · obtain ⟨c, hc⟩ := hds.2 (by
              intro hall
              apply h5
              intro x hx
              exact hall x.2 (List.mem_map.2 ⟨x, hx, rfl⟩))
            simp only [hc]
            exact ⟨fun hg => absurd hg.2.2.2.2 h5, fun _ => ⟨_, rfl⟩⟩
        · obtain ⟨c, hc⟩ := hdn.2 (by
            intro hall
            apply h4
            intro x hx
            exact hall x.1 (List.mem_map.2 ⟨x, hx, rfl⟩))
          simp only [hc]
          exact ⟨fun hg => absurd hg.2.2.2.1 h4, fun _ => ⟨_, rfl⟩⟩
      · rw [if_pos (by omega)]
        exact ⟨fun hg => absurd hg.2.2.1 h3, fun _ => ⟨_, rfl⟩⟩
    · obtain ⟨c, hc⟩ := hde.2 h2
      simp only [hc]
      exact ⟨fun hg => absurd hg.2.1 h2, fun _ => ⟨_, rfl⟩⟩
  · obtain ⟨c, hc⟩ := hda.2 h1
    simp only [hc]
    exact ⟨fun hg => absurd hg.1 h1, fun _ => ⟨_, rfl⟩⟩

/-- corollary: `write` never reaches its `unwrap` or its `assert_eq!` -/
theorem ecl10_write_no_panic (sj : Abi.Sjis) (f : Ecl10File) : (writeEcl10 sj f).isPanic = false :=
  (ecl10_write_err_iff sj f).no_panic

/-- **nothing is narrowed silently below 4 GiB**: in a file `write` accepted and that is smaller than
4 GiB, the three counts written with `as u32` are below 2^32 (so `u32 x` stored `x` itself; the sub
offsets, also written with `as u32`, are positions inside the file and therefore below its length), and
the include length fits the 16 bits it is stored in. -/
theorem ecl10_write_ok_no_narrowing (sj : Abi.Sjis) (f : Ecl10File) (bs : Bytes) (hw : writeEcl10 sj f = .ok bs)
    (hlen : bs.length < 2 ^ 32) :
    includeLen sj f < 2 ^ 16 ∧ f.subs.length < 2 ^ 32 ∧ f.anim.length < 2 ^ 32 ∧ f.ecli.length < 2 ^ 32 := by
  have hfit : Ecl10Fits sj f := by
    apply Classical.byContradiction
    intro hn
    obtain ⟨c, hc⟩ := (ecl10_write_err_iff sj f).2 hn
    rw [hc] at hw; cases hw
  obtain ⟨h1, h2, h3, h4, h5⟩ := hfit
  have hsum : ∀ (raws : List Bytes), raws.length ≤ listLen raws := by
    intro raws
    have : raws.length ≤ (raws.map (fun r => r.length + 1)).sum := by
      induction raws with
      | nil => simp
      | cons r rs ih => simp only [List.map_cons, List.sum_cons, List.length_cons]; omega
    unfold listLen
    omega
  have ha := hsum (f.anim.map (encOf sj))
  have he := hsum (f.ecli.map (encOf sj))
  simp only [List.length_map] at ha he
  unfold includeLen at h3
  refine ⟨by unfold includeLen; omega, ?_, by omega, by omega⟩
  -- the offset table alone takes 4 bytes per sub
  unfold writeEcl10 at hw
  simp only [] at hw
  repeat' split at hw
  all_goals first | (cases hw; done) | skip
  rename_i hofl
  cases hw
  simp only [List.length_append, u32s_length, ne_eq, Classical.not_not] at hlen hofl
  omega

/-! ## non-vacuity, and the case the unchanged code gets wrong -/

/-- ASCII plus one two-byte character (U+3042 = 0x82 0xA0 in Shift-JIS, three bytes in UTF-8) -/
def sampleSjis : Abi.Sjis :=
  { enc := fun s => if s.all (fun c => c.toNat < 128 || c.toNat == 0x3042) then
      some (s.flatMap fun c => if c.toNat == 0x3042 then [0x82, 0xA0] else [UInt8.ofNat c.toNat]) else none,
    dec :=
      let rec go : Nat → Bytes → Option Text
        | 0, _ => none
        | _ + 1, [] => some []
        | n + 1, 0x82 :: 0xA0 :: r => (go n r).map (Char.ofNat 0x3042 :: ·)
        | n + 1, b :: r => if b < 128 then (go n r).map (Char.ofNat b.toNat :: ·) else none
      fun b => go (b.length + 1) b }

/-- two include lists (names of 0, 1, 5, 6 bytes and a non-ASCII one), two subs -/
def ecl10Example : Ecl10File :=
  { anim := ["a.anm".toList, [], [Char.ofNat 0x3042, '.', 'a']], ecli := ["x".toList, "enemy1".toList],
    subs := [("main".toList, [{ time := 5, opcode := 10, mask := 3, difficulty := 255, argCount := 5, pop := 2, blob := [1, 0, 0, 0] },
                                { time := -1, opcode := 65535, mask := 0, difficulty := 7, argCount := 0, pop := 0, blob := [] }]),
             ("sub1".toList, [])] }

set_option maxRecDepth 100000 in
example : ∃ bs, writeEcl10 sampleSjis ecl10Example = .ok bs ∧ bs.length = 164 ∧ readEcl10 sampleSjis bs = .ok ecl10Example := by
  refine ⟨_, rfl, by decide, ?_⟩
  exact ecl10_read_write sampleSjis ecl10Example _ rfl (by decide) (by decide)

set_option maxRecDepth 100000 in
/-- a name without an encoding is a diagnostic -/
example : writeEcl10 asciiSjis { anim := [[Char.ofNat 0x3042]], ecli := [], subs := [] } = .err encErr := by decide

/-- an include section of 65536 bytes is a diagnostic, not a truncated length: one name of 65516 bytes
gives 8 + 65520 + 8 -/
example (name : Text) (hn : name.length = 65516) (h : ∀ c ∈ name, c.toNat < 128) :
    ∃ c, writeEcl10 asciiSjis { anim := [name], ecli := [], subs := [] } = .err c := by
  apply (ecl10_write_err_iff _ _).2
  intro hfit
  have h3 := hfit.2.2.1
  have henc : asciiSjis.enc name = some (name.map fun c => UInt8.ofNat c.toNat) := by
    simp only [asciiSjis]
    rw [if_pos]
    simpa using h
  simp only [includeLen, listLen, encOf, List.map_cons, List.map_nil, henc, Option.getD_some, List.length_map, hn,
    List.sum_cons, List.sum_nil] at h3
  simp [padLen] at h3

/-- an include name containing U+0000 -/
def nulNameFile : Ecl10File :=
  { anim := ["a.anm".toList, [Char.ofNat 0, 'b']], ecli := ["x".toList], subs := [("main".toList, [])] }

set_option maxRecDepth 100000 in
/-- **The former violation is now a diagnostic** (dcd07d9): `meta { anim: ["a.anm", "\0b"], ecli: ["x"] }` used to
compile with exit status 0 into a file whose reader answered "failed to find magic" (the NUL ended the
string early for `read_string_list`); the writer now refuses the name.  (This theorem replaces the witness
`ecl10_nul_in_name_unreadable` of the unrepaired model.) -/
theorem ecl10_nul_in_name_rejected : writeEcl10 asciiSjis nulNameFile = .err nulErr := by decide

set_option maxRecDepth 100000 in
/-- of two faults of one list the first string decides; for one string the encoding comes first -/
example : writeEcl10 asciiSjis { anim := [[Char.ofNat 0], [Char.ofNat 0x3042]], ecli := [], subs := [] } = .err nulErr ∧
    writeEcl10 asciiSjis { anim := [[Char.ofNat 0x3042], [Char.ofNat 0]], ecli := [], subs := [] } = .err encErr := by decide

/-- **whatever `write` accepts has NUL-free names** - for every file and every codec: the include
names and the sub names all went through `write_string_list` -/
theorem ecl10_write_ok_nul_free (sj : Abi.Sjis) (f : Ecl10File) (bs : Bytes) (hw : writeEcl10 sj f = .ok bs) :
    ∀ t ∈ f.anim ++ f.ecli ++ f.subs.map (·.1), nameFits sj t = true := by
  have hfit : Ecl10Fits sj f := by
    apply Classical.byContradiction
    intro hn
    obtain ⟨c, hc⟩ := (ecl10_write_err_iff sj f).2 hn
    rw [hc] at hw; cases hw
  obtain ⟨h1, h2, _, h4, _⟩ := hfit
  intro t ht
  rcases List.mem_append.1 ht with ht | ht
  · rcases List.mem_append.1 ht with ht | ht
    · exact h1 t ht
    · exact h2 t ht
  · obtain ⟨x, hx, rfl⟩ := List.mem_map.1 ht
    exact h4 x hx

/-- **the round trip with no hypothesis about the file but the `IndexMap` invariant**: for every codec
whose decoder inverts its encoder, EVERY file `write` accepts (distinct sub names, below 4 GiB) reads
back as itself.  Before dcd07d9 this statement was false (`nulNameFile` was accepted and unreadable:
the old `ecl10_read_write_full_false`); a NUL in a name is now a diagnostic, so nothing about the
strings is left to assume. -/
theorem ecl10_read_write_full (sj : Abi.Sjis) (hcodec : ∀ t b, sj.enc t = some b → sj.dec b = some t)
    (f : Ecl10File) (bs : Bytes) (hw : writeEcl10 sj f = .ok bs) (hnd : (f.subs.map (·.1)).Nodup) (hlen : bs.length < 2 ^ 32) :
    readEcl10 sj bs = .ok f := by
  have hok : ∀ t, codecOk sj t = true := by
    intro t
    unfold codecOk
    cases h : sj.enc t with
    | none => rfl
    | some b => simp [hcodec t b h]
  apply ecl10_read_write sj f bs hw _ hlen
  simp only [wfEcl10, Bool.and_eq_true, List.all_eq_true, decide_eq_true_eq]
  exact ⟨⟨⟨fun t _ => hok t, fun t _ => hok t⟩, fun s _ => hok s.1⟩, hnd⟩

/-- the codec hypothesis is still needed (it is a law of Shift-JIS, checked by C15, not of the file):
with a decoder that does not invert the encoder an accepted file reads back differently -/
theorem ecl10_read_write_needs_codec_law :
    ∃ (sj : Abi.Sjis) (f : Ecl10File) (bs : Bytes), writeEcl10 sj f = .ok bs ∧ (f.subs.map (·.1)).Nodup ∧ bs.length < 2 ^ 32 ∧
      readEcl10 sj bs ≠ .ok f :=
  ⟨{ enc := asciiSjis.enc, dec := fun _ => some [] }, { anim := ["a".toList], ecli := [], subs := [] }, _, rfl, by decide, by decide, by decide⟩

end TruthModel.C03
