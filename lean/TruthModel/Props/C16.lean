import TruthModel.Props.C16Instr
import TruthModel.Props.C16Files
import TruthModel.Props.C16Anm
import TruthModel.Props.C16AnmAmpl
import TruthModel.Props.C16Ecl10
/-
C16 — any binary input ends in success or a diagnostic, never a crash.

* `Props/C16Instr.lean`: instruction level - `readInstr` / `readInstrs` of every header layout are
  total, panic-free, fuel-sufficient and allocation-bounded for EVERY byte string.
* `Props/C16Files.lean`: container level - the same for whole MSG, STD, mission MSG and old ECL
  files (`*_read_no_panic`, `*_read_total`, `*_read_alloc_bound`), including the formerly panicking
  input of the old ECL reader (`ecl_read_formerly_panicking_input`, repaired by 8c247ce) and the
  amplification of the STD / ECL offset tables (`std_alloc_amplification`, open).
* `Props/C16Anm.lean`: the ANM container (`anm_read_panic_only_counter`, `anm_read_no_panic_partial`, `anm_read_total`,
  `anm_entry_chain_terminates`, `anm_entry_loop_check_dead`, `anm_read_alloc_bound_partial`, the amplification witnesses);
  `Props/C16AnmAmpl.lean`: `anm_shared_texture_reads`, `anm_read_alloc_bound_full_false`.
* `Props/C16Ecl10.lean`: stack ECL (TH10 and later) - `readInstr10_no_panic`, `readInstr10_consumes`,
  `readInstrs10_fuel_suffices`, `readInstrs10_total`, `readInstrs10_exact`; the container: `ecl10_read_no_panic`
  (every byte string, every codec; `ecl10_asserts_dead`), `ecl10_read_total`, `ecl10_read_alloc_bound` (linear, no
  table factor: `readSubsAux_tiles`).
-/
