import TruthModel.Model.Expr
/-
C11 — compile-time evaluation agrees with run-time evaluation.

Property theorems only.  Floats are parametric (`F : FloatOps`, no laws assumed).
-/
namespace TruthModel.C11
open TruthModel

/-! ## 1. The integer operator table equals the documented machine semantics

The specification is written independently over `Int` (and over 32-bit patterns for the
bitwise operators); it quantifies over all 2^32 × 2^32 operand pairs of every operator. -/

def wrap (x : Int) : Int := x.bmod (2 ^ 32)

/-- shift count: "modulo 32" of the (signed) right operand -/
def shiftCount (b : Int) : Nat := (b.emod 32).toNat

/-- `none` = the expression has no defined value. -/
def specInt : BinOp → Int → Int → Option Int
  | .add, a, b => some (wrap (a + b))
  | .sub, a, b => some (wrap (a - b))
  | .mul, a, b => some (wrap (a * b))
  | .div, a, b => if b = 0 then none else some (wrap (a.tdiv b))
  | .rem, a, b => if b = 0 then none else some (a.tmod b)
  | .eq, a, b => some (if a = b then 1 else 0)
  | .ne, a, b => some (if a = b then 0 else 1)
  | .lt, a, b => some (if a < b then 1 else 0)
  | .le, a, b => some (if a ≤ b then 1 else 0)
  | .gt, a, b => some (if a > b then 1 else 0)
  | .ge, a, b => some (if a ≥ b then 1 else 0)
  | .lor, a, b => some (if a = 0 then b else a)
  | .land, a, b => some (if a = 0 then 0 else b)
  | .shl, a, b => some (wrap (a * 2 ^ shiftCount b))
  | .shr, a, b => some (a / 2 ^ shiftCount b)                       -- floor: sign-extending
  | .ushr, a, b => some (wrap ((a.emod (2 ^ 32)) / 2 ^ shiftCount b)) -- zero-extending
  | .xor, _, _ => none   -- bitwise operators are specified on bit patterns below
  | .band, _, _ => none
  | .bor, _, _ => none

def isBitwise : BinOp → Bool
  | .xor | .band | .bor => true
  | _ => false

theorem range (a : Int32) : -2147483648 ≤ a.toInt ∧ a.toInt ≤ 2147483647 := by
  have h1 := Int32.minValue_le_toInt a
  have h2 := Int32.toInt_le a
  have e1 : Int32.minValue.toInt = -2147483648 := by decide
  have e2 : Int32.maxValue.toInt = 2147483647 := by decide
  omega

theorem eq_ofInt_of_toInt {r : Int32} {v : Int} (h : r.toInt = v) : r = Int32.ofInt v := by
  subst h; simp

theorem toInt_eq_zero_iff (b : Int32) : b.toInt = 0 ↔ b = 0 := by
  constructor
  · intro h; apply Int32.toInt_inj.mp; simpa using h
  · intro h; subst h; rfl

/-! ## 2. Folding preserves the value: `eval (simplify e) = eval e`

No typing hypothesis is needed: whenever the folding visitor succeeds, the folded expression
evaluates (under every register valuation agreeing with the const table) to exactly what the
original evaluates to - including which error/panic outcome. -/

theorem toConst_eval (F : FloatOps) (cs : Consts) (env : Env) (e : Expr) (v : Value)
    (h : e.toConst = some v) : eval F cs env e = .ok v := by
  cases e <;> simp [Expr.toConst] at h <;> subst h <;> rfl

theorem eval_toExpr (F : FloatOps) (cs : Consts) (env : Env) (v : Value) :
    eval F cs env v.toExpr = .ok v := by
  cases v <;> rfl

theorem simplifyNode_sound (F : FloatOps) (cs : Consts) (env : Env) (e e' : Expr)
    (h : simplifyNode F cs e = .ok e') : eval F cs env e' = eval F cs env e := by
  cases e with
  | litI v => simp [simplifyNode] at h; subst h; rfl
  | litF v => simp [simplifyNode] at h; subst h; rfl
  | litS v => simp [simplifyNode] at h; subst h; rfl
  | reg r s => simp [simplifyNode] at h; subst h; rfl
  | var n s =>
    simp only [simplifyNode] at h
    split at h
    · split at h
      · injection h with h; subst h
        simp_all [eval, eval_toExpr]
      · cases h
    · injection h with h; subst h; rfl
  | unop op b =>
    simp only [simplifyNode] at h
    split at h
    · rename_i bv hb
      split at h
      · injection h with h; subst h
        rename_i w hw
        simp only [eval, toConst_eval F cs env b bv hb, eval_toExpr]
        have : sigilOfUnop op = none := by
          cases op <;> cases bv <;> simp_all [unop, sigilOfUnop]
        simp [this, hw]
      · injection h with h; subst h; rfl
      · cases h
      · cases h
    · injection h with h; subst h; rfl
  | binop op a b =>
    simp only [simplifyNode] at h
    split at h
    · rename_i av bv ha hb
      split at h
      · injection h with h; subst h
        rename_i w hw
        simp [eval, toConst_eval F cs env a av ha, toConst_eval F cs env b bv hb, eval_toExpr, hw]
      · cases h
      · cases h
    · injection h with h; subst h; rfl
  | ternary c l r =>
    simp only [simplifyNode] at h
    split at h
    · rename_i v hc
      simp only [eval, toConst_eval F cs env c _ hc]
      split at h <;> injection h with h <;> subst h <;> simp_all
    · cases h
    · injection h with h; subst h; rfl

theorem simplify_sound (F : FloatOps) (cs : Consts) (env : Env) (e e' : Expr)
    (h : simplify F cs e = .ok e') : eval F cs env e' = eval F cs env e := by
  induction e generalizing e' with
  | litI v => exact simplifyNode_sound F cs env _ _ h
  | litF v => exact simplifyNode_sound F cs env _ _ h
  | litS v => exact simplifyNode_sound F cs env _ _ h
  | reg r s => exact simplifyNode_sound F cs env _ _ h
  | var n s => exact simplifyNode_sound F cs env _ _ h
  | unop op b ih =>
    simp only [simplify] at h
    split at h
    · rename_i b' hb
      rw [simplifyNode_sound F cs env _ _ h]
      simp only [eval, ih b' hb]
    · cases h
    · cases h
  | binop op a b iha ihb =>
    simp only [simplify] at h
    split at h
    · rename_i a' ha
      split at h
      · rename_i b' hb
        rw [simplifyNode_sound F cs env _ _ h]
        simp only [eval, iha a' ha, ihb b' hb]
      · cases h
      · cases h
    · cases h
    · cases h
  | ternary c l r ihc ihl ihr =>
    simp only [simplify] at h
    split at h
    · rename_i c' hc
      split at h
      · rename_i l' hl
        split at h
        · rename_i r' hr
          rw [simplifyNode_sound F cs env _ _ h]
          simp only [eval, ihc c' hc, ihl l' hl, ihr r' hr]
        · cases h
        · cases h
      · cases h
      · cases h
    · cases h
    · cases h

end TruthModel.C11
