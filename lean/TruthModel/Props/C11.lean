import TruthModel.Model.Expr
/-
C11 — compile-time evaluation agrees with run-time evaluation.

Property theorems only.  Floats are parametric (`F : FloatOps`, no laws assumed).
-/
namespace TruthModel.C11
open TruthModel

/-! ## 1. The integer operator table equals the documented machine semantics

The specification is written independently over `Int` (and over 32-bit patterns for the
bitwise operators); it quantifies over all 2^32 × 2^32 operand pairs of every operator. -/

def wrap (x : Int) : Int := x.bmod (2 ^ 32)

/-- shift count: "modulo 32" of the (signed) right operand -/
def shiftCount (b : Int) : Nat := (b.emod 32).toNat

/-- `none` = the expression has no defined value. -/
def specInt : BinOp → Int → Int → Option Int
  | .add, a, b => some (wrap (a + b))
  | .sub, a, b => some (wrap (a - b))
  | .mul, a, b => some (wrap (a * b))
  | .div, a, b => if b = 0 then none else some (wrap (a.tdiv b))
  | .rem, a, b => if b = 0 then none else some (a.tmod b)
  | .eq, a, b => some (if a = b then 1 else 0)
  | .ne, a, b => some (if a = b then 0 else 1)
  | .lt, a, b => some (if a < b then 1 else 0)
  | .le, a, b => some (if a ≤ b then 1 else 0)
  | .gt, a, b => some (if a > b then 1 else 0)
  | .ge, a, b => some (if a ≥ b then 1 else 0)
  | .lor, a, b => some (if a = 0 then b else a)
  | .land, a, b => some (if a = 0 then 0 else b)
  | .shl, a, b => some (wrap (a * 2 ^ shiftCount b))
  | .shr, a, b => some (a / 2 ^ shiftCount b)                       -- floor: sign-extending
  | .ushr, a, b => some (wrap ((a.emod (2 ^ 32)) / 2 ^ shiftCount b)) -- zero-extending
  | .xor, _, _ => none   -- bitwise operators are specified on bit patterns below
  | .band, _, _ => none
  | .bor, _, _ => none

def isBitwise : BinOp → Bool
  | .xor | .band | .bor => true
  | _ => false

theorem range (a : Int32) : -2147483648 ≤ a.toInt ∧ a.toInt ≤ 2147483647 := by
  have h1 := Int32.minValue_le_toInt a
  have h2 := Int32.toInt_le a
  have e1 : Int32.minValue.toInt = -2147483648 := by decide
  have e2 : Int32.maxValue.toInt = 2147483647 := by decide
  omega

theorem eq_ofInt_of_toInt {r : Int32} {v : Int} (h : r.toInt = v) : r = Int32.ofInt v := by
  subst h; simp

theorem toInt_eq_zero_iff (b : Int32) : b.toInt = 0 ↔ b = 0 := by
  constructor
  · intro h; apply Int32.toInt_inj.mp; simpa using h
  · intro h; subst h; rfl

/-! ## 2. Folding preserves the value: `eval (simplify e) = eval e`

No typing hypothesis is needed: whenever the folding visitor succeeds, the folded expression
evaluates (under every register valuation agreeing with the const table) to exactly what the
original evaluates to - including which error/panic outcome. -/

theorem toConst_eval (F : FloatOps) (cs : Consts) (env : Env) (e : Expr) (v : Value)
    (h : e.toConst = some v) : eval F cs env e = .ok v := by
  cases e <;> simp [Expr.toConst] at h <;> subst h <;> rfl

theorem eval_toExpr (F : FloatOps) (cs : Consts) (env : Env) (v : Value) :
    eval F cs env v.toExpr = .ok v := by
  cases v <;> rfl

theorem simplifyNode_sound (F : FloatOps) (cs : Consts) (env : Env) (e e' : Expr)
    (h : simplifyNode F cs e = .ok e') : eval F cs env e' = eval F cs env e := by
  cases e with
  | litI v => simp [simplifyNode] at h; subst h; rfl
  | litF v => simp [simplifyNode] at h; subst h; rfl
  | litS v => simp [simplifyNode] at h; subst h; rfl
  | reg r s => simp [simplifyNode] at h; subst h; rfl
  | var n s =>
    simp only [simplifyNode] at h
    split at h
    · split at h
      · injection h with h; subst h
        simp_all [eval, eval_toExpr]
      · cases h
    · injection h with h; subst h; rfl
  | unop op b =>
    simp only [simplifyNode] at h
    split at h
    · rename_i bv hb
      split at h
      · injection h with h; subst h
        rename_i w hw
        simp only [eval, toConst_eval F cs env b bv hb, eval_toExpr]
        have : sigilOfUnop op = none := by
          cases op <;> cases bv <;> simp_all [unop, sigilOfUnop]
        simp [this, hw]
      · injection h with h; subst h; rfl
      · cases h
      · cases h
    · injection h with h; subst h; rfl
  | binop op a b =>
    simp only [simplifyNode] at h
    split at h
    · rename_i av bv ha hb
      split at h
      · injection h with h; subst h
        rename_i w hw
        simp [eval, toConst_eval F cs env a av ha, toConst_eval F cs env b bv hb, eval_toExpr, hw]
      · cases h
      · cases h
    · injection h with h; subst h; rfl
  | ternary c l r =>
    simp only [simplifyNode] at h
    split at h
    · rename_i v hc
      simp only [eval, toConst_eval F cs env c _ hc]
      split at h <;> injection h with h <;> subst h <;> simp_all
    · cases h
    · injection h with h; subst h; rfl

theorem simplify_sound (F : FloatOps) (cs : Consts) (env : Env) (e e' : Expr)
    (h : simplify F cs e = .ok e') : eval F cs env e' = eval F cs env e := by
  induction e generalizing e' with
  | litI v => exact simplifyNode_sound F cs env _ _ h
  | litF v => exact simplifyNode_sound F cs env _ _ h
  | litS v => exact simplifyNode_sound F cs env _ _ h
  | reg r s => exact simplifyNode_sound F cs env _ _ h
  | var n s => exact simplifyNode_sound F cs env _ _ h
  | unop op b ih =>
    simp only [simplify] at h
    split at h
    · rename_i b' hb
      rw [simplifyNode_sound F cs env _ _ h]
      simp only [eval, ih b' hb]
    · cases h
    · cases h
  | binop op a b iha ihb =>
    simp only [simplify] at h
    split at h
    · rename_i a' ha
      split at h
      · rename_i b' hb
        rw [simplifyNode_sound F cs env _ _ h]
        simp only [eval, iha a' ha, ihb b' hb]
      · cases h
      · cases h
    · cases h
    · cases h
  | ternary c l r ihc ihl ihr =>
    simp only [simplify] at h
    split at h
    · rename_i c' hc
      split at h
      · rename_i l' hl
        split at h
        · rename_i r' hr
          rw [simplifyNode_sound F cs env _ _ h]
          simp only [eval, ihc c' hc, ihl l' hl, ihr r' hr]
        · cases h
        · cases h
      · cases h
      · cases h
    · cases h
    · cases h


/-! ## 3. The integer operator table, operator by operator, against `specInt`

`binopInt_spec` quantifies over all 2^32 × 2^32 operand pairs of every non-bitwise operator;
nothing is enumerated, the proofs go through the `toInt` characterisations of the fixed-width
operations in core. -/

theorem wrap_id {x : Int} (h1 : -2147483648 ≤ x) (h2 : x ≤ 2147483647) : wrap x = x := by
  unfold wrap; simp only [Int.bmod_def]; omega

theorem toUInt32_toNat (b : Int32) : b.toUInt32.toNat = (b.toInt % 4294967296).toNat := by
  have h2 : b.toUInt32.toNat = b.toBitVec.toNat := by rw [← Int32.toBitVec_toUInt32 b]; rfl
  rw [h2, ← Int32.toInt_toBitVec, BitVec.toInt_eq_toNat_bmod]
  have := b.toBitVec.isLt
  simp only [Int.bmod_def]; omega

theorem toUInt32_toNat_cast (b : Int32) :
    (b.toUInt32.toNat : Int) = b.toInt % ((4294967296 : Nat) : Int) := by
  rw [toUInt32_toNat]; omega

theorem toInt32_toInt (u : UInt32) : u.toInt32.toInt = (u.toNat : Int).bmod (2 ^ 32) := by
  rw [← Int32.toInt_toBitVec, UInt32.toBitVec_toInt32, BitVec.toInt_eq_toNat_bmod]; rfl

theorem pow32 : (2 : Nat) ^ 32 = 4294967296 := by decide
theorem two_cast : ((2 : Nat) : Int) = 2 := rfl

/-- `handle_shift_rhs`: the count actually used is the right operand modulo 32 (Euclidean, so
a negative right operand counts from 32 downwards). -/
theorem shiftRhs_toNat (b : Int32) : (shiftRhs b).toNat = shiftCount b.toInt := by
  unfold shiftRhs shiftCount
  rw [UInt32.toNat_mod, toUInt32_toNat]
  show _ % 32 = _
  have : b.toInt.emod 32 = b.toInt % 32 := rfl
  rw [this]
  omega

theorem shiftCount_lt (b : Int) : shiftCount b < 32 := by
  unfold shiftCount
  have : b.emod 32 = b % 32 := rfl
  rw [this]; omega

theorem smod32_toNat (x : BitVec 32) (h : x.toNat < 32) : (x.smod 32).toNat = x.toNat := by
  have hx : x.msb = false := by rw [BitVec.msb_eq_false_iff_two_mul_lt]; omega
  have hy : (32 : BitVec 32).msb = false := by decide
  rw [BitVec.toNat_smod, hx, hy]
  simp only [BitVec.umod_eq, BitVec.toNat_umod]
  exact Nat.mod_eq_of_lt h

theorem spec_shl (a b : Int32) :
    (a.toUInt32 <<< shiftRhs b).toInt32
      = Int32.ofInt (wrap (a.toInt * 2 ^ shiftCount b.toInt)) := by
  apply eq_ofInt_of_toInt
  rw [toInt32_toInt, UInt32.toNat_shiftLeft, shiftRhs_toNat,
    Nat.mod_eq_of_lt (shiftCount_lt b.toInt), Nat.shiftLeft_eq]
  unfold wrap
  generalize shiftCount b.toInt = k
  rw [pow32, Int.natCast_emod, Int.natCast_mul, Int.natCast_pow, two_cast,
    Int.emod_bmod, ← Int.bmod_mul_bmod, toUInt32_toNat_cast, Int.emod_bmod, Int.bmod_mul_bmod]

theorem spec_shr (a b : Int32) :
    a >>> (shiftRhs b).toInt32 = Int32.ofInt (a.toInt / 2 ^ shiftCount b.toInt) := by
  apply eq_ofInt_of_toInt
  have h : (shiftRhs b).toNat < 32 := by rw [shiftRhs_toNat]; exact shiftCount_lt _
  rw [← Int32.toInt_toBitVec, Int32.toBitVec_shiftRight, BitVec.toInt_sshiftRight',
    UInt32.toBitVec_toInt32, smod32_toNat _ h, Int.shiftRight_eq_div_pow, Int32.toInt_toBitVec,
    Int.natCast_pow, two_cast]
  show a.toInt / 2 ^ (shiftRhs b).toNat = _
  rw [shiftRhs_toNat]

theorem spec_ushr (a b : Int32) :
    (a.toUInt32 >>> shiftRhs b).toInt32
      = Int32.ofInt (wrap ((a.toInt.emod (2 ^ 32)) / 2 ^ shiftCount b.toInt)) := by
  apply eq_ofInt_of_toInt
  rw [toInt32_toInt, UInt32.toNat_shiftRight, shiftRhs_toNat,
    Nat.mod_eq_of_lt (shiftCount_lt b.toInt), Nat.shiftRight_eq_div_pow]
  unfold wrap
  generalize shiftCount b.toInt = k
  rw [Int.natCast_ediv, Int.natCast_pow, toUInt32_toNat_cast, two_cast]
  rfl

theorem b2i_ofInt (p : Prop) [Decidable p] :
    b2i (decide p) = Int32.ofInt (if p then 1 else 0) := by
  by_cases h : p <;> simp [b2i, h] <;> rfl

/-- **Operator table = machine semantics**, all non-bitwise operators, all operands. -/
theorem binopInt_spec (op : BinOp) (a b : Int32) (hop : isBitwise op = false) :
    binopInt op a b = match specInt op a.toInt b.toInt with
      | some v => .ok (.int (Int32.ofInt v))
      | none => .err "const evaluation error" := by
  cases op <;> simp only [isBitwise] at hop <;> try (cases hop)
  · simp only [binopInt, specInt]; congr 2; apply eq_ofInt_of_toInt; rw [Int32.toInt_add]; rfl
  · simp only [binopInt, specInt]; congr 2; apply eq_ofInt_of_toInt; rw [Int32.toInt_sub]; rfl
  · simp only [binopInt, specInt]; congr 2; apply eq_ofInt_of_toInt; rw [Int32.toInt_mul]; rfl
  · simp only [binopInt, specInt, toInt_eq_zero_iff]
    split
    · rfl
    · congr 2; apply eq_ofInt_of_toInt; rw [Int32.toInt_div]; rfl
  · simp only [binopInt, specInt, toInt_eq_zero_iff]
    split
    · rfl
    · congr 2; apply eq_ofInt_of_toInt; rw [Int32.toInt_mod]
  · simp only [binopInt, specInt, Int32.toInt_inj]
    congr 2; rw [← b2i_ofInt]; congr 1
  · simp only [binopInt, specInt, Int32.toInt_inj]
    congr 2
    by_cases h : a = b <;> simp [h, b2i] <;> rfl
  · simp only [binopInt, specInt, ← Int32.lt_iff_toInt_lt, b2i_ofInt]
  · simp only [binopInt, specInt, ← Int32.le_iff_toInt_le, b2i_ofInt]
  · simp only [binopInt, specInt, GT.gt, ← Int32.lt_iff_toInt_lt, b2i_ofInt]
  · simp only [binopInt, specInt, GE.ge, ← Int32.le_iff_toInt_le, b2i_ofInt]
  · simp only [binopInt, specInt, toInt_eq_zero_iff]
    split <;> simp
  · simp only [binopInt, specInt, toInt_eq_zero_iff]
    split <;> simp <;> rfl
  · simp only [binopInt, specInt, spec_shl]
  · simp only [binopInt, specInt, spec_shr]
  · simp only [binopInt, specInt, spec_ushr]

/-- the hypothesis is satisfiable and the statement has content: `7 / 2`, `-7 / 2` (truncation),
`1 << 33` (count modulo 32), `-8 >> 1` (sign extension), `-1 >>> 28` (zero extension). -/
example : binopInt .div (-7) 2 = .ok (.int (-3)) ∧ specInt .div (-7) 2 = some (-3) := by decide
example : binopInt .shl 1 33 = .ok (.int 2) := by decide
example : binopInt .shr (-8) 1 = .ok (.int (-4)) := by decide
example : binopInt .ushr (-1) 28 = .ok (.int 15) := by decide
example : specInt .shl 1 33 = some 2 ∧ specInt .shr (-8) 1 = some (-4)
    ∧ specInt .ushr (-1) 28 = some 15 := by decide
example : isBitwise .shl = false := rfl

/-- Division by zero is the only undefined integer operation, and it is an error, not a panic. -/
theorem binopInt_err_iff (op : BinOp) (a b : Int32) :
    (∃ c, binopInt op a b = .err c) ↔ ((op = .div ∨ op = .rem) ∧ b = 0) := by
  cases op <;> simp [binopInt] <;> split <;> simp_all

example : binopInt .rem 5 0 = .err "const evaluation error" := by decide

/-- The bitwise operators act on the 32-bit patterns. -/
theorem bitwise_spec (a b : Int32) :
    (∃ r, binopInt .xor a b = .ok (.int r) ∧ r.toBitVec = a.toBitVec ^^^ b.toBitVec) ∧
    (∃ r, binopInt .band a b = .ok (.int r) ∧ r.toBitVec = a.toBitVec &&& b.toBitVec) ∧
    (∃ r, binopInt .bor a b = .ok (.int r) ∧ r.toBitVec = a.toBitVec ||| b.toBitVec) :=
  ⟨⟨_, rfl, Int32.toBitVec_xor a b⟩, ⟨_, rfl, Int32.toBitVec_and a b⟩,
   ⟨_, rfl, Int32.toBitVec_or a b⟩⟩

example : binopInt .xor 12 10 = .ok (.int 6) ∧ binopInt .band 12 10 = .ok (.int 8)
    ∧ binopInt .bor 12 10 = .ok (.int 14) := by decide

/-- Unary integer operators: `-x` wraps, `!x` is 1 exactly for `x = 0`, `~x` is `-x-1`
(which never leaves the range). -/
theorem unop_int_spec (F : FloatOps) (x : Int32) :
    unop F .neg (.int x) = .ok (some (.int (Int32.ofInt (wrap (-x.toInt))))) ∧
    unop F .not (.int x) = .ok (some (.int (if x = 0 then 1 else 0))) ∧
    unop F .bnot (.int x) = .ok (some (.int (Int32.ofInt (-x.toInt - 1)))) := by
  refine ⟨?_, ?_, ?_⟩
  · simp only [unop]; congr 3; apply eq_ofInt_of_toInt; rw [Int32.toInt_neg]; rfl
  · simp only [unop, b2i]; congr 3; simp
  · simp only [unop]; congr 3; apply eq_ofInt_of_toInt; rw [Int32.toInt_not]
    have := range x
    exact wrap_id (by omega) (by omega)

/-! `i32::MIN` corner cases: `wrapping_div`/`wrapping_rem`/`wrapping_neg` wrap, they do not trap. -/
theorem div_min_neg_one : binopInt .div Int32.minValue (-1) = .ok (.int Int32.minValue) := by
  decide
theorem rem_min_neg_one : binopInt .rem Int32.minValue (-1) = .ok (.int 0) := by decide
theorem neg_min (F : FloatOps) :
    unop F .neg (.int Int32.minValue) = .ok (some (.int Int32.minValue)) := by
  simp only [unop]; congr 3
example : specInt .div (-2147483648) (-1) = some (-2147483648) := by decide
example : binopInt .mul 65536 65536 = .ok (.int 0) := by decide
example : binopInt .add Int32.maxValue 1 = .ok (.int Int32.minValue) := by decide

/-! ## 4. No panic on equal operand types (what the type checker guarantees) -/

/-- operators that exist only on integers: the `uncaught_type_error` arms for floats -/
def isIntOnly : BinOp → Bool
  | .lor | .land | .xor | .band | .bor | .shl | .shr | .ushr => true
  | _ => false

theorem binopInt_no_panic (op : BinOp) (a b : Int32) (s : String) :
    binopInt op a b ≠ .panic s := by
  cases op <;> simp only [binopInt] <;> (try split) <;> intro h <;> cases h

theorem binop_no_panic_of_same_type (F : FloatOps) (op : BinOp) (a b : Int32) (s : String) :
    binop F op (.int a) (.int b) ≠ .panic s :=
  binopInt_no_panic op a b s

theorem binop_float_panic_iff (F : FloatOps) (op : BinOp) (a b : UInt32) :
    (∃ s, binop F op (.float a) (.float b) = .panic s) ↔ isIntOnly op = true := by
  cases op <;> simp [binop, binopFloat, isIntOnly]

/-- Mixed operand types always reach the `uncaught_type_error` arm. -/
theorem binop_mixed_panics (F : FloatOps) (op : BinOp) (a b : Value) (h : a.ty ≠ b.ty) :
    binop F op a b = .panic typeErrorSite := by
  cases a <;> cases b <;> simp_all [binop, Value.ty]

/-- Strings have no binary operators at all. -/
theorem binop_str_panics (F : FloatOps) (op : BinOp) (a b : String) :
    binop F op (.str a) (.str b) = .panic typeErrorSite := rfl

example (F : FloatOps) : binop F .shl (.float 0) (.float 0) = .panic typeErrorSite := rfl
example (F : FloatOps) : binop F .add (.float 1) (.float 2) = .ok (.float (F.add 1 2)) := rfl
example (F : FloatOps) : binop F .add (.int 1) (.float 2) = .panic typeErrorSite :=
  binop_mixed_panics F .add _ _ (by decide)

/-! ## 5. The two tree walkers agree

`constEval` (`Evaluator::_const_eval`) and the folding visitor `simplify` are separate pieces of
code that "must be updated in sync".  Whenever `constEval` produces a value, the visitor folds
the whole expression to exactly that literal, and the VM evaluates it to that value under every
register valuation. -/

/-- const table `c0 = 5` -/
def exCs : Consts := fun n => if n = 0 then some (.int 5) else none
/-- `c0 + -(2)` -/
def exE : Expr := .binop .add (.var 0 none) (.unop .neg (.litI 2))

@[simp] theorem toConst_toExpr (v : Value) : v.toExpr.toConst = some v := by cases v <;> rfl

theorem simplify_toExpr (F : FloatOps) (cs : Consts) (v : Value) :
    simplify F cs v.toExpr = .ok v.toExpr := by cases v <;> rfl

theorem constEval_simplify (F : FloatOps) (cs : Consts) (e : Expr) (v : Value)
    (h : constEval F cs e = .ok v) : simplify F cs e = .ok v.toExpr := by
  induction e generalizing v with
  | litI x => simp only [constEval] at h; injection h with h; subst h; rfl
  | litF x => simp only [constEval] at h; injection h with h; subst h; rfl
  | litS x => simp only [constEval] at h; injection h with h; subst h; rfl
  | reg r s => cases h
  | var n s =>
    simp only [constEval] at h
    simp only [simplify, simplifyNode]
    split at h
    · split at h
      · injection h with h; subst h; simp_all
      · cases h
    · cases h
  | unop op b ih =>
    simp only [constEval] at h
    split at h
    · rename_i bv hb
      simp only [simplify, ih bv hb, simplifyNode, toConst_toExpr]
      split at h
      · rename_i w hw; injection h with h; subst h; simp
      · cases h
      · cases h
      · cases h
    · cases h
    · cases h
  | binop op a b iha ihb =>
    simp only [constEval] at h
    split at h
    · rename_i av ha
      split at h
      · rename_i bv hb
        simp only [simplify, iha av ha, ihb bv hb, simplifyNode, toConst_toExpr, h]
      · cases h
      · cases h
    · cases h
    · cases h
  | ternary c l r ihc ihl ihr =>
    simp only [constEval] at h
    split at h
    · rename_i cv hc
      split at h
      · rename_i lv hl
        split at h
        · rename_i rv hr
          simp only [simplify, ihc cv hc, ihl lv hl, ihr rv hr, simplifyNode, toConst_toExpr]
          split at h
          · split at h <;> injection h with h <;> subst h <;> simp_all
          · cases h
        · cases h
        · cases h
      · cases h
      · cases h
    · cases h
    · cases h

example (F : FloatOps) : constEval F exCs exE = .ok (.int 3) := rfl
example (F : FloatOps) : simplify F exCs exE = .ok (.litI 3) :=
  constEval_simplify F exCs exE (.int 3) rfl
/-- the converse fails on the sigil operators: folded by neither, rejected by `constEval` -/
example (F : FloatOps) :
    constEval F exCs (.unop .sigI (.litI 1)) = .err "const evaluation error"
    ∧ simplify F exCs (.unop .sigI (.litI 1)) = .ok (.unop .sigI (.litI 1)) := ⟨rfl, rfl⟩

theorem constEval_eq_eval (F : FloatOps) (cs : Consts) (e : Expr) (v : Value)
    (h : constEval F cs e = .ok v) (env : Env) : eval F cs env e = .ok v := by
  rw [← simplify_sound F cs env e _ (constEval_simplify F cs e v h), eval_toExpr]

example (F : FloatOps) (env : Env) : eval F exCs env exE = .ok (.int 3) :=
  constEval_eq_eval F exCs exE (.int 3) rfl env
/-- ... and here the VM gives a value (`$(1)` is a cast) although `constEval` rejects -/
example (F : FloatOps) (env : Env) :
    eval F exCs env (.unop .sigI (.litI 1)) = .ok (.int 1) := rfl

/-! ## 6. One run of the folding pass reaches the fixed point -/

/-- What the node step can return: a literal, the node itself, or (ternary with a literal
condition) one of the two branches. -/
theorem simplifyNode_cases (F : FloatOps) (cs : Consts) (e e' : Expr)
    (h : simplifyNode F cs e = .ok e') :
    (∃ v : Value, e' = v.toExpr) ∨ e' = e ∨ (∃ c l r, e = .ternary c l r ∧ (e' = l ∨ e' = r)) := by
  cases e with
  | litI v => simp [simplifyNode] at h; subst h; exact .inr (.inl rfl)
  | litF v => simp [simplifyNode] at h; subst h; exact .inr (.inl rfl)
  | litS v => simp [simplifyNode] at h; subst h; exact .inr (.inl rfl)
  | reg r s => simp [simplifyNode] at h; subst h; exact .inr (.inl rfl)
  | var n s =>
    simp only [simplifyNode] at h
    split at h
    · split at h
      · injection h with h; subst h; exact .inl ⟨_, rfl⟩
      · cases h
    · injection h with h; subst h; exact .inr (.inl rfl)
  | unop op b =>
    simp only [simplifyNode] at h
    split at h
    · split at h
      · injection h with h; subst h; exact .inl ⟨_, rfl⟩
      · injection h with h; subst h; exact .inr (.inl rfl)
      · cases h
      · cases h
    · injection h with h; subst h; exact .inr (.inl rfl)
  | binop op a b =>
    simp only [simplifyNode] at h
    split at h
    · split at h
      · injection h with h; subst h; exact .inl ⟨_, rfl⟩
      · cases h
      · cases h
    · injection h with h; subst h; exact .inr (.inl rfl)
  | ternary c l r =>
    simp only [simplifyNode] at h
    split at h
    · split at h <;> injection h with h <;> subst h
      · exact .inr (.inr ⟨_, _, _, rfl, .inr rfl⟩)
      · exact .inr (.inr ⟨_, _, _, rfl, .inl rfl⟩)
    · cases h
    · injection h with h; subst h; exact .inr (.inl rfl)

/-- The folding pass reaches its fixed point in one run. -/
theorem simplify_idempotent (F : FloatOps) (cs : Consts) (e e' : Expr)
    (h : simplify F cs e = .ok e') : simplify F cs e' = .ok e' := by
  induction e generalizing e' with
  | litI v => simp [simplify, simplifyNode] at h; subst h; rfl
  | litF v => simp [simplify, simplifyNode] at h; subst h; rfl
  | litS v => simp [simplify, simplifyNode] at h; subst h; rfl
  | reg r s => simp [simplify, simplifyNode] at h; subst h; rfl
  | var n s =>
    have h' : simplifyNode F cs (.var n s) = .ok e' := h
    rcases simplifyNode_cases F cs _ _ h' with ⟨v, rfl⟩ | rfl | ⟨_, _, _, hc, _⟩
    · exact simplify_toExpr F cs v
    · exact h
    · cases hc
  | unop op b ih =>
    simp only [simplify] at h
    split at h
    · rename_i b' hb
      rcases simplifyNode_cases F cs _ _ h with ⟨v, rfl⟩ | rfl | ⟨_, _, _, hc, _⟩
      · exact simplify_toExpr F cs v
      · simp only [simplify, ih b' hb, h]
      · cases hc
    · cases h
    · cases h
  | binop op a b iha ihb =>
    simp only [simplify] at h
    split at h
    · rename_i a' ha
      split at h
      · rename_i b' hb
        rcases simplifyNode_cases F cs _ _ h with ⟨v, rfl⟩ | rfl | ⟨_, _, _, hc, _⟩
        · exact simplify_toExpr F cs v
        · simp only [simplify, iha a' ha, ihb b' hb, h]
        · cases hc
      · cases h
      · cases h
    · cases h
    · cases h
  | ternary c l r ihc ihl ihr =>
    simp only [simplify] at h
    split at h
    · rename_i c' hc
      split at h
      · rename_i l' hl
        split at h
        · rename_i r' hr
          rcases simplifyNode_cases F cs _ _ h with ⟨v, rfl⟩ | rfl | ⟨_, _, _, hc, hlr⟩
          · exact simplify_toExpr F cs v
          · simp only [simplify, ihc c' hc, ihl l' hl, ihr r' hr, h]
          · injection hc with h1 h2 h3; subst h1 h2 h3
            rcases hlr with rfl | rfl
            · exact ihl _ hl
            · exact ihr _ hr
        · cases h
        · cases h
      · cases h
      · cases h
    · cases h
    · cases h

/-- `REG[1] + 2 * 3` folds to `REG[1] + 6`, and that is a fixed point -/
example (F : FloatOps) :
    simplify F exCs (.binop .add (.reg 1 none) (.binop .mul (.litI 2) (.litI 3)))
      = .ok (.binop .add (.reg 1 none) (.litI 6)) := rfl
example (F : FloatOps) : simplify F exCs (.binop .add (.reg 1 none) (.litI 6))
    = .ok (.binop .add (.reg 1 none) (.litI 6)) :=
  simplify_idempotent F exCs (.binop .add (.reg 1 none) (.binop .mul (.litI 2) (.litI 3))) _ rfl

/-! ## 7. Chains of const definitions: fuel, evaluation stack and cache do not matter

`evalConst fuel stack n` is `_get_or_compute` without the cache.  Its *computed values* (the
`ok` outcomes) depend neither on the fuel, nor on the evaluation stack, nor on a cache. -/

/-- `const c0 = 2; const c1 = c0 + 1; const c2 = c1 * c0; const c3 = c3;` -/
def exDefs : Nat → Option Expr
  | 0 => some (.litI 2)
  | 1 => some (.binop .add (.var 0 none) (.litI 1))
  | 2 => some (.binop .mul (.var 1 none) (.var 0 none))
  | 3 => some (.var 3 none)
  | _ => none

/-- the table after `c0`, `c1` have been computed -/
def exCache : Consts :=
  fun n => if n = 0 then some (.int 2) else if n = 1 then some (.int 3) else none

/-- variables (named, not registers) occurring in an expression -/
def vars : Expr → List Nat
  | .var n _ => [n]
  | .unop _ e => vars e
  | .binop _ a b => vars a ++ vars b
  | .ternary c l r => vars c ++ vars l ++ vars r
  | _ => []

/-- `evalConstExpr` is monotone in its oracle for the `ok` outcomes, also across a change of stack. -/
theorem evalConstExpr_mono (F : FloatOps) (defs : Nat → Option Expr)
    (rec₁ rec₂ : List Nat → Nat → Outcome Value) (st₁ st₂ : List Nat) (e : Expr)
    (hrec : ∀ n ∈ vars e, ∀ v, rec₁ st₁ n = .ok v → rec₂ st₂ n = .ok v) (v : Value)
    (h : evalConstExpr F defs rec₁ st₁ e = .ok v) : evalConstExpr F defs rec₂ st₂ e = .ok v := by
  induction e generalizing v with
  | litI x => exact h
  | litF x => exact h
  | litS x => exact h
  | reg r s => cases h
  | var n s =>
    simp only [evalConstExpr] at h ⊢
    split at h
    · rename_i w hw
      rw [hrec n (by simp [vars]) w hw]; exact h
    · cases h
    · cases h
  | unop op b ih =>
    simp only [evalConstExpr] at h ⊢
    split at h
    · rename_i bv hb
      rw [ih (fun n hn => hrec n (by simpa [vars] using hn)) bv hb]; exact h
    · cases h
    · cases h
  | binop op a b iha ihb =>
    simp only [evalConstExpr] at h ⊢
    split at h
    · rename_i av ha
      split at h
      · rename_i bv hb
        rw [iha (fun n hn => hrec n (by simp [vars, hn])) av ha,
          ihb (fun n hn => hrec n (by simp [vars, hn])) bv hb]; exact h
      · cases h
      · cases h
    · cases h
    · cases h
  | ternary c l r ihc ihl ihr =>
    simp only [evalConstExpr] at h ⊢
    split at h
    · rename_i cv hc
      split at h
      · rename_i lv hl
        split at h
        · rename_i rv hr
          rw [ihc (fun n hn => hrec n (by simp [vars, hn])) cv hc,
            ihl (fun n hn => hrec n (by simp [vars, hn])) lv hl,
            ihr (fun n hn => hrec n (by simp [vars, hn])) rv hr]; exact h
        · cases h
        · cases h
      · cases h
      · cases h
    · cases h
    · cases h

/-- (a) more fuel and a smaller evaluation stack never change a value that was computed. -/
theorem evalConst_mono (F : FloatOps) (defs : Nat → Option Expr) (k k' : Nat)
    (st st' : List Nat) (n : Nat) (v : Value) (hk : k ≤ k') (hst : ∀ x ∈ st', x ∈ st)
    (h : evalConst F defs k st n = .ok v) : evalConst F defs k' st' n = .ok v := by
  induction k generalizing k' st st' n v with
  | zero => cases h
  | succ k ih =>
    obtain ⟨k'', rfl⟩ : ∃ k'', k' = k'' + 1 := ⟨k' - 1, by omega⟩
    simp only [evalConst] at h ⊢
    split at h
    · cases h
    · rename_i hn
      have hn' : ¬ st'.contains n = true := by
        simp only [List.contains_iff_mem] at hn ⊢
        exact fun hm => hn (hst n hm)
      rw [if_neg hn']
      split at h
      · cases h
      · rename_i e he
        refine evalConstExpr_mono F defs _ _ _ _ e (fun m _ w hw => ?_) v h
        refine ih k'' (n :: st) (n :: st') m w (by omega) (fun x hx => ?_) hw
        simp only [List.mem_cons] at hx ⊢
        exact hx.imp id (hst x)

theorem evalConst_fuel_mono (F : FloatOps) (defs : Nat → Option Expr) (k k' : Nat)
    (st : List Nat) (n : Nat) (v : Value) (hk : k ≤ k')
    (h : evalConst F defs k st n = .ok v) : evalConst F defs k' st n = .ok v :=
  evalConst_mono F defs k k' st st n v hk (fun _ h => h) h

example (F : FloatOps) : evalConst F exDefs 3 [] 2 = .ok (.int 6) := rfl
example (F : FloatOps) : evalConst F exDefs 2 [] 2 = .err "fuel" := rfl
example (F : FloatOps) : evalConst F exDefs 5 [] 3 = .err "cycle in const definition" := rfl
example (F : FloatOps) : evalConst F exDefs 10 [] 2 = .ok (.int 6) :=
  evalConst_fuel_mono F exDefs 3 10 [] 2 _ (by decide) rfl
/-- a larger stack can turn a value into a cycle error (never into another value) -/
example (F : FloatOps) : evalConst F exDefs 3 [0] 2 = .err "cycle in const definition" := rfl

/-- The cache-hit walker `constEval` is `evalConstExpr` with the table as its oracle. -/
theorem constEval_eq_evalConstExpr (F : FloatOps) (defs : Nat → Option Expr) (cs : Consts)
    (st : List Nat) (e : Expr) :
    constEval F cs e = evalConstExpr F defs
      (fun _ n => match cs n with | some v => .ok v | none => .err "const evaluation error")
      st e := by
  induction e with
  | litI x => rfl
  | litF x => rfl
  | litS x => rfl
  | reg r s => rfl
  | var n s => simp only [constEval, evalConstExpr]; cases cs n <;> rfl
  | unop op b ih => simp only [constEval, evalConstExpr, ih]
  | binop op a b iha ihb => simp only [constEval, evalConstExpr, iha, ihb]
  | ternary c l r ihc ihl ihr => simp only [constEval, evalConstExpr, ihc, ihl, ihr]

/-- (b) evaluation through a table that holds exactly the computed values agrees, on every
computed value, with evaluation that recomputes each referenced const. -/
theorem evalConst_cached (F : FloatOps) (defs : Nat → Option Expr) (fuel : Nat) (cs : Consts)
    (S : Nat → Prop)
    (hcs : ∀ n, S n → ∀ v, cs n = some v ↔ evalConst F defs fuel [] n = .ok v)
    (e : Expr) (he : ∀ n ∈ vars e, S n) (v : Value) :
    constEval F cs e = .ok v ↔
      evalConstExpr F defs (evalConst F defs fuel) [] e = .ok v := by
  rw [constEval_eq_evalConstExpr F defs cs []]
  constructor
  · refine evalConstExpr_mono F defs _ _ [] [] e (fun n hn w hw => ?_) v
    apply (hcs n (he n hn) w).mp
    revert hw; cases cs n <;> simp
  · refine evalConstExpr_mono F defs _ _ [] [] e (fun n hn w hw => ?_) v
    simp only [(hcs n (he n hn) w).mpr hw]

theorem exCache_ok (F : FloatOps) (n : Nat) (hn : n = 0 ∨ n = 1) (v : Value) :
    exCache n = some v ↔ evalConst F exDefs 2 [] n = .ok v := by
  rcases hn with rfl | rfl
  · have : evalConst F exDefs 2 [] 0 = .ok (.int 2) := rfl
    rw [this]; simp [exCache]
  · have : evalConst F exDefs 2 [] 1 = .ok (.int 3) := rfl
    rw [this]; simp [exCache]

example (F : FloatOps) :
    evalConstExpr F exDefs (evalConst F exDefs 2) [] (.binop .mul (.var 1 none) (.var 0 none))
      = .ok (.int 6) :=
  (evalConst_cached F exDefs 2 exCache (fun n => n = 0 ∨ n = 1) (exCache_ok F) _
    (by simp [vars]) _).mp rfl

/-- Every variable of a successfully evaluated expression was successfully evaluated. -/
theorem evalConstExpr_ok_vars (F : FloatOps) (defs : Nat → Option Expr)
    (rec : List Nat → Nat → Outcome Value) (st : List Nat) (e : Expr) (v : Value)
    (h : evalConstExpr F defs rec st e = .ok v) : ∀ n ∈ vars e, ∃ w, rec st n = .ok w := by
  induction e generalizing v with
  | litI x => intro n hn; simp [vars] at hn
  | litF x => intro n hn; simp [vars] at hn
  | litS x => intro n hn; simp [vars] at hn
  | reg r s => cases h
  | var m s =>
    intro n hn
    simp only [vars, List.mem_singleton] at hn; subst hn
    simp only [evalConstExpr] at h
    split at h
    · rename_i w hw; exact ⟨w, hw⟩
    · cases h
    · cases h
  | unop op b ih =>
    simp only [evalConstExpr] at h
    split at h
    · rename_i bv hb; exact ih bv hb
    · cases h
    · cases h
  | binop op a b iha ihb =>
    simp only [evalConstExpr] at h
    split at h
    · rename_i av ha
      split at h
      · rename_i bv hb
        intro n hn
        simp only [vars, List.mem_append] at hn
        exact hn.elim (iha av ha n) (ihb bv hb n)
      · cases h
      · cases h
    · cases h
    · cases h
  | ternary c l r ihc ihl ihr =>
    simp only [evalConstExpr] at h
    split at h
    · rename_i cv hc
      split at h
      · rename_i lv hl
        split at h
        · rename_i rv hr
          intro n hn
          simp only [vars, List.mem_append] at hn
          exact hn.elim (fun h => h.elim (ihc cv hc n) (ihl lv hl n)) (ihr rv hr n)
        · cases h
        · cases h
      · cases h
      · cases h
    · cases h
    · cases h

/-- A const that is on the evaluation stack never evaluates (cycle or fuel error). -/
theorem evalConst_of_mem (F : FloatOps) (defs : Nat → Option Expr) (k : Nat) (st : List Nat)
    (x : Nat) (hx : x ∈ st) (w : Value) : evalConst F defs k st x ≠ .ok w := by
  cases k with
  | zero => intro h; cases h
  | succ k =>
    have : st.contains x = true := by simpa using hx
    simp only [evalConst, this, if_true]; intro h; cases h

/-- If `n`'s definition mentions `x`, then `n` never evaluates while `x` is on the stack. -/
theorem evalConst_dep_fail (F : FloatOps) (defs : Nat → Option Expr) (n x : Nat) (e : Expr)
    (hd : defs n = some e) (hxe : x ∈ vars e) (k : Nat) (st : List Nat) (hx : x ∈ st)
    (u : Value) : evalConst F defs k st n ≠ .ok u := by
  cases k with
  | zero => intro h; cases h
  | succ k =>
    simp only [evalConst, hd]
    split
    · intro h; cases h
    · intro h
      obtain ⟨w, hw⟩ := evalConstExpr_ok_vars F defs _ _ e u h x hxe
      exact evalConst_of_mem F defs k (n :: st) x (List.mem_cons_of_mem _ hx) w hw

/-- Pushing onto the stack a const `n` that depends on something already there does not change
any computed value. -/
theorem evalConst_stack_insert (F : FloatOps) (defs : Nat → Option Expr) (n x : Nat)
    (hP : ∀ k st u, x ∈ st → evalConst F defs k st n ≠ .ok u)
    (k : Nat) (st st' : List Nat) (m : Nat) (w : Value)
    (hst : ∀ y, y ∈ st' → y ∈ st ∨ y = n) (hx : x ∈ st)
    (h : evalConst F defs k st m = .ok w) : evalConst F defs k st' m = .ok w := by
  induction k generalizing st st' m w with
  | zero => cases h
  | succ k ih =>
    have hmn : m ≠ n := fun hmn => hP (k + 1) st w hx (hmn ▸ h)
    simp only [evalConst] at h ⊢
    split at h
    · cases h
    · rename_i hm
      have hm' : ¬ st'.contains m = true := by
        simp only [List.contains_iff_mem] at hm ⊢
        exact fun hm' => (hst m hm').elim hm hmn
      rw [if_neg hm']
      split at h
      · cases h
      · rename_i em hem
        refine evalConstExpr_mono F defs _ _ _ _ em (fun y _ u hu => ?_) w h
        refine ih (m :: st) (m :: st') y u (fun z hz => ?_) (List.mem_cons_of_mem _ hx) hu
        simp only [List.mem_cons] at hz ⊢
        rcases hz with rfl | hz
        · exact .inl (.inl rfl)
        · exact (hst z hz).imp .inr id

/-- **The evaluation stack does not matter for computed values**: evaluating const `n` (which
pushes `n`) is the same as evaluating its definition on an empty stack. -/
theorem evalConst_unfold_nil (F : FloatOps) (defs : Nat → Option Expr) (n : Nat) (e : Expr)
    (hd : defs n = some e) (k : Nat) (v : Value) :
    evalConst F defs (k + 1) [] n = .ok v ↔
      evalConstExpr F defs (evalConst F defs k) [] e = .ok v := by
  have hunf : evalConst F defs (k + 1) [] n
      = evalConstExpr F defs (evalConst F defs k) [n] e := by
    simp [evalConst, hd]
  rw [hunf]
  constructor
  · refine evalConstExpr_mono F defs _ _ _ _ e (fun m _ w hw => ?_) v
    exact evalConst_mono F defs k k [n] [] m w (Nat.le_refl _) (fun _ h => by cases h) hw
  · refine evalConstExpr_mono F defs _ _ _ _ e (fun m hm w hw => ?_) v
    cases k with
    | zero => cases hw
    | succ j =>
      have hmn : m ≠ n := by
        rintro rfl
        simp only [evalConst, hd] at hw
        obtain ⟨u, hu⟩ := evalConstExpr_ok_vars F defs _ _ e w hw m hm
        exact evalConst_of_mem F defs j [m] m (by simp) u hu
      simp only [evalConst] at hw ⊢
      have c1 : ¬ ([] : List Nat).contains m = true := by simp
      have c2 : ¬ [n].contains m = true := by simpa using hmn
      rw [if_neg c1] at hw
      rw [if_neg c2]
      split at hw
      · cases hw
      · rename_i em hem
        refine evalConstExpr_mono F defs _ _ _ _ em (fun y _ u hu => ?_) w hw
        refine evalConst_stack_insert F defs n m
          (fun k st u hx => evalConst_dep_fail F defs n m e hd hm k st hx u)
          j [m] [m, n] y u (fun z hz => ?_) (by simp) hu
        simpa using hz

/-- Computing const `n` through a table that holds exactly the values of the consts its
definition mentions gives what the uncached depth-first evaluation gives. -/
theorem evalConst_cached_def (F : FloatOps) (defs : Nat → Option Expr) (fuel : Nat) (cs : Consts)
    (S : Nat → Prop)
    (hcs : ∀ n, S n → ∀ v, cs n = some v ↔ evalConst F defs fuel [] n = .ok v)
    (n : Nat) (e : Expr) (hd : defs n = some e) (he : ∀ m ∈ vars e, S m) (v : Value) :
    constEval F cs e = .ok v ↔ evalConst F defs (fuel + 1) [] n = .ok v := by
  rw [evalConst_unfold_nil F defs n e hd, evalConst_cached F defs fuel cs S hcs e he]

example (F : FloatOps) : evalConst F exDefs 3 [] 2 = .ok (.int 6) :=
  (evalConst_cached_def F exDefs 2 exCache (fun n => n = 0 ∨ n = 1) (exCache_ok F) 2 _ rfl
    (by simp [vars]) _).mp rfl

/-! ### `_get_or_compute` with its cache

`evalConstC` is `_get_or_compute` as written: first the cache lookup, then the cycle check,
then the definition.  The cache is a parameter (the table as it is when the call is made);
`Consistent` says it holds only values that the cache-free evaluation computes, which is
preserved when a computed value is inserted (`consistent_insert`).  Under that invariant the
cached and the cache-free evaluation compute the same values (`evalConstC_sound`,
`evalConstC_complete`). -/

def evalConstC (F : FloatOps) (defs : Nat → Option Expr) (cache : Consts) :
    Nat → List Nat → Nat → Outcome Value
  | 0, _, _ => .err "fuel"
  | fuel + 1, stack, n =>
    match cache n with
    | some v => .ok v
    | none =>
      if stack.contains n then .err "cycle in const definition"
      else match defs n with
        | none => .err "const evaluation error"
        | some e => evalConstExpr F defs (evalConstC F defs cache fuel) (n :: stack) e

/-- every cached value is the value computed without a cache (within `N` levels) -/
def Consistent (F : FloatOps) (defs : Nat → Option Expr) (N : Nat) (cache : Consts) : Prop :=
  ∀ n v, cache n = some v → evalConst F defs N [] n = .ok v

theorem consistent_empty (F : FloatOps) (defs : Nat → Option Expr) (N : Nat) :
    Consistent F defs N (fun _ => none) := by
  intro n v h; cases h

theorem consistent_insert (F : FloatOps) (defs : Nat → Option Expr) (N : Nat) (cache : Consts)
    (hc : Consistent F defs N cache) (n : Nat) (v : Value) (st : List Nat)
    (hv : evalConst F defs N st n = .ok v) :
    Consistent F defs N (fun m => if m = n then some v else cache m) := by
  intro m w h
  by_cases hm : m = n
  · subst hm
    simp only [if_true] at h; injection h with h; subst h
    exact evalConst_mono F defs N N st [] m _ (Nat.le_refl _) (fun _ h => by cases h) hv
  · simp only [if_neg hm] at h; exact hc m w h

theorem consistent_fuel (F : FloatOps) (defs : Nat → Option Expr) (N N' : Nat) (cache : Consts)
    (hN : N ≤ N') (hc : Consistent F defs N cache) : Consistent F defs N' cache :=
  fun n v h => evalConst_fuel_mono F defs N N' [] n v hN (hc n v h)

/-- What the cached evaluation returns is what the cache-free evaluation computes. -/
theorem evalConstC_sound (F : FloatOps) (defs : Nat → Option Expr) (N : Nat) (cache : Consts)
    (hc : Consistent F defs N cache) (k : Nat) (st : List Nat) (n : Nat) (v : Value)
    (h : evalConstC F defs cache k st n = .ok v) : evalConst F defs (N + k) [] n = .ok v := by
  induction k generalizing st n v with
  | zero => cases h
  | succ k ih =>
    simp only [evalConstC] at h
    split at h
    · rename_i w hw
      injection h with h; subst h
      exact evalConst_fuel_mono F defs N _ [] n _ (by omega) (hc n _ hw)
    · split at h
      · cases h
      · split at h
        · cases h
        · rename_i e hd
          rw [← Nat.add_assoc, evalConst_unfold_nil F defs n e hd]
          exact evalConstExpr_mono F defs _ _ _ _ e (fun m _ w hw => ih (n :: st) m w hw) v h

/-- What the cache-free evaluation computes, the cached evaluation returns. -/
theorem evalConstC_complete (F : FloatOps) (defs : Nat → Option Expr) (N : Nat) (cache : Consts)
    (hc : Consistent F defs N cache) (k : Nat) (st : List Nat) (n : Nat) (v : Value)
    (h : evalConst F defs k st n = .ok v) : evalConstC F defs cache k st n = .ok v := by
  induction k generalizing st n v with
  | zero => cases h
  | succ k ih =>
    simp only [evalConstC]
    split
    · rename_i w hw
      have h1 := evalConst_mono F defs N (N + (k + 1)) [] [] n w (by omega) (fun _ h => h) (hc n w hw)
      have h2 := evalConst_mono F defs (k + 1) (N + (k + 1)) st [] n v (by omega)
        (fun _ h => by cases h) h
      rw [h1] at h2; exact h2
    · simp only [evalConst] at h
      split at h
      · cases h
      · rename_i hn
        rw [if_neg hn]
        split at h
        · cases h
        · rename_i e hd
          simp only [hd]
          exact evalConstExpr_mono F defs _ _ _ _ e (fun m _ w hw => ih (n :: st) m w hw) v h

/-- With a consistent cache, a root call (`run_rooted`: empty stack) computes `v` for some
amount of fuel iff the cache-free evaluation does. -/
theorem evalConstC_iff (F : FloatOps) (defs : Nat → Option Expr) (N : Nat) (cache : Consts)
    (hc : Consistent F defs N cache) (n : Nat) (v : Value) :
    (∃ k, evalConstC F defs cache k [] n = .ok v) ↔ (∃ k, evalConst F defs k [] n = .ok v) :=
  ⟨fun ⟨k, h⟩ => ⟨N + k, evalConstC_sound F defs N cache hc k [] n v h⟩,
   fun ⟨k, h⟩ => ⟨k, evalConstC_complete F defs N cache hc k [] n v h⟩⟩

theorem exCache_consistent (F : FloatOps) : Consistent F exDefs 2 exCache := by
  intro n v h
  by_cases h0 : n = 0
  · subst h0; exact (exCache_ok F 0 (.inl rfl) v).mp h
  · by_cases h1 : n = 1
    · subst h1; exact (exCache_ok F 1 (.inr rfl) v).mp h
    · simp [exCache, h0, h1] at h

/-- with `c0`, `c1` cached, `c2` needs two levels instead of three -/
example (F : FloatOps) : evalConstC F exDefs exCache 2 [] 2 = .ok (.int 6) := rfl
example (F : FloatOps) : evalConst F exDefs 4 [] 2 = .ok (.int 6) :=
  evalConstC_sound F exDefs 2 exCache (exCache_consistent F) 2 [] 2 _ rfl
example (F : FloatOps) : evalConstC F exDefs exCache 3 [] 2 = .ok (.int 6) :=
  evalConstC_complete F exDefs 2 exCache (exCache_consistent F) 3 [] 2 _ rfl

end TruthModel.C11
