import TruthModel.Props.C18Msg
import TruthModel.Props.C18MsgFile
import TruthModel.Model.Offsets
import TruthModel.Lemmas.Abi
import TruthModel.Props.C03
/-
C18 — the debug info describes the file that was actually written.

Model: `TruthModel/Model/Offsets.lean` (`substitute_dummy_args`, `gather_label_info`,
`encode_labels`, the second encoding pass; argument codec = `Abi.encodeArgs` of C12, headers =
`InstrIO` of C03).  All theorems quantify over every statement list, every signature (the full
encoding enum, strings with every size kind / mask / furigana flag), every header size and every
label encoding of the formats; there is no bound on sizes.

What is proved here is the offset half of the property (instruction offsets, label offsets and
times, end offset, the position of every instruction in the written bytes).  The register half is
C05 (`assign_locals`, `rewrite_total`: the register recorded for a local is the one substituted
into the instructions), the constant half is C11 (`evalConstC_sound`: the cached value is the
value the folder uses); both are re-checked on the implementation by the search of
`harness/src/props/c18.rs`.
-/
open TruthModel TruthModel.Abi TruthModel.Offsets
namespace TruthModel.C18
set_option linter.unusedSimpArgs false
set_option linter.unusedVariables false

/-- pointwise relation of two lists (core Lean has no `Forall₂`) -/
inductive All2 {α β : Type} (R : α → β → Prop) : List α → List β → Prop
  | nil : All2 R [] []
  | cons {a : α} {b : β} {as : List α} {bs : List β} : R a b → All2 R as bs → All2 R (a :: as) (b :: bs)

theorem All2.refl {α : Type} {R : α → α → Prop} (h : ∀ a, R a a) : ∀ l : List α, All2 R l l
  | [] => .nil
  | a :: as => .cons (h a) (All2.refl h as)

/-! ## one argument, one instruction: the dummy has the size of the real thing -/

/-- `d` is `a` itself or `a` with its integer value replaced by 0 (same register flag): how the
argument the dummy pass encodes relates to the argument the real pass encodes -/
inductive DummyOf : Arg → Arg → Prop
  | same (a : Arg) : DummyOf a a
  | zero (v : Int) (r : Bool) : DummyOf (.int v r) (.int 0 r)

theorem DummyOf.isReg {a d : Arg} (h : DummyOf a d) : d.isReg = a.isReg := by
  cases h <;> rfl

theorem fitsInt_zero (w : IntW) (s : Bool) : fitsInt w s 0 = true := by
  cases w <;> cases s <;> decide

/-- one parameter: if the real argument encodes, the dummy encodes to the same number of bytes and
leaves the same furigana state — for every encoding kind -/
theorem encodeOne_dummy {a d : Arg} (h : DummyOf a d) (st : EncState) (e : Enc) (b : Bytes) (st1 : EncState)
    (he : encodeOne st e a = .ok (b, st1)) :
    ∃ b', encodeOne st e d = .ok (b', st1) ∧ b'.length = b.length := by
  cases h with
  | same => exact ⟨b, he, rfl⟩
  | zero v r =>
    cases e with
    | int w signed arg0 imm =>
      cases arg0 with
      | true => simp [encodeOne] at he
      | false =>
        simp only [encodeOne, expectInt] at he ⊢
        split at he
        · cases he
        · cases he
          refine ⟨leBytes w.bytes (wrapTo w.bytes 0), ?_, ?_⟩
          · simp [fitsInt_zero]
          · simp [leBytes_length]
    | jumpOffset =>
      simp only [encodeOne, expectInt] at he ⊢
      cases he
      exact ⟨_, rfl, by simp [leBytes_length]⟩
    | jumpTime =>
      simp only [encodeOne, expectInt] at he ⊢
      cases he
      exact ⟨_, rfl, by simp [leBytes_length]⟩
    | padding wide => simp [encodeOne] at he
    | float imm => simp [encodeOne, expectFloat] at he
    | str size mask furibug => simp [encodeOne, expectString] at he

/-- the parameter loop -/
theorem encLoop_dummy : ∀ (es : Abi) (k : Nat) (args ds : List Arg) (st : EncState) (o : EncOut),
    All2 DummyOf args ds → encLoop k es args st = .ok o →
    ∃ o', encLoop k es ds st = .ok o' ∧ o'.blob.length = o.blob.length ∧ o'.mask = o.mask ∧ o'.st = o.st := by
  intro es
  induction es with
  | nil =>
    intro k args ds st o _ h
    simp only [encLoop] at h ⊢
    cases h
    exact ⟨_, rfl, rfl, rfl, rfl⟩
  | cons e es ih =>
    intro k args ds st o hrel h
    by_cases hp : e.isPadding = true
    · simp only [encLoop, hp, if_true] at h ⊢
      cases hr : encLoop k es args st with
      | ok o1 =>
        rw [hr] at h
        cases h
        obtain ⟨o1', h1, hl, hm, hs⟩ := ih k args ds st o1 hrel hr
        rw [h1]
        exact ⟨_, rfl, by simp [hl], hm, hs⟩
      | err c => rw [hr] at h; cases h
      | panic p => rw [hr] at h; cases h
    · simp only [encLoop, hp] at h ⊢
      cases hrel with
      | nil => simp at h
      | @cons a d as dss had hrest =>
        simp only [Bool.false_eq_true, if_false] at h ⊢
        rw [had.isReg]
        split at h
        · cases h
        · rename_i hk
          rw [if_neg hk]
          cases h1 : encodeOne st e a with
          | ok r1 =>
            obtain ⟨bytes, st1⟩ := r1
            rw [h1] at h
            simp only at h
            obtain ⟨b', hb', hlen⟩ := encodeOne_dummy had st e bytes st1 h1
            rw [hb']
            simp only
            cases hr : encLoop (k + 1) es as st1 with
            | ok o1 =>
              rw [hr] at h
              cases h
              obtain ⟨o1', h2, hl, hm, hs⟩ := ih (k + 1) as dss st1 o1 hrest hr
              simp only [h2]
              exact ⟨_, rfl, by simp [hlen, hl], by simp [hm], hs⟩
            | err c => rw [hr] at h; cases h
            | panic p => rw [hr] at h; cases h
          | err c => rw [h1] at h; cases h
          | panic p => rw [h1] at h; cases h

theorem any_isReg_dummy {args ds : List Arg} (h : All2 DummyOf args ds) :
    ds.any Arg.isReg = args.any Arg.isReg := by
  induction h with
  | nil => rfl
  | cons had _ ih => simp [List.any_cons, had.isReg, ih]

theorem encodePlain_dummy (st : EncState) (es : Abi) (args ds : List Arg) (a0 : Option Int)
    (raw : Raw) (w : List String) (st1 : EncState)
    (hrel : All2 DummyOf args ds) (h : encodePlain st es args a0 = .ok (raw, w, st1)) :
    ∃ raw' w', encodePlain st es ds a0 = .ok (raw', w', st1) ∧ raw'.blob.length = raw.blob.length
      ∧ raw'.mask = raw.mask ∧ raw'.arg0 = raw.arg0 := by
  simp only [encodePlain] at h ⊢
  cases hr : encLoop 0 es args st with
  | ok o =>
    rw [hr] at h
    cases h
    obtain ⟨o', h1, hl, hm, hs⟩ := encLoop_dummy es 0 args ds st o hrel hr
    rw [h1]
    exact ⟨⟨o'.blob, o'.mask % 65536, a0⟩, o'.warnings, by simp [hs], hl, by simp [hm], rfl⟩
  | err c => rw [hr] at h; cases h
  | panic p => rw [hr] at h; cases h

/-- `encode_args` on a whole argument list -/
theorem encodeArgs_dummy (hasRegs : Bool) (st : EncState) (abi : Abi) (args ds : List Arg)
    (raw : Raw) (w : List String) (st1 : EncState)
    (hrel : All2 DummyOf args ds) (h : encodeArgs hasRegs st abi args = .ok (raw, w, st1)) :
    ∃ raw' w', encodeArgs hasRegs st abi ds = .ok (raw', w', st1) ∧ raw'.blob.length = raw.blob.length
      ∧ raw'.mask = raw.mask := by
  unfold encodeArgs at h ⊢
  rw [any_isReg_dummy hrel]
  split at h
  · cases h
  · rename_i hreg
    rw [if_neg hreg]
    cases abi with
    | nil =>
      obtain ⟨r', w', h1, hl, hm, _⟩ := encodePlain_dummy st [] args ds none raw w st1 hrel h
      exact ⟨r', w', h1, hl, hm⟩
    | cons e es =>
      simp only at h ⊢
      by_cases ha0 : e.isArg0 = true
      · simp only [ha0, if_true] at h ⊢
        cases hrel with
        | nil => simp at h
        | @cons a d as dss had hrest =>
          simp only at h ⊢
          rw [had.isReg]
          split at h
          · cases h
          · rename_i hnr
            rw [if_neg hnr]
            cases had with
            | same =>
              cases hx : expectInt a with
              | ok v =>
                rw [hx] at h
                simp only at h ⊢
                split at h
                · cases h
                · rename_i hfit
                  rw [if_neg hfit]
                  obtain ⟨r', w', h1, hl, hm, _⟩ := encodePlain_dummy st es as dss (some v) raw w st1 hrest h
                  exact ⟨r', w', h1, hl, hm⟩
              | err c => rw [hx] at h; cases h
              | panic p => rw [hx] at h; cases h
            | zero v r =>
              simp only [expectInt] at h ⊢
              split at h
              · cases h
              · obtain ⟨r', w', h1, hl, hm, _⟩ := encodePlain_dummy st es as dss (some v) raw w st1 hrest h
                simp only [fitsInt_zero, Bool.not_true, Bool.false_eq_true, if_false]
                obtain ⟨r'', w'', h2, hl2, hm2, _⟩ := encodePlain_dummy st es as dss (some 0) _ _ _ hrest
                  (show encodePlain st es as (some 0) = .ok (⟨raw.blob, raw.mask, some 0⟩, w, st1) by
                    simp only [encodePlain] at h ⊢
                    cases hr : encLoop 0 es as st with
                    | ok o => rw [hr] at h; cases h; rfl
                    | err c => rw [hr] at h; cases h
                    | panic p => rw [hr] at h; cases h)
                exact ⟨r'', w'', h2, hl2, hm2⟩
      · simp only [ha0, Bool.false_eq_true, if_false] at h ⊢
        obtain ⟨r', w', h1, hl, hm, _⟩ := encodePlain_dummy st (e :: es) args ds none raw w st1 hrel h
        exact ⟨r', w', h1, hl, hm⟩

/-! ## from `LowerArg`s to arguments -/

/-- `a'` is what `assign_registers` + `encode_labels` may turn `a` into: itself, an immediate
integer for a label or a `timeof`, an integer-stored register for a local -/
inductive Real : LArg → LArg → Prop
  | same (a : LArg) : Real a a
  | label (n : String) (v : Int) : Real (.label n) (.raw (.int v false))
  | timeOf (n : String) (v : Int) : Real (.timeOf n) (.raw (.int v false))
  | loc (d : Nat) (r : Int) : Real (.loc d false) (.raw (.int r true))

theorem expectRawAll_dummy : ∀ (args args' : List LArg) (xs : List Arg),
    All2 Real args args' → expectRawAll args' = .ok xs →
    ∃ ds, expectRawAll (args.map dummyArg) = .ok ds ∧ All2 DummyOf xs ds := by
  intro args args' xs hrel
  induction hrel generalizing xs with
  | nil =>
    intro h
    simp only [expectRawAll] at h
    cases h
    exact ⟨[], rfl, .nil⟩
  | @cons a a' as as' ha hrest ih =>
    intro h
    simp only [expectRawAll] at h
    cases hx : expectRaw a' with
    | ok x =>
      rw [hx] at h
      cases hr : expectRawAll as' with
      | ok xs1 =>
        rw [hr] at h
        cases h
        obtain ⟨ds, hd, hrel⟩ := ih xs1 hr
        cases ha with
        | same =>
          cases a with
          | raw y =>
            simp only [expectRaw] at hx
            cases hx
            exact ⟨x :: ds, by simp [List.map, dummyArg, expectRawAll, expectRaw, hd], .cons (.same _) hrel⟩
          | label n => simp [expectRaw] at hx
          | timeOf n => simp [expectRaw] at hx
          | loc d fs => simp [expectRaw] at hx
        | label n v =>
          simp only [expectRaw] at hx
          cases hx
          exact ⟨.int 0 false :: ds, by simp [List.map, dummyArg, expectRawAll, expectRaw, hd], .cons (.zero v false) hrel⟩
        | timeOf n v =>
          simp only [expectRaw] at hx
          cases hx
          exact ⟨.int 0 false :: ds, by simp [List.map, dummyArg, expectRawAll, expectRaw, hd], .cons (.zero v false) hrel⟩
        | loc d r =>
          simp only [expectRaw] at hx
          cases hx
          exact ⟨.int 0 true :: ds, by simp [List.map, dummyArg, expectRawAll, expectRaw, hd], .cons (.zero r true) hrel⟩
      | err c => rw [hr] at h; cases h
      | panic p => rw [hr] at h; cases h
    | err c => rw [hx] at h; cases h
    | panic p => rw [hx] at h; cases h

/-- the real instruction `i'` belonging to the lowering-level instruction `i` -/
inductive InstrReal : LInstr → LInstr → Prop
  | known (t : Int) (op df : Nat) (abi : Abi) (args args' : List LArg) :
      All2 Real args args' → InstrReal ⟨t, op, df, .known abi args⟩ ⟨t, op, df, .known abi args'⟩
  | unknown (i : LInstr) : InstrReal i i

/-- **dummy_same_size.**  Whenever the real instruction (labels replaced by whatever integers,
locals by whatever integer-stored registers) encodes, the dummy-substituted instruction encodes
too, to the same number of bytes, and leaves the same furigana state behind — for every
signature, i.e. every encoding kind (integers of each width, jumps, floats, padding, strings of
every size kind with or without the furigana quirk) and every pending furigana state. -/
theorem dummy_same_size (hasRegs : Bool) (st : EncState) (i i' : LInstr) (raw : RawInstr) (st1 : EncState)
    (hrel : InstrReal i i') (h : encodeInstr hasRegs st i' = .ok (raw, st1)) :
    ∃ raw', encodeInstr hasRegs st (substituteDummy i) = .ok (raw', st1) ∧ raw'.blob.length = raw.blob.length
      ∧ raw'.mask = raw.mask ∧ raw'.time = raw.time ∧ raw'.opcode = raw.opcode := by
  cases hrel with
  | unknown =>
    cases hi : i.args with
    | unknown blob =>
      simp only [encodeInstr, hi] at h
      cases h
      exact ⟨_, by simp [encodeInstr, substituteDummy, hi], rfl, rfl, rfl, rfl⟩
    | known abi args =>
      simp only [encodeInstr, hi] at h
      cases hx : expectRawAll args with
      | ok xs =>
        rw [hx] at h
        simp only at h
        have hself : All2 Real args args := by
          clear hx hi h
          induction args with
          | nil => exact .nil
          | cons a as ih => exact .cons (.same a) ih
        obtain ⟨ds, hd, hdr⟩ := expectRawAll_dummy args args xs hself hx
        cases he : encodeArgs hasRegs st abi xs with
        | ok r =>
          obtain ⟨r0, w, s1⟩ := r
          rw [he] at h
          cases h
          obtain ⟨r', w', h1, hl, hm⟩ := encodeArgs_dummy hasRegs st abi xs ds r0 w st1 hdr he
          exact ⟨⟨i.time, i.opcode, r'.mask, r'.blob, i.difficulty, r'.arg0⟩,
            by simp [encodeInstr, substituteDummy, hi, hd, h1], hl, hm, rfl, rfl⟩
        | err c => rw [he] at h; cases h
        | panic p => rw [he] at h; cases h
      | err c => rw [hx] at h; cases h
      | panic p => rw [hx] at h; cases h
  | known t op df abi args args' hargs =>
    simp only [encodeInstr] at h
    cases hx : expectRawAll args' with
    | ok xs =>
      rw [hx] at h
      simp only at h
      obtain ⟨ds, hd, hdr⟩ := expectRawAll_dummy args args' xs hargs hx
      cases he : encodeArgs hasRegs st abi xs with
      | ok r =>
        obtain ⟨r0, w, s1⟩ := r
        rw [he] at h
        cases h
        obtain ⟨r', w', h1, hl, hm⟩ := encodeArgs_dummy hasRegs st abi xs ds r0 w st1 hdr he
        exact ⟨⟨t, op, r'.mask, r'.blob, df, r'.arg0⟩,
          by simp [encodeInstr, substituteDummy, hd, h1], hl, hm, rfl, rfl⟩
      | err c => rw [he] at h; cases h
      | panic p => rw [he] at h; cases h
    | err c => rw [hx] at h; cases h
    | panic p => rw [hx] at h; cases h

/-! ## the two passes over a whole script -/

/-- statement of the label-encoded stream belonging to a statement of the lowering-level stream -/
inductive StmtReal : LStmt → LStmt → Prop
  | instr (i i' : LInstr) : InstrReal i i' → StmtReal (.instr i) (.instr i')
  | other (s : LStmt) : StmtReal s s

def sizes (hdr : Nat) (raws : List RawInstr) : List Nat := raws.map (instrSize hdr)

theorem secondPass_instr_ok {hasRegs : Bool} {st : EncState} {i : LInstr} {rest : List LStmt} {raws : List RawInstr}
    (h : secondPass hasRegs st (.instr i :: rest) = .ok raws) :
    ∃ raw st1 raws1, encodeInstr hasRegs st i = .ok (raw, st1) ∧ secondPass hasRegs st1 rest = .ok raws1 ∧ raws = raw :: raws1 := by
  simp only [secondPass] at h
  cases he : encodeInstr hasRegs st i with
  | ok r =>
    obtain ⟨raw, st1⟩ := r
    rw [he] at h
    simp only at h
    cases hr : secondPass hasRegs st1 rest with
    | ok raws1 =>
      rw [hr] at h
      cases h
      exact ⟨raw, st1, raws1, rfl, hr, rfl⟩
    | err c => rw [hr] at h; cases h
    | panic p => rw [hr] at h; cases h
  | err c =>
    rw [he] at h
    simp only at h
    cases hr : secondPass hasRegs st rest <;> rw [hr] at h <;> cases h
  | panic p => rw [he] at h; cases h

theorem gatherAux_instr_ok {hdr : Nat} {hasRegs : Bool} {off : Nat} {st : EncState} {seen : List String}
    {i : LInstr} {rest : List LStmt} {g : Gather}
    (h : gatherAux hdr hasRegs off st seen (.instr i :: rest) = .ok g) :
    ∃ raw st1 g1, encodeInstr hasRegs st (substituteDummy i) = .ok (raw, st1) ∧
      gatherAux hdr hasRegs (off + instrSize hdr raw) st1 seen rest = .ok g1 ∧
      g = { g1 with stmtOffsets := off :: g1.stmtOffsets, instrs := off :: g1.instrs } := by
  simp only [gatherAux] at h
  cases he : encodeInstr hasRegs st (substituteDummy i) with
  | ok r =>
    obtain ⟨raw, st1⟩ := r
    rw [he] at h
    simp only at h
    cases hr : gatherAux hdr hasRegs (off + instrSize hdr raw) st1 seen rest with
    | ok g1 =>
      rw [hr] at h
      cases h
      exact ⟨raw, st1, g1, rfl, hr, rfl⟩
    | err c => rw [hr] at h; cases h
    | panic p => rw [hr] at h; cases h
  | err c => rw [he] at h; cases h
  | panic p => rw [he] at h; cases h

theorem gatherAux_label_ok {hdr : Nat} {hasRegs : Bool} {off : Nat} {st : EncState} {seen : List String}
    {t : Int} {n : String} {rest : List LStmt} {g : Gather}
    (h : gatherAux hdr hasRegs off st seen (.label t n :: rest) = .ok g) :
    seen.contains n = false ∧ ∃ g1, gatherAux hdr hasRegs off st (n :: seen) rest = .ok g1 ∧
      g = { g1 with stmtOffsets := off :: g1.stmtOffsets, labels := ⟨n, off, t⟩ :: g1.labels } := by
  simp only [gatherAux] at h
  split at h
  · cases h
  · rename_i hs
    refine ⟨by simpa using hs, ?_⟩
    cases hr : gatherAux hdr hasRegs off st (n :: seen) rest with
    | ok g1 =>
      rw [hr] at h
      cases h
      exact ⟨g1, rfl, rfl⟩
    | err c => rw [hr] at h; cases h
    | panic p => rw [hr] at h; cases h

theorem gatherAux_alloc_ok {hdr : Nat} {hasRegs : Bool} {off : Nat} {st : EncState} {seen : List String}
    {d : Nat} {rest : List LStmt} {g : Gather}
    (h : gatherAux hdr hasRegs off st seen (.regAlloc d :: rest) = .ok g) :
    ∃ g1, gatherAux hdr hasRegs off st seen rest = .ok g1 ∧ g = { g1 with stmtOffsets := off :: g1.stmtOffsets } := by
  simp only [gatherAux] at h
  cases hr : gatherAux hdr hasRegs off st seen rest with
  | ok g1 => rw [hr] at h; cases h; exact ⟨g1, rfl, rfl⟩
  | err c => rw [hr] at h; cases h
  | panic p => rw [hr] at h; cases h

theorem gatherAux_free_ok {hdr : Nat} {hasRegs : Bool} {off : Nat} {st : EncState} {seen : List String}
    {d : Nat} {rest : List LStmt} {g : Gather}
    (h : gatherAux hdr hasRegs off st seen (.regFree d :: rest) = .ok g) :
    ∃ g1, gatherAux hdr hasRegs off st seen rest = .ok g1 ∧ g = { g1 with stmtOffsets := off :: g1.stmtOffsets } := by
  simp only [gatherAux] at h
  cases hr : gatherAux hdr hasRegs off st seen rest with
  | ok g1 => rw [hr] at h; cases h; exact ⟨g1, rfl, rfl⟩
  | err c => rw [hr] at h; cases h
  | panic p => rw [hr] at h; cases h

/-- the simulation between the dummy pass over `code` and the real pass over the stream with
labels (and locals) substituted: same running offsets, same furigana states -/
theorem gather_second (hdr : Nat) (hasRegs : Bool) : ∀ (code code' : List LStmt), All2 StmtReal code code' →
    ∀ (off : Nat) (st : EncState) (seen : List String) (g : Gather) (raws : List RawInstr),
    gatherAux hdr hasRegs off st seen code = .ok g → secondPass hasRegs st code' = .ok raws →
    g.instrs = offsetsFrom off (sizes hdr raws) ∧ g.endOffset = off + (sizes hdr raws).sum := by
  intro code code' hrel
  have instrCase : ∀ (i i' : LInstr) (rest rest' : List LStmt), InstrReal i i' →
      (∀ (off : Nat) (st : EncState) (seen : List String) (g : Gather) (raws : List RawInstr),
        gatherAux hdr hasRegs off st seen rest = .ok g → secondPass hasRegs st rest' = .ok raws →
        g.instrs = offsetsFrom off (sizes hdr raws) ∧ g.endOffset = off + (sizes hdr raws).sum) →
      ∀ (off : Nat) (st : EncState) (seen : List String) (g : Gather) (raws : List RawInstr),
        gatherAux hdr hasRegs off st seen (.instr i :: rest) = .ok g → secondPass hasRegs st (.instr i' :: rest') = .ok raws →
        g.instrs = offsetsFrom off (sizes hdr raws) ∧ g.endOffset = off + (sizes hdr raws).sum := by
    intro i i' rest rest' hi ih off st seen g raws hg hs
    obtain ⟨raw, st1, raws1, he, hs1, hraws⟩ := secondPass_instr_ok hs
    obtain ⟨rawd, st1d, g1, hed, hg1, hgeq⟩ := gatherAux_instr_ok hg
    obtain ⟨raw', hd, hlen, _⟩ := dummy_same_size hasRegs st i i' raw st1 hi he
    rw [hd] at hed
    cases hed
    have hsz : instrSize hdr rawd = instrSize hdr raw := by simp [instrSize, hlen]
    rw [hsz] at hg1
    obtain ⟨h1, h2⟩ := ih _ _ _ _ _ hg1 hs1
    subst hgeq; subst hraws
    refine ⟨?_, ?_⟩
    · simp [sizes, offsetsFrom, h1]
    · simp only [h2, sizes, List.map_cons, List.sum_cons]; omega
  induction hrel with
  | nil =>
    intro off st seen g raws hg hs
    simp only [gatherAux] at hg
    simp only [secondPass] at hs
    cases hg; cases hs
    simp [sizes, offsetsFrom]
  | @cons s s' rest rest' hss hrest ih =>
    cases hss with
    | instr i i' hi => exact instrCase i i' rest rest' hi ih
    | other =>
      cases s with
      | instr i => exact instrCase i i rest rest' (.unknown i) ih
      | label t n =>
        intro off st seen g raws hg hs
        obtain ⟨_, g1, hg1, hgeq⟩ := gatherAux_label_ok hg
        simp only [secondPass] at hs
        obtain ⟨h1, h2⟩ := ih _ _ _ _ _ hg1 hs
        subst hgeq
        exact ⟨h1, h2⟩
      | regAlloc d =>
        intro off st seen g raws hg hs
        obtain ⟨g1, hg1, hgeq⟩ := gatherAux_alloc_ok hg
        simp only [secondPass] at hs
        obtain ⟨h1, h2⟩ := ih _ _ _ _ _ hg1 hs
        subst hgeq
        exact ⟨h1, h2⟩
      | regFree d =>
        intro off st seen g raws hg hs
        obtain ⟨g1, hg1, hgeq⟩ := gatherAux_free_ok hg
        simp only [secondPass] at hs
        obtain ⟨h1, h2⟩ := ih _ _ _ _ _ hg1 hs
        subst hgeq
        exact ⟨h1, h2⟩

/-! ### `encode_labels` produces a real stream -/

theorem encodeLabelArg_real (mode : LabelMode) (labels : List LabelInfo) (cur : Nat) (a a' : LArg)
    (h : encodeLabelArg mode labels cur a = .ok a') : Real a a' := by
  cases a with
  | raw x => simp only [encodeLabelArg] at h; cases h; exact .same _
  | loc d fs => simp only [encodeLabelArg] at h; cases h; exact .same _
  | label n =>
    simp only [encodeLabelArg] at h
    cases hl : lookupLabel labels n with
    | none => rw [hl] at h; cases h
    | some info =>
      rw [hl] at h
      simp only at h
      cases hv : encodeLabel mode cur info.offset with
      | ok v => rw [hv] at h; cases h; exact .label n v
      | err c => rw [hv] at h; cases h
      | panic p => rw [hv] at h; cases h
  | timeOf n =>
    simp only [encodeLabelArg] at h
    cases hl : lookupLabel labels n with
    | none => rw [hl] at h; cases h
    | some info => rw [hl] at h; cases h; exact .timeOf n _

theorem encodeLabelArgs_real (mode : LabelMode) (labels : List LabelInfo) (cur : Nat) :
    ∀ (args args' : List LArg), encodeLabelArgs mode labels cur args = .ok args' → All2 Real args args' := by
  intro args
  induction args with
  | nil => intro args' h; simp only [encodeLabelArgs] at h; cases h; exact .nil
  | cons a as ih =>
    intro args' h
    simp only [encodeLabelArgs] at h
    cases ha : encodeLabelArg mode labels cur a with
    | ok a' =>
      rw [ha] at h
      simp only at h
      cases hr : encodeLabelArgs mode labels cur as with
      | ok as' =>
        rw [hr] at h
        cases h
        exact .cons (encodeLabelArg_real mode labels cur a a' ha) (ih as' hr)
      | err c => rw [hr] at h; cases h
      | panic p => rw [hr] at h; cases h
    | err c => rw [ha] at h; cases h
    | panic p => rw [ha] at h; cases h

theorem encodeLabelsStmt_real (mode : LabelMode) (labels : List LabelInfo) (cur : Nat) (s s' : LStmt)
    (h : encodeLabelsStmt mode labels cur s = .ok s') : StmtReal s s' := by
  cases s with
  | instr i =>
    obtain ⟨t, op, df, args⟩ := i
    cases args with
    | unknown blob => simp only [encodeLabelsStmt] at h; cases h; exact .other _
    | known abi args =>
      simp only [encodeLabelsStmt] at h
      cases hr : encodeLabelArgs mode labels cur args with
      | ok args' =>
        rw [hr] at h
        cases h
        exact .instr _ _ (.known t op df abi args args' (encodeLabelArgs_real mode labels cur args args' hr))
      | err c => rw [hr] at h; cases h
      | panic p => rw [hr] at h; cases h
  | label t n => simp only [encodeLabelsStmt] at h; cases h; exact .other _
  | regAlloc d => simp only [encodeLabelsStmt] at h; cases h; exact .other _
  | regFree d => simp only [encodeLabelsStmt] at h; cases h; exact .other _

theorem encodeLabelsAux_real (mode : LabelMode) (labels : List LabelInfo) :
    ∀ (code : List LStmt) (offs : List Nat) (code' : List LStmt),
    encodeLabelsAux mode labels offs code = .ok code' → All2 StmtReal code code' := by
  intro code
  induction code with
  | nil =>
    intro offs code' h
    cases offs with
    | nil => simp only [encodeLabelsAux] at h; cases h; exact .nil
    | cons o os => simp only [encodeLabelsAux] at h; cases h
  | cons s rest ih =>
    intro offs code' h
    cases offs with
    | nil => simp only [encodeLabelsAux] at h; cases h
    | cons o os =>
      simp only [encodeLabelsAux] at h
      cases hs : encodeLabelsStmt mode labels o s with
      | ok s' =>
        rw [hs] at h
        simp only at h
        cases hr : encodeLabelsAux mode labels os rest with
        | ok rest' =>
          rw [hr] at h
          cases h
          exact .cons (encodeLabelsStmt_real mode labels o s s' hs) (ih os rest' hr)
        | err c => rw [hr] at h; cases h
        | panic p => rw [hr] at h; cases h
      | err c =>
        rw [hs] at h
        simp only at h
        split at h <;> cases h
      | panic p => rw [hs] at h; cases h

theorem lowerTail_ok {hdr : Nat} {hasRegs : Bool} {mode : LabelMode} {code : List LStmt} {out : Lowered}
    (h : lowerTail hdr hasRegs mode code = .ok out) :
    ∃ code', gatherLabelInfo hdr hasRegs code = .ok out.info ∧ encodeLabels mode out.info code = .ok code' ∧
      secondPass hasRegs none code' = .ok out.instrs := by
  simp only [lowerTail] at h
  cases hg : gatherLabelInfo hdr hasRegs code with
  | ok g =>
    rw [hg] at h
    simp only at h
    cases he : encodeLabels mode g code with
    | ok code' =>
      rw [he] at h
      simp only at h
      cases hs : secondPass hasRegs none code' with
      | ok raws => rw [hs] at h; cases h; exact ⟨code', rfl, he, hs⟩
      | err c => rw [hs] at h; cases h
      | panic p => rw [hs] at h; cases h
    | err c => rw [he] at h; cases h
    | panic p => rw [he] at h; cases h
  | err c => rw [hg] at h; cases h
  | panic p => rw [hg] at h; cases h

/-- **offsets_stable.**  The instruction offsets recorded by the dummy pass (debug info
`instrs[].offset`) are the prefix sums of the sizes of the instructions the real pass produced:
the k-th offset is where the k-th emitted instruction starts. -/
theorem offsets_stable (hdr : Nat) (hasRegs : Bool) (mode : LabelMode) (code : List LStmt) (out : Lowered)
    (h : lowerTail hdr hasRegs mode code = .ok out) :
    out.info.instrs = offsetsFrom 0 (sizes hdr out.instrs) := by
  obtain ⟨code', hg, he, hs⟩ := lowerTail_ok h
  exact (gather_second hdr hasRegs code code' (encodeLabelsAux_real mode _ code _ code' he) 0 none [] _ _ hg hs).1

/-- **end_is_length.**  The recorded end offset is the total size of the emitted instructions. -/
theorem end_is_length (hdr : Nat) (hasRegs : Bool) (mode : LabelMode) (code : List LStmt) (out : Lowered)
    (h : lowerTail hdr hasRegs mode code = .ok out) :
    out.info.endOffset = (sizes hdr out.instrs).sum := by
  obtain ⟨code', hg, he, hs⟩ := lowerTail_ok h
  have := (gather_second hdr hasRegs code code' (encodeLabelsAux_real mode _ code _ code' he) 0 none [] _ _ hg hs).2
  omega

theorem offsetsFrom_length (off : Nat) (ss : List Nat) : (offsetsFrom off ss).length = ss.length := by
  induction ss generalizing off with
  | nil => rfl
  | cons s ss ih => simp [offsetsFrom, ih]

/-- one debug-info instruction entry per emitted instruction -/
theorem instr_count (hdr : Nat) (hasRegs : Bool) (mode : LabelMode) (code : List LStmt) (out : Lowered)
    (h : lowerTail hdr hasRegs mode code = .ok out) : out.info.instrs.length = out.instrs.length := by
  rw [offsets_stable hdr hasRegs mode code out h, offsetsFrom_length]
  simp [sizes]

/-! ### labels -/

theorem mem_of_head? {α : Type} {l : List α} {x : α} (h : l.head? = some x) : x ∈ l := by
  cases l with
  | nil => cases h
  | cons a as => simp only [List.head?_cons, Option.some.injEq] at h; subst h; exact List.mem_cons_self

theorem gather_boundaries (hdr : Nat) (hasRegs : Bool) : ∀ (code : List LStmt) (off : Nat) (st : EncState)
    (seen : List String) (g : Gather), gatherAux hdr hasRegs off st seen code = .ok g →
    (∀ l ∈ g.labels, l.offset ∈ g.instrs ∨ l.offset = g.endOffset) ∧
    (g.instrs.head? = some off ∨ (g.instrs = [] ∧ g.endOffset = off)) := by
  intro code
  induction code with
  | nil =>
    intro off st seen g h
    simp only [gatherAux] at h
    cases h
    simp
  | cons s rest ih =>
    intro off st seen g h
    cases s with
    | instr i =>
      obtain ⟨raw, st1, g1, _, hg1, hgeq⟩ := gatherAux_instr_ok h
      obtain ⟨h1, _⟩ := ih _ _ _ _ hg1
      subst hgeq
      refine ⟨?_, Or.inl rfl⟩
      intro l hl
      cases h1 l hl with
      | inl hm => exact Or.inl (List.mem_cons_of_mem _ hm)
      | inr he => exact Or.inr he
    | label t n =>
      obtain ⟨_, g1, hg1, hgeq⟩ := gatherAux_label_ok h
      obtain ⟨h1, h2⟩ := ih _ _ _ _ hg1
      subst hgeq
      refine ⟨?_, h2⟩
      intro l hl
      simp only [List.mem_cons] at hl
      cases hl with
      | inl heq =>
        subst heq
        cases h2 with
        | inl hh => exact Or.inl (mem_of_head? hh)
        | inr hh => exact Or.inr hh.2.symm
      | inr hm => exact h1 l hm
    | regAlloc d =>
      obtain ⟨g1, hg1, hgeq⟩ := gatherAux_alloc_ok h
      obtain ⟨h1, h2⟩ := ih _ _ _ _ hg1
      subst hgeq
      exact ⟨h1, h2⟩
    | regFree d =>
      obtain ⟨g1, hg1, hgeq⟩ := gatherAux_free_ok h
      obtain ⟨h1, h2⟩ := ih _ _ _ _ hg1
      subst hgeq
      exact ⟨h1, h2⟩

/-- **label_on_boundary.**  Every recorded label offset is the offset of an instruction or the
end offset — with `offsets_stable` / `end_is_length`: a boundary of the emitted instructions. -/
theorem label_on_boundary (hdr : Nat) (hasRegs : Bool) (mode : LabelMode) (code : List LStmt) (out : Lowered)
    (h : lowerTail hdr hasRegs mode code = .ok out) :
    ∀ l ∈ out.info.labels, l.offset ∈ offsetsFrom 0 (sizes hdr out.instrs) ∨ l.offset = (sizes hdr out.instrs).sum := by
  obtain ⟨code', hg, _, _⟩ := lowerTail_ok h
  intro l hl
  rw [← offsets_stable hdr hasRegs mode code out h, ← end_is_length hdr hasRegs mode code out h]
  exact (gather_boundaries hdr hasRegs code 0 none [] _ hg).1 l hl

/-- the label table: one entry per label statement, carrying that statement's time; names are
pairwise different and new -/
theorem gather_labels (hdr : Nat) (hasRegs : Bool) : ∀ (code : List LStmt) (off : Nat) (st : EncState)
    (seen : List String) (g : Gather), gatherAux hdr hasRegs off st seen code = .ok g →
    (∀ l ∈ g.labels, LStmt.label l.time l.name ∈ code ∧ l.name ∉ seen) ∧
    (g.labels.map (·.name)).Nodup ∧
    (∀ t n, LStmt.label t n ∈ code → ∃ o, (⟨n, o, t⟩ : LabelInfo) ∈ g.labels) := by
  intro code
  induction code with
  | nil =>
    intro off st seen g h
    simp only [gatherAux] at h
    cases h
    simp
  | cons s rest ih =>
    intro off st seen g h
    cases s with
    | instr i =>
      obtain ⟨raw, st1, g1, _, hg1, hgeq⟩ := gatherAux_instr_ok h
      obtain ⟨h1, h2, h3⟩ := ih _ _ _ _ hg1
      subst hgeq
      refine ⟨fun l hl => ⟨List.mem_cons_of_mem _ (h1 l hl).1, (h1 l hl).2⟩, h2, ?_⟩
      intro t n hm
      simp only [List.mem_cons, reduceCtorEq, false_or] at hm
      exact h3 t n hm
    | label t n =>
      obtain ⟨hseen, g1, hg1, hgeq⟩ := gatherAux_label_ok h
      obtain ⟨h1, h2, h3⟩ := ih _ _ _ _ hg1
      subst hgeq
      have hns : n ∉ seen := by
        intro hc
        have : seen.contains n = true := by simpa using hc
        rw [this] at hseen
        cases hseen
      refine ⟨?_, ?_, ?_⟩
      · intro l hl
        simp only [List.mem_cons] at hl
        cases hl with
        | inl heq => subst heq; exact ⟨List.mem_cons_self, hns⟩
        | inr hm =>
          refine ⟨List.mem_cons_of_mem _ (h1 l hm).1, ?_⟩
          intro hc
          exact (h1 l hm).2 (List.mem_cons_of_mem _ hc)
      · simp only [List.map_cons, List.nodup_cons]
        refine ⟨?_, h2⟩
        intro hc
        obtain ⟨l, hl, hname⟩ := List.mem_map.mp hc
        exact (h1 l hl).2 (by rw [hname]; exact List.mem_cons_self)
      · intro t' n' hm
        simp only [List.mem_cons, LStmt.label.injEq] at hm
        cases hm with
        | inl heq => obtain ⟨ht, hn⟩ := heq; subst ht; subst hn; exact ⟨off, List.mem_cons_self⟩
        | inr hm => obtain ⟨o, ho⟩ := h3 t' n' hm; exact ⟨o, List.mem_cons_of_mem _ ho⟩
    | regAlloc d =>
      obtain ⟨g1, hg1, hgeq⟩ := gatherAux_alloc_ok h
      obtain ⟨h1, h2, h3⟩ := ih _ _ _ _ hg1
      subst hgeq
      refine ⟨fun l hl => ⟨List.mem_cons_of_mem _ (h1 l hl).1, (h1 l hl).2⟩, h2, ?_⟩
      intro t n hm
      simp only [List.mem_cons, reduceCtorEq, false_or] at hm
      exact h3 t n hm
    | regFree d =>
      obtain ⟨g1, hg1, hgeq⟩ := gatherAux_free_ok h
      obtain ⟨h1, h2, h3⟩ := ih _ _ _ _ hg1
      subst hgeq
      refine ⟨fun l hl => ⟨List.mem_cons_of_mem _ (h1 l hl).1, (h1 l hl).2⟩, h2, ?_⟩
      intro t n hm
      simp only [List.mem_cons, reduceCtorEq, false_or] at hm
      exact h3 t n hm

theorem lookup_of_mem_nodup : ∀ (labels : List LabelInfo) (l : LabelInfo), (labels.map (·.name)).Nodup →
    l ∈ labels → lookupLabel labels l.name = some l := by
  intro labels
  induction labels with
  | nil => intro l _ hm; cases hm
  | cons x xs ih =>
    intro l hnd hm
    simp only [List.map_cons, List.nodup_cons] at hnd
    simp only [lookupLabel, List.find?_cons]
    simp only [List.mem_cons] at hm
    cases hm with
    | inl heq => subst heq; simp
    | inr hin =>
      have hne : (x.name == l.name) = false := by
        simp only [beq_eq_false_iff_ne, ne_eq]
        intro hc
        exact hnd.1 (by rw [hc]; exact List.mem_map.mpr ⟨l, hin, rfl⟩)
      rw [hne]
      exact ih l hnd.2 hin

/-- **label_time.**  For every label statement of the script the debug info has exactly one entry
of that name; it carries the statement's time, and it is the entry `offsetof(label)` and
`timeof(label)` arguments are resolved with (`encodeLabelArg` looks labels up by `lookupLabel`). -/
theorem label_time (hdr : Nat) (hasRegs : Bool) (mode : LabelMode) (code : List LStmt) (out : Lowered)
    (h : lowerTail hdr hasRegs mode code = .ok out) (t : Int) (n : String) (hm : LStmt.label t n ∈ code) :
    ∃ o, lookupLabel out.info.labels n = some ⟨n, o, t⟩ := by
  obtain ⟨code', hg, _, _⟩ := lowerTail_ok h
  obtain ⟨_, hnd, h3⟩ := gather_labels hdr hasRegs code 0 none [] _ hg
  obtain ⟨o, ho⟩ := h3 t n hm
  exact ⟨o, lookup_of_mem_nodup _ ⟨n, o, t⟩ hnd ho⟩

/-- a `timeof(label)` argument is encoded as the recorded time of that label, an `offsetof(label)`
argument as `encode_label(own offset, recorded offset)` -/
theorem label_args_use_recorded (mode : LabelMode) (labels : List LabelInfo) (cur : Nat) (n : String) (a' : LArg) :
    (encodeLabelArg mode labels cur (.timeOf n) = .ok a' →
      ∃ info, lookupLabel labels n = some info ∧ a' = .raw (.int info.time false)) ∧
    (encodeLabelArg mode labels cur (.label n) = .ok a' →
      ∃ info v, lookupLabel labels n = some info ∧ encodeLabel mode cur info.offset = .ok v ∧ a' = .raw (.int v false)) := by
  constructor
  · intro h
    simp only [encodeLabelArg] at h
    cases hl : lookupLabel labels n with
    | none => rw [hl] at h; cases h
    | some info => rw [hl] at h; cases h; exact ⟨info, rfl, rfl⟩
  · intro h
    simp only [encodeLabelArg] at h
    cases hl : lookupLabel labels n with
    | none => rw [hl] at h; cases h
    | some info =>
      rw [hl] at h
      simp only at h
      cases hv : encodeLabel mode cur info.offset with
      | ok v => rw [hv] at h; cases h; exact ⟨info, v, rfl, hv, rfl⟩
      | err c => rw [hv] at h; cases h
      | panic p => rw [hv] at h; cases h

/-! ## the written bytes (headers of C03) -/

/-- every instruction of `is` is found in `bytes` at the corresponding offset -/
def instrsAt (f : InstrIO.Fmt) (bytes : InstrIO.Bytes) : List Nat → List InstrIO.Instr → Prop
  | [], [] => True
  | o :: os, i :: is =>
    (∃ b, InstrIO.writeInstr f i = .ok b ∧ (bytes.drop o).take b.length = b) ∧ instrsAt f bytes os is
  | _, _ => False

theorem instrSize_toIO (f : InstrIO.Fmt) (r : RawInstr) :
    InstrIO.instrSize f r.toIO = instrSize (InstrIO.headerSize f) r := rfl

theorem writeInstrs_layout (f : InstrIO.Fmt) : ∀ (is : List RawInstr) (bs pre : InstrIO.Bytes),
    InstrIO.writeInstrs f (is.map RawInstr.toIO) = .ok bs →
    instrsAt f (pre ++ bs) (offsetsFrom pre.length (sizes (InstrIO.headerSize f) is)) (is.map RawInstr.toIO) ∧
    bs.length = (sizes (InstrIO.headerSize f) is).sum + (InstrIO.writeTerminal f).length := by
  intro is
  induction is with
  | nil =>
    intro bs pre h
    simp only [List.map_nil, InstrIO.writeInstrs] at h
    cases h
    simp [instrsAt, sizes, offsetsFrom]
  | cons r rs ih =>
    intro bs pre h
    simp only [List.map_cons] at h
    obtain ⟨b, bs', hb, hbs, heq⟩ := C03.writeInstrs_cons_ok h
    have hlen : b.length = instrSize (InstrIO.headerSize f) r := by
      rw [C03.write_length hb]; rfl
    obtain ⟨h1, h2⟩ := ih bs' (pre ++ b) hbs
    subst heq
    refine ⟨?_, ?_⟩
    · simp only [sizes, List.map_cons, offsetsFrom, instrsAt]
      refine ⟨⟨b, hb, ?_⟩, ?_⟩
      · simp [List.drop_append, List.take_append]
      · have : pre ++ (b ++ bs') = (pre ++ b) ++ bs' := by simp
        rw [this]
        have hl : pre.length + instrSize (InstrIO.headerSize f) r = (pre ++ b).length := by simp [hlen]
        rw [hl]
        exact h1
    · simp only [List.length_append, h2, sizes, List.map_cons, List.sum_cons, hlen]
      omega

/-- **written_layout.**  When the emitted instructions are written with the header layout of any
of the eight instruction formats (`InstrIO.writeInstrs`, the writer proved correct in C03), the
k-th debug-info offset is the position of the k-th instruction in the written script, and the end
offset is the length of the written script without its end marker. -/
theorem written_layout (f : InstrIO.Fmt) (hasRegs : Bool) (mode : LabelMode) (code : List LStmt) (out : Lowered)
    (bytes : InstrIO.Bytes)
    (h : lowerTail (InstrIO.headerSize f) hasRegs mode code = .ok out)
    (hw : InstrIO.writeInstrs f (out.instrs.map RawInstr.toIO) = .ok bytes) :
    instrsAt f bytes out.info.instrs (out.instrs.map RawInstr.toIO) ∧
    bytes.length = out.info.endOffset + (InstrIO.writeTerminal f).length := by
  have h1 := writeInstrs_layout f out.instrs bytes [] hw
  rw [offsets_stable _ hasRegs mode code out h, end_is_length _ hasRegs mode code out h]
  simpa using h1

/-! ## assertions and panics of the passes -/

theorem gather_stmtOffsets_length (hdr : Nat) (hasRegs : Bool) : ∀ (code : List LStmt) (off : Nat) (st : EncState)
    (seen : List String) (g : Gather), gatherAux hdr hasRegs off st seen code = .ok g →
    g.stmtOffsets.length = code.length := by
  intro code
  induction code with
  | nil => intro off st seen g h; simp only [gatherAux] at h; cases h; rfl
  | cons s rest ih =>
    intro off st seen g h
    cases s with
    | instr i =>
      obtain ⟨raw, st1, g1, _, hg1, hgeq⟩ := gatherAux_instr_ok h
      subst hgeq; simp [ih _ _ _ _ hg1]
    | label t n =>
      obtain ⟨_, g1, hg1, hgeq⟩ := gatherAux_label_ok h
      subst hgeq; simp [ih _ _ _ _ hg1]
    | regAlloc d =>
      obtain ⟨g1, hg1, hgeq⟩ := gatherAux_alloc_ok h
      subst hgeq; simp [ih _ _ _ _ hg1]
    | regFree d =>
      obtain ⟨g1, hg1, hgeq⟩ := gatherAux_free_ok h
      subst hgeq; simp [ih _ _ _ _ hg1]

/-- `encode_label` / the label lookup never panic, in any label mode (the EoSD STD `assert_eq!` on
multiples of 20 was removed by the repair a68533f) -/
theorem encodeLabelArgs_no_panic (mode : LabelMode) (labels : List LabelInfo) (cur : Nat) :
    ∀ (as : List LArg) (q : String), encodeLabelArgs mode labels cur as ≠ .panic q := by
  intro as
  induction as with
  | nil => intro q; simp [encodeLabelArgs]
  | cons a as iha =>
    intro q hq
    simp only [encodeLabelArgs] at hq
    cases ha : encodeLabelArg mode labels cur a with
    | ok a' =>
      rw [ha] at hq
      simp only at hq
      cases hr : encodeLabelArgs mode labels cur as with
      | ok r => rw [hr] at hq; cases hq
      | err c => rw [hr] at hq; cases hq
      | panic q' => exact iha q' hr
    | err c => rw [ha] at hq; cases hq
    | panic q' =>
      cases a with
      | raw x => simp [encodeLabelArg] at ha
      | loc d fs => simp [encodeLabelArg] at ha
      | label n =>
        simp only [encodeLabelArg] at ha
        cases hl : lookupLabel labels n with
        | none => rw [hl] at ha; cases ha
        | some info => rw [hl] at ha; cases mode <;> simp [encodeLabel] at ha
      | timeOf n =>
        simp only [encodeLabelArg] at ha
        cases hl : lookupLabel labels n with
        | none => rw [hl] at ha; cases ha
        | some info => rw [hl] at ha; cases ha

theorem encodeLabelsStmt_no_panic (mode : LabelMode) (labels : List LabelInfo) (cur : Nat) (s : LStmt) (q : String) :
    encodeLabelsStmt mode labels cur s ≠ .panic q := by
  intro hs
  cases s with
  | instr i =>
    obtain ⟨t, op, df, args⟩ := i
    cases args with
    | unknown b => simp [encodeLabelsStmt] at hs
    | known abi args =>
      simp only [encodeLabelsStmt] at hs
      cases hr : encodeLabelArgs mode labels cur args with
      | ok r => rw [hr] at hs; cases hs
      | err c => rw [hr] at hs; cases hs
      | panic q' => exact encodeLabelArgs_no_panic mode labels cur args q' hr
  | label t n => simp [encodeLabelsStmt] at hs
  | regAlloc d => simp [encodeLabelsStmt] at hs
  | regFree d => simp [encodeLabelsStmt] at hs

/-- the `assert_eq!(code.len(), stmt_offsets.len())` of `encode_labels` cannot fail, and nothing
else in `encode_labels` can panic -/
theorem encodeLabelsAux_no_panic (mode : LabelMode) (labels : List LabelInfo) :
    ∀ (code : List LStmt) (offs : List Nat) (p : String), offs.length = code.length →
    encodeLabelsAux mode labels offs code ≠ .panic p := by
  intro code
  induction code with
  | nil =>
    intro offs p hl h
    cases offs with
    | nil => simp [encodeLabelsAux] at h
    | cons o os => simp at hl
  | cons s rest ih =>
    intro offs p hl h
    cases offs with
    | nil => simp at hl
    | cons o os =>
      have hl' : os.length = rest.length := by simpa using hl
      simp only [encodeLabelsAux] at h
      cases hs : encodeLabelsStmt mode labels o s with
      | ok s' =>
        rw [hs] at h
        simp only at h
        cases hr : encodeLabelsAux mode labels os rest with
        | ok r => rw [hr] at h; cases h
        | err c => rw [hr] at h; cases h
        | panic q => exact ih os q hl' hr
      | err c =>
        rw [hs] at h
        simp only at h
        cases hr : encodeLabelsAux mode labels os rest with
        | ok r => rw [hr] at h; cases h
        | err c => rw [hr] at h; cases h
        | panic q => exact ih os q hl' hr
      | panic q => exact encodeLabelsStmt_no_panic mode labels o s q hs

/-- `encode_labels` never panics, for every format -/
theorem encodeLabels_no_panic (hdr : Nat) (hasRegs : Bool) (mode : LabelMode) (code : List LStmt) (g : Gather) (p : String)
    (hg : gatherLabelInfo hdr hasRegs code = .ok g) :
    encodeLabels mode g code ≠ .panic p :=
  encodeLabelsAux_no_panic mode g.labels code g.stmtOffsets p
    (gather_stmtOffsets_length hdr hasRegs code 0 none [] g hg)

/-! ## what is false of the code that exists (witnesses, replayed on the implementation) -/

/-- TH12 ANM `ins_68(timeof(endl)); +300: endl:` (signature `b(imm)---`) -/
def narrowWitness : List LStmt := [
  .instr ⟨0, 68, 255, .known [.int .w1 false false true, .padding false, .padding false, .padding false] [.timeOf "endl"]⟩,
  .label 300 "endl"]

/-- **The second pass can fail** where the dummy pass succeeded: the dummy 0 fits a one-byte
parameter, the label's time 300 does not.  The dummy pass is size-faithful only in one direction
(`dummy_same_size`): real encodes ⇒ dummy encodes.  Before the repair ac7ec81 this was the panic
"we encoded this successfully before!"; now the error of the second pass is reported. -/
theorem second_pass_reports : lowerTail 8 true .absolute narrowWitness = .err "integer argument does not fit" := by decide

/-- the dummy pass itself accepts the witness -/
theorem second_pass_reports_gather_ok : (gatherLabelInfo 8 true narrowWitness).isOk = true := by decide

/-- TH06 STD `ins_0(@blob="00000000"); lbl: ins_3(offsetof(lbl));` -/
def std06Witness : List LStmt := [
  .instr ⟨0, 0, 255, .unknown [0, 0, 0, 0]⟩,
  .label 0 "lbl",
  .instr ⟨0, 3, 255, .known [.int .w4 true false false, .padding true, .padding true] [.label "lbl"]⟩]

/-- `encode_label` of EoSD STD no longer asserts that the destination is a multiple of 20 bytes
(repair a68533f): lowering succeeds, the 16-byte instruction is rejected by the writer (C03) -/
theorem index20_no_assert :
    (lowerTail 8 false .index20 std06Witness).isOk = true := by decide

/-- **The `Local` arm of `substitute_dummy_args` is wrong for float storage**: the dummy is an
integer, `expect_float` panics.  Unreachable today only because `assign_registers` runs first
(`resolveLocals_no_loc`). -/
theorem dummy_float_local_panics :
    encodeInstr true none (substituteDummy ⟨0, 1, 255, .known [.float false] [.loc 0 true]⟩) = .panic "expect_float" := by
  decide

def argIsLoc : LArg → Bool
  | .loc _ _ => true
  | _ => false

def stmtHasLoc : LStmt → Bool
  | .instr ⟨_, _, _, .known _ args⟩ => args.any argIsLoc
  | _ => false

/-- after `assign_registers` no `Local` argument is left, whatever the assignment -/
theorem resolveLocals_no_loc (f32Bits : Int → UInt32) (regOf : Nat → Int) (code : List LStmt) :
    ∀ s ∈ resolveLocals f32Bits regOf code, stmtHasLoc s = false := by
  intro s hs
  simp only [resolveLocals, List.mem_map] at hs
  obtain ⟨s0, _, rfl⟩ := hs
  cases s0 with
  | instr i =>
    obtain ⟨t, op, df, args⟩ := i
    cases args with
    | unknown b => simp [resolveStmt, stmtHasLoc]
    | known abi args =>
      simp only [resolveStmt, stmtHasLoc, List.any_map, List.any_eq_false]
      intro a _
      cases a <;> simp [resolveArg, argIsLoc, Function.comp]
  | label t n => simp [resolveStmt, stmtHasLoc]
  | regAlloc d => simp [resolveStmt, stmtHasLoc]
  | regFree d => simp [resolveStmt, stmtHasLoc]

/-! ## the hypotheses are satisfiable: a script with furigana strings, a jump, a `@blob`, labels
between instructions and at the end -/

def sample : List LStmt := [
  .instr ⟨0, 1, 255, .known [.str (.toBlobEnd 4) ⟨0x77, 7, 16⟩ true] [.raw (.str [0x7c, 65, 66])]⟩,
  .label 0 "a",
  .instr ⟨10, 2, 255, .known [.str (.toBlobEnd 4) ⟨0x77, 7, 16⟩ true] [.raw (.str [65])]⟩,
  .instr ⟨10, 3, 255, .known [.jumpOffset, .jumpTime] [.label "b", .timeOf "b"]⟩,
  .regAlloc 0,
  .instr ⟨10, 4, 255, .unknown [1, 2, 3]⟩,
  .label 20 "b"]

/-- the sample lowers; the second string carries the furigana bytes of the first (8 instead of 4
bytes), the jump encodes offset 39 = end and time 20 -/
example : (lowerTail 4 false .absolute sample).isOk = true := by decide
example : (match lowerTail 4 false .absolute sample with
    | .ok out => decide (out.info.instrs = [0, 8, 20, 32] ∧ out.info.endOffset = 39 ∧
        out.info.labels = [⟨"a", 8, 0⟩, ⟨"b", 39, 20⟩] ∧ out.instrs.map (·.blob.length) = [4, 8, 8, 3])
    | _ => false) = true := by decide
example : InstrReal ⟨10, 3, 255, .known [.jumpOffset, .jumpTime] [.label "b", .timeOf "b"]⟩
    ⟨10, 3, 255, .known [.jumpOffset, .jumpTime] [.raw (.int 39 false), .raw (.int 20 false)]⟩ :=
  .known _ _ _ _ _ _ (.cons (.label _ _) (.cons (.timeOf _ _) .nil))
example : LStmt.label 20 "b" ∈ sample := by decide

/-! ## the converse: when the second pass cannot fail -/

/-- encodings that take every `i32`: 4-byte integers and the two jump encodings -/
def encIsWide : Enc → Bool
  | .int .w4 _ false _ => true
  | .jumpOffset => true
  | .jumpTime => true
  | _ => false

/-- real and dummy argument lists that differ only under wide encodings (pairing of `encLoop`) -/
inductive WD : Abi → List Arg → List Arg → Prop
  | refl (es : Abi) (as : List Arg) : WD es as as
  | pad {e : Enc} {es : Abi} {as ds : List Arg} : e.isPadding = true → WD es as ds → WD (e :: es) as ds
  | same {e : Enc} {es : Abi} {a : Arg} {as ds : List Arg} : e.isPadding = false → WD es as ds → WD (e :: es) (a :: as) (a :: ds)
  | zero {e : Enc} {es : Abi} {v : Int} {r : Bool} {as ds : List Arg} : e.isPadding = false → encIsWide e = true →
      WD es as ds → WD (e :: es) (.int v r :: as) (.int 0 r :: ds)

theorem encodeOne_wide (st : EncState) (e : Enc) (v : Int) (r : Bool) (b' : Bytes) (st1 : EncState)
    (hw : encIsWide e = true) (h : encodeOne st e (.int 0 r) = .ok (b', st1)) :
    ∃ b, encodeOne st e (.int v r) = .ok (b, st1) := by
  cases e with
  | int w signed arg0 imm =>
    cases w <;> cases arg0 <;> simp [encIsWide] at hw
    simp only [encodeOne, expectInt] at h ⊢
    simp at h ⊢
    exact h.2
  | jumpOffset => simp only [encodeOne, expectInt] at h ⊢; cases h; exact ⟨_, rfl⟩
  | jumpTime => simp only [encodeOne, expectInt] at h ⊢; cases h; exact ⟨_, rfl⟩
  | padding wide => simp [encIsWide] at hw
  | float imm => simp [encIsWide] at hw
  | str size mask furibug => simp [encIsWide] at hw

theorem WD.anyReg {es : Abi} {as ds : List Arg} (h : WD es as ds) : ds.any Arg.isReg = as.any Arg.isReg := by
  induction h with
  | refl => rfl
  | pad _ _ ih => exact ih
  | same _ _ ih => simp [List.any_cons, ih]
  | zero _ _ _ ih => simp [List.any_cons, Arg.isReg, ih]

theorem encLoop_conv : ∀ (es : Abi) (args ds : List Arg), WD es args ds → ∀ (k : Nat) (st : EncState) (o' : EncOut),
    encLoop k es ds st = .ok o' → ∃ o, encLoop k es args st = .ok o ∧ o.st = o'.st := by
  intro es args ds h
  induction h with
  | refl es as => intro k st o' h; exact ⟨o', h, rfl⟩
  | @pad e es as ds hp _ ih =>
    intro k st o' h
    simp only [encLoop, hp, if_true] at h ⊢
    cases hr : encLoop k es ds st with
    | ok o1 =>
      rw [hr] at h
      cases h
      obtain ⟨o, ho, hs⟩ := ih k st o1 hr
      rw [ho]
      exact ⟨_, rfl, hs⟩
    | err c => rw [hr] at h; cases h
    | panic p => rw [hr] at h; cases h
  | @same e es a as ds hp _ ih =>
    intro k st o' h
    simp only [encLoop, hp, Bool.false_eq_true, if_false] at h ⊢
    split at h
    · cases h
    · rename_i hk
      rw [if_neg hk]
      cases h1 : encodeOne st e a with
      | ok r1 =>
        obtain ⟨bytes, st1⟩ := r1
        rw [h1] at h
        simp only at h ⊢
        cases hr : encLoop (k + 1) es ds st1 with
        | ok o1 =>
          rw [hr] at h
          cases h
          obtain ⟨o, ho, hs⟩ := ih (k + 1) st1 o1 hr
          rw [ho]
          exact ⟨_, rfl, hs⟩
        | err c => rw [hr] at h; cases h
        | panic p => rw [hr] at h; cases h
      | err c => rw [h1] at h; cases h
      | panic p => rw [h1] at h; cases h
  | @zero e es v r as ds hp hw _ ih =>
    intro k st o' h
    simp only [encLoop, hp, Bool.false_eq_true, if_false, Arg.isReg] at h ⊢
    have hk : (r && decide (16 ≤ k)) = false := by
      cases hb : (r && decide (16 ≤ k)) with
      | false => rfl
      | true => simp only [hb, if_true] at h; cases h
    · simp only [hk, Bool.false_eq_true, if_false] at h ⊢
      cases h1 : encodeOne st e (.int 0 r) with
      | ok r1 =>
        obtain ⟨bytes, st1⟩ := r1
        rw [h1] at h
        simp only at h
        obtain ⟨b, hb⟩ := encodeOne_wide st e v r bytes st1 hw h1
        rw [hb]
        simp only
        cases hr : encLoop (k + 1) es ds st1 with
        | ok o1 =>
          rw [hr] at h
          cases h
          obtain ⟨o, ho, hs⟩ := ih (k + 1) st1 o1 hr
          rw [ho]
          exact ⟨_, rfl, hs⟩
        | err c => rw [hr] at h; cases h
        | panic p => rw [hr] at h; cases h
      | err c => rw [h1] at h; cases h
      | panic p => rw [h1] at h; cases h

theorem encodePlain_conv (st : EncState) (es : Abi) (args ds : List Arg) (a0 : Option Int)
    (raw' : Raw) (w' : List String) (st1 : EncState)
    (hwd : WD es args ds) (h : encodePlain st es ds a0 = .ok (raw', w', st1)) :
    ∃ raw w, encodePlain st es args a0 = .ok (raw, w, st1) := by
  simp only [encodePlain] at h ⊢
  cases hr : encLoop 0 es ds st with
  | ok o' =>
    rw [hr] at h
    cases h
    obtain ⟨o, ho, hs⟩ := encLoop_conv es args ds hwd 0 st o' hr
    rw [ho]
    exact ⟨⟨o.blob, o.mask % 65536, a0⟩, o.warnings, by simp [hs]⟩
  | err c => rw [hr] at h; cases h
  | panic p => rw [hr] at h; cases h

/-- labels and `timeof` only under wide encodings, no unresolved local, not more arguments than
parameters (pairing of `encLoop`) -/
def wideLoop : Abi → List LArg → Bool
  | _, [] => true
  | [], _ :: _ => false
  | e :: es, a :: as =>
    if e.isPadding then wideLoop es (a :: as)
    else (match a with
      | .raw _ => true
      | .label _ => encIsWide e
      | .timeOf _ => encIsWide e
      | .loc _ _ => false) && wideLoop es as

def wideArgs : Abi → List LArg → Bool
  | e :: es, a :: as =>
    if e.isArg0 then (match a with | .raw _ => true | _ => false) && wideLoop es as
    else wideLoop (e :: es) (a :: as)
  | es, args => wideLoop es args

def wideStmt : LStmt → Bool
  | .instr ⟨_, _, _, .known abi args⟩ => wideArgs abi args
  | _ => true

theorem expectRawAll_cons {a : LArg} {as : List LArg} {xs : List Arg} (h : expectRawAll (a :: as) = .ok xs) :
    ∃ x xs', a = .raw x ∧ expectRawAll as = .ok xs' ∧ xs = x :: xs' := by
  simp only [expectRawAll] at h
  cases a with
  | raw x =>
    simp only [expectRaw] at h
    cases hr : expectRawAll as with
    | ok xs' => rw [hr] at h; cases h; exact ⟨x, xs', rfl, rfl, rfl⟩
    | err c => rw [hr] at h; cases h
    | panic p => rw [hr] at h; cases h
  | label n => simp [expectRaw] at h
  | timeOf n => simp [expectRaw] at h
  | loc d fs => simp [expectRaw] at h

theorem encodeLabelArgs_cons {mode : LabelMode} {labels : List LabelInfo} {cur : Nat} {a : LArg} {as args' : List LArg}
    (h : encodeLabelArgs mode labels cur (a :: as) = .ok args') :
    ∃ a' as', encodeLabelArg mode labels cur a = .ok a' ∧ encodeLabelArgs mode labels cur as = .ok as' ∧ args' = a' :: as' := by
  simp only [encodeLabelArgs] at h
  cases ha : encodeLabelArg mode labels cur a with
  | ok a' =>
    rw [ha] at h
    simp only at h
    cases hr : encodeLabelArgs mode labels cur as with
    | ok as' => rw [hr] at h; cases h; exact ⟨a', as', rfl, rfl, rfl⟩
    | err c => rw [hr] at h; cases h
    | panic p => rw [hr] at h; cases h
  | err c => rw [ha] at h; cases h
  | panic p => rw [ha] at h; cases h

/-- after `encode_labels` the arguments of a wide instruction are all raw, and they relate to the
dummies by `WD` -/
theorem wide_WD (mode : LabelMode) (labels : List LabelInfo) (cur : Nat) : ∀ (es : Abi) (args args' : List LArg) (ds : List Arg),
    wideLoop es args = true → encodeLabelArgs mode labels cur args = .ok args' →
    expectRawAll (args.map dummyArg) = .ok ds → ∃ xs, expectRawAll args' = .ok xs ∧ WD es xs ds := by
  intro es
  induction es with
  | nil =>
    intro args args' ds hw hl hd
    cases args with
    | nil =>
      simp only [encodeLabelArgs] at hl; simp only [List.map_nil, expectRawAll] at hd
      cases hl; cases hd
      exact ⟨[], rfl, .refl _ _⟩
    | cons a as => simp [wideLoop] at hw
  | cons e es ih =>
    intro args args' ds hw hl hd
    cases args with
    | nil =>
      simp only [encodeLabelArgs] at hl; simp only [List.map_nil, expectRawAll] at hd
      cases hl; cases hd
      exact ⟨[], rfl, .refl _ _⟩
    | cons a as =>
      by_cases hp : e.isPadding = true
      · simp only [wideLoop, hp, if_true] at hw
        obtain ⟨xs, hx, hwd⟩ := ih (a :: as) args' ds hw hl hd
        exact ⟨xs, hx, .pad hp hwd⟩
      · have hp' : e.isPadding = false := by simpa using hp
        simp only [wideLoop, hp', Bool.false_eq_true, if_false, Bool.and_eq_true] at hw
        obtain ⟨a', as', ha, has, heq⟩ := encodeLabelArgs_cons hl
        subst heq
        simp only [List.map_cons] at hd
        obtain ⟨d, ds', had, hds', hdeq⟩ := expectRawAll_cons hd
        subst hdeq
        obtain ⟨xs', hxs', hwd⟩ := ih as as' ds' hw.2 has hds'
        cases a with
        | raw x =>
          simp only [encodeLabelArg] at ha
          cases ha
          simp only [dummyArg, LArg.raw.injEq] at had
          subst had
          exact ⟨x :: xs', by simp [expectRawAll, expectRaw, hxs'], .same hp' hwd⟩
        | label n =>
          obtain ⟨info, v, _, _, ha'⟩ := (label_args_use_recorded mode labels cur n a').2 ha
          subst ha'
          simp only [dummyArg, LArg.raw.injEq] at had
          subst had
          exact ⟨.int v false :: xs', by simp [expectRawAll, expectRaw, hxs'], .zero hp' (by simpa using hw.1) hwd⟩
        | timeOf n =>
          obtain ⟨info, _, ha'⟩ := (label_args_use_recorded mode labels cur n a').1 ha
          subst ha'
          simp only [dummyArg, LArg.raw.injEq] at had
          subst had
          exact ⟨.int info.time false :: xs', by simp [expectRawAll, expectRaw, hxs'], .zero hp' (by simpa using hw.1) hwd⟩
        | loc d fs => simp at hw

theorem encodeArgs_conv (hasRegs : Bool) (st : EncState) (mode : LabelMode) (labels : List LabelInfo) (cur : Nat)
    (abi : Abi) (args args' : List LArg) (ds : List Arg) (raw' : Raw) (w' : List String) (st1 : EncState)
    (hw : wideArgs abi args = true) (hl : encodeLabelArgs mode labels cur args = .ok args')
    (hd : expectRawAll (args.map dummyArg) = .ok ds) (h : encodeArgs hasRegs st abi ds = .ok (raw', w', st1)) :
    ∃ xs raw w, expectRawAll args' = .ok xs ∧ encodeArgs hasRegs st abi xs = .ok (raw, w, st1) := by
  -- the general case: `WD abi xs ds`
  have general : wideLoop abi args = true → (∀ e es, abi = e :: es → e.isArg0 = false ∨ args = []) →
      ∃ xs raw w, expectRawAll args' = .ok xs ∧ encodeArgs hasRegs st abi xs = .ok (raw, w, st1) := by
    intro hwl hna
    obtain ⟨xs, hx, hwd⟩ := wide_WD mode labels cur abi args args' ds hwl hl hd
    refine ⟨xs, ?_⟩
    unfold encodeArgs at h ⊢
    rw [← hwd.anyReg]
    split at h
    · cases h
    · rename_i hreg
      rw [if_neg hreg]
      cases abi with
      | nil =>
        obtain ⟨raw, w, hr⟩ := encodePlain_conv st [] xs ds none raw' w' st1 hwd h
        exact ⟨raw, w, hx, hr⟩
      | cons e es =>
        simp only at h ⊢
        cases hna e es rfl with
        | inl hne =>
          simp only [hne, Bool.false_eq_true, if_false] at h ⊢
          obtain ⟨raw, w, hr⟩ := encodePlain_conv st (e :: es) xs ds none raw' w' st1 hwd h
          exact ⟨raw, w, hx, hr⟩
        | inr hnil =>
          subst hnil
          simp only [encodeLabelArgs] at hl; cases hl
          simp only [List.map_nil, expectRawAll] at hd; cases hd
          simp only [expectRawAll] at hx; cases hx
          exact ⟨raw', w', rfl, h⟩
  cases abi with
  | nil => exact general (by simpa [wideArgs] using hw) (by intro e es he; cases he)
  | cons e es =>
    cases args with
    | nil => exact general (by simpa [wideArgs] using hw) (by intro _ _ _; exact Or.inr rfl)
    | cons a as =>
      by_cases ha0 : e.isArg0 = true
      · simp only [wideArgs, ha0, if_true, Bool.and_eq_true] at hw
        obtain ⟨a', as', ha, has, heq⟩ := encodeLabelArgs_cons hl
        subst heq
        simp only [List.map_cons] at hd
        obtain ⟨d, ds', had, hds', hdeq⟩ := expectRawAll_cons hd
        subst hdeq
        cases a with
        | raw x =>
          simp only [encodeLabelArg] at ha
          cases ha
          simp only [dummyArg, LArg.raw.injEq] at had
          subst had
          obtain ⟨xs', hxs', hwd⟩ := wide_WD mode labels cur es as as' ds' hw.2 has hds'
          refine ⟨x :: xs', ?_⟩
          unfold encodeArgs at h ⊢
          simp only [List.any_cons, ← hwd.anyReg]
          simp only [List.any_cons] at h
          split at h
          · cases h
          · rename_i hreg
            rw [if_neg hreg]
            simp only [ha0, if_true] at h ⊢
            split at h
            · cases h
            · rename_i hxr
              rw [if_neg hxr]
              cases hi : expectInt x with
              | ok v =>
                rw [hi] at h
                simp only at h ⊢
                split at h
                · cases h
                · rename_i hfit
                  rw [if_neg hfit]
                  obtain ⟨raw, w, hr⟩ := encodePlain_conv st es xs' ds' (some v) raw' w' st1 hwd h
                  exact ⟨raw, w, by simp [expectRawAll, expectRaw, hxs'], hr⟩
              | err c => rw [hi] at h; cases h
              | panic p => rw [hi] at h; cases h
        | label n => simp at hw
        | timeOf n => simp at hw
        | loc d fs => simp at hw
      · have ha0' : e.isArg0 = false := by simpa using ha0
        exact general (by simpa [wideArgs, ha0'] using hw) (by intro e' es' he; cases he; exact Or.inl ha0')

/-- **The converse of `dummy_same_size`**, under a stated condition: if every label / `timeof`
argument of the instruction sits under an encoding that takes every `i32` (4-byte integer, jump
offset, jump time) and no local is unresolved, then whenever the dummy-substituted instruction
encodes, the instruction `encode_labels` produced encodes too and leaves the same furigana state. -/
theorem real_ok_of_dummy_ok (hasRegs : Bool) (st : EncState) (mode : LabelMode) (labels : List LabelInfo) (cur : Nat)
    (i : LInstr) (s' : LStmt) (rawd : RawInstr) (st1 : EncState)
    (hw : wideStmt (.instr i) = true) (hl : encodeLabelsStmt mode labels cur (.instr i) = .ok s')
    (h : encodeInstr hasRegs st (substituteDummy i) = .ok (rawd, st1)) :
    ∃ i' raw, s' = .instr i' ∧ encodeInstr hasRegs st i' = .ok (raw, st1) := by
  obtain ⟨t, op, df, args⟩ := i
  cases args with
  | unknown blob =>
    simp only [encodeLabelsStmt] at hl
    cases hl
    simp only [encodeInstr, substituteDummy] at h ⊢
    exact ⟨_, rawd, rfl, h⟩
  | known abi args =>
    simp only [encodeLabelsStmt] at hl
    cases hr : encodeLabelArgs mode labels cur args with
    | ok args' =>
      rw [hr] at hl
      cases hl
      simp only [encodeInstr, substituteDummy] at h
      cases hd : expectRawAll (args.map dummyArg) with
      | ok ds =>
        rw [hd] at h
        simp only at h
        cases he : encodeArgs hasRegs st abi ds with
        | ok r =>
          obtain ⟨r0, w0, s0⟩ := r
          rw [he] at h
          cases h
          obtain ⟨xs, raw, w, hx, hok⟩ := encodeArgs_conv hasRegs st mode labels cur abi args args' ds r0 w0 st1
            (by simpa [wideStmt] using hw) hr hd he
          exact ⟨_, ⟨t, op, raw.mask, raw.blob, df, raw.arg0⟩, rfl, by simp [encodeInstr, hx, hok]⟩
        | err c => rw [he] at h; cases h
        | panic p => rw [he] at h; cases h
      | err c => rw [hd] at h; cases h
      | panic p => rw [hd] at h; cases h
    | err c => rw [hr] at hl; cases hl
    | panic p => rw [hr] at hl; cases hl

theorem encodeLabelsAux_cons {mode : LabelMode} {labels : List LabelInfo} {offs : List Nat} {s : LStmt} {rest code' : List LStmt}
    (h : encodeLabelsAux mode labels offs (s :: rest) = .ok code') :
    ∃ o os s' rest', offs = o :: os ∧ encodeLabelsStmt mode labels o s = .ok s' ∧
      encodeLabelsAux mode labels os rest = .ok rest' ∧ code' = s' :: rest' := by
  cases offs with
  | nil => simp [encodeLabelsAux] at h
  | cons o os =>
    simp only [encodeLabelsAux] at h
    cases hs : encodeLabelsStmt mode labels o s with
    | ok s' =>
      rw [hs] at h
      simp only at h
      cases hr : encodeLabelsAux mode labels os rest with
      | ok rest' => rw [hr] at h; cases h; exact ⟨o, os, s', rest', rfl, hs, hr, rfl⟩
      | err c => rw [hr] at h; cases h
      | panic p => rw [hr] at h; cases h
    | err c =>
      rw [hs] at h
      simp only at h
      split at h <;> cases h
    | panic p => rw [hs] at h; cases h

theorem second_pass_ok_aux (hdr : Nat) (hasRegs : Bool) (mode : LabelMode) (labels : List LabelInfo) :
    ∀ (code : List LStmt) (offs : List Nat) (code' : List LStmt) (off : Nat) (st : EncState) (seen : List String) (g : Gather),
    gatherAux hdr hasRegs off st seen code = .ok g → encodeLabelsAux mode labels offs code = .ok code' →
    (∀ s ∈ code, wideStmt s = true) → ∃ raws, secondPass hasRegs st code' = .ok raws := by
  intro code
  induction code with
  | nil =>
    intro offs code' off st seen g _ hl _
    cases offs with
    | nil => simp only [encodeLabelsAux] at hl; cases hl; exact ⟨[], rfl⟩
    | cons o os => simp [encodeLabelsAux] at hl
  | cons s rest ih =>
    intro offs code' off st seen g hg hl hw
    obtain ⟨o, os, s', rest', hoffs, hs, hrest, hcode⟩ := encodeLabelsAux_cons hl
    subst hcode
    have hwrest : ∀ s ∈ rest, wideStmt s = true := fun x hx => hw x (List.mem_cons_of_mem _ hx)
    cases s with
    | instr i =>
      obtain ⟨rawd, st1, g1, hed, hg1, _⟩ := gatherAux_instr_ok hg
      obtain ⟨i', raw, hs', hok⟩ := real_ok_of_dummy_ok hasRegs st mode labels o i s' rawd st1 (hw _ List.mem_cons_self) hs hed
      subst hs'
      obtain ⟨raws, hr⟩ := ih os rest' _ st1 seen g1 hg1 hrest hwrest
      exact ⟨raw :: raws, by simp [secondPass, hok, hr]⟩
    | label t n =>
      obtain ⟨_, g1, hg1, _⟩ := gatherAux_label_ok hg
      simp only [encodeLabelsStmt] at hs
      cases hs
      obtain ⟨raws, hr⟩ := ih os rest' _ st _ g1 hg1 hrest hwrest
      exact ⟨raws, by simp [secondPass, hr]⟩
    | regAlloc d =>
      obtain ⟨g1, hg1, _⟩ := gatherAux_alloc_ok hg
      simp only [encodeLabelsStmt] at hs
      cases hs
      obtain ⟨raws, hr⟩ := ih os rest' _ st _ g1 hg1 hrest hwrest
      exact ⟨raws, by simp [secondPass, hr]⟩
    | regFree d =>
      obtain ⟨g1, hg1, _⟩ := gatherAux_free_ok hg
      simp only [encodeLabelsStmt] at hs
      cases hs
      obtain ⟨raws, hr⟩ := ih os rest' _ st _ g1 hg1 hrest hwrest
      exact ⟨raws, by simp [secondPass, hr]⟩

/-- **When the second pass cannot fail.**  If the dummy pass and `encode_labels` succeed and every
`offsetof` / `timeof` argument of the script sits in a parameter that takes every `i32`, the
second encoding pass succeeds: "we encoded this successfully before!" (the assumption of the unrepaired code) is true exactly under this
condition (`second_pass_reports` is the counterexample without it). -/
theorem second_pass_ok_of_wide (hdr : Nat) (hasRegs : Bool) (mode : LabelMode) (code code' : List LStmt) (g : Gather)
    (hg : gatherLabelInfo hdr hasRegs code = .ok g) (hl : encodeLabels mode g code = .ok code')
    (hw : ∀ s ∈ code, wideStmt s = true) : ∃ raws, secondPass hasRegs none code' = .ok raws :=
  second_pass_ok_aux hdr hasRegs mode g.labels code g.stmtOffsets code' 0 none [] g hg hl hw

/-- once the dummy pass has accepted a script whose labels sit in wide parameters, the rest of
the lowering does not panic -/
theorem no_panic_after_gather (hdr : Nat) (hasRegs : Bool) (mode : LabelMode) (code : List LStmt) (g : Gather)
    (hg : gatherLabelInfo hdr hasRegs code = .ok g)
    (hw : ∀ s ∈ code, wideStmt s = true) (p : String) : lowerTail hdr hasRegs mode code ≠ .panic p := by
  intro h
  simp only [lowerTail, hg] at h
  cases hl : encodeLabels mode g code with
  | ok code' =>
    rw [hl] at h
    simp only at h
    obtain ⟨raws, hr⟩ := second_pass_ok_of_wide hdr hasRegs mode code code' g hg hl hw
    rw [hr] at h
    cases h
  | err c => rw [hl] at h; cases h
  | panic q => exact encodeLabels_no_panic hdr hasRegs mode code g q hg hl

example : ∀ s ∈ sample, wideStmt s = true := by decide
example : ¬ ∀ s ∈ narrowWitness, wideStmt s = true := by decide

end TruthModel.C18
