import TruthModel.Model.AbiParts
/-
C12, intrinsic placement: `IntrinsicInstrAbiParts::from_abi`, `IntrinsicBuilder::into_vec` and the
position reads of `raise_intrinsic_parts` (model: `Model/AbiParts.lean`).

All theorems quantify over every intrinsic kind, every signature (`PAbi`, any length, padding
anywhere) and every builder content; the values that are placed are an abstract type.
-/
open TruthModel TruthModel.Abi TruthModel.AbiParts
namespace TruthModel.C12
set_option linter.unusedSimpArgs false
set_option linter.unusedVariables false

/-! ## helpers -/

theorem removeFirstWhere_some (q : Nat × PEnc → Bool) : ∀ (l : Slots) (x : Nat × PEnc) (r : Slots),
    removeFirstWhere q l = some (x, r) →
    q x = true ∧ (∀ a, List.count a (l.map Prod.fst) = List.count a ((x :: r).map Prod.fst)) ∧ x ∈ l ∧ (∀ y ∈ r, y ∈ l) := by
  intro l
  induction l with
  | nil => intro x r h; simp [removeFirstWhere] at h
  | cons y ys ih =>
    intro x r h
    simp only [removeFirstWhere] at h
    by_cases hq : q y = true
    · simp only [hq, if_true, Option.some.injEq, Prod.mk.injEq] at h
      obtain ⟨rfl, rfl⟩ := h
      exact ⟨hq, fun a => rfl, List.mem_cons_self .., fun z hz => List.mem_cons_of_mem _ hz⟩
    · simp only [hq, if_false] at h
      cases hr : removeFirstWhere q ys with
      | none => simp [hr] at h
      | some yr =>
        obtain ⟨y', ys'⟩ := yr
        simp only [hr, Option.some.injEq, Prod.mk.injEq] at h
        obtain ⟨rfl, rfl⟩ := h
        obtain ⟨hqx, hc, hm, hsub⟩ := ih _ _ hr
        refine ⟨hqx, ?_, List.mem_cons_of_mem _ hm, ?_⟩
        · intro a
          have := hc a
          simp only [List.map_cons, List.count_cons] at this ⊢
          omega
        · intro z hz
          rcases List.mem_cons.mp hz with h | h
          · subst h; exact List.mem_cons_self ..
          · exact List.mem_cons_of_mem _ (hsub z h)

theorem removeFirstWhere_none (q : Nat × PEnc → Bool) : ∀ (l : Slots),
    removeFirstWhere q l = none → ∀ x ∈ l, q x = false := by
  intro l
  induction l with
  | nil => intro _ x hx; cases hx
  | cons y ys ih =>
    intro h x hx
    simp only [removeFirstWhere] at h
    by_cases hq : q y = true
    · simp [hq] at h
    · simp only [hq, if_false] at h
      cases hr : removeFirstWhere q ys with
      | none =>
        rcases List.mem_cons.mp hx with h1 | h1
        · subst h1; simpa using hq
        · exact ih hr x h1
      | some yr => simp [hr] at h

/-- the non-padding slots, by position -/
theorem removePadding_enumFrom : ∀ (abi : PAbi) (k : Nat),
    (removePadding (enumFrom k abi)).map Prod.fst = nonPadFrom k abi := by
  intro abi
  induction abi with
  | nil => intro k; rfl
  | cons e es ih =>
    intro k
    have := ih (k + 1)
    simp only [removePadding] at this
    by_cases hp : e.enc.isPadding = true
    · simp [removePadding, enumFrom, nonPadFrom, hp, List.filter_cons, this]
    · simp [removePadding, enumFrom, nonPadFrom, hp, List.filter_cons, this]

theorem enumFrom_mem : ∀ (abi : PAbi) (k : Nat) (x : Nat × PEnc), x ∈ enumFrom k abi →
    k ≤ x.1 ∧ abi[x.1 - k]? = some x.2 := by
  intro abi
  induction abi with
  | nil => intro k x hx; cases hx
  | cons e es ih =>
    intro k x hx
    simp only [enumFrom] at hx
    rcases List.mem_cons.mp hx with h | h
    · subst h; simp
    · obtain ⟨h1, h2⟩ := ih (k + 1) x h
      refine ⟨by omega, ?_⟩
      have : x.1 - k = (x.1 - (k + 1)) + 1 := by omega
      rw [this, List.getElem?_cons_succ]; exact h2

theorem nonPadFrom_ge : ∀ (abi : PAbi) (k i : Nat), i ∈ nonPadFrom k abi → k ≤ i := by
  intro abi
  induction abi with
  | nil => intro k i h; cases h
  | cons e es ih =>
    intro k i h
    simp only [nonPadFrom] at h
    split at h
    · have := ih (k + 1) i h; omega
    · rcases List.mem_cons.mp h with h | h
      · omega
      · have := ih (k + 1) i h; omega

theorem nonPadFrom_nodup : ∀ (abi : PAbi) (k : Nat), (nonPadFrom k abi).Nodup := by
  intro abi
  induction abi with
  | nil => intro k; exact List.nodup_nil
  | cons e es ih =>
    intro k
    simp only [nonPadFrom]
    split
    · exact ih (k + 1)
    · refine List.nodup_cons.mpr ⟨?_, ih (k + 1)⟩
      intro h
      have := nonPadFrom_ge es (k + 1) k h
      omega

/-! ## the steps of `from_abi` keep the multiset of positions -/

def stepsWf : List Step → Bool → Bool → Bool
  | [], _, _ => true
  | .jump :: ss, j, s => !j && stepsWf ss true s
  | .subId :: ss, j, s => !s && stepsWf ss j true
  | _ :: ss, j, s => stepsWf ss j s

theorem steps_wf (k : Kind) : stepsWf k.steps false false = true := by
  cases k <;> rfl

/-- positions handed out plus positions still to hand out -/
def total (a : Nat) (p : Parts) (l : Slots) : Nat := List.count a p.positions + List.count a (l.map Prod.fst)

theorem findRemoveJump_ok (l r : Slots) (j : Nat × JumpOrder) (h : findRemoveJump l = .ok (j, r)) :
    (∀ a, List.count a (l.map Prod.fst) =
      List.count a (match j.2 with | .loc => [j.1] | _ => [j.1, j.1 + 1]) + List.count a (r.map Prod.fst)) ∧
    (∀ y ∈ r, y ∈ l) ∧
    (∃ e, (j.1 + (if j.2 = .timeLoc then 1 else 0), e) ∈ l ∧ e.enc = .jumpOffset) ∧
    (j.2 ≠ .loc → ∃ e, (j.1 + (if j.2 = .timeLoc then 0 else 1), e) ∈ l ∧ e.enc = .jumpTime) := by
  unfold findRemoveJump at h
  cases h1 : removeFirstWhere isOffset l with
  | none => simp [h1] at h
  | some o1 =>
    obtain ⟨o, l1⟩ := o1
    obtain ⟨hqo, hco, hmo, hsubo⟩ := removeFirstWhere_some _ _ _ _ h1
    have hoenc : o.2.enc = .jumpOffset := by simpa [isOffset] using hqo
    simp only [h1] at h
    cases h2 : removeFirstWhere isTime l1 with
    | none =>
      simp only [h2, Outcome.ok.injEq, Prod.mk.injEq] at h
      obtain ⟨hj, hr⟩ := h
      subst hj; subst hr
      refine ⟨?_, hsubo, ⟨o.2, by simpa using hmo, hoenc⟩, by simp⟩
      intro a
      have := hco a
      simp only [List.map_cons, List.count_cons, List.count_nil] at this ⊢
      omega
    | some t1 =>
      obtain ⟨t, l2⟩ := t1
      obtain ⟨hqt, hct, hmt, hsubt⟩ := removeFirstWhere_some _ _ _ _ h2
      have htenc : t.2.enc = .jumpTime := by simpa [isTime] using hqt
      simp only [h2] at h
      by_cases hc1 : t.1 = o.1 + 1
      · simp only [hc1, beq_self_eq_true, if_true, Outcome.ok.injEq, Prod.mk.injEq] at h
        obtain ⟨hj, hr⟩ := h
        subst hj; subst hr
        refine ⟨?_, fun y hy => hsubo y (hsubt y hy), ⟨o.2, by simpa using hmo, hoenc⟩, fun _ => ⟨t.2, ?_, htenc⟩⟩
        · intro a
          have h3 := hco a
          have h4 := hct a
          simp only [List.map_cons, List.count_cons, List.count_nil, hc1] at h3 h4 ⊢
          omega
        · have := hsubo t hmt
          simp only [OutMode.natural.sizeOf_spec, reduceCtorEq, if_false]
          rw [← hc1]; exact this
      · have hne : (t.1 == o.1 + 1) = false := by simpa using hc1
        simp only [hne, Bool.false_eq_true, if_false] at h
        by_cases hc2 : t.1 + 1 = o.1
        · simp only [hc2, beq_self_eq_true, if_true, Outcome.ok.injEq, Prod.mk.injEq] at h
          obtain ⟨hj, hr⟩ := h
          subst hj; subst hr
          refine ⟨?_, fun y hy => hsubo y (hsubt y hy), ⟨o.2, ?_, hoenc⟩, fun _ => ⟨t.2, ?_, htenc⟩⟩
          · intro a
            have h3 := hco a
            have h4 := hct a
            simp only [List.map_cons, List.count_cons, List.count_nil, ← hc2] at h3 h4 ⊢
            omega
          · simp only [if_true]; rw [hc2]; exact hmo
          · simp only [if_true, Nat.add_zero]; exact hsubo t hmt
        · have hne2 : (t.1 + 1 == o.1) = false := by simpa using hc2
          simp [hne2] at h

/-- a step does not overwrite a field that is already set -/
def stepPre (s : Step) (p : Parts) : Prop :=
  match s with | .jump => p.jump = none | .subId => p.subId = none | _ => True

theorem runStep_total (s : Step) (p p1 : Parts) (l l1 : Slots)
    (hwf : stepPre s p)
    (h : runStep s p l = .ok (p1, l1)) :
    (∀ a, total a p1 l1 = total a p l) ∧ p1.numInstrArgs = p.numInstrArgs ∧ (∀ y ∈ l1, y ∈ l) ∧
    (s ≠ .jump → p1.jump = p.jump) ∧ (s ≠ .subId → p1.subId = p.subId) ∧
    (s = .jump → p1.jump.isSome = true) ∧ (s = .subId → p1.subId.isSome = true) := by
  cases s with
  | jump =>
    simp only [runStep] at h
    cases hj : findRemoveJump l with
    | ok jr =>
      obtain ⟨j, r⟩ := jr
      simp only [hj, Outcome.ok.injEq, Prod.mk.injEq] at h
      obtain ⟨hp, hl⟩ := h
      subst hp; subst hl
      obtain ⟨hc, hsub, _, _⟩ := findRemoveJump_ok l _ j hj
      simp only [stepPre] at hwf
      refine ⟨?_, rfl, hsub, by simp, by simp, by simp, by simp⟩
      intro a
      have := hc a
      obtain ⟨ji, jo⟩ := j
      simp only [total, Parts.positions, hwf, List.nil_append, List.count_append]
      cases jo <;> simp only [List.count_cons, List.count_nil] at this ⊢ <;> omega
    | err c => simp [hj] at h
    | panic c => simp [hj] at h
  | subId =>
    simp only [runStep, findRemoveSubId] at h
    cases hr : removeFirstWhere isSubId l with
    | none => simp [hr] at h
    | some xr =>
      obtain ⟨x, r⟩ := xr
      simp only [hr, Outcome.ok.injEq, Prod.mk.injEq] at h
      obtain ⟨hp, hl⟩ := h
      subst hp; subst hl
      obtain ⟨_, hc, _, hsub⟩ := removeFirstWhere_some _ _ _ _ hr
      simp only [stepPre] at hwf
      refine ⟨?_, rfl, hsub, by simp, by simp, by simp, by simp⟩
      intro a
      have := hc a
      simp only [total, Parts.positions, hwf, List.count_append, List.map_cons, List.count_cons, List.count_nil] at this ⊢
      omega
  | out ty =>
    simp only [runStep] at h
    cases l with
    | nil => simp [removeOutArg] at h
    | cons x r =>
      simp only [removeOutArg] at h
      cases hm : outMode ty x.2.enc with
      | none => simp [hm] at h
      | some m =>
        simp only [hm, Outcome.ok.injEq, Prod.mk.injEq] at h
        obtain ⟨hp, hl⟩ := h
        subst hp; subst hl
        refine ⟨?_, rfl, fun y hy => List.mem_cons_of_mem _ hy, by simp, by simp, by simp, by simp⟩
        intro a
        simp only [total, Parts.positions, List.count_append, List.map_cons, List.map_append, List.map_nil, List.count_cons, List.count_nil]
        omega
  | plain ty =>
    simp only [runStep] at h
    cases l with
    | nil => simp [removePlainArg] at h
    | cons x r =>
      simp only [removePlainArg] at h
      by_cases hm : plainOk ty x.2.enc = true
      · simp only [hm, if_true, Outcome.ok.injEq, Prod.mk.injEq] at h
        obtain ⟨hp, hl⟩ := h
        subst hp; subst hl
        refine ⟨?_, rfl, fun y hy => List.mem_cons_of_mem _ hy, by simp, by simp, by simp, by simp⟩
        intro a
        simp only [total, Parts.positions, List.count_append, List.map_cons, List.count_cons, List.count_nil]
        omega
      · simp [hm] at h

theorem runSteps_total : ∀ (ss : List Step) (p p1 : Parts) (l l1 : Slots),
    stepsWf ss p.jump.isSome p.subId.isSome = true → runSteps ss p l = .ok (p1, l1) →
    (∀ a, total a p1 l1 = total a p l) ∧ p1.numInstrArgs = p.numInstrArgs := by
  intro ss
  induction ss with
  | nil =>
    intro p p1 l l1 _ h
    simp only [runSteps, Outcome.ok.injEq, Prod.mk.injEq] at h
    obtain ⟨h1, h2⟩ := h; subst h1; subst h2
    exact ⟨fun _ => rfl, rfl⟩
  | cons s ss ih =>
    intro p p1 l l1 hwf h
    simp only [runSteps] at h
    cases hs : runStep s p l with
    | ok pl =>
      obtain ⟨p2, l2⟩ := pl
      simp only [hs] at h
      have hpre : stepPre s p := by
        cases s <;> simp only [stepsWf, Bool.and_eq_true, Bool.not_eq_true', stepPre] at hwf ⊢
        · have := hwf.1; cases hpj : p.jump <;> simp_all
        · have := hwf.1; cases hpj : p.subId <;> simp_all
      obtain ⟨ht, hn, _, hj, hsb, hj', hsb'⟩ := runStep_total s p p2 l l2 hpre hs
      have hwf2 : stepsWf ss p2.jump.isSome p2.subId.isSome = true := by
        cases s with
        | jump =>
          simp only [stepsWf, Bool.and_eq_true] at hwf
          rw [hj' rfl, hsb (by simp)]; exact hwf.2
        | subId =>
          simp only [stepsWf, Bool.and_eq_true] at hwf
          rw [hsb' rfl, hj (by simp)]; exact hwf.2
        | out ty =>
          simp only [stepsWf] at hwf
          rw [hj (by simp), hsb (by simp)]; exact hwf
        | plain ty =>
          simp only [stepsWf] at hwf
          rw [hj (by simp), hsb (by simp)]; exact hwf
      obtain ⟨ht2, hn2⟩ := ih p2 p1 l2 l1 hwf2 h
      exact ⟨fun a => by rw [ht2 a, ht a], by rw [hn2, hn]⟩
    | err c => simp [hs] at h
    | panic c => simp [hs] at h

/-- what `from_abi` returning `Ok` means in terms of the step machine -/
theorem fromAbi_ok (k : Kind) (abi : PAbi) (p : Parts) (h : fromAbi k abi = .ok p) :
    runSteps k.steps ⟨(removePadding (enumFrom 0 abi)).length, [], [], none, none⟩ (removePadding (enumFrom 0 abi)) = .ok (p, []) := by
  unfold fromAbi at h
  simp only at h
  split at h
  · next p' heq => simp only [Outcome.ok.injEq] at h; subst h; exact heq
  · cases h
  · cases h
  · cases h

/-! ## intrinsic_placement -/

/-- **Placement.**  For every intrinsic kind and every signature `from_abi` accepts: the positions
it hands out (jump offset and time, plain arguments, sub id, outputs) are *exactly* the positions of
the non-padding parameters (as a multiset, so each once), they are pairwise distinct, and
`num_instr_args` is their number. -/
theorem intrinsic_placement (k : Kind) (abi : PAbi) (p : Parts) (h : fromAbi k abi = .ok p) :
    p.positions.Perm (nonPadFrom 0 abi) ∧ p.positions.Nodup ∧
    p.numInstrArgs = (nonPadFrom 0 abi).length ∧ p.positions.length = p.numInstrArgs := by
  have hr := fromAbi_ok k abi p h
  obtain ⟨ht, hn⟩ := runSteps_total _ _ _ _ _ (by simpa using steps_wf k) hr
  have hperm : p.positions.Perm (nonPadFrom 0 abi) := by
    rw [List.perm_iff_count]
    intro a
    have := ht a
    simp only [total, Parts.positions, List.map_nil, List.count_nil, List.append_nil, removePadding_enumFrom,
      Nat.add_zero, Nat.zero_add, List.nil_append] at this
    simpa [Parts.positions] using this
  have hlen : p.numInstrArgs = (nonPadFrom 0 abi).length := by
    rw [hn, ← removePadding_enumFrom, List.length_map]
  exact ⟨hperm, (List.Perm.nodup_iff hperm).mpr (nonPadFrom_nodup abi 0), hlen, by rw [hlen]; exact hperm.length_eq⟩

/-- the hypotheses are satisfiable: `S_ot` for `CountJmp` hands out 0 (output), 2 and 3 (offset, time) -/
example : fromAbi .countJmp [⟨.int .w4 true false false, false⟩, ⟨.padding true, false⟩, ⟨.jumpOffset, false⟩, ⟨.jumpTime, false⟩]
    = .ok ⟨3, [], [(0, .natural)], some (2, .locTime), none⟩ := by decide

/-! ## `into_vec` -/

theorem fill_ok {α} : ∀ (as : List (Nat × α)) (out : List (Option α)),
    (as.map Prod.fst).Nodup → (∀ i ∈ as.map Prod.fst, out[i]? = some none) →
    ∃ out', fill out as = .ok out' ∧ out'.length = out.length ∧
      (∀ x ∈ as, out'[x.1]? = some (some x.2)) ∧ (∀ j, j ∉ as.map Prod.fst → out'[j]? = out[j]?) := by
  intro as
  induction as with
  | nil =>
    intro out _ _
    refine ⟨out, rfl, rfl, ?_, fun _ _ => rfl⟩
    intro x hx; simp at hx
  | cons x rest ih =>
    intro out hnd hfree
    obtain ⟨i, v⟩ := x
    simp only [List.map_cons, List.nodup_cons] at hnd
    have hi : out[i]? = some none := hfree i (by simp)
    have hilt : i < out.length := by
      rcases Nat.lt_or_ge i out.length with h | h
      · exact h
      · rw [List.getElem?_eq_none h] at hi; cases hi
    have hfree1 : ∀ i' ∈ rest.map Prod.fst, (out.set i (some v))[i']? = some none := by
      intro i' hi'
      have hne : i ≠ i' := by intro h; subst h; exact hnd.1 hi'
      rw [List.getElem?_set_ne hne]
      exact hfree i' (by simp only [List.map_cons, List.mem_cons]; exact Or.inr hi')
    obtain ⟨out', hf, hl, ha, hb⟩ := ih (out.set i (some v)) hnd.2 hfree1
    refine ⟨out', ?_, by rw [hl, List.length_set], ?_, ?_⟩
    · simp only [fill, setSlot, hi]; exact hf
    · intro x hx
      rcases List.mem_cons.mp hx with h | h
      · subst h
        rw [hb i hnd.1, List.getElem?_set_self hilt]
      · exact ha x h
    · intro j hj
      simp only [List.map_cons, List.mem_cons, not_or] at hj
      rw [hb j hj.2, List.getElem?_set_ne (Ne.symm hj.1)]

theorem foldl_max_ge : ∀ (xs : List Nat) (n : Nat), n ≤ xs.foldl Nat.max n ∧ ∀ x ∈ xs, x ≤ xs.foldl Nat.max n := by
  intro xs
  induction xs with
  | nil => intro n; exact ⟨Nat.le_refl _, fun x hx => by cases hx⟩
  | cons y ys ih =>
    intro n
    obtain ⟨h1, h2⟩ := ih (Nat.max n y)
    simp only [List.foldl_cons]
    refine ⟨Nat.le_trans (Nat.le_max_left n y) h1, ?_⟩
    intro x hx
    rcases List.mem_cons.mp hx with h | h
    · subst h; exact Nat.le_trans (Nat.le_max_right n x) h1
    · exact h2 x h

/-- every position `from_abi` recorded has a slot in the buffer of `into_vec` -/
theorem positions_lt_numSlots (p : Parts) : ∀ i ∈ p.positions, i < numSlots p := by
  intro i hi
  have hge : ∀ e ∈ slotEnds p, e ≤ numSlots p := by
    intro e he
    exact Nat.le_trans ((foldl_max_ge (slotEnds p) 0).2 e he) (Nat.le_max_left _ _)
  have : ∃ e ∈ slotEnds p, i < e := by
    simp only [Parts.positions, List.mem_append] at hi
    simp only [slotEnds, List.mem_append]
    rcases hi with ((hj | hpl) | hsb) | ho
    · cases hpj : p.jump with
      | none => simp [hpj] at hj
      | some info =>
        obtain ⟨j, o⟩ := info
        cases o <;> simp [hpj] at hj
        · exact ⟨j + 2, Or.inl (Or.inl (Or.inl (by simp))), by omega⟩
        · exact ⟨j + 2, Or.inl (Or.inl (Or.inl (by simp))), by omega⟩
        · exact ⟨j + 1, Or.inl (Or.inl (Or.inl (by simp))), by omega⟩
    · exact ⟨i + 1, Or.inl (Or.inl (Or.inr (List.mem_map.mpr ⟨i, hpl, rfl⟩))), by omega⟩
    · cases hps : p.subId with
      | none => simp [hps] at hsb
      | some s =>
        simp [hps] at hsb
        exact ⟨s + 1, Or.inl (Or.inr (by simp)), by omega⟩
    · obtain ⟨x, hx, rfl⟩ := List.mem_map.mp ho
      exact ⟨x.1 + 1, Or.inr (List.mem_map.mpr ⟨x, hx, rfl⟩), by omega⟩
  obtain ⟨e, he, hlt⟩ := this
  exact Nat.lt_of_lt_of_le hlt (hge e he)

/-- **Dropping the empty slots.**  If exactly the slots at the non-padding positions of the signature are
filled (and every such position has a slot), then the filled values, in order, are one per non-padding
parameter, and putting the padding back (`expand`, what the decoder returns) puts every value at the
signature position of its slot. -/
theorem flatten_aligned {α} : ∀ (abi : PAbi) (k : Nat) (out : List (Option α)),
    (∀ j, j < out.length → ((∃ v, out[j]? = some (some v)) ↔ k + j ∈ nonPadFrom k abi)) →
    (∀ i ∈ nonPadFrom k abi, i < k + out.length) →
    (out.filterMap id).length = (nonPadFrom k abi).length ∧
    ∀ (pad : α) (j : Nat) (v : α), out[j]? = some (some v) → (expand pad abi (out.filterMap id))[j]? = some v := by
  intro abi
  induction abi with
  | nil =>
    intro k out H B
    have hnil : out.filterMap id = [] := by
      rw [List.filterMap_eq_nil_iff]
      intro a ha
      obtain ⟨j, hj⟩ := List.mem_iff_getElem?.mp ha
      have hlt : j < out.length := by
        rcases Nat.lt_or_ge j out.length with h | h
        · exact h
        · rw [List.getElem?_eq_none h] at hj; cases hj
      cases a with
      | none => rfl
      | some v => exact absurd ((H j hlt).mp ⟨v, hj⟩) (by simp [nonPadFrom])
    refine ⟨by simp [hnil, nonPadFrom], ?_⟩
    intro pad j v hjv
    have hlt : j < out.length := by
      rcases Nat.lt_or_ge j out.length with h | h
      · exact h
      · rw [List.getElem?_eq_none h] at hjv; cases hjv
    exact absurd ((H j hlt).mp ⟨v, hjv⟩) (by simp [nonPadFrom])
  | cons e es ih =>
    intro k out H B
    cases out with
    | nil =>
      have hnil : nonPadFrom k (e :: es) = [] := by
        rw [List.eq_nil_iff_forall_not_mem]
        intro i hi
        have := B i hi
        have := nonPadFrom_ge (e :: es) k i hi
        simp at *; omega
      exact ⟨by simp [hnil], fun pad j v h => by simp at h⟩
    | cons o os =>
      have hk_notin : k ∉ nonPadFrom (k + 1) es := by
        intro h; have := nonPadFrom_ge es (k + 1) k h; omega
      have H' : ∀ j, j < os.length → ((∃ v, os[j]? = some (some v)) ↔ (k + 1) + j ∈ nonPadFrom (k + 1) es) := by
        intro j hj
        have := H (j + 1) (by simp; omega)
        simp only [List.getElem?_cons_succ] at this
        rw [this]
        have e1 : k + (j + 1) = k + 1 + j := by omega
        by_cases hp : e.enc.isPadding = true
        · simp [nonPadFrom, hp, e1]
        · have hp' : e.enc.isPadding = false := by simpa using hp
          simp only [nonPadFrom, hp', Bool.false_eq_true, if_false, List.mem_cons, e1]
          constructor
          · rintro (h | h)
            · omega
            · exact h
          · intro h; exact Or.inr h
      have B' : ∀ i ∈ nonPadFrom (k + 1) es, i < (k + 1) + os.length := by
        intro i hi
        have := B i (by
          by_cases hp : e.enc.isPadding = true
          · simpa [nonPadFrom, hp] using hi
          · have hp' : e.enc.isPadding = false := by simpa using hp
            simp only [nonPadFrom, hp', Bool.false_eq_true, if_false]; exact List.mem_cons_of_mem _ hi)
        simp at this; omega
      obtain ⟨ihl, ihg⟩ := ih (k + 1) os H' B'
      have H0 := H 0 (by simp)
      simp only [List.getElem?_cons_zero, Option.some.injEq, Nat.add_zero] at H0
      by_cases hp : e.enc.isPadding = true
      · have ho : o = none := by
          cases o with
          | none => rfl
          | some v =>
            have := H0.mp ⟨v, rfl⟩
            simp only [nonPadFrom, hp, if_true] at this
            exact absurd this hk_notin
        subst ho
        refine ⟨by simpa [nonPadFrom, hp] using ihl, ?_⟩
        intro pad j v hjv
        cases j with
        | zero => simp at hjv
        | succ j =>
          simp only [List.getElem?_cons_succ] at hjv
          simpa [expand, hp] using ihg pad j v hjv
      · have hp' : e.enc.isPadding = false := by simpa using hp
        obtain ⟨v0, hv0⟩ := H0.mpr (by simp [nonPadFrom, hp'])
        subst hv0
        refine ⟨by simpa [nonPadFrom, hp'] using ihl, ?_⟩
        intro pad j v hjv
        cases j with
        | zero => simp at hjv; simp [expand, hp', hjv]
        | succ j =>
          simp only [List.getElem?_cons_succ] at hjv
          simpa [expand, hp'] using ihg pad j v hjv

theorem jumpAssigns_fst {α} (info : Nat × JumpOrder) (lt : α × α) :
    (jumpAssigns info lt).map Prod.fst = (match info with | (i, .loc) => [i] | (i, _) => [i, i + 1]) := by
  obtain ⟨i, o⟩ := info
  cases o <;> rfl

/-- the writes of `into_vec` go to exactly the positions `from_abi` handed out, in the same order -/
theorem assigns_fst {α} (asInt : α → α) (p : Parts) (b : Builder α) (hs : shapeOk p b = true) :
    (assigns asInt p b).map Prod.fst = p.positions := by
  simp only [shapeOk, Bool.and_eq_true, beq_iff_eq] at hs
  obtain ⟨⟨⟨hj, hsb⟩, hpl⟩, ho⟩ := hs
  have h1 : ((b.plainArgs.zip p.plainArgs).map (fun x => (x.2, x.1))).map Prod.fst = p.plainArgs := by
    rw [List.map_map]
    have : (Prod.fst ∘ fun x : α × Nat => (x.2, x.1)) = Prod.snd := rfl
    rw [this, List.map_snd_zip]; omega
  have h2 : ((b.outputs.zip p.outputs).map (fun x => (x.2.1, encodeOut asInt x.2.2 x.1))).map Prod.fst = p.outputs.map (·.1) := by
    rw [List.map_map]
    have : (Prod.fst ∘ fun x : α × (Nat × OutMode) => (x.2.1, encodeOut asInt x.2.2 x.1)) = (fun y : Nat × OutMode => y.1) ∘ Prod.snd := rfl
    rw [this, ← List.map_map, List.map_snd_zip]; omega
  simp only [assigns, Parts.positions, List.map_append, h1, h2]
  congr 1
  congr 1
  · congr 1
    cases hbj : b.jump with
    | none => rw [hbj] at hj; cases hpj : p.jump with
      | none => rfl
      | some x => rw [hpj] at hj; cases hj
    | some lt => rw [hbj] at hj; cases hpj : p.jump with
      | none => rw [hpj] at hj; cases hj
      | some info => simp only [jumpAssigns_fst]; obtain ⟨i, o⟩ := info; cases o <;> rfl
  · cases hbs : b.subId with
    | none => rw [hbs] at hsb; cases hps : p.subId with
      | none => rfl
      | some x => rw [hps] at hsb; cases hsb
    | some v => rw [hbs] at hsb; cases hps : p.subId with
      | none => rw [hps] at hsb; cases hsb
      | some i => rfl

/-- **`into_vec` fills each position once** (repaired code, /repo 11ec667).  For every kind, every
signature `from_abi` accepts - padding anywhere, also before a real parameter - and every builder that passes
the four `assert_eq!`: `into_vec` succeeds, returns exactly `num_instr_args` values (the final count assert is
unreachable, like the two `is_none` asserts and the index checks), and every operand the builder holds is the
value of the parameter at the signature position `from_abi` assigned to it: putting the padding back
(`expand`: one value per parameter, what `encode_args` writes and the decoder returns) shows operand `x.2` at
position `x.1`, for every write `x` of `into_vec`. -/
theorem into_vec_fills_once {α} (asInt : α → α) (k : Kind) (abi : PAbi) (p : Parts) (b : Builder α)
    (h : fromAbi k abi = .ok p) (hs : shapeOk p b = true) :
    ∃ vs, intoVec asInt p b = .ok vs ∧ vs.length = p.numInstrArgs ∧
      ∀ (pad : α), ∀ x ∈ assigns asInt p b, (expand pad abi vs)[x.1]? = some x.2 := by
  obtain ⟨hperm, hnd, hn, _⟩ := intrinsic_placement k abi p h
  have hfst := assigns_fst asInt p b hs
  have hlt := positions_lt_numSlots p
  obtain ⟨out', hf, hl, ha, hb⟩ := fill_ok (assigns asInt p b) (List.replicate (numSlots p) none)
    (by rw [hfst]; exact hnd)
    (by
      intro i hi
      rw [hfst] at hi
      simp [List.getElem?_replicate, hlt i hi])
  simp only [List.length_replicate] at hl
  have H : ∀ j, j < out'.length → ((∃ v, out'[j]? = some (some v)) ↔ 0 + j ∈ nonPadFrom 0 abi) := by
    intro j hj
    rw [Nat.zero_add, ← hperm.mem_iff, ← hfst]
    constructor
    · rintro ⟨v, hv⟩
      by_cases hm : j ∈ (assigns asInt p b).map Prod.fst
      · exact hm
      · rw [hb j hm] at hv
        rw [hl] at hj
        simp [List.getElem?_replicate, hj] at hv
    · intro hm
      obtain ⟨x, hx, hxj⟩ := List.mem_map.mp hm
      exact ⟨x.2, by rw [← hxj]; exact ha x hx⟩
  have B : ∀ i ∈ nonPadFrom 0 abi, i < 0 + out'.length := by
    intro i hi
    rw [Nat.zero_add, hl]
    exact hlt i (hperm.mem_iff.mpr hi)
  obtain ⟨hlen, hexp⟩ := flatten_aligned abi 0 out' H B
  rw [← hn] at hlen
  refine ⟨out'.filterMap id, ?_, hlen, fun pad x hx => hexp pad x.1 x.2 (ha x hx)⟩
  simp only [intoVec, hs, Bool.not_true, Bool.false_eq_true, if_false, hf, hlen, bne_self_eq_false]

/-- on a non-trivial input: `CondJmp` on `SSto`, time before offset -/
example : intoVec id ⟨4, [0, 1], [], some (2, .timeLoc), none⟩ (⟨some ("label", "time"), none, ["a", "b"], []⟩ : Builder String)
    = .ok ["a", "b", "time", "label"] := by decide

/-- **The former defect, on its witness**: signature `_S` for an interrupt label.  `from_abi` assigns position 1
to the argument; `into_vec` now allocates two slots, fills slot 1, drops the empty padding slot and returns
the one argument.  (Before /repo 11ec667 it allocated `num_instr_args = 1` slots and `trumsg compile` with
`!ins_signatures 70 _S`, `!ins_intrinsics 70 Interrupt()` and `interrupt[3]:` panicked at
src/llir/lower/intrinsic.rs:98 "index out of bounds: the len is 1 but the index is 1".) -/
theorem into_vec_padding_ok :
    fromAbi .interruptLabel [⟨.padding true, false⟩, ⟨.int .w4 true false false, false⟩] = .ok ⟨1, [1], [], none, none⟩ ∧
    intoVec id ⟨1, [1], [], none, none⟩ (⟨none, none, [3], []⟩ : Builder Nat) = .ok [3] ∧
    -- padding in the middle of a jump intrinsic: `S - o t` for `CountJmp`
    fromAbi .countJmp [⟨.int .w4 true false false, false⟩, ⟨.padding false, false⟩, ⟨.jumpOffset, false⟩, ⟨.jumpTime, false⟩]
      = .ok ⟨3, [], [(0, .natural)], some (2, .locTime), none⟩ ∧
    intoVec id ⟨3, [], [(0, .natural)], some (2, .locTime), none⟩ (⟨some (100, 7), none, [], [10]⟩ : Builder Nat) = .ok [10, 100, 7] := by decide

/-- `into_vec` never panics on the parts of an accepted signature: not in an index, not in the two "slot
already filled" asserts, not in the final count assert -/
theorem into_vec_asserts_unreachable {α} (asInt : α → α) (k : Kind) (abi : PAbi) (p : Parts) (b : Builder α)
    (h : fromAbi k abi = .ok p) (hs : shapeOk p b = true) (site : String) :
    intoVec asInt p b ≠ .panic site := by
  obtain ⟨vs, hv, _⟩ := into_vec_fills_once asInt k abi p b h hs
  rw [hv]; simp

/-- `expand` puts the `kk`-th value at the signature position of the `kk`-th non-padding parameter -/
theorem expand_at_nonPad {α} (pad : α) : ∀ (abi : PAbi) (k0 : Nat) (vs : List α) (kk i : Nat),
    (nonPadFrom k0 abi)[kk]? = some i → (expand pad abi vs)[i - k0]? = vs[kk]? := by
  intro abi
  induction abi with
  | nil => intro k0 vs kk i h; simp [nonPadFrom] at h
  | cons e es ih =>
    intro k0 vs kk i h
    by_cases hp : e.enc.isPadding = true
    · simp only [nonPadFrom, hp, if_true] at h
      have hge := nonPadFrom_ge es (k0 + 1) i (List.mem_of_getElem? h)
      have e1 : i - k0 = (i - (k0 + 1)) + 1 := by omega
      simp only [expand, hp, if_true, e1, List.getElem?_cons_succ]
      exact ih (k0 + 1) vs kk i h
    · have hp' : e.enc.isPadding = false := by simpa using hp
      simp only [nonPadFrom, hp', Bool.false_eq_true, if_false] at h
      cases vs with
      | nil => simp [expand, hp']
      | cons v r =>
        cases kk with
        | zero =>
          simp only [List.getElem?_cons_zero, Option.some.injEq] at h
          subst h
          simp [expand, hp']
        | succ kk =>
          simp only [List.getElem?_cons_succ] at h
          have hge := nonPadFrom_ge es (k0 + 1) i (List.mem_of_getElem? h)
          have e1 : i - k0 = (i - (k0 + 1)) + 1 := by omega
          simp only [expand, hp', Bool.false_eq_true, if_false, e1, List.getElem?_cons_succ]
          exact ih (k0 + 1) r kk i h

/-- `into_vec_fills_once` in terms of the returned vector itself: the `kk`-th value is the operand that was
assigned to the position of the `kk`-th non-padding parameter -/
theorem into_vec_kth_parameter {α} (asInt : α → α) (k : Kind) (abi : PAbi) (p : Parts) (b : Builder α) (vs : List α)
    (h : fromAbi k abi = .ok p) (hs : shapeOk p b = true) (hv : intoVec asInt p b = .ok vs)
    (kk i : Nat) (v : α) (hk : (nonPadFrom 0 abi)[kk]? = some i) (hx : (i, v) ∈ assigns asInt p b) :
    vs[kk]? = some v := by
  obtain ⟨vs', hv', _, hg⟩ := into_vec_fills_once asInt k abi p b h hs
  rw [hv] at hv'
  simp only [Outcome.ok.injEq] at hv'
  subst hv'
  have := expand_at_nonPad v abi 0 vs kk i hk
  rw [Nat.sub_zero, hg v (i, v) hx] at this
  exact this.symm

/-! ## the raise side reads back the same positions -/

theorem readAll_spec {α} (args : List α) : ∀ (xs : List (α × Nat)), (∀ x ∈ xs, args[x.2]? = some x.1) →
    readAll args (xs.map Prod.snd) = .ok (xs.map Prod.fst) := by
  intro xs
  induction xs with
  | nil => intro _; rfl
  | cons x r ih =>
    intro h
    have hx := h x (List.mem_cons_self ..)
    have hr := ih (fun y hy => h y (List.mem_cons_of_mem _ hy))
    simp only [List.map_cons, readAll, readAt, hx, hr]

/-- **Lower then raise is the identity on the parts.**  For every kind, every accepted signature and
every builder content (padding anywhere in the signature): if `into_vec` succeeds - it always does for a
builder of the right shape, `into_vec_fills_once` - then reading the decoded argument list (one value per
parameter, padding included) at the positions of the same `IntrinsicInstrAbiParts` gives back the
jump's label and time (the time only when the signature has a `t` parameter), the sub id, the
outputs (as stored: `FloatAsInt` outputs re-encoded) and the plain arguments, each in order. -/
theorem raise_parts_inverse {α} (asInt : α → α) (pad : α) (k : Kind) (abi : PAbi) (p : Parts) (b : Builder α)
    (vs : List α) (h : fromAbi k abi = .ok p) (hs : shapeOk p b = true) (hv : intoVec asInt p b = .ok vs) :
    raiseParts p (expand pad abi vs) = .ok
      ⟨(match b.jump, p.jump with
        | some lt, some (_, .loc) => some (lt.1, none)
        | some lt, some _ => some (lt.1, some lt.2)
        | _, _ => none),
       b.subId,
       (b.outputs.zip p.outputs).map (fun x => encodeOut asInt x.2.2 x.1),
       b.plainArgs⟩ := by
  obtain ⟨vs', hv', hl, hg⟩ := into_vec_fills_once asInt k abi p b h hs
  rw [hv] at hv'
  simp only [Outcome.ok.injEq] at hv'
  subst hv'
  have hfull : ∀ x ∈ assigns asInt p b, (expand pad abi vs)[x.1]? = some x.2 := hg pad
  have hs' := hs
  simp only [shapeOk, Bool.and_eq_true, beq_iff_eq] at hs'
  obtain ⟨⟨⟨hj, hsb⟩, hpl⟩, ho⟩ := hs'
  -- plain arguments
  have hplain : readAll (expand pad abi vs) p.plainArgs = .ok b.plainArgs := by
    have := readAll_spec (expand pad abi vs) (b.plainArgs.zip p.plainArgs) (by
      intro x hx
      exact hfull (x.2, x.1) (by
        simp only [assigns, List.mem_append, List.mem_map]
        exact Or.inl (Or.inl (Or.inr ⟨x, hx, rfl⟩))))
    rwa [List.map_snd_zip (by omega), List.map_fst_zip (by omega)] at this
  -- outputs
  have hout : readAll (expand pad abi vs) (p.outputs.map (·.1)) = .ok ((b.outputs.zip p.outputs).map (fun x => encodeOut asInt x.2.2 x.1)) := by
    have := readAll_spec (expand pad abi vs) ((b.outputs.zip p.outputs).map (fun x => (encodeOut asInt x.2.2 x.1, x.2.1))) (by
      intro x hx
      obtain ⟨y, hy, rfl⟩ := List.mem_map.mp hx
      exact hfull (y.2.1, encodeOut asInt y.2.2 y.1) (by
        simp only [assigns, List.mem_append, List.mem_map]
        exact Or.inr ⟨y, hy, rfl⟩))
    simp only [List.map_map] at this
    have e1 : (Prod.snd ∘ fun x : α × (Nat × OutMode) => (encodeOut asInt x.2.2 x.1, x.2.1)) = (fun y : Nat × OutMode => y.1) ∘ Prod.snd := rfl
    have e2 : (Prod.fst ∘ fun x : α × (Nat × OutMode) => (encodeOut asInt x.2.2 x.1, x.2.1)) = (fun x => encodeOut asInt x.2.2 x.1) := rfl
    rw [e1, e2, ← List.map_map, List.map_snd_zip (by omega)] at this
    exact this
  -- sub id
  have hsub : readSub (expand pad abi vs) p.subId = (.ok b.subId : Outcome (Option α)) := by
    cases hbs : b.subId with
    | none => rw [hbs] at hsb; cases hps : p.subId with
      | none => rfl
      | some x => rw [hps] at hsb; cases hsb
    | some v => rw [hbs] at hsb; cases hps : p.subId with
      | none => rw [hps] at hsb; cases hsb
      | some i =>
        have := hfull (i, v) (by simp [assigns, hbs, hps])
        simp only [readSub, readAt, this]
  -- jump
  have hjump : readJump (expand pad abi vs) p.jump = .ok (match b.jump, p.jump with
        | some lt, some (_, .loc) => some (lt.1, none)
        | some lt, some _ => some (lt.1, some lt.2)
        | _, _ => none) := by
    cases hbj : b.jump with
    | none => rw [hbj] at hj; cases hpj : p.jump with
      | none => rfl
      | some x => rw [hpj] at hj; cases hj
    | some lt => rw [hbj] at hj; cases hpj : p.jump with
      | none => rw [hpj] at hj; cases hj
      | some info =>
        obtain ⟨i, o⟩ := info
        have hmem : ∀ x ∈ jumpAssigns (i, o) lt, (expand pad abi vs)[x.1]? = some x.2 := by
          intro x hx
          exact hfull x (by
            simp only [assigns, hbj, hpj, List.mem_append]
            exact Or.inl (Or.inl (Or.inl hx)))
        cases o with
        | loc =>
          have := hmem (i, lt.1) (by simp [jumpAssigns])
          simp only [readJump, readAt, this]
        | locTime =>
          have a1 := hmem (i, lt.1) (by simp [jumpAssigns])
          have a2 := hmem (i + 1, lt.2) (by simp [jumpAssigns])
          simp only [readJump, readAt, a1, a2]
        | timeLoc =>
          have a1 := hmem (i, lt.2) (by simp [jumpAssigns])
          have a2 := hmem (i + 1, lt.1) (by simp [jumpAssigns])
          simp only [readJump, readAt, a1, a2]
  simp only [raiseParts, hjump, hsub, hout, hplain]

/-- on a non-trivial input: `BinOp` on `S f f -` with a float result stored in an integer field -/
example :
    fromAbi (.binOp .arithmetic .float) [⟨.int .w4 true false false, false⟩, ⟨.float false, false⟩, ⟨.float false, false⟩, ⟨.padding false, false⟩]
      = .ok ⟨3, [1, 2], [(0, .floatAsInt)], none, none⟩ ∧
    intoVec (fun s => s ++ "!") ⟨3, [1, 2], [(0, .floatAsInt)], none, none⟩ ⟨none, none, ["x", "y"], ["out"]⟩ = .ok ["out!", "x", "y"] ∧
    raiseParts ⟨3, [1, 2], [(0, .floatAsInt)], none, none⟩ (expand "0" [⟨.int .w4 true false false, false⟩, ⟨.float false, false⟩, ⟨.float false, false⟩, ⟨.padding false, false⟩] ["out!", "x", "y"])
      = .ok ⟨none, none, ["out!"], ["x", "y"]⟩ := by decide

/-! ## what `from_abi` rejects -/

theorem findRemoveJump_no_panic (l : Slots) (site : String) : findRemoveJump l ≠ .panic site := by
  unfold findRemoveJump
  cases h1 : removeFirstWhere isOffset l with
  | none => simp
  | some o1 =>
    obtain ⟨o, l1⟩ := o1
    simp only []
    cases h2 : removeFirstWhere isTime l1 with
    | none => simp
    | some t1 =>
      obtain ⟨t, l2⟩ := t1
      simp only []
      split
      · simp
      · split <;> simp

theorem runStep_no_panic (s : Step) (p : Parts) (l : Slots) (site : String) : runStep s p l ≠ .panic site := by
  cases s with
  | jump =>
    simp only [runStep]
    cases hj : findRemoveJump l with
    | ok jr => simp
    | err c => simp
    | panic c => exact absurd hj (findRemoveJump_no_panic l c)
  | subId =>
    simp only [runStep, findRemoveSubId]
    cases removeFirstWhere isSubId l <;> simp
  | out ty =>
    cases l with
    | nil => simp [runStep, removeOutArg]
    | cons x r =>
      simp only [runStep, removeOutArg]
      cases outMode ty x.2.enc <;> simp
  | plain ty =>
    cases l with
    | nil => simp [runStep, removePlainArg]
    | cons x r =>
      simp only [runStep, removePlainArg]
      cases plainOk ty x.2.enc <;> simp

theorem runSteps_no_panic : ∀ (ss : List Step) (p : Parts) (l : Slots) (site : String), runSteps ss p l ≠ .panic site := by
  intro ss
  induction ss with
  | nil => intro p l site; simp [runSteps]
  | cons s ss ih =>
    intro p l site
    simp only [runSteps]
    cases hs : runStep s p l with
    | ok pl => exact ih _ _ _
    | err c => simp
    | panic c => exact absurd hs (runStep_no_panic s p l c)

/-- **`from_abi` never panics**: every signature is either accepted or rejected with a diagnostic -/
theorem from_abi_no_panic (k : Kind) (abi : PAbi) (site : String) : fromAbi k abi ≠ .panic site := by
  unfold fromAbi
  simp only
  split
  · simp
  · simp
  · simp
  · next s heq => exact absurd heq (runSteps_no_panic _ _ _ _)

/-- **Rejected iff not accepted**: `from_abi` has exactly two outcomes, a diagnostic or the parts
(for which `intrinsic_placement` holds). -/
theorem from_abi_rejects_iff (k : Kind) (abi : PAbi) :
    (∃ c, fromAbi k abi = .err c) ↔ ¬ ∃ p, fromAbi k abi = .ok p := by
  cases h : fromAbi k abi with
  | ok p => simp
  | err c => simp
  | panic s => exact absurd h (from_abi_no_panic k abi s)

/-- each of the seven diagnostic classes is reachable, and which one wins (the checks run in the order
jump, sub id, outputs, inputs, leftovers): `Jmp` on `S`; `Jmp` on `o S t`; `CallReg` on `S`; `AssignOp` on
`S`; `AssignOp(float)` on `o`-less `z..`-free `f`/`S` mixes; `Jmp` on `o t S`. -/
theorem from_abi_reject_classes :
    let S : PEnc := ⟨.int .w4 true false false, false⟩
    let E : PEnc := ⟨.int .w4 true false false, true⟩
    let f : PEnc := ⟨.float false, false⟩
    let o : PEnc := ⟨.jumpOffset, false⟩
    let t : PEnc := ⟨.jumpTime, false⟩
    let pad : PEnc := ⟨.padding true, false⟩
    fromAbi .jmp [S] = .err errMissingOffset ∧
    fromAbi .jmp [o, S, t] = .err errNotConsecutive ∧
    fromAbi .jmp [o, pad, t] = .err errNotConsecutive ∧
    fromAbi .callReg [S] = .err errMissingSubId ∧
    fromAbi (.assignOp .int) [S] = .err errNotEnough ∧
    fromAbi (.assignOp .int) [f, S] = .err errOutputEncoding ∧
    fromAbi (.assignOp .float) [S, S] = .err errInputEncoding ∧
    fromAbi .jmp [o, t, pad, S] = .err (errUnexpected 3) ∧
    fromAbi .callEosd [S, E, f] = .ok ⟨3, [0, 2], [], none, some 1⟩ ∧
    fromAbi .jmp [t, o] = .ok ⟨2, [], [], some (0, .timeLoc), none⟩ := by
  decide

/-- The full characterisation of what `from_abi` rejects, as a declarative condition on the signature
(stated, **not proved**): the non-padding parameters, after taking out the first `o` and the first `t`
(kinds with a jump: there must be an `o`, and a `t` must sit directly before or after it, counting padding
parameters) or the first `EclSub` integer (call kinds), are in order exactly the outputs and inputs of the
kind, with the encodings `outMode` / `plainOk` admit.  What is proved instead: `from_abi_no_panic`,
`from_abi_rejects_iff`, the reachable classes and their precedence on instances
(`from_abi_reject_classes`); the correspondence check compares accept / reject and the class with the
real `from_abi` on generated signatures for every kind. -/
def from_abi_rejects_iff_full : Prop :=
  ∀ (k : Kind) (abi : PAbi),
    let l := removePadding (enumFrom 0 abi)
    let hasJump := k.steps.contains .jump
    let hasSub := k.steps.contains .subId
    let jumpOk := !hasJump || (match l.find? isOffset, (l.eraseP isOffset).find? isTime with
      | some o, some t => t.1 == o.1 + 1 || t.1 + 1 == o.1
      | some _, none => true
      | none, _ => false)
    let l1 := if hasJump then (l.eraseP isOffset).eraseP isTime else l
    let subOk := !hasSub || l1.any isSubId
    let l2 := if hasSub then l1.eraseP isSubId else l1
    let pat := k.steps.filter (fun s => s != .jump && s != .subId)
    let slotOk : Step → PEnc → Bool := fun s e => match s with
      | .out ty => (outMode ty e.enc).isSome
      | .plain ty => plainOk ty e.enc
      | _ => false
    ((∃ p, fromAbi k abi = .ok p) ↔
      (jumpOk && subOk && (pat.length == l2.length) && (pat.zip l2).all (fun x => slotOk x.1 x.2.2)) = true)

end TruthModel.C12
