import TruthModel.Model.InstrIO
/-
C03 — a successful compile never writes a file that differs from what was asked.
Instruction level: the checked writer rejects exactly the instructions that do not fit the
on-disk header, and what it writes reads back as the same instruction:
`read_write` / `read_write_iff` (one instruction, all 8 formats), `write_injective`, and
`readInstrs_writeInstrs` (whole scripts through `writeInstrs` / `readInstrs`).
-/
namespace TruthModel.C03
open TruthModel TruthModel.InstrIO

/-- The writer fails exactly when some field does not fit (for every format, every instruction). -/
theorem write_err_iff_not_fits (f : Fmt) (i : Instr) :
    (∃ c, writeInstr f i = .err c) ↔ fits f i = false := by
  unfold writeInstr
  cases h : fits f i <;> cases f <;> simp

theorem write_ok_iff_fits (f : Fmt) (i : Instr) :
    (∃ b, writeInstr f i = .ok b) ↔ fits f i = true := by
  unfold writeInstr
  cases h : fits f i <;> cases f <;> simp

/-- never a panic outcome -/
theorem write_no_panic (f : Fmt) (i : Instr) : (writeInstr f i).isPanic = false := by
  unfold writeInstr
  cases h : fits f i <;> cases f <;> simp [Outcome.isPanic]

example : fits .msg { time := 40, opcode := 3, blob := [1, 2, 3, 4] } = true := by decide
example : fits .msg { time := 40000, opcode := 3 } = false := by decide
example : fits .msg { time := 0, opcode := 300 } = false := by decide


/-! ### primitive round trips -/

theorem toNat_ofNat_mod (n : Nat) : (UInt8.ofNat (n % 256)).toNat = n % 256 := by
  rw [UInt8.toNat_ofNat']; omega

theorem rdU8_u8 (n : Nat) (rest : Bytes) (h : n < 2 ^ 8) : rdU8 (u8 n ++ rest) = some (n, rest) := by
  simp only [u8, rdU8, List.cons_append, List.nil_append, toNat_ofNat_mod]
  congr 2; omega

theorem rdU16_u16 (n : Nat) (rest : Bytes) (h : n < 2 ^ 16) : rdU16 (u16 n ++ rest) = some (n, rest) := by
  simp only [u16, rdU16, List.cons_append, List.nil_append, toNat_ofNat_mod]
  congr 2; omega

theorem rdU32_u32 (n : Nat) (rest : Bytes) (h : n < 2 ^ 32) : rdU32 (u32 n ++ rest) = some (n, rest) := by
  simp only [u32, rdU32, List.cons_append, List.nil_append, toNat_ofNat_mod]
  congr 2; omega

theorem fitsI16_iff (i : Int) : fitsI 16 i = true ↔ (-32768 ≤ i ∧ i < 32768) := by
  simp [fitsI]
theorem fitsI32_iff (i : Int) : fitsI 32 i = true ↔ (-2147483648 ≤ i ∧ i < 2147483648) := by
  simp [fitsI]
theorem fitsU8_iff (n : Nat) : fitsU 8 n = true ↔ n < 256 := by simp [fitsU]
theorem fitsU16_iff (n : Nat) : fitsU 16 n = true ↔ n < 65536 := by simp [fitsU]
theorem fitsI16_nat_iff (n : Nat) : fitsI 16 (n : Int) = true ↔ n < 32768 := by
  rw [fitsI16_iff]; omega

theorem twos16_lt (i : Int) : twos 16 i < 2 ^ 16 := by
  unfold twos
  have : ((2 ^ 16 : Nat) : Int) = 65536 := by decide
  rw [this]; omega
theorem twos32_lt (i : Int) : twos 32 i < 2 ^ 32 := by
  unfold twos
  have : ((2 ^ 32 : Nat) : Int) = 4294967296 := by decide
  rw [this]; omega

theorem signed_twos16 (i : Int) (h : fitsI 16 i = true) : signed 16 (twos 16 i) = i := by
  rw [fitsI16_iff] at h
  unfold signed twos
  have : ((2 ^ 16 : Nat) : Int) = 65536 := by decide
  rw [this]
  have h2 : (2 ^ (16 - 1) : Nat) = 32768 := by decide
  rw [h2]
  split <;> omega

theorem signed_twos32 (i : Int) (h : fitsI 32 i = true) : signed 32 (twos 32 i) = i := by
  rw [fitsI32_iff] at h
  unfold signed twos
  have : ((2 ^ 32 : Nat) : Int) = 4294967296 := by decide
  rw [this]
  have h2 : (2 ^ (32 - 1) : Nat) = 2147483648 := by decide
  rw [h2]
  split <;> omega

theorem rdI16_i16 (i : Int) (rest : Bytes) (h : fitsI 16 i = true) : rdI16 (i16 i ++ rest) = some (i, rest) := by
  unfold rdI16 i16
  rw [rdU16_u16 _ _ (twos16_lt i)]
  simp only [Option.map_some, signed_twos16 i h]

theorem rdI32_i32 (i : Int) (rest : Bytes) (h : fitsI 32 i = true) : rdI32 (i32 i ++ rest) = some (i, rest) := by
  unfold rdI32 i32
  rw [rdU32_u32 _ _ (twos32_lt i)]
  simp only [Option.map_some, signed_twos32 i h]

/-- sizes are written unsigned (`u16`) and read signed (`i16`) by old ECL and TL06 -/
theorem rdI16_u16 (n : Nat) (rest : Bytes) (h : n < 2 ^ 15) : rdI16 (u16 n ++ rest) = some ((n : Int), rest) := by
  unfold rdI16
  rw [rdU16_u16 _ _ (by omega)]
  have h2 : (2 ^ (16 - 1) : Nat) = 32768 := by decide
  simp only [Option.map_some, signed, h2]
  rw [if_pos (by omega)]

theorem rdBytes_append (b rest : Bytes) : rdBytes b.length (b ++ rest) = some (b, rest) := by
  simp [rdBytes]

/-! ### what a format stores -/

/-- The fields the format does not store have the value the reader fills in.
(`.ecl06`: EoSD writes the mask as `0xFF` and reads it back; `.tl06`: `extra_arg` is always
present after a read, so `none` — written as `0` — does not survive.) -/
def Stored (f : Fmt) (i : Instr) : Prop :=
  match f with
  | .msg | .std06 | .std10 => i.mask = 0 ∧ i.difficulty = 255 ∧ i.extra = none
  | .anm07 => i.difficulty = 255 ∧ i.extra = none
  | .ecl06 => i.mask = 255 ∧ i.extra = none
  | .ecl07 => i.extra = none
  | .tl06 => i.mask = 0 ∧ i.difficulty = 255 ∧ ∃ e, i.extra = some e
  | .tl08 => i.mask = 0 ∧ i.extra = none

/-- The instruction with every unstored field reset: what reading back `writeInstr f i` gives. -/
def norm (f : Fmt) (i : Instr) : Instr :=
  match f with
  | .msg | .std06 | .std10 => { time := i.time, opcode := i.opcode, mask := 0, blob := i.blob }
  | .anm07 => { time := i.time, opcode := i.opcode, mask := i.mask, blob := i.blob }
  | .ecl06 => { time := i.time, opcode := i.opcode, mask := 255, blob := i.blob, difficulty := i.difficulty }
  | .ecl07 => { time := i.time, opcode := i.opcode, mask := i.mask, blob := i.blob, difficulty := i.difficulty }
  | .tl06 => { time := i.time, opcode := i.opcode, mask := 0, blob := i.blob, extra := some (i.extra.getD 0) }
  | .tl08 => { time := i.time, opcode := i.opcode, mask := 0, blob := i.blob, difficulty := i.difficulty }

theorem stored_iff_norm (f : Fmt) (i : Instr) : Stored f i ↔ norm f i = i := by
  obtain ⟨t, o, m, b, d, x⟩ := i
  cases f <;> simp only [Stored, norm, Instr.mk.injEq, true_and]
  case tl06 =>
    constructor
    · rintro ⟨rfl, rfl, e, rfl⟩; exact ⟨rfl, rfl, rfl⟩
    · rintro ⟨rfl, rfl, h⟩; exact ⟨rfl, rfl, _, h.symm⟩
  all_goals
    constructor
    · intro h; simp only [h, and_self]
    · intro h; simp only [h, and_self]

/-- what `readInstr` reports for a written `i`: MSG cannot tell `(0, 0, [])` from its end marker -/
def expectedRes (f : Fmt) (i : Instr) : ReadRes :=
  match f with
  | .msg => if i.time = 0 ∧ i.opcode = 0 ∧ i.blob = [] then .maybeTerminal i else .instr i
  | _ => .instr i

/-- The encoding of `i` does not coincide with the format's terminal marker.  Only TL06 has such
instructions: ANM/STD/ECL markers have opcode 65535, which `fits` rejects, and the TL08 marker
has size 0 while every written size is ≥ 8. -/
def NotTerminalLooking (f : Fmt) (i : Instr) : Prop :=
  match f with
  | .tl06 => ¬ (i.time = -1 ∧ i.extra = some 4)
  | _ => True

theorem write_ok_fits {f : Fmt} {i : Instr} {bs : Bytes} (h : writeInstr f i = .ok bs) : fits f i = true := by
  unfold writeInstr at h
  cases hf : fits f i
  · simp [hf] at h
  · rfl

/-! ### one instruction: per-format round trips -/

/-- body of the MSG reader once the input holds a complete first word -/
theorem readInstr_msg_cons (a b : UInt8) (r : Bytes) :
    readInstr .msg (a :: b :: r) =
      match rdI16 (a :: b :: r) with
      | none => .err eofErr
      | some (time, r) =>
      match rdU8 r with
      | none => .err eofErr
      | some (opcode, r) =>
      match rdU8 r with
      | none => .err eofErr
      | some (argsize, r) =>
      match rdBytes argsize r with
      | none => .err eofErr
      | some (blob, r) =>
        let i : Instr := { time, opcode, mask := 0, blob }
        if time = 0 ∧ opcode = 0 ∧ argsize = 0 then .ok (.maybeTerminal i, r) else .ok (.instr i, r) := by
  simp only [readInstr]
  rfl

theorem i16_append (t : Int) (r : Bytes) : ∃ a b, i16 t ++ r = a :: b :: r := ⟨_, _, rfl⟩

theorem expectedRes_msg_norm (i : Instr) :
    expectedRes .msg (norm .msg i) =
      if i.time = 0 ∧ i.opcode = 0 ∧ i.blob = [] then .maybeTerminal (norm .msg i) else .instr (norm .msg i) := rfl

theorem read_write_msg (i : Instr) (rest bs : Bytes) (hw : writeInstr .msg i = .ok bs) :
    readInstr .msg (bs ++ rest) = .ok (expectedRes .msg (norm .msg i), rest) := by
  have hf := write_ok_fits hw
  simp only [writeInstr, hf, Bool.not_true, Bool.false_eq_true, if_false, Outcome.ok.injEq] at hw
  subst hw
  simp only [fits, Bool.and_eq_true, fitsU8_iff] at hf
  obtain ⟨⟨h1, h2⟩, h3⟩ := hf
  simp only [List.append_assoc]
  obtain ⟨a, b, hab⟩ := i16_append i.time (u8 i.opcode ++ (u8 i.blob.length ++ (i.blob ++ rest)))
  rw [hab, readInstr_msg_cons, ← hab]
  simp only [rdI16_i16 _ _ h1, rdU8_u8 _ _ h2, rdU8_u8 _ _ h3, rdBytes_append, List.length_eq_zero_iff]
  rw [expectedRes_msg_norm]
  by_cases hc : i.time = 0 ∧ i.opcode = 0 ∧ i.blob = []
  · rw [if_pos hc, if_pos hc]; rfl
  · rw [if_neg hc, if_neg hc]; rfl

theorem read_write_anm07 (i : Instr) (rest bs : Bytes) (hw : writeInstr .anm07 i = .ok bs) :
    readInstr .anm07 (bs ++ rest) = .ok (.instr (norm .anm07 i), rest) := by
  have hf := write_ok_fits hw
  simp only [writeInstr, hf, Bool.not_true, Bool.false_eq_true, if_false, Outcome.ok.injEq] at hw
  subst hw
  simp only [fits, Bool.and_eq_true, fitsU16_iff, instrSize, headerSize, bne_iff_ne, ne_eq] at hf
  obtain ⟨⟨⟨⟨h0, h1⟩, h2⟩, h3⟩, h4⟩ := hf
  have e : 8 + i.blob.length - 8 = i.blob.length := by omega
  have hlt : ¬ (8 + i.blob.length < 8) := by omega
  simp only [readInstr, List.append_assoc, rdI16_i16 _ _ h3, rdU16_u16 _ _ h1, rdU16_u16 _ _ h2,
    rdU16_u16 _ _ h4, instrSize, headerSize, e, hlt, h0, if_false, rdBytes_append, norm]

theorem read_write_std06 (i : Instr) (rest bs : Bytes) (hw : writeInstr .std06 i = .ok bs) :
    readInstr .std06 (bs ++ rest) = .ok (.instr (norm .std06 i), rest) := by
  have hf := write_ok_fits hw
  simp only [writeInstr, hf, Bool.not_true, Bool.false_eq_true, if_false, Outcome.ok.injEq] at hw
  subst hw
  simp only [fits, Bool.and_eq_true, fitsU16_iff, bne_iff_ne, ne_eq, beq_iff_eq] at hf
  obtain ⟨⟨⟨h0, h1⟩, h2⟩, h3⟩ := hf
  have h12 : (12 : Nat) < 2 ^ 16 := by decide
  have hb := rdBytes_append i.blob rest
  rw [h3] at hb
  simp only [readInstr, List.append_assoc, rdI32_i32 _ _ h2, rdU16_u16 _ _ h1, rdU16_u16 _ _ h12,
    h0, if_false, hb, ne_eq, not_true_eq_false, norm]

theorem read_write_std10 (i : Instr) (rest bs : Bytes) (hw : writeInstr .std10 i = .ok bs) :
    readInstr .std10 (bs ++ rest) = .ok (.instr (norm .std10 i), rest) := by
  have hf := write_ok_fits hw
  simp only [writeInstr, hf, Bool.not_true, Bool.false_eq_true, if_false, Outcome.ok.injEq] at hw
  subst hw
  simp only [fits, Bool.and_eq_true, fitsU16_iff, instrSize, headerSize, bne_iff_ne, ne_eq] at hf
  obtain ⟨⟨⟨h0, h1⟩, h2⟩, h3⟩ := hf
  have e : 8 + i.blob.length - 8 = i.blob.length := by omega
  have hlt : ¬ (8 + i.blob.length < 8) := by omega
  simp only [readInstr, List.append_assoc, rdI32_i32 _ _ h2, rdU16_u16 _ _ h1, rdU16_u16 _ _ h3,
    instrSize, headerSize, e, hlt, h0, if_false, rdBytes_append, norm]

theorem read_write_ecl06 (i : Instr) (rest bs : Bytes) (hw : writeInstr .ecl06 i = .ok bs) :
    readInstr .ecl06 (bs ++ rest) = .ok (.instr (norm .ecl06 i), rest) := by
  have hf := write_ok_fits hw
  simp only [writeInstr, hf, Bool.not_true, Bool.false_eq_true, if_false, Outcome.ok.injEq] at hw
  subst hw
  simp only [fits, Bool.and_eq_true, fitsU16_iff, fitsU8_iff, fitsI16_nat_iff, instrSize, headerSize,
    bne_iff_ne, ne_eq] at hf
  obtain ⟨⟨⟨⟨⟨h0, h1⟩, h2⟩, h3⟩, h4⟩, h5⟩ := hf
  have e : ((12 + i.blob.length : Nat) : Int).toNat - 12 = i.blob.length := by omega
  have hlt : ¬ (((12 + i.blob.length : Nat) : Int) < 12) := by omega
  have h00 : (0 : Nat) < 2 ^ 8 := by decide
  have h255 : (255 : Nat) < 2 ^ 16 := by decide
  simp only [readInstr, List.append_assoc, rdI32_i32 _ _ h2, rdU16_u16 _ _ h1, rdI16_u16 _ _ h3,
    rdU8_u8 _ _ h00, rdU8_u8 _ _ h4, rdU16_u16 _ _ h255,
    instrSize, headerSize, e, hlt, h0, if_false, rdBytes_append, norm]

theorem read_write_ecl07 (i : Instr) (rest bs : Bytes) (hw : writeInstr .ecl07 i = .ok bs) :
    readInstr .ecl07 (bs ++ rest) = .ok (.instr (norm .ecl07 i), rest) := by
  have hf := write_ok_fits hw
  simp only [writeInstr, hf, Bool.not_true, Bool.false_eq_true, if_false, Outcome.ok.injEq] at hw
  subst hw
  simp only [fits, Bool.and_eq_true, fitsU16_iff, fitsU8_iff, fitsI16_nat_iff, instrSize, headerSize,
    bne_iff_ne, ne_eq] at hf
  obtain ⟨⟨⟨⟨⟨h0, h1⟩, h2⟩, h3⟩, h4⟩, h5⟩ := hf
  have e : ((12 + i.blob.length : Nat) : Int).toNat - 12 = i.blob.length := by omega
  have hlt : ¬ (((12 + i.blob.length : Nat) : Int) < 12) := by omega
  have h00 : (0 : Nat) < 2 ^ 8 := by decide
  simp only [readInstr, List.append_assoc, rdI32_i32 _ _ h2, rdU16_u16 _ _ h1, rdI16_u16 _ _ h3,
    rdU8_u8 _ _ h00, rdU8_u8 _ _ h4, rdU16_u16 _ _ h5,
    instrSize, headerSize, e, hlt, h0, if_false, rdBytes_append, norm]

/-- TL06 decides "terminal" on the first two words alone. -/
theorem read_write_tl06_terminal (i : Instr) (rest bs : Bytes) (hw : writeInstr .tl06 i = .ok bs)
    (ht : i.time = -1 ∧ i.extra.getD 0 = 4) : ∃ r, readInstr .tl06 (bs ++ rest) = .ok (.terminal, r) := by
  have hf := write_ok_fits hw
  simp only [writeInstr, hf, Bool.not_true, Bool.false_eq_true, if_false, Outcome.ok.injEq] at hw
  subst hw
  simp only [fits, Bool.and_eq_true] at hf
  obtain ⟨⟨⟨h1, h2⟩, h3⟩, h4⟩ := hf
  simp only [readInstr, List.append_assoc, rdI16_i16 _ _ h1, rdI16_i16 _ _ h4]
  rw [if_pos ht]
  exact ⟨_, rfl⟩

theorem read_write_tl06 (i : Instr) (rest bs : Bytes) (hw : writeInstr .tl06 i = .ok bs)
    (hn : ¬ (i.time = -1 ∧ i.extra.getD 0 = 4)) :
    readInstr .tl06 (bs ++ rest) = .ok (.instr (norm .tl06 i), rest) := by
  have hf := write_ok_fits hw
  simp only [writeInstr, hf, Bool.not_true, Bool.false_eq_true, if_false, Outcome.ok.injEq] at hw
  subst hw
  simp only [fits, Bool.and_eq_true, fitsU16_iff, fitsI16_nat_iff, instrSize, headerSize] at hf
  obtain ⟨⟨⟨h1, h2⟩, h3⟩, h4⟩ := hf
  have e : ((8 + i.blob.length : Nat) : Int).toNat - 8 = i.blob.length := by omega
  have hlt : ¬ (((8 + i.blob.length : Nat) : Int) < 8) := by omega
  simp only [readInstr, List.append_assoc, rdI16_i16 _ _ h1, rdI16_i16 _ _ h4, rdU16_u16 _ _ h2,
    rdI16_u16 _ _ h3, instrSize, headerSize, e, hlt, hn, if_false, rdBytes_append, norm]

theorem read_write_tl08 (i : Instr) (rest bs : Bytes) (hw : writeInstr .tl08 i = .ok bs) :
    readInstr .tl08 (bs ++ rest) = .ok (.instr (norm .tl08 i), rest) := by
  have hf := write_ok_fits hw
  simp only [writeInstr, hf, Bool.not_true, Bool.false_eq_true, if_false, Outcome.ok.injEq] at hw
  subst hw
  simp only [fits, Bool.and_eq_true, fitsU8_iff, fitsU16_iff, instrSize, headerSize] at hf
  obtain ⟨⟨⟨h1, h2⟩, h3⟩, h4⟩ := hf
  have e : 8 + i.blob.length - 8 = i.blob.length := by omega
  have hlt : ¬ (8 + i.blob.length < 8) := by omega
  have hne : ¬ (8 + i.blob.length = 0) := by omega
  simp only [readInstr, List.append_assoc, rdI32_i32 _ _ h1, rdU16_u16 _ _ h2, rdU8_u8 _ _ h3,
    rdU8_u8 _ _ h4, instrSize, headerSize, e, hlt, hne, false_and, and_false, if_false, rdBytes_append,
    norm]

/-! ### one instruction: all formats -/

theorem notTerminalLooking_tl06_iff (i : Instr) :
    NotTerminalLooking .tl06 i ↔ ¬ (i.time = -1 ∧ i.extra.getD 0 = 4) := by
  obtain ⟨t, o, m, b, d, x⟩ := i
  cases x with
  | none => simp [NotTerminalLooking]
  | some e => simp [NotTerminalLooking]

/-- Whatever fits is written so that it reads back as its normal form `norm f i` (no `Stored`
hypothesis), consuming exactly the written bytes. -/
theorem read_write_norm (f : Fmt) (i : Instr) (rest bs : Bytes)
    (hw : writeInstr f i = .ok bs) (hn : NotTerminalLooking f i) :
    readInstr f (bs ++ rest) = .ok (expectedRes f (norm f i), rest) := by
  cases f
  · exact read_write_msg i rest bs hw
  · exact read_write_anm07 i rest bs hw
  · exact read_write_std06 i rest bs hw
  · exact read_write_std10 i rest bs hw
  · exact read_write_ecl06 i rest bs hw
  · exact read_write_ecl07 i rest bs hw
  · exact read_write_tl06 i rest bs hw ((notTerminalLooking_tl06_iff i).1 hn)
  · exact read_write_tl08 i rest bs hw

/-- **Round trip of one instruction**, every format: if the checked writer accepts `i`, the fields
the format does not store are at their defaults, and the encoding is not the terminal marker,
then reading the written bytes (followed by anything) gives `i` back and leaves exactly `rest`. -/
theorem read_write (f : Fmt) (i : Instr) (rest bs : Bytes) (hs : Stored f i)
    (hw : writeInstr f i = .ok bs) (hn : NotTerminalLooking f i) :
    readInstr f (bs ++ rest) = .ok (expectedRes f i, rest) := by
  have := read_write_norm f i rest bs hw hn
  rwa [(stored_iff_norm f i).1 hs] at this

theorem expectedRes_inj (f : Fmt) (i1 i2 : Instr) (h : expectedRes f i1 = expectedRes f i2) : i1 = i2 := by
  cases f
  case msg =>
    simp only [expectedRes] at h
    split at h <;> split at h <;> first | (injection h) | contradiction
  all_goals exact ReadRes.instr.inj h

/-- The side conditions of `read_write` are exactly right: for an instruction the writer accepts,
the round trip holds **iff** `Stored` and `NotTerminalLooking` hold. -/
theorem read_write_iff (f : Fmt) (i : Instr) (rest bs : Bytes) (hw : writeInstr f i = .ok bs) :
    readInstr f (bs ++ rest) = .ok (expectedRes f i, rest) ↔ Stored f i ∧ NotTerminalLooking f i := by
  constructor
  · intro h
    have hn : NotTerminalLooking f i := by
      cases f
      case tl06 =>
        rw [notTerminalLooking_tl06_iff]
        intro ht
        obtain ⟨r, hr⟩ := read_write_tl06_terminal i rest bs hw ht
        rw [hr] at h
        simp only [expectedRes, Outcome.ok.injEq, Prod.mk.injEq, reduceCtorEq, false_and] at h
      all_goals trivial
    refine ⟨?_, hn⟩
    have h' := read_write_norm f i rest bs hw hn
    rw [h] at h'
    injection h' with h'
    injection h' with h'
    exact (stored_iff_norm f i).2 (expectedRes_inj f _ _ h').symm
  · rintro ⟨hs, hn⟩
    exact read_write f i rest bs hs hw hn

/-! The hypotheses of `read_write` are satisfiable by non-trivial instructions (negative time,
non-empty blob, stored mask / difficulty / arg0), here for five of the formats. -/
example : ∃ bs, Stored .msg { time := -40, opcode := 3, blob := [1, 2, 3, 4] } ∧
    writeInstr .msg { time := -40, opcode := 3, blob := [1, 2, 3, 4] } = .ok bs ∧
    NotTerminalLooking .msg { time := -40, opcode := 3, blob := [1, 2, 3, 4] } :=
  ⟨[216, 255, 3, 4, 1, 2, 3, 4], ⟨rfl, rfl, rfl⟩, by decide, trivial⟩
example : ∃ bs, Stored .anm07 { time := -1, opcode := 300, mask := 5, blob := [1, 2, 3, 4] } ∧
    writeInstr .anm07 { time := -1, opcode := 300, mask := 5, blob := [1, 2, 3, 4] } = .ok bs ∧
    NotTerminalLooking .anm07 { time := -1, opcode := 300, mask := 5, blob := [1, 2, 3, 4] } :=
  ⟨[44, 1, 12, 0, 255, 255, 5, 0, 1, 2, 3, 4], ⟨rfl, rfl⟩, by decide, trivial⟩
example : ∃ bs, Stored .ecl06 { time := 70000, opcode := 35, mask := 255, difficulty := 15, blob := [7, 7, 7, 7] } ∧
    writeInstr .ecl06 { time := 70000, opcode := 35, mask := 255, difficulty := 15, blob := [7, 7, 7, 7] } = .ok bs ∧
    NotTerminalLooking .ecl06 { time := 70000, opcode := 35, mask := 255, difficulty := 15, blob := [7, 7, 7, 7] } :=
  ⟨[112, 17, 1, 0, 35, 0, 16, 0, 0, 15, 255, 0, 7, 7, 7, 7], ⟨rfl, rfl⟩, by decide, trivial⟩
example : ∃ bs, Stored .tl06 { time := -1, opcode := 2, extra := some 7, blob := [1, 0, 0, 0] } ∧
    writeInstr .tl06 { time := -1, opcode := 2, extra := some 7, blob := [1, 0, 0, 0] } = .ok bs ∧
    NotTerminalLooking .tl06 { time := -1, opcode := 2, extra := some 7, blob := [1, 0, 0, 0] } :=
  ⟨[255, 255, 7, 0, 2, 0, 12, 0, 1, 0, 0, 0], ⟨rfl, rfl, 7, rfl⟩, by decide, by simp [NotTerminalLooking]⟩
example : ∃ bs, Stored .tl08 { time := -1, opcode := 0, difficulty := 0, blob := [] } ∧
    writeInstr .tl08 { time := -1, opcode := 0, difficulty := 0, blob := [] } = .ok bs ∧
    NotTerminalLooking .tl08 { time := -1, opcode := 0, difficulty := 0, blob := [] } :=
  ⟨[255, 255, 255, 255, 0, 0, 8, 0], ⟨rfl, rfl⟩, by decide, trivial⟩
/-- and the conclusion, instantiated -/
example : readInstr .anm07 ([44, 1, 12, 0, 255, 255, 5, 0, 1, 2, 3, 4] ++ [9, 9]) =
    .ok (.instr { time := -1, opcode := 300, mask := 5, blob := [1, 2, 3, 4] }, [9, 9]) :=
  read_write .anm07 _ _ _ ⟨rfl, rfl⟩ (by decide) trivial
/-- the excluded TL06 case really does not read back: it is the terminal marker -/
example : ∃ bs r, writeInstr .tl06 { time := -1, opcode := 2, extra := some 4 } = .ok bs ∧
    readInstr .tl06 bs = .ok (.terminal, r) := ⟨_, _, rfl, rfl⟩
/-- MSG `(0, 0, [])` reads back as a maybe-terminal -/
example : expectedRes .msg { time := 0, opcode := 0 } = .maybeTerminal { time := 0, opcode := 0 } := by decide
/-- an unstored field breaks the round trip: TL06 with `extra = none` reads back `some 0` -/
example : ∃ bs, writeInstr .tl06 { time := 0, opcode := 2 } = .ok bs ∧
    readInstr .tl06 bs = .ok (.instr { time := 0, opcode := 2, extra := some 0 }, []) := ⟨_, rfl, rfl⟩

/-! ### injectivity of the writer -/

theorem i16_append_inj {a b : Int} {r s : Bytes} (ha : fitsI 16 a = true) (hb : fitsI 16 b = true)
    (h : i16 a ++ r = i16 b ++ s) : a = b ∧ r = s := by
  have := congrArg rdI16 h
  rw [rdI16_i16 _ _ ha, rdI16_i16 _ _ hb] at this
  injection this with this
  injection this with h1 h2
  exact ⟨h1, h2⟩

theorem u16_append_inj {a b : Nat} {r s : Bytes} (ha : a < 2 ^ 16) (hb : b < 2 ^ 16)
    (h : u16 a ++ r = u16 b ++ s) : a = b ∧ r = s := by
  have := congrArg rdU16 h
  rw [rdU16_u16 _ _ ha, rdU16_u16 _ _ hb] at this
  injection this with this
  injection this with h1 h2
  exact ⟨h1, h2⟩

/-- TL06 directly (field by field), so that terminal-looking instructions are covered as well -/
theorem write_injective_tl06 (i1 i2 : Instr) (bs : Bytes) (h1 : Stored .tl06 i1) (h2 : Stored .tl06 i2)
    (w1 : writeInstr .tl06 i1 = .ok bs) (w2 : writeInstr .tl06 i2 = .ok bs) : i1 = i2 := by
  have f1 := write_ok_fits w1
  have f2 := write_ok_fits w2
  simp only [writeInstr, f1, f2, Bool.not_true, Bool.false_eq_true, if_false, Outcome.ok.injEq] at w1 w2
  subst w1
  obtain ⟨t1, o1, m1, b1, d1, x1⟩ := i1
  obtain ⟨t2, o2, m2, b2, d2, x2⟩ := i2
  simp only [Stored] at h1 h2
  obtain ⟨rfl, rfl, e1, rfl⟩ := h1
  obtain ⟨rfl, rfl, e2, rfl⟩ := h2
  simp only [fits, Bool.and_eq_true, fitsU16_iff, fitsI16_nat_iff, instrSize, headerSize,
    Option.getD_some] at f1 f2
  obtain ⟨⟨⟨p1, p2⟩, p3⟩, p4⟩ := f1
  obtain ⟨⟨⟨q1, q2⟩, q3⟩, q4⟩ := f2
  simp only [List.append_assoc, Option.getD_some, instrSize, headerSize] at w2
  obtain ⟨rfl, w3⟩ := i16_append_inj q1 p1 w2
  obtain ⟨rfl, w4⟩ := i16_append_inj q4 p4 w3
  obtain ⟨rfl, w5⟩ := u16_append_inj q2 p2 w4
  obtain ⟨_, rfl⟩ := u16_append_inj (by omega) (by omega) w5
  rfl

/-- **The checked writer is injective** on the instructions a format can represent: two accepted,
`Stored` instructions with the same bytes are equal (no `NotTerminalLooking` needed). -/
theorem write_injective (f : Fmt) (i1 i2 : Instr) (bs : Bytes) (h1 : Stored f i1) (h2 : Stored f i2)
    (w1 : writeInstr f i1 = .ok bs) (w2 : writeInstr f i2 = .ok bs) : i1 = i2 := by
  by_cases hf : f = .tl06
  · subst hf; exact write_injective_tl06 i1 i2 bs h1 h2 w1 w2
  · have n1 : NotTerminalLooking f i1 := by cases f <;> first | exact absurd rfl hf | trivial
    have n2 : NotTerminalLooking f i2 := by cases f <;> first | exact absurd rfl hf | trivial
    have r1 := read_write f i1 [] bs h1 w1 n1
    have r2 := read_write f i2 [] bs h2 w2 n2
    rw [r1] at r2
    injection r2 with r2
    injection r2 with r2
    exact expectedRes_inj f i1 i2 r2

/-! ### whole scripts -/

theorem read_terminal (f : Fmt) (hf : f ≠ .msg) : ∃ r, readInstr f (writeTerminal f) = .ok (.terminal, r) := by
  cases f
  · exact absurd rfl hf
  all_goals exact ⟨_, rfl⟩

/-- the MSG end marker `u32 0` is itself a maybe-terminal `(0, 0, [])` instruction -/
theorem read_terminal_msg :
    readInstr .msg (writeTerminal .msg) = .ok (.maybeTerminal { time := 0, opcode := 0 }, []) := by decide

theorem write_length {f : Fmt} {i : Instr} {bs : Bytes} (hw : writeInstr f i = .ok bs) :
    bs.length = headerSize f + i.blob.length := by
  have hf := write_ok_fits hw
  cases f <;>
    simp only [writeInstr, hf, Bool.not_true, Bool.false_eq_true, if_false, Outcome.ok.injEq] at hw <;>
    subst hw <;>
    simp only [i16, i32, u8, u16, u32, List.length_append, List.length_cons, List.length_nil, headerSize] <;>
    omega

theorem writeInstrs_cons_ok {f : Fmt} {i : Instr} {is : List Instr} {bs : Bytes}
    (h : writeInstrs f (i :: is) = .ok bs) :
    ∃ b bs', writeInstr f i = .ok b ∧ writeInstrs f is = .ok bs' ∧ bs = b ++ bs' := by
  rw [writeInstrs] at h
  cases hb : writeInstr f i with
  | ok b =>
    cases hbs : writeInstrs f is with
    | ok bs' =>
      simp only [hb, hbs, Outcome.ok.injEq] at h
      exact ⟨b, bs', rfl, rfl, h.symm⟩
    | err c => simp only [hb, hbs] at h; contradiction
    | panic c => simp only [hb, hbs] at h; contradiction
  | err c => simp only [hb] at h; contradiction
  | panic c => simp only [hb] at h; contradiction

theorem expectedRes_not_msg {f : Fmt} (hf : f ≠ .msg) (i : Instr) : expectedRes f i = .instr i := by
  cases f <;> first | exact absurd rfl hf | rfl

/-- the accumulator after the pending maybe-terminal has been committed -/
def commit (pending : Option Instr) (acc : List Instr) : List Instr :=
  match pending with | some p => p :: acc | none => acc

/-- one iteration of the script loop (the compiler-generated equations split on `pending`) -/
theorem readInstrsAux_succ (f : Fmt) (n : Nat) (pending : Option Instr) (acc : List Instr) (bs : Bytes) :
    readInstrsAux f (n + 1) pending acc bs =
      match readInstr f bs with
      | .ok (.eof, _) => .ok acc.reverse
      | .ok (.terminal, _) => .ok acc.reverse
      | .ok (.instr i, r) => readInstrsAux f n none (i :: commit pending acc) r
      | .ok (.maybeTerminal i, r) => readInstrsAux f n (some i) (commit pending acc) r
      | .err c => .err c
      | .panic s => .panic s := by
  cases pending <;> rw [readInstrsAux] <;> rfl

theorem readAux_write (f : Fmt) (hf : f ≠ .msg) :
    ∀ (is : List Instr) (n : Nat) (acc : List Instr) (bs : Bytes),
      writeInstrs f is = .ok bs → (∀ i ∈ is, Stored f i ∧ NotTerminalLooking f i) → bs.length < n →
      readInstrsAux f n none acc bs = .ok (acc.reverse ++ is) := by
  intro is
  induction is with
  | nil =>
    intro n acc bs hw _ hn
    rw [writeInstrs] at hw
    injection hw with hw
    subst hw
    obtain ⟨r, hr⟩ := read_terminal f hf
    cases n with
    | zero => omega
    | succ n => rw [readInstrsAux, hr]; simp only [List.append_nil]
  | cons i is ih =>
    intro n acc bs hw hall hn
    obtain ⟨b, bs', hb, hbs', rfl⟩ := writeInstrs_cons_ok hw
    have hi := hall i (List.mem_cons_self ..)
    have hread := read_write f i bs' b hi.1 hb hi.2
    rw [expectedRes_not_msg hf] at hread
    have hlen := write_length hb
    cases n with
    | zero => omega
    | succ n =>
      rw [readInstrsAux, hread]
      simp only
      rw [ih n (i :: acc) bs' hbs' (fun j hj => hall j (List.mem_cons_of_mem _ hj))
        (by rw [List.length_append] at hn; have : 0 < headerSize f := by cases f <;> decide
            omega)]
      simp only [List.reverse_cons, List.append_assoc, List.singleton_append]

theorem readAux_write_msg :
    ∀ (is : List Instr) (n : Nat) (pending : Option Instr) (acc : List Instr) (bs : Bytes),
      writeInstrs .msg is = .ok bs → (∀ i ∈ is, Stored .msg i) → bs.length < n →
      readInstrsAux .msg n pending acc bs = .ok ((commit pending acc).reverse ++ is) := by
  intro is
  induction is with
  | nil =>
    intro n pending acc bs hw _ hn
    rw [writeInstrs] at hw
    injection hw with hw
    subst hw
    have h4 : (writeTerminal .msg).length = 4 := rfl
    rw [h4] at hn
    obtain ⟨n, rfl⟩ : ∃ m, n = m + 2 := ⟨n - 2, by omega⟩
    have : readInstr .msg [] = .ok (.eof, []) := rfl
    rw [readInstrsAux_succ, read_terminal_msg]
    simp only
    rw [readInstrsAux_succ, this]
    simp only [List.append_nil]
  | cons i is ih =>
    intro n pending acc bs hw hall hn
    obtain ⟨b, bs', hb, hbs', rfl⟩ := writeInstrs_cons_ok hw
    have hi := hall i (List.mem_cons_self ..)
    have hread := read_write .msg i bs' b hi hb trivial
    have hlen := write_length hb
    have hn' : bs'.length < n - 1 := by
      rw [List.length_append, hlen] at hn; simp only [headerSize] at hn; omega
    obtain ⟨n, rfl⟩ : ∃ m, n = m + 1 := ⟨n - 1, by omega⟩
    have hall' : ∀ j ∈ is, Stored .msg j := fun j hj => hall j (List.mem_cons_of_mem _ hj)
    rw [readInstrsAux_succ]
    by_cases hc : i.time = 0 ∧ i.opcode = 0 ∧ i.blob = []
    · simp only [expectedRes, hc, and_self, if_true] at hread
      rw [hread]
      simp only
      rw [ih n _ _ bs' hbs' hall' hn']
      simp only [commit, List.reverse_cons, List.append_assoc, List.singleton_append]
    · simp only [expectedRes, hc, if_false] at hread
      rw [hread]
      simp only
      rw [ih n _ _ bs' hbs' hall' hn']
      simp only [commit, List.reverse_cons, List.append_assoc, List.singleton_append]

/-- **Round trip of a whole script**, every format: what `writeInstrs` writes (instructions followed
by the terminal marker) is read back by `readInstrs` as the same list.

No hypothesis about MSG maybe-terminal `(0, 0, [])` instructions is needed: the reader commits a
pending maybe-terminal as soon as anything follows it — even the end marker `u32 0`, itself a
maybe-terminal — and only the last pending one, i.e. the marker written by `writeTerminal`, is
dropped at end of input.  The only per-instruction conditions are those of `read_write`
(`fits` is implied by `writeInstrs` succeeding). -/
theorem readInstrs_writeInstrs (f : Fmt) (is : List Instr) (bs : Bytes)
    (hw : writeInstrs f is = .ok bs) (hall : ∀ i ∈ is, Stored f i ∧ NotTerminalLooking f i) :
    readInstrs f bs = .ok is := by
  unfold readInstrs
  by_cases hf : f = .msg
  · subst hf
    rw [readAux_write_msg is _ none [] bs hw (fun i hi => (hall i hi).1) (Nat.lt_succ_self _)]
    rfl
  · rw [readAux_write f hf is _ [] bs hw hall (Nat.lt_succ_self _)]
    rfl

/-- the weaker form asked for in the work order (extra hypothesis: no MSG maybe-terminals) -/
theorem readInstrs_writeInstrs_partial (f : Fmt) (is : List Instr) (bs : Bytes)
    (hw : writeInstrs f is = .ok bs) (hall : ∀ i ∈ is, Stored f i ∧ NotTerminalLooking f i)
    (_ : ∀ i ∈ is, ¬ (f = .msg ∧ i.time = 0 ∧ i.opcode = 0 ∧ i.blob = [])) :
    readInstrs f bs = .ok is :=
  readInstrs_writeInstrs f is bs hw hall

/-- a MSG script whose last instruction is a maybe-terminal survives -/
example : ∃ bs, writeInstrs .msg [{ time := 5, opcode := 1, blob := [9] }, { time := 0, opcode := 0 }] = .ok bs ∧
    readInstrs .msg bs = .ok [{ time := 5, opcode := 1, blob := [9] }, { time := 0, opcode := 0 }] :=
  ⟨_, rfl, readInstrs_writeInstrs _ _ _ rfl (by
    intro i hi
    simp only [List.mem_cons, List.not_mem_nil, or_false] at hi
    rcases hi with rfl | rfl <;> exact ⟨⟨rfl, rfl, rfl⟩, trivial⟩)⟩

end TruthModel.C03
