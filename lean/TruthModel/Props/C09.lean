import TruthModel.Lemmas.Types
/-
C09 — the type checker accepts exactly the well-typed scripts and predicts value types.

Property theorems only (helpers: `Lemmas/Types.lean`; model and the declarative rules:
`Model/Types.lean`).  All theorems quantify over every context, expression and program of the
model; there is no bound on nesting depth or size.

Status of the property (see the witnesses in section 5):
* expressions: sound and complete (`check_sound`, `check_complete`), for every context whose
  signatures have their optional parameters at the end (`SigsOk`); without that hypothesis it is
  FALSE of `check_expr_call` (`padding_witness`: the arity test counts required parameters, the
  zip pairs arguments with all parameters).  In the pinned tree `abi_to_signature` made every
  padding byte an optional parameter, so `ins_900(1, 2)` against `900 S_f` was accepted and
  panicked in lower.rs; since the repair 9d4386e padding is not a parameter at all, no
  signature the implementation can build has optional parameters, and `SigsOk` holds for every
  reachable context (the harness keeps `S__` / `S_f` signatures as a regression);
* statements: TRUE of the code as it is now (`stmts_accept_iff_welltyped`: the full statement,
  every program, every nesting depth, no side condition).  The pinned `Visitor::visit_stmt`
  never looked into three constructs: free blocks `{ .. }` (repaired by 9b7e57b), the
  expressions of `interrupt[e]:` / `+e:` labels and the declared type of `const T x = e;` (both
  repaired by 353f983); `return` outside a function panicked and assignment to a constant was
  rejected nowhere (both repaired by 0757655).  Each skipped construct is a switch of the model
  (`Model/Types.lean`), now all on; the witnesses of section 5 stay as theorems about the
  switched-off settings, `stmts_accept_iff_welltyped_for_cfg` is the equivalence for every
  setting, and `stmts_accept_iff_welltyped_status` decides the full statement for whatever
  `codeCfg` is;
* the language of the theorems is the whole expression language of `check_expr` (section 1b:
  difficulty switches, `++` / `--`, enum constants, label properties, pseudo-arguments, calls of
  user-defined functions) and multi-variable declarations / const items, `return` at any depth
  (section 3b); all theorems of sections 1 and 3 keep their statements.  Two statements were
  FALSE of the code when the language was extended, each decided by a `_status` theorem over a
  switch of the model, replayed on the CLI and since repaired: `compute_ty` disagreed with
  `check_expr` on a qualified constant of the string enum `EclSubName`, so the `debug_assert_eq!`
  of `check_expr` fired there and only there (section 2; e91a1bf); `++` / `--` on a constant was
  accepted (section 4c; e098828).  Both switches are set to the repaired behaviour; the witnesses
  stay as theorems about the other setting;
* static type = dynamic type is stated for `evalT`, the evaluator of the whole language; on the
  fragment of the C11 model it is the C11 evaluator (`type_preservation_vm`, `evalT_eq_eval`).
-/
namespace TruthModel.C09
open TruthModel TruthModel.Types

/-- context used by the `example`s: registers 0-3 int, 4-7 float, 8 string (cannot exist in the
real register file, but variables can be strings), others untyped; variable 0 int, 1 float,
2 string, others untyped; `ins_0(S, f)`, `ins_1(S, _, _)`. -/
def exΓ : Ctx where
  regTy r := if r < 4 then .typed .int else if r < 8 then .typed .float else .untyped
  varTy n := if n = 0 then .typed .int else if n = 1 then .typed .float
    else if n = 2 then .typed .str else .untyped
  sig f := if f = 0 then some [⟨.typed .int, false⟩, ⟨.typed .float, false⟩]
    else if f = 1 then some [⟨.typed .int, false⟩, ⟨.typed .int, true⟩, ⟨.typed .int, true⟩]
    else none
  isConst n := n = 2

theorem exΓ_sigsOk : SigsOk exΓ := by
  intro f ps h
  simp only [exΓ] at h
  split at h
  · cases h; rfl
  · split at h
    · cases h; rfl
    · cases h

/-! ## 1. Expressions: the checker accepts exactly the typable expressions, at every depth -/

/-- Soundness: whatever `check_expr` accepts with type `t` is derivable in the declarative
system with the same type. -/
theorem check_sound (Γ : Ctx) (hΓ : SigsOk Γ) (e : TExpr) (t : ETy)
    (h : check Γ e = .ok t) : HasType Γ e t :=
  -- `rfl`: `checksXcrementTarget` is on in Model/Types.lean (e098828)
  check_sound_aux Γ hΓ e t h (Or.inl rfl)

/-- soundness for every setting of the `++` / `--` switch: while `check_expr` does not look at the
operand's assignability, the accepted expressions in which no `++` / `--` writes to a constant are
typable -/
theorem check_sound_for_setting (Γ : Ctx) (hΓ : SigsOk Γ) (e : TExpr) (t : ETy)
    (h : check Γ e = .ok t) (hX : checksXcrementTarget = true ∨ WritesOk Γ e) : HasType Γ e t :=
  check_sound_aux Γ hΓ e t h hX

/-- Completeness: every typable expression is accepted, with the derived type. -/
theorem check_complete (Γ : Ctx) (hΓ : SigsOk Γ) (e : TExpr) (t : ETy)
    (h : HasType Γ e t) : check Γ e = .ok t :=
  check_complete_aux Γ hΓ e t h

/-- the two together; also gives uniqueness of types -/
theorem check_accepts_iff_hasType (Γ : Ctx) (hΓ : SigsOk Γ) (e : TExpr) (t : ETy) :
    check Γ e = .ok t ↔ HasType Γ e t :=
  check_iff Γ hΓ e t

theorem hasType_functional (Γ : Ctx) (hΓ : SigsOk Γ) (e : TExpr) (t u : ETy)
    (h1 : HasType Γ e t) (h2 : HasType Γ e u) : t = u :=
  hasType_unique Γ hΓ e t u h1 h2

-- `ins_0($REG[0] + int(%REG[4] * 1.5), REG[5] < 2.0 ? 1.0 : %REG[1])` is accepted (void) ...
example : check exΓ
    (.call 0 (.cons (.binop .add (.reg 0 (some .int))
                  (.unop .castI (.binop .mul (.reg 4 (some .float)) (.litF 0x3fc00000))))
      (.cons (.ternary (.binop .lt (.reg 5 none) (.litF 0x40000000)) (.litF 0x3f800000)
                  (.reg 1 (some .float))) .nil))) = .ok .void := by
  decide
-- ... and the same call with the inner literal `1.5` replaced by `1` (depth 4) is rejected
example : check exΓ
    (.call 0 (.cons (.binop .add (.reg 0 (some .int))
                  (.unop .castI (.binop .mul (.reg 4 (some .float)) (.litI 1))))
      (.cons (.ternary (.binop .lt (.reg 5 none) (.litF 0x40000000)) (.litF 0x3f800000)
                  (.reg 1 (some .float))) .nil))) = .err tyErr := by
  decide
example : HasType exΓ (.binop .lt (.reg 5 none) (.litF 0)) (.value .int) :=
  .binop (t := .float) ⟨Or.inr rfl, rfl⟩ (.reg rfl) (.litF 0)

/-! ### 1b. The constructs added later: difficulty switches, `++` / `--`, enum constants, label
properties, pseudo-arguments, calls of user-defined functions

`exΓ2`: `exΓ` plus a string enum (number 1; enum 0 is an int enum), the user functions
`int fn0(int, float)`, `void fn1()`, `float fn2(var)`. -/

def exΓ2 : Ctx := { exΓ with
  enumStr := fun en => en = 1
  fsig := fun f => if f = 0 then ([.typed .int, .typed .float], .value .int)
    else if f = 1 then ([], .void) else ([.untyped], .value .float) }

theorem exΓ2_sigsOk : SigsOk exΓ2 := exΓ_sigsOk

/-- an instruction call without pseudo-arguments is the general call with none -/
theorem call_eq_callx (Γ : Ctx) (f : Nat) (args : TArgs) :
    check Γ (.callx false f .nil args) = check Γ (.call f args) ∧
      computeTy Γ (.callx false f .nil args) = computeTy Γ (.call f args) := by
  constructor
  · simp only [check, checkPseudos, TPseudos.isNil, TPseudos.hasBlob, Ctx.calleeSig]
    cases Γ.sig f <;> simp
  · simp only [computeTy, TPseudos.hasBlob, Ctx.calleeSig]
    cases Γ.sig f <;> simp

-- `ins_0(($REG[0] : : 2 : fn0(1, 2.0)), (1.5 : %REG[1]))`: blank case, nested user call
example : check exΓ2
    (.call 0 (.cons (.diffSwitch (.reg 0 (some .int)) (.blank (.case (.litI 2)
        (.case (.callx true 0 .nil (.cons (.litI 1) (.cons (.litF 0x40000000) .nil))) .nil))))
      (.cons (.diffSwitch (.litF 0x3fc00000) (.case (.reg 1 (some .float)) .nil)) .nil)))
    = .ok .void := by decide
-- one float case in the int switch (third position, after a blank): rejected
example : check exΓ2
    (.diffSwitch (.reg 0 (some .int)) (.blank (.case (.litF 0x40000000) .nil))) = .err tyErr := by
  decide
example : HasType exΓ2 (.diffSwitch (.litI 1) (.blank (.case (.reg 0 none) .nil))) (.value .int) :=
  .diffSwitch (.litI 1) (.blank (.case (.reg rfl) .nil))
-- `$REG[0]++` is an int, `REG[4]--` (a float register) and `%REG[0]++` are rejected
example : check exΓ2 (.xcrement false true ⟨true, 0, some .int⟩) = .ok (.value .int) := by decide
example : check exΓ2 (.xcrement false false ⟨true, 4, none⟩) = .err tyErr := by decide
example : check exΓ2 (.xcrement true true ⟨true, 0, some .float⟩) = .err tyErr := by decide
example : check exΓ2 (.xcrement true true ⟨true, 9, none⟩) = .err prefixErr := by decide
-- enum constants have the type of their enum, label properties are ints
example : check exΓ2 (.binop .add (.enumConst 0 3) (.labelProp 1)) = .ok (.value .int) := by decide
example : check exΓ2 (.enumConst 1 0) = .ok (.value .str) := by decide
-- pseudo-arguments: `ins_0(@mask=1 + 1, 2, 1.0)`, `ins_5(@blob="00")` (no signature needed),
-- `@blob` with a normal argument, a float mask, a string that is not one, a pseudo-argument on a
-- user function
example : check exΓ2 (.callx false 0 (.cons .mask (.binop .add (.litI 1) (.litI 1)) .nil)
    (.cons (.litI 2) (.cons (.litF 0x3f800000) .nil))) = .ok .void := by decide
example : check exΓ2 (.callx false 5 (.cons .blob (.litS "00") .nil) .nil) = .ok .void := by decide
example : check exΓ2 (.callx false 0 (.cons .blob (.litS "00") .nil) (.cons (.litI 2) .nil))
    = .err blobArgsErr := by decide
example : check exΓ2 (.callx false 0 (.cons .mask (.litF 0) .nil)
    (.cons (.litI 2) (.cons (.litF 0x3f800000) .nil))) = .err tyErr := by decide
example : check exΓ2 (.callx false 0 (.cons .blob (.litI 0) .nil) .nil) = .err tyErr := by decide
example : check exΓ2 (.callx true 1 (.cons .mask (.litI 1) .nil) .nil) = .err pseudoCallErr := by
  decide
-- user functions: value-returning call as an operand; arity; parameter type; `var` parameter
example : check exΓ2 (.binop .mul (.callx true 0 .nil (.cons (.litI 1) (.cons (.litF 0) .nil)))
    (.litI 2)) = .ok (.value .int) := by decide
example : check exΓ2 (.callx true 0 .nil (.cons (.litI 1) .nil)) = .err arityErr := by decide
example : check exΓ2 (.callx true 0 .nil (.cons (.litI 1) (.cons (.litI 0) .nil))) = .err tyErr := by
  decide
example : check exΓ2 (.callx true 2 .nil (.cons (.litS "a") .nil)) = .ok (.value .float) := by decide
example : HasType exΓ2 (.callx true 2 .nil (.cons (.litS "a") .nil)) (.value .float) :=
  .callUser (f := 2) (.cons (.litS "a") (Or.inl rfl) .nil)

/-! ## 2. `compute_ty` agrees with `check_expr`: the `debug_assert_eq!` cannot fire -/

/-- The statement of the property: for every accepted expression the cheap re-computation returns
the checked type.  It was FALSE until e91a1bf (`computeTy_disagrees_on_string_enum`): `compute_ty`
answered `Int` for every qualified enum constant, `check_expr` the enum's type, and the built-in
enum `EclSubName` (the names of the subs of a TH10+ ECL file) is a string enum. -/
def computeTy_agrees_full : Prop :=
  ∀ (Γ : Ctx) (e : TExpr) (t : ETy), check Γ e = .ok t → computeTy Γ e = .ok t

/-- the conditional form, for every setting of the switch: agreement on every accepted expression
in which no qualified constant of a string enum occurs, or on all of them once `compute_ty` asks
`enum_ty` -/
theorem computeTy_agrees_for_setting (Γ : Ctx) (e : TExpr) (t : ETy) (h : check Γ e = .ok t)
    (hE : computeTyEnumIsInt = false ∨ NoStrEnumConst Γ e) :
    computeTy Γ e = .ok t :=
  computeTy_of_check Γ e t h hE

/-- For every accepted expression the cheap re-computation returns the checked type.  (No
hypothesis on the context.) -/
theorem computeTy_agrees (Γ : Ctx) (e : TExpr) (t : ETy) (h : check Γ e = .ok t) :
    computeTy Γ e = .ok t :=
  -- `rfl`: `computeTyEnumIsInt` is off in Model/Types.lean (e91a1bf)
  computeTy_of_check Γ e t h (Or.inl rfl)

/-- ... and whatever the setting, for every accepted expression whose type is not `string` -/
theorem computeTy_agrees_nonstring (Γ : Ctx) (e : TExpr) (t : ETy) (h : check Γ e = .ok t)
    (ht : t ≠ .value .str) : computeTy Γ e = .ok t :=
  computeTy_of_check_gen Γ e t h (Or.inr ht)

/-- `check_expr` evaluates `debug_assert_eq!(out, expr.compute_ty(ctx))` at every node it
returns `Ok(out)` from.  When the whole expression is accepted, every subexpression (also call
arguments, switch cases, pseudo-argument values) was accepted, and at each of them both sides of
the assertion are equal. -/
theorem debug_assert_never_fires (Γ : Ctx) (e : TExpr) (t : ETy) (h : check Γ e = .ok t) :
    ∀ e' ∈ subsE e, ∃ t', check Γ e' = .ok t' ∧ computeTy Γ e' = .ok t' := by
  intro e' he'
  obtain ⟨t', ht'⟩ := subs_accepted Γ e t h e' he'
  exact ⟨t', ht', computeTy_of_check Γ e' t' ht' (Or.inl rfl)⟩

/-- the conditional form of the same, for every setting of the switch -/
theorem debug_assert_never_fires_for_setting (Γ : Ctx) (e : TExpr) (t : ETy)
    (h : check Γ e = .ok t) (hE : computeTyEnumIsInt = false ∨ NoStrEnumConst Γ e) :
    ∀ e' ∈ subsE e, ∃ t', check Γ e' = .ok t' ∧ computeTy Γ e' = .ok t' := by
  intro e' he'
  obtain ⟨t', ht'⟩ := subs_accepted Γ e t h e' he'
  exact ⟨t', ht', computeTy_of_check Γ e' t' ht' (EnumOk.of_mem hE he')⟩

/-- `EclSubName.foo` (enum 1 of `exΓ2` is a string enum) while `compute_ty` answered `Int` for
every enum constant (until e91a1bf): accepted with type string, `compute_ty` said int, the
`debug_assert_eq!` at the end of `check_expr` fired in a build with debug assertions.  Was replayed
on the CLI: `truecl compile -g 10` of `void foo() { ins_11(EclSubName.foo); }` panicked at
src/passes/type_check.rs:425 (`left: Value(String) right: Value(Int)`). -/
theorem computeTy_disagrees_on_string_enum (h : computeTyEnumIsInt = true) :
    check exΓ2 (.enumConst 1 0) = .ok (.value .str) ∧
      computeTy exΓ2 (.enumConst 1 0) = .ok (.value .int) := by
  constructor
  · decide
  · simp [computeTy, h]

-- the code as it is: both answer string
example : computeTy exΓ2 (.enumConst 1 0) = .ok (.value .str) := by decide

/-- the agreement statement is decided for the code as it is, whatever the switch is set to -/
theorem computeTy_agrees_status :
    if computeTyEnumIsInt then ¬ computeTy_agrees_full else computeTy_agrees_full := by
  split
  · rename_i h
    intro hfull
    have := computeTy_disagrees_on_string_enum h
    rw [hfull _ _ _ this.1] at this
    exact absurd this.2 (by decide)
  · rename_i h
    intro Γ e t hc
    exact computeTy_of_check Γ e t hc (Or.inl (by simpa using h))

/-- ... and on rejected expressions nothing panics either: the checker itself (including the
`expect`s of `compute_ty` it reaches) has no panic outcome on any expression. -/
theorem check_never_panics (Γ : Ctx) (e : TExpr) (s : String) : check Γ e ≠ .panic s :=
  check_ne_panic Γ e s

example : computeTy exΓ (.ternary (.reg 0 none) (.unop .neg (.reg 4 none)) (.litF 0))
    = .ok (.value .float) := by decide
-- on an expression that was NOT accepted `compute_ty` may return anything / hit its `expect`
example : computeTy exΓ (.reg 9 none) = .panic "already type-checked" := by decide

/-! ## 3. Statements -/

/-- The statement of the property for programs, about the code as it is (`codeCfg`). -/
def stmts_accept_iff_welltyped_full : Prop :=
  ∀ (Γ : Ctx), SigsOk Γ → ∀ (ρ : Option ETy) (ss : Stmts),
    checkStmts codeCfg Γ ρ ss = .ok () ↔ WellTypedStmts Γ ρ ss

/-- For every setting of the repair switches, the visitor accepts exactly the well-typed programs among those in which every construct that
this setting does not examine is harmless (`CoveredS`: no free blocks unless they are walked;
label expressions are int literals unless they are checked; const initialisers are literals of
the declared type unless that is checked).  Missing for the full statement: precisely those
three constructs, see section 5. -/
theorem stmts_accept_iff_welltyped_for_cfg (cfg : Cfg) (Γ : Ctx) (hΓ : SigsOk Γ)
    (ρ : Option ETy) (ss : Stmts) (hc : CoveredS cfg Γ ss) :
    checkStmts cfg Γ ρ ss = .ok () ↔ WellTypedStmts Γ ρ ss :=
  checkStmts_iff cfg Γ hΓ ρ ss hc

mutual
theorem covered_fixed (Γ : Ctx) : (s : Stmt) → Covered fixedCfg Γ s
  | .exprStmt _ | .assign _ _ _ | .decl _ _ | .condJump _ | .inert | .ret _ | .decls _ => by
    simp [Covered]
  | .constDecl _ _ | .interruptLabel _ | .relTimeLabel _ | .constDecls _ => by
    simp [Covered, fixedCfg]
  | .ite _ t e => by simp only [Covered]; exact ⟨coveredS_fixed Γ t, coveredS_fixed Γ e⟩
  | .while_ _ b | .doWhile _ b | .loop b | .times _ _ b | .func _ b | .script b => by
    simp only [Covered]; exact coveredS_fixed Γ b
  | .block b => by simp only [Covered]; exact ⟨rfl, coveredS_fixed Γ b⟩
theorem coveredS_fixed (Γ : Ctx) : (ss : Stmts) → CoveredS fixedCfg Γ ss
  | .nil => by simp [CoveredS]
  | .cons s ss => by simp only [CoveredS]; exact ⟨covered_fixed Γ s, coveredS_fixed Γ ss⟩
end

/-- With the three skipped constructs examined (`fixedCfg`) the FULL statement holds: all
programs, all nesting depths, no side condition on the program. -/
theorem stmts_accept_iff_welltyped_fixed (Γ : Ctx) (hΓ : SigsOk Γ) (ρ : Option ETy) (ss : Stmts) :
    checkStmts fixedCfg Γ ρ ss = .ok () ↔ WellTypedStmts Γ ρ ss :=
  checkStmts_iff fixedCfg Γ hΓ ρ ss (coveredS_fixed Γ ss)

mutual
/-- `CoveredS` once free blocks are walked: only labels and const declarations are left -/
def LabelsConstsHarmless (cfg : Cfg) (Γ : Ctx) : Stmt → Prop
  | .block body => LabelsConstsHarmlessS cfg Γ body
  | .interruptLabel e => cfg.checksLabelExprs = true ∨ litTy e = some .int
  | .relTimeLabel e => cfg.checksLabelExprs = true ∨ litTy e = some .int
  | .constDecl x e => cfg.checksConstDeclTy = true ∨ ∃ t, litTy e = some t ∧ Γ.varTy x = .typed t
  | .ite _ t e => LabelsConstsHarmlessS cfg Γ t ∧ LabelsConstsHarmlessS cfg Γ e
  | .while_ _ body => LabelsConstsHarmlessS cfg Γ body
  | .doWhile _ body => LabelsConstsHarmlessS cfg Γ body
  | .loop body => LabelsConstsHarmlessS cfg Γ body
  | .times _ _ body => LabelsConstsHarmlessS cfg Γ body
  | .func _ body => LabelsConstsHarmlessS cfg Γ body
  | .script body => LabelsConstsHarmlessS cfg Γ body
  | .exprStmt _ => True
  | .assign _ _ _ => True
  | .decl _ _ => True
  | .condJump _ => True
  | .inert => True
  | .ret _ => True
  | .decls _ => True
  | .constDecls ds => cfg.checksConstDeclTy = true ∨
      ∀ p ∈ ds, ∃ t, litTy p.2 = some t ∧ Γ.varTy p.1 = .typed t
def LabelsConstsHarmlessS (cfg : Cfg) (Γ : Ctx) : Stmts → Prop
  | .nil => True
  | .cons s ss => LabelsConstsHarmless cfg Γ s ∧ LabelsConstsHarmlessS cfg Γ ss
end

mutual
theorem covered_of_blocks_walked (cfg : Cfg) (hb : cfg.walksFreeBlocks = true) (Γ : Ctx) :
    (s : Stmt) → LabelsConstsHarmless cfg Γ s → Covered cfg Γ s
  | .exprStmt _, _ | .assign _ _ _, _ | .decl _ _, _ | .condJump _, _ | .inert, _ | .ret _, _
  | .decls _, _ => by
    simp [Covered]
  | .constDecl _ _, h | .interruptLabel _, h | .relTimeLabel _, h | .constDecls _, h => by
    simpa [Covered, LabelsConstsHarmless] using h
  | .ite _ t e, h => by
    simp only [LabelsConstsHarmless] at h
    simp only [Covered]
    exact ⟨coveredS_of_blocks_walked cfg hb Γ t h.1, coveredS_of_blocks_walked cfg hb Γ e h.2⟩
  | .while_ _ b, h | .doWhile _ b, h | .loop b, h | .times _ _ b, h | .func _ b, h
  | .script b, h => by
    simp only [LabelsConstsHarmless] at h
    simp only [Covered]
    exact coveredS_of_blocks_walked cfg hb Γ b h
  | .block b, h => by
    simp only [LabelsConstsHarmless] at h
    simp only [Covered]
    exact ⟨hb, coveredS_of_blocks_walked cfg hb Γ b h⟩
theorem coveredS_of_blocks_walked (cfg : Cfg) (hb : cfg.walksFreeBlocks = true) (Γ : Ctx) :
    (ss : Stmts) → LabelsConstsHarmlessS cfg Γ ss → CoveredS cfg Γ ss
  | .nil, _ => by simp [CoveredS]
  | .cons s ss, h => by
    simp only [LabelsConstsHarmlessS] at h
    simp only [CoveredS]
    exact ⟨covered_of_blocks_walked cfg hb Γ s h.1, coveredS_of_blocks_walked cfg hb Γ ss h.2⟩
end

/-- The repair of the free-block arm alone (`walksFreeBlocks = true`, the other two switches
arbitrary): the equivalence holds for every program, with free blocks nested to any depth,
whose label expressions / const initialisers are harmless. -/
theorem stmts_accept_iff_welltyped_blocks_walked (cfg : Cfg) (hb : cfg.walksFreeBlocks = true)
    (Γ : Ctx) (hΓ : SigsOk Γ) (ρ : Option ETy) (ss : Stmts)
    (hc : LabelsConstsHarmlessS cfg Γ ss) :
    checkStmts cfg Γ ρ ss = .ok () ↔ WellTypedStmts Γ ρ ss :=
  checkStmts_iff cfg Γ hΓ ρ ss (coveredS_of_blocks_walked cfg hb Γ ss hc)

/-- THE PROPERTY for programs, about the code as it is now (all repairs in: 9b7e57b, 353f983,
0757655): `type_check::run` accepts a program exactly when it is well-typed under the declarative
rules, wherever the offending construct sits — free blocks, loop bodies, conditions,
declarations, const items, label expressions, call arguments, to any depth. -/
theorem stmts_accept_iff_welltyped : stmts_accept_iff_welltyped_full := by
  intro Γ hΓ ρ ss
  -- `rfl`: all three switches of `codeCfg` are on in Model/Types.lean
  have h : codeCfg = fixedCfg := rfl
  rw [h]
  exact stmts_accept_iff_welltyped_fixed Γ hΓ ρ ss

-- a program with loops, conditions, declarations and a call nested three levels deep:
--   script { int v0 = $REG[0] + 1; times($REG[1]) { if (%REG[4] < 1.0) { ins_0(v0, 2.0); } } }
def exProgram : Stmts :=
  .cons (.script
    (.cons (.decl 0 (some (.binop .add (.reg 0 (some .int)) (.litI 1))))
    (.cons (.times none (.reg 1 (some .int))
      (.cons (.ite (.binop .lt (.reg 4 (some .float)) (.litF 0x3f800000))
        (.cons (.exprStmt (.call 0 (.cons (.var 0 none) (.cons (.litF 0x40000000) .nil)))) .nil)
        .nil) .nil)) .nil))) .nil

example : CoveredS codeCfg exΓ exProgram := by simp [exProgram, CoveredS, Covered]
example : checkStmts codeCfg exΓ none exProgram = .ok () := by decide
example : WellTypedStmts exΓ none exProgram :=
  (stmts_accept_iff_welltyped_for_cfg codeCfg exΓ exΓ_sigsOk none exProgram
    (by simp [exProgram, CoveredS, Covered])).mp (by decide)

/-! ### 3b. Multi-variable declarations, `return` at any depth, functions with parameters -/

/-- `T a = e1, b, c = e3;` is checked like `T a = e1; T b; T c = e3;` (every variable is examined,
the first diagnostic is the one of the first failing variable) -/
theorem decls_eq_sequence (cfg : Cfg) (Γ : Ctx) (ρ : Option ETy) :
    (ds : List (Nat × Option TExpr)) → (rest : Stmts) →
    checkStmts cfg Γ ρ (.cons (.decls ds) rest) =
      checkStmts cfg Γ ρ (ds.foldr (fun d acc => .cons (.decl d.1 d.2) acc) rest)
  | [], rest => by
    simp only [checkStmts, checkStmt, checkDecls, List.foldr]
    cases checkStmts cfg Γ ρ rest <;> rfl
  | (x, init) :: ds, rest => by
    have ih := decls_eq_sequence cfg Γ ρ ds rest
    simp only [checkStmts, checkStmt, checkDecls, List.foldr] at ih ⊢
    rw [← ih]
    cases checkDecl Γ x init <;> cases checkDecls Γ ds <;> cases checkStmts cfg Γ ρ rest <;> rfl

/-- a tower of `n` free blocks / loops / conditionals around `return e;` -/
def wrapRet (e : Option TExpr) : Nat → Stmts
  | 0 => .cons (.ret e) .nil
  | k + 1 =>
    if k % 3 = 0 then .cons (.block (wrapRet e k)) .nil
    else if k % 3 = 1 then .cons (.loop (wrapRet e k)) .nil
    else .cons (.ite (.litI 1) (wrapRet e k) .nil) .nil

theorem wellTyped_wrapRet (Γ : Ctx) (ρ : Option ETy) (e : Option TExpr) :
    (n : Nat) → (WellTypedStmts Γ ρ (wrapRet e n) ↔ WellTypedStmt Γ ρ (.ret e))
  | 0 => by simp only [wrapRet, WellTypedStmts, and_true]
  | k + 1 => by
    have ih := wellTyped_wrapRet Γ ρ e k
    generalize WellTypedStmt Γ ρ (.ret e) = P at ih ⊢
    simp only [wrapRet]
    split
    · simpa only [WellTypedStmts, WellTypedStmt, and_true] using ih
    · split
      · simpa only [WellTypedStmts, WellTypedStmt, and_true] using ih
      · simp only [WellTypedStmts, WellTypedStmt, and_true]
        constructor
        · intro h; exact ih.mp h.2
        · intro h; exact ⟨.litI 1, ih.mpr h⟩

/-- a `return` is checked against the enclosing function wherever it sits: inside free blocks,
loops and conditionals nested to any depth -/
theorem return_checked_at_every_depth (Γ : Ctx) (hΓ : SigsOk Γ) (rt : ETy) (e : Option TExpr)
    (depth : Nat) :
    checkStmts codeCfg Γ none (.cons (.func rt (wrapRet e depth)) .nil) = .ok () ↔
      WellTypedStmt Γ (some rt) (.ret e) := by
  rw [stmts_accept_iff_welltyped Γ hΓ, ← wellTyped_wrapRet Γ (some rt) e depth]
  simp only [WellTypedStmts, WellTypedStmt, and_true]

-- `inline int fn0(int v0, float v1) { float v3 = v1, v4, v5 = fn0(v0, 1.5) : 2 ...` :
--   func int { float v1' .. }  with variables 0 int, 1 float
-- `int fn0(int v0, float v1) { if (v0) { loop { return fn0(v0--, (v1 : : 2.0)) + En0.c; } } return 1; }`
def exFuncProgram : Stmts :=
  .cons (.func (.value .int)
    (.cons (.decls [(1, some (.var 1 none)), (1, none)])
    (.cons (.ite (.var 0 none)
      (.cons (.loop (.cons (.ret (some (.binop .add
        (.callx true 0 .nil (.cons (.xcrement false false ⟨false, 0, none⟩)
          (.cons (.diffSwitch (.var 1 none) (.blank (.case (.litF 0x40000000) .nil))) .nil)))
        (.enumConst 0 3)))) .nil)) .nil) .nil)
    (.cons (.ret (some (.litI 1))) .nil)))) .nil

example : checkStmts codeCfg exΓ2 none exFuncProgram = .ok () := by decide
example : WellTypedStmts exΓ2 none exFuncProgram :=
  (stmts_accept_iff_welltyped exΓ2 exΓ2_sigsOk none exFuncProgram).mp (by decide)
-- a float in the second declarator of `float v1 = v1, v1 = 1;`, `return 1.5;` three levels deep in
-- an int function, `const int a = 1, b = 2.0;`: rejected
example : checkStmts codeCfg exΓ2 none (.cons (.script (.cons
    (.decls [(1, some (.litF 0)), (1, some (.litI 1))]) .nil)) .nil) = .err tyErr := by decide
example : checkStmts codeCfg exΓ2 none (.cons (.func (.value .int) (.cons (.block (.cons (.loop
    (.cons (.block (.cons (.ret (some (.litF 0x3fc00000))) .nil)) .nil)) .nil)) .nil)) .nil)
    = .err tyErr := by decide
example : checkStmts codeCfg exΓ2 none (.cons (.constDecls [(0, .litI 1), (0, .litF 0x40000000)]) .nil)
    = .err tyErr := by decide
example : checkStmts codeCfg exΓ2 none (.cons (.constDecls [(0, .litI 1), (0, .labelProp 2)]) .nil)
    = .ok () := by decide

-- free blocks nested three deep around an ill-typed assignment: rejected iff blocks are walked
def exNestedBlocks : Stmts :=
  .cons (.script (.cons (.block (.cons (.times none (.litI 2) (.cons (.block (.cons (.block
    (.cons (.assign ⟨true, 4, none⟩ .assign (.litI 1)) .nil)) .nil)) .nil)) .nil)) .nil)) .nil

example : checkStmts ⟨true, false, false⟩ exΓ none exNestedBlocks = .err tyErr := by decide
example : checkStmts ⟨false, false, false⟩ exΓ none exNestedBlocks = .ok () := by decide
example : LabelsConstsHarmlessS codeCfg exΓ exNestedBlocks := by
  simp [exNestedBlocks, LabelsConstsHarmlessS, LabelsConstsHarmless]

/-! ## 4. Static type = dynamic type -/

/-- If `e` has static type `t`, then whenever the evaluator of the whole expression language
(`evalT`: the VM model of C11 extended with difficulty switches and `++` / `--` as `AstVm::eval`
has them, enum constants and label properties as the values the compiler substitutes; any float
semantics `F`, any difficulty) returns a value for it under an environment that respects the
declared types, that value has type `t`. -/
theorem type_preservation (F : FloatOps) (Γ : Ctx) (cs : Consts) (env : Env)
    (hE : EnvOk Γ cs env) (x : XEnv) (hX : XEnvOk Γ x) (e : TExpr) (t : Ty)
    (h : HasType Γ e (.value t)) :
    ∀ v, evalT F cs env x e = .ok v → v.ty = t :=
  (preservationT_aux F Γ cs env hE x hX e t h).1

/-- the C11 form (the statement as it was before the language grew): if `e` is an expression of
the VM model of C11 (`erase`: literals, variables, operators, ternaries), `eval` returns only
values of the static type.  `evalT` and `eval` coincide there (`evalT_erase`). -/
theorem type_preservation_vm (F : FloatOps) (Γ : Ctx) (cs : Consts) (env : Env)
    (hE : EnvOk Γ cs env) (e : TExpr) (t : Ty) (h : HasType Γ e (.value t))
    (e' : Expr) (he : e.erase = some e') :
    ∀ v, eval F cs env e' = .ok v → v.ty = t :=
  (preservation_aux F Γ cs env hE e t h e' he).1

theorem evalT_eq_eval (F : FloatOps) (cs : Consts) (env : Env) (x : XEnv) (e : TExpr) (e' : Expr)
    (he : e.erase = some e') : evalT F cs env x e = eval F cs env e' :=
  evalT_erase F cs env x e e' he

/-- the same for what the CHECKER assigns (accepted expressions) -/
theorem checked_type_is_dynamic_type (F : FloatOps) (Γ : Ctx) (hΓ : SigsOk Γ) (cs : Consts)
    (env : Env) (hE : EnvOk Γ cs env) (x : XEnv) (hX : XEnvOk Γ x) (e : TExpr) (t : Ty)
    (h : check Γ e = .ok (.value t)) :
    ∀ v, evalT F cs env x e = .ok v → v.ty = t :=
  type_preservation F Γ cs env hE x hX e t (check_sound Γ hΓ e _ h)

/-- and evaluation of a well-typed expression never reaches one of the VM's / folder's
"type_check should fail..." panics (progress half of type safety; `err` = division by zero, a
difficulty without a case, a call). -/
theorem welltyped_eval_never_panics (F : FloatOps) (Γ : Ctx) (cs : Consts) (env : Env)
    (hE : EnvOk Γ cs env) (x : XEnv) (hX : XEnvOk Γ x) (e : TExpr) (t : Ty)
    (h : HasType Γ e (.value t)) :
    ∀ s, evalT F cs env x e ≠ .panic s :=
  (preservationT_aux F Γ cs env hE x hX e t h).2

/-- an environment for `exΓ`: the hypotheses of the theorems above are satisfiable -/
def exEnv : Env where
  reg r sig := match sig with
    | some .int => .int 0
    | some .float => .float 0
    | none => if r < 4 then .int 0 else .float 0
  loc n sig := match sig with
    | some .int => .int 0
    | some .float => .float 0
    | none => if n = 0 then .int 0 else if n = 1 then .float 0 else .str ""

example : EnvOk exΓ (fun _ => none) exEnv where
  const := by intro n v h; cases h
  reg := by
    intro r sig t h
    cases sig with
    | none =>
      simp only [ReadTy, exΓ] at h
      simp only [exEnv]
      split at h
      · cases h; simp [*, Value.ty]
      · split at h
        · cases h; simp [*, Value.ty]
        · cases h
    | some s => cases s <;> simp_all [ReadTy, exEnv, Value.ty, sigilTy]
  loc := by
    intro n sig t _ h
    cases sig with
    | none =>
      simp only [ReadTy, exΓ] at h
      simp only [exEnv]
      split at h
      · cases h; simp [*, Value.ty]
      · split at h
        · cases h; simp [*, Value.ty]
        · split at h
          · cases h; simp [*, Value.ty]
          · cases h
    | some s => cases s <;> simp_all [ReadTy, exEnv, Value.ty, sigilTy]

/-- some float semantics (the examples below use no float operation) -/
def exF : FloatOps := ⟨fun a _ => a, fun a _ => a, fun a _ => a, fun a _ => a, fun a _ => a, id,
  fun _ _ => false, fun _ _ => false, fun _ _ => false, fun _ => 0, fun _ => 0, fun _ x => x⟩

/-- run-time values of the additional constructs for `exΓ2` (difficulty 2) -/
def exXEnv : XEnv := ⟨2, fun en _ => if en = 1 then .str "sub" else .int 7, fun _ => 40⟩

example : XEnvOk exΓ2 exXEnv := ⟨by intro en n; by_cases h : en = 1 <;> simp [exXEnv, exΓ2, Ctx.enumTy, h, Value.ty]⟩

-- `(1 : : $REG[0]++ : 4)` at difficulty 2 is the third case, at difficulty 1 the first
example : evalT exF (fun _ => none) exEnv exXEnv
    (.diffSwitch (.litI 1) (.blank (.case (.xcrement false true ⟨true, 0, some .int⟩)
      (.case (.litI 4) .nil)))) = .ok (.int 0) := by decide
example : evalT exF (fun _ => none) exEnv { exXEnv with diff := 1 }
    (.diffSwitch (.litI 1) (.blank (.case (.xcrement false true ⟨true, 0, some .int⟩)
      (.case (.litI 4) .nil)))) = .ok (.int 1) := by decide
example : evalT exF (fun _ => none) exEnv exXEnv (.xcrement true true ⟨true, 0, none⟩)
    = .ok (.int 1) := by decide

/-! ## 4b. Constants cannot be written to (0757655) -/

/-- an assignment (any operator) whose target is a constant is rejected with
`cannot assign to a constant`, before anything else about it is examined, and is not
well-typed; likewise the clobber of `times(x = n)`. -/
theorem assign_to_const_rejected (cfg : Cfg) (Γ : Ctx) (ρ : Option ETy) (x : Nat)
    (sig : Option Sigil) (op : AssignOp) (e : TExpr) (hx : Γ.isConst x = true) :
    checkStmt cfg Γ ρ (.assign ⟨false, x, sig⟩ op e) = .err constAssignErr ∧
      ¬ WellTypedStmt Γ ρ (.assign ⟨false, x, sig⟩ op e) := by
  constructor
  · simp [checkStmt, checkAssign, checkAssignable, hx]
  · simp [WellTypedStmt, Assignable, hx]

-- `const string v2 = ..; v2 = "a";` is rejected although the types agree; `v0 = 1;` is fine
example : checkStmt codeCfg exΓ none (.assign ⟨false, 2, none⟩ .assign (.litS "a"))
    = .err constAssignErr := by decide
example : checkStmt codeCfg exΓ none (.assign ⟨false, 0, none⟩ .assign (.litI 1)) = .ok () := by
  decide

/-! ## 4c. `++` / `--` on a constant is rejected (e098828) -/

/-- all registers and variables int, variable 0 a constant -/
def wΓc : Ctx where
  regTy _ := .typed .int
  varTy _ := .typed .int
  sig _ := none
  isConst n := n = 0

/-- The rule 0757655 enforces for assignments and `times` clobbers, for `++` / `--`: whatever the
checker accepts writes to no constant. -/
def check_rejects_const_xcrement_full : Prop :=
  ∀ (Γ : Ctx) (e : TExpr) (t : ETy), check Γ e = .ok t → WritesOk Γ e

/-- for every setting: accepted expressions write to no constant once the operand's
assignability is looked at -/
theorem check_rejects_const_xcrement_of_switch (hsw : checksXcrementTarget = true) :
    check_rejects_const_xcrement_full := by
  intro Γ e t hc pre inc v hv
  obtain ⟨t', ht'⟩ := subs_accepted Γ e t hc _ hv
  simp only [check, hsw, if_true] at ht'
  split at ht'
  · split at ht'
    · rename_i ha
      exact (checkAssignable_ok_iff Γ v).mp ha
    · cases ht'
    · cases ht'
  · cases ht'
  · cases ht'

/-- THE RULE for the code as it is (e098828) -/
theorem check_rejects_const_xcrement : check_rejects_const_xcrement_full :=
  check_rejects_const_xcrement_of_switch rfl

/-- `++` / `--` (any order, any direction, any sigil) on a constant is rejected with `cannot assign
to a constant` whenever the operand reads as some type, also when that type is not int (the
assignability test comes right after `check_var`, before `require_int`), and is not typable. -/
theorem xcrement_const_rejected (hsw : checksXcrementTarget = true) (Γ : Ctx) (pre inc : Bool)
    (x : Nat) (sig : Option Sigil) (t : Ty) (hx : Γ.isConst x = true)
    (hr : ReadTy (Γ.varTy x) sig t) :
    check Γ (.xcrement pre inc ⟨false, x, sig⟩) = .err constAssignErr ∧
      ∀ u, ¬ HasType Γ (.xcrement pre inc ⟨false, x, sig⟩) u := by
  constructor
  · have hv : checkVar (Γ.refTy ⟨false, x, sig⟩) sig = .ok t := by
      rw [checkVar_ok_iff]; simpa [Ctx.refTy] using hr
    simp [check, hsw, hv, checkAssignable, hx]
  · intro u h
    cases h with
    | xcrement _ ha => simp [Assignable, hx] at ha

-- `const int c; --c` and `const float f; f++`: both "cannot assign to a constant"
example : check wΓc (.xcrement true false ⟨false, 0, none⟩) = .err constAssignErr := by decide
example : check exΓ2 (.xcrement false true ⟨false, 2, none⟩) = .err constAssignErr := by decide
-- the same inside a program: `script s { if (--v0 > 0) goto l; }` with `v0` a constant
example : checkStmts codeCfg wΓc none (.cons (.script (.cons (.condJump
    (.binop .gt (.xcrement true false ⟨false, 0, none⟩) (.litI 0))) .nil)) .nil)
    = .err constAssignErr := by decide
-- a register or a local is fine
example : check wΓc (.xcrement true false ⟨false, 1, none⟩) = .ok (.value .int) := by decide

/-- before e098828 (the `XcrementOp` arm called `check_var` and `require_int` only):
`const int v0 = ..; .. --v0 ..` was accepted although it writes to a constant.  Was replayed on
the CLI: `truanm compile -g 8` of `const int c = 3; script s { l: if (--c > 0) goto l; }`
panicked at src/llir/lower/stackless.rs:1357 (`no entry found for key`), the panic 0757655 removed
for `c = 1;`. -/
theorem xcrement_const_accepted_when_unchecked (h : checksXcrementTarget = false) :
    check wΓc (.xcrement true false ⟨false, 0, none⟩) = .ok (.value .int) ∧
      ¬ WritesOk wΓc (.xcrement true false ⟨false, 0, none⟩) := by
  refine ⟨by simp [check, h, wΓc, Ctx.refTy, checkVar, readTy, requireExact], ?_⟩
  intro hw
  have := hw true false ⟨false, 0, none⟩ (by simp [subsE])
  simp [Assignable, wΓc] at this

/-- decided for the code as it is, whatever the switch is set to -/
theorem check_rejects_const_xcrement_status :
    if checksXcrementTarget then check_rejects_const_xcrement_full
    else ¬ check_rejects_const_xcrement_full := by
  split
  · rename_i hsw
    exact check_rejects_const_xcrement_of_switch hsw
  · rename_i hsw
    intro hfull
    have hw := xcrement_const_accepted_when_unchecked (by simpa using hsw)
    exact hw.2 (hfull _ _ _ hw.1)

/-! ## 5. Witnesses: where the property was false of the pinned code -/

/-- all registers int, all variables int, no signatures -/
def wΓ : Ctx where
  regTy _ := .typed .int
  varTy _ := .typed .int
  sig _ := none
  isConst n := n = 0

theorem wΓ_sigsOk : SigsOk wΓ := by intro f ps h; cases h

/-- `script s { { $REG[0] = 1.0; } }` -/
def freeBlockWitness : Stmts :=
  .cons (.script (.cons (.block (.cons (.assign ⟨true, 0, none⟩ .assign (.litF 0x3f800000)) .nil))
    .nil)) .nil
/-- `script s { interrupt[1.5]: }` -/
def interruptWitness : Stmts := .cons (.script (.cons (.interruptLabel (.litF 0x3fc00000)) .nil)) .nil
/-- `script s { +1.5: }` -/
def relTimeWitness : Stmts := .cons (.script (.cons (.relTimeLabel (.litF 0x3fc00000)) .nil)) .nil
/-- `const int x = 1.5;` -/
def constDeclWitness : Stmts := .cons (.constDecl 0 (.litF 0x3fc00000)) .nil

theorem not_hasType_litF_int (Γ : Ctx) (v : UInt32) : ¬ HasType Γ (.litF v) (.value .int) := by
  intro h; cases h

/-- `StmtKind::Block { .. } => {}` (pinned tree; repaired by 9b7e57b): as long as free blocks are
not walked, the ill-typed assignment inside one is accepted. -/
theorem free_block_accepted (cfg : Cfg) (h : cfg.walksFreeBlocks = false) :
    checkStmts cfg wΓ none freeBlockWitness = .ok () ∧ ¬ WellTypedStmts wΓ none freeBlockWitness := by
  constructor
  · simp [freeBlockWitness, checkStmts, checkStmt, h, Outcome.andThen]
  · simp only [freeBlockWitness, WellTypedStmts, WellTypedStmt, and_true]
    rintro ⟨_, t, hr, he, _⟩
    simp only [ReadTy, Ctx.refTy, wΓ] at hr
    simp only [if_true, VarTy.typed.injEq] at hr
    subst hr
    exact not_hasType_litF_int _ _ he

/-- `StmtKind::InterruptLabel { .. } => {}` -/
theorem interrupt_label_accepted (cfg : Cfg) (h : cfg.checksLabelExprs = false) :
    checkStmts cfg wΓ none interruptWitness = .ok () ∧ ¬ WellTypedStmts wΓ none interruptWitness := by
  constructor
  · simp [interruptWitness, checkStmts, checkStmt, h, Outcome.andThen]
  · simp only [interruptWitness, WellTypedStmts, WellTypedStmt, and_true]
    exact not_hasType_litF_int _ _

/-- `StmtKind::RelTimeLabel { .. } => {}` -/
theorem rel_time_label_accepted (cfg : Cfg) (h : cfg.checksLabelExprs = false) :
    checkStmts cfg wΓ none relTimeWitness = .ok () ∧ ¬ WellTypedStmts wΓ none relTimeWitness := by
  constructor
  · simp [relTimeWitness, checkStmts, checkStmt, h, Outcome.andThen]
  · simp only [relTimeWitness, WellTypedStmts, WellTypedStmt, and_true]
    exact not_hasType_litF_int _ _

/-- `Item::ConstVar` is only reached through `walk_item`: the initialiser is checked on its own,
never against the declared type. -/
theorem const_decl_accepted (cfg : Cfg) (h : cfg.checksConstDeclTy = false) :
    checkStmts cfg wΓ none constDeclWitness = .ok () ∧ ¬ WellTypedStmts wΓ none constDeclWitness := by
  constructor
  · simp [constDeclWitness, checkStmts, checkStmt, checkConstDecl, h, check, Outcome.andThen]
  · simp only [constDeclWitness, WellTypedStmts, WellTypedStmt, and_true]
    rintro ⟨t, hx, he⟩
    simp only [wΓ, VarTy.typed.injEq] at hx
    subst hx
    exact not_hasType_litF_int _ _ he

theorem full_false_of_witness (w : Stmts)
    (h : checkStmts codeCfg wΓ none w = .ok () ∧ ¬ WellTypedStmts wΓ none w) :
    ¬ stmts_accept_iff_welltyped_full :=
  fun hfull => h.2 ((hfull wΓ wΓ_sigsOk none w).mp h.1)

/-- The full statement is decided for the code as it is, whatever the switches in
`Model/Types.lean` are set to: it holds iff all three skipped constructs are examined.
(Pinned tree: all three `false`, i.e. `¬ stmts_accept_iff_welltyped_full`; now all three are on
and this is `stmts_accept_iff_welltyped_full`; the theorem compiles for every setting.) -/
theorem stmts_accept_iff_welltyped_status :
    if codeCfg = fixedCfg then stmts_accept_iff_welltyped_full
    else ¬ stmts_accept_iff_welltyped_full := by
  split
  · rename_i h
    intro Γ hΓ ρ ss
    rw [h]
    exact stmts_accept_iff_welltyped_fixed Γ hΓ ρ ss
  · rename_i h
    by_cases h1 : codeCfg.walksFreeBlocks = false
    · exact full_false_of_witness _ (free_block_accepted codeCfg h1)
    · by_cases h2 : codeCfg.checksLabelExprs = false
      · exact full_false_of_witness _ (interrupt_label_accepted codeCfg h2)
      · by_cases h3 : codeCfg.checksConstDeclTy = false
        · exact full_false_of_witness _ (const_decl_accepted codeCfg h3)
        · exfalso; apply h
          cases hc : codeCfg with
          | mk a b c =>
            simp only [hc] at h1 h2 h3
            simp only [Bool.not_eq_false] at h1 h2 h3
            simp [fixedCfg, h1, h2, h3]

/-- what the status theorem says while free blocks are not walked -/
theorem stmts_accept_iff_welltyped_false_while_blocks_skipped
    (h : codeCfg.walksFreeBlocks = false) : ¬ stmts_accept_iff_welltyped_full :=
  full_false_of_witness _ (free_block_accepted codeCfg h)

/-- `ins_0(1, 2)` against the signature `S_f` (a padding parameter in the middle): the arity
test counts the two required parameters, the zip pairs the second argument with the padding
parameter, and the `f` parameter is never compared with anything. -/
def paddingΓ : Ctx where
  regTy _ := .untyped
  varTy _ := .untyped
  sig f := if f = 0 then some [⟨.typed .int, false⟩, ⟨.typed .int, true⟩, ⟨.typed .float, false⟩]
    else none
  isConst _ := false

def paddingWitness : TExpr := .call 0 (.cons (.litI 1) (.cons (.litI 2) .nil))

theorem padding_witness :
    check paddingΓ paddingWitness = .ok .void ∧ ¬ HasType paddingΓ paddingWitness .void := by
  constructor
  · decide
  · intro h
    cases h with
    | call hps hargs =>
      simp only [paddingΓ, if_true, Option.some.injEq] at hps
      subst hps
      simp only [required] at hargs
      cases hargs with
      | cons _ _ hrest =>
        cases hrest with
        | cons h2 hp _ =>
          cases hp with
          | inl hp => simp at hp
          | inr hp =>
            simp only [VarTy.typed.injEq] at hp
            subst hp
            cases h2

/-- so soundness needs the hypothesis on signatures -/
theorem check_sound_needs_sigsOk : ¬ ∀ (Γ : Ctx) (e : TExpr) (t : ETy), check Γ e = .ok t → HasType Γ e t :=
  fun h => padding_witness.2 (h _ _ _ padding_witness.1)

/-- `return` outside of every function (`script s { return; }`): the pinned tree panicked
(`cur_func_stack.last_mut().expect("return outside of function?!")`); since 0757655 it is the
diagnostic `'return' outside of a function`.  Either way it is not accepted, for every setting
of the switches. -/
theorem return_outside_function_rejected (cfg : Cfg) (Γ : Ctx) (e : Option TExpr) :
    checkStmt cfg Γ none (.ret e) = returnOutsideFunction ∧
      (returnOutsideFunction = .panic "return outside of function?!" ∨
        ∃ c, returnOutsideFunction = .err c) := by
  refine ⟨by simp [checkStmt, checkReturn], ?_⟩
  simp [returnOutsideFunction]

end TruthModel.C09
