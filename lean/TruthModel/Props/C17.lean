import TruthModel.Model.Pixels
/-
C17 — extracting images and compiling them back reproduces the embedded textures.

Property theorems about the model in `Model/Pixels.lean`.  The Gray8 luminance is a parameter
(`lum`); the one fact needed of it (`LumOk`: equal channels give that value, 256 cases) is a
hypothesis, validated exhaustively against the real code and against the driver's native
`Float32` instance on every run.
-/
namespace TruthModel.C17
open TruthModel TruthModel.Pixels

/-! ## 1. Per-channel facts (finite domains, by `decide`) and field extraction (arithmetic) -/

theorem cbd58 : ∀ i : Fin 32, changeBitDepth 5 8 (UInt8.ofNat i.val) >>> 3 = UInt8.ofNat i.val := by decide
theorem cbd68 : ∀ i : Fin 64, changeBitDepth 6 8 (UInt8.ofNat i.val) >>> 2 = UInt8.ofNat i.val := by decide
theorem cbd48 : ∀ i : Fin 16, changeBitDepth 4 8 (UInt8.ofNat i.val) >>> 4 = UInt8.ofNat i.val := by decide

theorem cbd58' (x : UInt8) (h : x.toNat < 32) : changeBitDepth 5 8 x >>> 3 = x := by
  have := cbd58 ⟨x.toNat, h⟩
  simpa using this

theorem cbd68' (x : UInt8) (h : x.toNat < 64) : changeBitDepth 6 8 x >>> 2 = x := by
  have := cbd68 ⟨x.toNat, h⟩
  simpa using this

/-! field extraction, as arithmetic on `toNat` -/
theorem rgb565_blue_toNat (v : UInt16) : ((v &&& 0x1F).toUInt8).toNat = v.toNat % 32 := by
  have : (0x1F : UInt16).toNat = 2 ^ 5 - 1 := by decide
  rw [UInt16.toNat_toUInt8, UInt16.toNat_and, this, Nat.and_two_pow_sub_one_eq_mod]
  omega

theorem rgb565_green_toNat (v : UInt16) : (((v >>> 5) &&& 0x3F).toUInt8).toNat = v.toNat / 32 % 64 := by
  have h1 : (0x3F : UInt16).toNat = 2 ^ 6 - 1 := by decide
  have h2 : (5 : UInt16).toNat % 16 = 5 := by decide
  rw [UInt16.toNat_toUInt8, UInt16.toNat_and, h1, Nat.and_two_pow_sub_one_eq_mod,
    UInt16.toNat_shiftRight, h2, Nat.shiftRight_eq_div_pow]
  omega

theorem rgb565_red_toNat (v : UInt16) : (((v >>> 11) &&& 0x1F).toUInt8).toNat = v.toNat / 2048 := by
  have h1 : (0x1F : UInt16).toNat = 2 ^ 5 - 1 := by decide
  have h2 : (11 : UInt16).toNat % 16 = 11 := by decide
  have := v.toNat_lt
  rw [UInt16.toNat_toUInt8, UInt16.toNat_and, h1, Nat.and_two_pow_sub_one_eq_mod,
    UInt16.toNat_shiftRight, h2, Nat.shiftRight_eq_div_pow]
  omega

theorem rgb565_pack_toNat (r g b : UInt8) (hr : r.toNat < 32) (hg : g.toNat < 64) (hb : b.toNat < 32) :
    ((r.toUInt16 <<< 11) + (g.toUInt16 <<< 5) + b.toUInt16).toNat = r.toNat * 2048 + g.toNat * 32 + b.toNat := by
  have h2 : (11 : UInt16).toNat % 16 = 11 := by decide
  have h3 : (5 : UInt16).toNat % 16 = 5 := by decide
  simp only [UInt16.toNat_add, UInt16.toNat_shiftLeft, UInt8.toNat_toUInt16, h2, h3, Nat.shiftLeft_eq]
  omega


/-- **Rgb565 is lossless**: for every 16-bit value, converting to components (5/6/5 -> 8 bits by
bit replication) and back gives the value. -/
theorem rgb565_lossless (v : UInt16) : rgb565OfComponents (rgb565ToComponents v) = v := by
  have hv := v.toNat_lt
  have hb := rgb565_blue_toNat v; have hg := rgb565_green_toNat v; have hr := rgb565_red_toNat v
  apply UInt16.toNat_inj.mp
  simp only [rgb565OfComponents, rgb565ToComponents]
  rw [cbd58' _ (by omega), cbd68' _ (by omega), cbd58' _ (by omega)]
  rw [rgb565_pack_toNat _ _ _ (by omega) (by omega) (by omega)]
  omega

example : rgb565OfComponents (rgb565ToComponents 0xBEEF) = 0xBEEF := rgb565_lossless _
example : rgb565ToComponents 0xBEEF = { red := 0xBD, green := 0xDF, blue := 0x7B, alpha := 0xFF } := by decide

/-- the overflow-checked `+` of `Rgb565::from(Components)` never overflows, for any components -/
theorem rgb565_pack_no_overflow (c : Components) :
    ((c.red >>> 3).toUInt16 <<< 11).toNat + ((c.green >>> 2).toUInt16 <<< 5).toNat
      + (c.blue >>> 3).toUInt16.toNat < 65536 := by
  have hr := c.red.toNat_lt; have hg := c.green.toNat_lt; have hb := c.blue.toNat_lt
  have h2 : (11 : UInt16).toNat % 16 = 11 := by decide
  have h3 : (5 : UInt16).toNat % 16 = 5 := by decide
  have e3 : (3 : UInt8).toNat % 8 = 3 := by decide
  have e2 : (2 : UInt8).toNat % 8 = 2 := by decide
  simp only [UInt16.toNat_shiftLeft, UInt8.toNat_toUInt16, UInt8.toNat_shiftRight, h2, h3, e2, e3,
    Nat.shiftLeft_eq, Nat.shiftRight_eq_div_pow]
  omega

/-! ## 2. `Argb8888` is the identity; `Argb4444` -/

theorem argb8888_identity (v : UInt32) : argb8888OfComponents (argb8888ToComponents v) = v := by
  apply UInt32.toNat_inj.mp
  have := v.toNat_lt
  simp only [argb8888OfComponents, argb8888ToComponents, UInt32.toNat_ofNat', UInt8.toNat_ofNat']
  omega

theorem argb8888_components (c : Components) : argb8888ToComponents (argb8888OfComponents c) = c := by
  have ha := c.alpha.toNat_lt
  have hr := c.red.toNat_lt
  have hg := c.green.toNat_lt
  have hb := c.blue.toNat_lt
  cases c with
  | mk r g b a =>
    simp only [argb8888OfComponents, argb8888ToComponents, UInt32.toNat_ofNat'] at *
    congr 1 <;> apply UInt8.toNat_inj.mp <;> simp only [UInt8.toNat_ofNat'] <;> omega

theorem cbd48' (x : UInt8) (h : x.toNat < 16) : changeBitDepth 4 8 x >>> 4 = x := by
  have := cbd48 ⟨x.toNat, h⟩
  simpa using this

theorem f4_b (v : UInt16) : ((v &&& 0xF).toUInt8).toNat = v.toNat % 16 := by
  have : (0xF : UInt16).toNat = 2 ^ 4 - 1 := by decide
  rw [UInt16.toNat_toUInt8, UInt16.toNat_and, this, Nat.and_two_pow_sub_one_eq_mod]
  omega
theorem f4_g (v : UInt16) : (((v >>> 4) &&& 0xF).toUInt8).toNat = v.toNat / 16 % 16 := by
  have h1 : (0xF : UInt16).toNat = 2 ^ 4 - 1 := by decide
  have h2 : (4 : UInt16).toNat % 16 = 4 := by decide
  rw [UInt16.toNat_toUInt8, UInt16.toNat_and, h1, Nat.and_two_pow_sub_one_eq_mod,
    UInt16.toNat_shiftRight, h2, Nat.shiftRight_eq_div_pow]
  omega
theorem f4_r (v : UInt16) : (((v >>> 8) &&& 0xF).toUInt8).toNat = v.toNat / 256 % 16 := by
  have h1 : (0xF : UInt16).toNat = 2 ^ 4 - 1 := by decide
  have h2 : (8 : UInt16).toNat % 16 = 8 := by decide
  rw [UInt16.toNat_toUInt8, UInt16.toNat_and, h1, Nat.and_two_pow_sub_one_eq_mod,
    UInt16.toNat_shiftRight, h2, Nat.shiftRight_eq_div_pow]
  omega
theorem f4_a (v : UInt16) : ((v >>> 12).toUInt8).toNat = v.toNat / 4096 := by
  have h2 : (12 : UInt16).toNat % 16 = 12 := by decide
  have := v.toNat_lt
  rw [UInt16.toNat_toUInt8, UInt16.toNat_shiftRight, h2, Nat.shiftRight_eq_div_pow]
  omega

theorem pack4 (a r g b : UInt8) (ha : a.toNat < 16) (hr : r.toNat < 16) (hg : g.toNat < 16) (hb : b.toNat < 16) :
    (((a.toUInt16 * 16 + r.toUInt16) * 16 + g.toUInt16) * 16 + b.toUInt16).toNat
      = ((a.toNat * 16 + r.toNat) * 16 + g.toNat) * 16 + b.toNat := by
  have h16 : (16 : UInt16).toNat = 16 := by decide
  simp only [UInt16.toNat_add, UInt16.toNat_mul, UInt8.toNat_toUInt16, h16]
  omega

theorem argb4444_lossless (v : UInt16) : argb4444OfComponents (argb4444ToComponents v) = v := by
  have hv := v.toNat_lt
  have hb := f4_b v; have hg := f4_g v; have hr := f4_r v; have ha := f4_a v
  apply UInt16.toNat_inj.mp
  simp only [argb4444OfComponents, argb4444ToComponents]
  rw [cbd48' _ (by omega), cbd48' _ (by omega), cbd48' _ (by omega), cbd48' _ (by omega)]
  rw [pack4 _ _ _ _ (by omega) (by omega) (by omega) (by omega)]
  omega


example : argb4444ToComponents 0xA5C3 = { red := 0x55, green := 0xCC, blue := 0x33, alpha := 0xAA } := by decide

/-- the overflow-checked `*`/`+` of `Argb4444::from(Components)` never overflow -/
theorem argb4444_pack_no_overflow (c : Components) :
    (((c.alpha >>> 4).toNat * 16 + (c.red >>> 4).toNat) * 16 + (c.green >>> 4).toNat) * 16
      + (c.blue >>> 4).toNat < 65536 := by
  have ha := c.alpha.toNat_lt; have hr := c.red.toNat_lt
  have hg := c.green.toNat_lt; have hb := c.blue.toNat_lt
  have e4 : (4 : UInt8).toNat % 8 = 4 := by decide
  simp only [UInt8.toNat_shiftRight, e4, Nat.shiftRight_eq_div_pow]
  omega

/-- The one fact about the float luminance that losslessness of Gray8 needs (256 cases; the
repository's own test `gray_8_floating_point_is_reliable` asserts the same). -/
def LumOk (lum : Lum) : Prop := ∀ x : UInt8, lum x x x = x

/-- **Gray8 is lossless** whenever the luminance of a grey pixel is its value. -/
theorem gray8_lossless (lum : Lum) (h : LumOk lum) (v : UInt8) :
    gray8OfComponents lum (gray8ToComponents v) = v := h v

/-- the hypothesis is satisfiable, e.g. by the integer luminance `(2126 r + 7152 g + 722 b) / 10000` -/
def intLum : Lum := fun r g b => UInt8.ofNat ((2126 * r.toNat + 7152 * g.toNat + 722 * b.toNat) / 10000)
example : LumOk intLum := by
  intro x
  have := x.toNat_lt
  apply UInt8.toNat_inj.mp
  simp only [intLum, UInt8.toNat_ofNat']
  omega

/-! ## 3. Whole buffers -/

theorem u16bytes_u16le (b0 b1 : UInt8) : u16bytes (u16le b0 b1) = [b0, b1] := by
  have h0 := b0.toNat_lt
  have h1 := b1.toNat_lt
  simp only [u16bytes, u16le, UInt16.toNat_ofNat']
  congr 1
  · apply UInt8.toNat_inj.mp; simp only [UInt8.toNat_ofNat']; omega
  · congr 1; apply UInt8.toNat_inj.mp; simp only [UInt8.toNat_ofNat']; omega

theorem u32le_u32bytes (v : UInt32) :
    u32le (UInt8.ofNat (v.toNat % 256)) (UInt8.ofNat (v.toNat / 256 % 256))
      (UInt8.ofNat (v.toNat / 65536 % 256)) (UInt8.ofNat (v.toNat / 16777216)) = v := by
  have := v.toNat_lt
  apply UInt32.toNat_inj.mp
  simp only [u32le, UInt32.toNat_ofNat', UInt8.toNat_ofNat']
  omega

theorem pixels16_flatMap (bs : Bytes) (h : bs.length % 2 = 0) :
    (pixels16 bs).flatMap u16bytes = bs := by
  fun_induction pixels16 bs with
  | case1 b0 b1 rest ih =>
    simp only [List.length_cons] at h
    simp only [List.flatMap_cons, u16bytes_u16le]
    rw [ih (by omega)]; rfl
  | case2 bs hne =>
    match bs, hne with
    | [], _ => rfl
    | [x], _ => simp at h
    | x :: y :: r, hne => exact absurd rfl (hne x y r)

theorem pixels32_u32bytes_append (v : UInt32) (rest : Bytes) :
    pixels32 (u32bytes v ++ rest) = v :: pixels32 rest := by
  simp only [u32bytes, List.cons_append, List.nil_append, pixels32, u32le_u32bytes]

theorem pixels32_encode (cs : List Components) :
    pixels32 (cs.flatMap fun c => u32bytes (argb8888OfComponents c)) = cs.map argb8888OfComponents := by
  induction cs with
  | nil => rfl
  | cons c cs ih =>
    rw [List.flatMap_cons, pixels32_u32bytes_append, ih, List.map_cons]

theorem length_u32bytes (v : UInt32) : (u32bytes v).length = 4 := rfl

theorem length_encode8888 (cs : List Components) :
    (cs.flatMap fun c => u32bytes (argb8888OfComponents c)).length = 4 * cs.length := by
  induction cs with
  | nil => rfl
  | cons c cs ih => rw [List.flatMap_cons, List.length_append, ih, length_u32bytes, List.length_cons]; omega

/-- decoding what `Argb8888::encode` wrote gives the components back -/
theorem decode_encode8888 (lum : Lum) (cs : List Components) :
    decode .argb8888 (encode lum .argb8888 cs) = .ok cs := by
  simp only [decode, encode, ColorFormat.bytesPerPixel, length_encode8888]
  rw [if_neg (by omega)]
  simp only [pixels32_encode, List.map_map]
  congr 1
  conv => rhs; rw [← List.map_id cs]
  apply List.map_congr_left
  intro c _
  exact argb8888_components c


theorem decode_ok (fmt : ColorFormat) (bs : Bytes) (h : bs.length % fmt.bytesPerPixel = 0) :
    decode fmt bs = .ok (match fmt with
      | .argb8888 => (pixels32 bs).map argb8888ToComponents
      | .rgb565 => (pixels16 bs).map rgb565ToComponents
      | .argb4444 => (pixels16 bs).map argb4444ToComponents
      | .gray8 => bs.map gray8ToComponents) := by
  cases fmt <;> (unfold decode; rw [if_neg (fun hc => hc h)])

/-- **Extract-then-load on texture bytes**: for every supported format and every buffer holding a
whole number of pixels, transcoding to `Argb8888` (extract) and back (load) gives the buffer. -/
theorem transcode_roundtrip (lum : Lum) (hl : LumOk lum) (fmt : ColorFormat) (bs : Bytes)
    (h : bs.length % fmt.bytesPerPixel = 0) :
    (transcodeTo8888 fmt bs >>= transcodeFrom8888 lum fmt) = .ok bs := by
  cases fmt with
  | argb8888 => rfl
  | rgb565 =>
    simp only [transcodeTo8888]
    rw [decode_ok _ _ h]
    simp only [Outcome.bind_ok, Outcome.pure_eq, transcodeFrom8888, decode_encode8888]
    simp only [encode, List.flatMap_map, rgb565_lossless]
    rw [pixels16_flatMap bs h]
  | argb4444 =>
    simp only [transcodeTo8888]
    rw [decode_ok _ _ h]
    simp only [Outcome.bind_ok, Outcome.pure_eq, transcodeFrom8888, decode_encode8888]
    simp only [encode, List.flatMap_map, argb4444_lossless]
    rw [pixels16_flatMap bs h]
  | gray8 =>
    simp only [transcodeTo8888]
    rw [decode_ok _ _ h]
    simp only [Outcome.bind_ok, Outcome.pure_eq, transcodeFrom8888, decode_encode8888]
    simp only [encode, List.map_map]
    congr 1
    conv => rhs; rw [← List.map_id bs]
    apply List.map_congr_left
    intro v _
    exact hl v

example : (transcodeTo8888 .rgb565 [0xEF, 0xBE] >>= transcodeFrom8888 intLum .rgb565) = .ok [0xEF, 0xBE] := by
  decide

/-- the `assert_eq!` in `decode` is reachable: a 16-bit texture with an odd number of bytes -/
theorem transcode_odd_length_panics : (transcodeTo8888 .rgb565 [0]).isPanic = true := by decide

/-- `validate_and_transcode_texture_for_entry` on the image that `extract` wrote for a texture of
format `fmt`, for an entry whose `img_format` is that format: the original bytes. -/
theorem extract_then_load_texture (lum : Lum) (hl : LumOk lum) (fmt : ColorFormat) (bs argb : Bytes)
    (h : bs.length % fmt.bytesPerPixel = 0) (hx : transcodeTo8888 fmt bs = .ok argb) :
    imageTextureForEntry lum (.explicit fmt.num) argb = .ok bs := by
  have rt := transcode_roundtrip lum hl fmt bs h
  rw [hx] at rt
  cases fmt with
  | argb8888 =>
    simp only [transcodeTo8888, Outcome.ok.injEq] at hx
    subst hx; rfl
  | rgb565 => simpa [imageTextureForEntry, finalFormat, transcodeForEntry, SoftOption.setSoftIfMissing,
      SoftOption.toOption, ColorFormat.num, ColorFormat.ofNum, transcodeTo8888] using rt
  | argb4444 => simpa [imageTextureForEntry, finalFormat, transcodeForEntry, SoftOption.setSoftIfMissing,
      SoftOption.toOption, ColorFormat.num, ColorFormat.ofNum, transcodeTo8888] using rt
  | gray8 => simpa [imageTextureForEntry, finalFormat, transcodeForEntry, SoftOption.setSoftIfMissing,
      SoftOption.toOption, ColorFormat.num, ColorFormat.ofNum, transcodeTo8888] using rt

/-- **An ANM file as image source copies textures verbatim** unless the script explicitly asks
for another `img_format` (any format number, known or not, any byte string). -/
theorem anm_source_verbatim (lum : Lum) (imgFormat : SoftOption Nat) (srcFormat : Nat) (data : Bytes)
    (h : ∀ f, imgFormat = .explicit f → f = srcFormat) :
    anmTextureForEntry lum imgFormat srcFormat data = .ok data := by
  cases imgFormat with
  | missing => simp [anmTextureForEntry, finalFormat, transcodeForEntry, SoftOption.setSoft,
      SoftOption.setSoftIfMissing, SoftOption.toOption]
  | soft a => simp [anmTextureForEntry, finalFormat, transcodeForEntry, SoftOption.setSoft,
      SoftOption.setSoftIfMissing, SoftOption.toOption]
  | explicit a =>
    have := h a rfl
    subst this
    simp [anmTextureForEntry, finalFormat, transcodeForEntry, SoftOption.setSoft,
      SoftOption.setSoftIfMissing, SoftOption.toOption]

example : anmTextureForEntry intLum .missing 42 [1, 2, 3] = .ok [1, 2, 3] :=
  anm_source_verbatim _ _ _ _ (by intro f h; cases h)

/-! ## 4. Padding and cropping -/

theorem padRows_length {α} (fill : α) (ox w h : Nat) (img : List α) (hl : img.length = w * h) :
    (padRows fill ox w h img).length = (w + ox) * h := by
  induction h generalizing img with
  | zero => simp [padRows]
  | succ h ih =>
    have hw : w ≤ img.length := by rw [hl, Nat.mul_succ]; omega
    have hd : (img.drop w).length = w * h := by rw [List.length_drop, hl, Nat.mul_succ]; omega
    simp only [padRows, List.length_append, List.length_replicate, List.length_take, ih _ hd,
      Nat.min_eq_left hw, Nat.mul_succ]
    omega

theorem cropRows_padRows {α} (fill : α) (ox w h : Nat) (img : List α) (hl : img.length = w * h) :
    cropRows ox w (w + ox) h (padRows fill ox w h img) = img := by
  induction h generalizing img with
  | zero =>
    have : img = [] := List.eq_nil_of_length_eq_zero (by simpa using hl)
    simp [cropRows, this]
  | succ h ih =>
    have hw : w ≤ img.length := by rw [hl, Nat.mul_succ]; omega
    have hd : (img.drop w).length = w * h := by rw [List.length_drop, hl, Nat.mul_succ]; omega
    have ht : (img.take w).length = w := by rw [List.length_take]; omega
    simp only [padRows, cropRows]
    have e1 : (List.replicate ox fill ++ List.take w img ++ padRows fill ox w h (List.drop w img)).drop ox
        = List.take w img ++ padRows fill ox w h (List.drop w img) := by
      rw [List.append_assoc]; exact List.drop_left' (by simp)
    have e2 : (List.replicate ox fill ++ List.take w img ++ padRows fill ox w h (List.drop w img)).drop (w + ox)
        = padRows fill ox w h (List.drop w img) := by
      exact List.drop_left' (by simp [ht]; omega)
    rw [e1, e2, List.take_left' ht, ih _ hd, List.take_append_drop]

theorem crop_pad {α} (fill : α) (ox oy w h : Nat) (img : List α) (hl : img.length = w * h) :
    crop ox oy w h (w + ox) (pad fill ox oy w h img) = img := by
  simp only [crop, pad]
  rw [List.drop_left' (by simp)]
  exact cropRows_padRows fill ox w h img hl

theorem pad_length {α} (fill : α) (ox oy w h : Nat) (img : List α) (hl : img.length = w * h) :
    (pad fill ox oy w h img).length = (w + ox) * (h + oy) := by
  simp only [pad, List.length_append, List.length_replicate, padRows_length fill ox w h img hl]
  rw [Nat.mul_add (w + ox) h oy, Nat.mul_comm (w + ox) oy]; omega


example : crop 1 1 2 2 3 (pad 0 1 1 2 2 [1, 2, 3, 4]) = [1, 2, 3, 4] := by decide
example : pad 0 1 1 2 2 [1, 2, 3, 4] = [0, 0, 0, 0, 1, 2, 0, 3, 4] := by decide

/-- **Loading what `extract` wrote**: the image produced for a `w x h` texture at offset
`(ox, oy)` passes the dimension checks of `load_img_file_for_entry` and is cropped back to the
texture, for every width, height and offset - provided the script does not explicitly ask for
other dimensions. -/
theorem load_extracted {α} (fill : α) (specs : ImgSpecs) (ox oy w h : Nat) (img : List α)
    (hl : img.length = w * h)
    (hox : specs.offsetX.toOption.getD 0 = ox) (hoy : specs.offsetY.toOption.getD 0 = oy)
    (hw : ∀ a, specs.imgWidth = .explicit a → a = w)
    (hh : ∀ a, specs.imgHeight = .explicit a → a = h) :
    ∃ specs', loadImage specs (w + ox) (h + oy) (pad fill ox oy w h img) = .ok (specs', img) := by
  have ew : (specs.imgWidth.setSoft (w + ox - ox)).toOption.getD 0 = w := by
    have : w + ox - ox = w := by omega
    rw [this]
    cases hs : specs.imgWidth with
    | missing => rfl
    | soft a => rfl
    | explicit a => rw [hw a hs]; rfl
  have eh : (specs.imgHeight.setSoft (h + oy - oy)).toOption.getD 0 = h := by
    have : h + oy - oy = h := by omega
    rw [this]
    cases hs : specs.imgHeight with
    | missing => rfl
    | soft a => rfl
    | explicit a => rw [hh a hs]; rfl
  simp only [loadImage, hox, hoy]
  rw [if_neg (by omega), if_neg (by omega)]
  simp only [ew, eh, ne_eq, not_true_eq_false, if_false, crop_pad fill ox oy w h img hl]
  exact ⟨_, rfl⟩

example : ∃ s, loadImage ({ offsetX := .explicit 1, offsetY := .explicit 1 } : ImgSpecs) 3 3
    (pad 0 1 1 2 2 [1, 2, 3, 4]) = .ok (s, [1, 2, 3, 4]) :=
  load_extracted 0 _ 1 1 2 2 _ rfl rfl rfl (by intro a h; cases h) (by intro a h; cases h)

/-! ## 5. `SoftOption` precedence -/

/-- an explicit (script) value survives every later soft (image source / default) value -/
theorem explicit_survives {α} (a : α) (vs : List α) :
    vs.foldl SoftOption.setSoft (.explicit a) = .explicit a := by
  induction vs with
  | nil => rfl
  | cons v vs ih => exact ih

/-- among soft values the most recent one wins -/
theorem soft_last_wins {α} (s : SoftOption α) (hs : s.isExplicit = false) (vs : List α) (v : α) :
    ((vs ++ [v]).foldl SoftOption.setSoft s).toOption = some v := by
  induction vs generalizing s with
  | nil => cases s <;> simp_all [SoftOption.setSoft, SoftOption.toOption, SoftOption.isExplicit]
  | cons u vs ih =>
    apply ih
    cases s <;> simp_all [SoftOption.setSoft, SoftOption.isExplicit]

/-- defaults never replace anything -/
theorem default_only_if_missing {α} (s : SoftOption α) (v : α) (h : s ≠ .missing) :
    s.setSoftIfMissing v = s := by
  cases s <;> simp_all [SoftOption.setSoftIfMissing]

example : ([3, 5].foldl SoftOption.setSoft (.soft 1)).toOption = some 5 := by decide
example : [3, 5].foldl SoftOption.setSoft (.explicit 1) = .explicit 1 := by decide

/-! ## 6. Image-source matching -/

section queues
variable {X D : Type}

theorem get_push (q : Queues X) (p p' : String) (x : X) :
    (q.push p x).get p' = if p = p' then q.get p' ++ [x] else q.get p' := by
  induction q with
  | nil =>
    by_cases h : p = p' <;> simp [Queues.push, Queues.get, h]
  | cons kv rest ih =>
    obtain ⟨k, v⟩ := kv
    by_cases hk : k = p
    · subst hk
      by_cases h : k = p' <;> simp [Queues.push, Queues.get, h]
    · by_cases hk' : k = p'
      · subst hk'
        simp [Queues.push, Queues.get, hk]
        intro h; exact absurd h.symm hk
      · simp [Queues.push, Queues.get, hk, hk', ih]

theorem get_foldl_push (src : List (String × X)) (q : Queues X) (p : String) :
    (src.foldl (fun q e => q.push e.1 e.2) q).get p
      = q.get p ++ (src.filter (fun e => e.1 = p)).map (·.2) := by
  induction src generalizing q with
  | nil => simp
  | cons e src ih =>
    rw [List.foldl_cons, ih, get_push]
    by_cases h : e.1 = p <;> simp [h]

/-- the queue of a path holds the source entries with that path, in order of appearance -/
theorem get_build (src : List (String × X)) (p : String) :
    (Queues.build src).get p = (src.filter (fun e => e.1 = p)).map (·.2) := by
  simp [Queues.build, get_foldl_push, Queues.get]

theorem pop_none (q : Queues X) (p : String) (h : q.pop p = none) : q.get p = [] := by
  induction q with
  | nil => rfl
  | cons kv rest ih =>
    obtain ⟨k, v⟩ := kv
    by_cases hk : k = p
    · simp only [Queues.pop, hk, if_true] at h
      cases v with
      | nil => simp [Queues.get, hk]
      | cons x v' => simp at h
    · simp only [Queues.pop, hk, if_false] at h
      simp only [Queues.get, hk, if_false]
      apply ih
      cases hp : Queues.pop rest p with
      | none => rfl
      | some r => rw [hp] at h; simp at h

theorem pop_some (q q' : Queues X) (p : String) (x : X) (h : q.pop p = some (x, q')) :
    q.get p = x :: q'.get p ∧ ∀ p', p' ≠ p → q'.get p' = q.get p' := by
  induction q generalizing q' with
  | nil => simp [Queues.pop] at h
  | cons kv rest ih =>
    obtain ⟨k, v⟩ := kv
    by_cases hk : k = p
    · simp only [Queues.pop, hk, if_true] at h
      cases v with
      | nil => simp at h
      | cons y v' =>
        simp only [Option.some.injEq, Prod.mk.injEq] at h
        obtain ⟨hx, hq⟩ := h
        subst hx hq
        constructor
        · simp [Queues.get, hk]
        · intro p' hp'
          have : ¬ p = p' := fun e => hp' e.symm
          simp [Queues.get, hk, this]
    · simp only [Queues.pop, hk, if_false] at h
      cases hp : Queues.pop rest p with
      | none => rw [hp] at h; simp at h
      | some r =>
        obtain ⟨y, rest'⟩ := r
        rw [hp] at h
        simp only [Option.some.injEq, Prod.mk.injEq] at h
        obtain ⟨hx, hq⟩ := h
        subst hx hq
        obtain ⟨h1, h2⟩ := ih rest' hp
        constructor
        · simp [Queues.get, hk, h1]
        · intro p' hp'
          by_cases hk' : k = p'
          · simp [Queues.get, hk']
          · simp [Queues.get, hk', h2 p' hp']

/-- what destination entry `i` receives from queues `q`: the `k`-th element of the queue of its
path, where `k` is the number of earlier destination entries with the same path -/
def received (path : D → String) (qget : String → List X) (ds : List D) (i : Nat) (d : D) : Option X :=
  (qget (path d))[((ds.take i).filter (fun e => path e = path d)).length]?

theorem applyAnmGo_spec (path : D → String) (upd : D → X → D) (q : Queues X) (ds : List D)
    (i : Nat) (d : D) (hd : ds[i]? = some d) :
    (applyAnmGo path upd q ds)[i]? =
      some (match received path q.get ds i d with
            | some x => upd d x
            | none => d) := by
  induction ds generalizing q i with
  | nil => simp at hd
  | cons d0 ds ih =>
    cases i with
    | zero =>
      simp only [List.getElem?_cons_zero, Option.some.injEq] at hd
      subst hd
      simp only [received, List.take_zero, List.filter_nil, List.length_nil]
      cases hp : q.pop (path d0) with
      | none => simp [applyAnmGo, hp, pop_none q _ hp]
      | some r =>
        obtain ⟨x, q'⟩ := r
        simp [applyAnmGo, hp, (pop_some q q' _ x hp).1]
    | succ i =>
      simp only [List.getElem?_cons_succ] at hd
      simp only [received, List.take_succ_cons, List.filter_cons]
      cases hp : q.pop (path d0) with
      | none =>
        simp only [applyAnmGo, hp, List.getElem?_cons_succ]
        rw [ih q i hd]
        by_cases he : path d0 = path d
        · have hnil := pop_none q _ hp
          rw [he] at hnil
          simp [received, he, hnil]
        · simp [received, he]
      | some r =>
        obtain ⟨x, q'⟩ := r
        simp only [applyAnmGo, hp, List.getElem?_cons_succ]
        rw [ih q' i hd]
        obtain ⟨h1, h2⟩ := pop_some q q' _ x hp
        by_cases he : path d0 = path d
        · rw [he] at h1
          simp [received, he, h1]
        · have : path d ≠ path d0 := fun e => he e.symm
          simp [received, he, h2 _ this]

/-- entries sharing a path are matched to source entries in order of appearance -/
theorem same_path_in_order (path : D → String) (upd : D → X → D) (src : List (String × X))
    (ds : List D) (i : Nat) (d : D) (hd : ds[i]? = some d) :
    (applyAnm path upd src ds)[i]? =
      some (match ((src.filter (fun e => e.1 = path d)).map (·.2))[
                ((ds.take i).filter (fun e => path e = path d)).length]? with
            | some x => upd d x
            | none => d) := by
  rw [applyAnm, applyAnmGo_spec path upd _ ds i d hd]
  simp only [received, get_build]


end queues

section sources
variable {T : Type}

/-- The texture that source `s` offers to the `i`-th destination entry (whose path is `p`), given
only the paths of the destination entries. -/
def offer (s : Source T) (paths : List String) (i : Nat) (p : String) : Option (Loaded T) :=
  match s with
  | .anm entries =>
    match ((entries.filter (fun e => e.1 = p)).map (·.2))[
            ((paths.take i).filter (fun e => e = p)).length]? with
    | some e => e.texture.map .fromAnm
    | none => none
  | .dir files => (lookupFile files p).map .fromImage

theorem count_paths (ds : List (Dest T)) (i : Nat) (p : String) :
    (((ds.map Dest.path).take i).filter (fun e => e = p)).length
      = ((ds.take i).filter (fun e => e.path = p)).length := by
  rw [← List.map_take, List.filter_map, List.length_map]
  rfl

theorem updFromAnm_path (d : Dest T) (s : AnmSrcEntry T) : (updFromAnm d s).path = d.path := by
  unfold updFromAnm; cases s.texture <;> rfl

theorem updFromAnm_loaded (d : Dest T) (s : AnmSrcEntry T) :
    (updFromAnm d s).loaded = (s.texture.map Loaded.fromAnm).or d.loaded := by
  unfold updFromAnm; cases s.texture <;> simp

theorem updFromDir_path (files : List (String × T)) (d : Dest T) : (updFromDir files d).path = d.path := by
  unfold updFromDir; cases lookupFile files d.path <;> rfl

theorem updFromDir_loaded (files : List (String × T)) (d : Dest T) :
    (updFromDir files d).loaded = ((lookupFile files d.path).map Loaded.fromImage).or d.loaded := by
  unfold updFromDir; cases lookupFile files d.path <;> simp

/-- one source: entry `i` keeps its path and takes the offered texture if there is one -/
theorem applySource_spec (s : Source T) (ds : List (Dest T)) (i : Nat) (d : Dest T)
    (hd : ds[i]? = some d) :
    ∃ d', (applySource ds s)[i]? = some d' ∧ d'.path = d.path ∧
      d'.loaded = (offer s (ds.map Dest.path) i d.path).or d.loaded := by
  cases s with
  | anm entries =>
    simp only [applySource, offer, count_paths]
    rw [same_path_in_order Dest.path updFromAnm entries ds i d hd]
    split
    · next x hx => exact ⟨_, rfl, updFromAnm_path d x, by rw [updFromAnm_loaded, hx]⟩
    · next hx => exact ⟨_, rfl, rfl, by rw [hx]; rfl⟩
  | dir files =>
    refine ⟨updFromDir files d, ?_, updFromDir_path files d, ?_⟩
    · simp [applySource, hd]
    · simp only [offer]; exact updFromDir_loaded files d

theorem applyAnmGo_paths {X D} (path : D → String) (upd : D → X → D)
    (hupd : ∀ d x, path (upd d x) = path d) (q : Queues X) (ds : List D) :
    (applyAnmGo path upd q ds).map path = ds.map path := by
  induction ds generalizing q with
  | nil => rfl
  | cons d ds ih =>
    simp only [applyAnmGo]
    cases q.pop (path d) with
    | none => simp [ih]
    | some r => simp [ih, hupd]

theorem applySource_paths (s : Source T) (ds : List (Dest T)) :
    (applySource ds s).map Dest.path = ds.map Dest.path := by
  cases s with
  | anm entries => exact applyAnmGo_paths Dest.path updFromAnm updFromAnm_path _ ds
  | dir files =>
    simp only [applySource, List.map_map]
    apply List.map_congr_left
    intro d _
    exact updFromDir_path files d

/-- the last source that offers a texture for an entry wins; without any offer the entry keeps
what it had -/
theorem last_source_wins (srcs : List (Source T)) (ds : List (Dest T)) (i : Nat) (d : Dest T)
    (hd : ds[i]? = some d) :
    ∃ d', (applySources srcs ds)[i]? = some d' ∧ d'.path = d.path ∧
      d'.loaded = (srcs.reverse.findSome? (fun s => offer s (ds.map Dest.path) i d.path)).or d.loaded := by
  induction srcs generalizing ds d with
  | nil => exact ⟨d, hd, rfl, rfl⟩
  | cons s srcs ih =>
    obtain ⟨d1, h1, hp1, hl1⟩ := applySource_spec s ds i d hd
    obtain ⟨d', h2, hp2, hl2⟩ := ih (applySource ds s) d1 h1
    refine ⟨d', h2, hp2.trans hp1, ?_⟩
    rw [hl2, hl1, applySource_paths, hp1, List.reverse_cons, List.findSome?_append]
    simp [Option.or_assoc]


/-- an explicit `has_data` of the script is never changed by image sources -/
theorem explicit_has_data_kept (d : Dest T) (s : AnmSrcEntry T) (v : HasData)
    (h : d.hasData = .explicit v) : (updFromAnm d s).hasData = .explicit v := by
  unfold updFromAnm
  cases s.texture <;> simp [h, SoftOption.setSoft]

/-- the hypotheses of `same_path_in_order` / `last_source_wins` are met by concrete inputs: the
second `"@R"` entry of the script receives the second `"@R"` entry of the source; the directory,
applied last, beats the ANM file -/
example :
    (applyAnm Dest.path updFromAnm [("@R", ⟨some 1⟩), ("x", ⟨some 2⟩), ("@R", ⟨some 3⟩)]
        [({ path := "@R" } : Dest Nat), { path := "@R" }])[1]?.map (·.loaded) = some (some (.fromAnm 3)) := by
  rw [same_path_in_order Dest.path updFromAnm _ _ 1 { path := "@R" } rfl]
  decide

example : ∃ d', (applySources [.anm [("a.png", ⟨some 10⟩)], .dir [("a.png", 20)]]
      [({ path := "a.png" } : Dest Nat)])[0]? = some d' ∧ d'.loaded = some (.fromImage 20) := by
  obtain ⟨d', h1, _, h3⟩ := last_source_wins [.anm [("a.png", ⟨some 10⟩)], .dir [("a.png", 20)]]
      [({ path := "a.png" } : Dest Nat)] 0 { path := "a.png" } rfl
  exact ⟨d', h1, by rw [h3]; decide⟩

/-! three sources supplying the same path: the last one that has it wins; two entries with one
path take the first and second source entry of that path -/
example :
    ((applySources
        [.anm [("a.png", ⟨some 10⟩), ("b.png", ⟨some 11⟩)], .dir [("a.png", 20)], .anm [("b.png", ⟨some 30⟩)]]
        [({ path := "a.png" } : Dest Nat), { path := "b.png" }]).map (·.loaded))
      = [some (.fromImage 20), some (.fromAnm 30)] := by decide

example :
    ((applySources [.anm [("@R", ⟨some 1⟩), ("x", ⟨some 2⟩), ("@R", ⟨some 3⟩)]]
        [({ path := "@R" } : Dest Nat), { path := "@R" }, { path := "@R" }]).map (·.loaded))
      = [some (.fromAnm 1), some (.fromAnm 3), none] := by decide

end sources

end TruthModel.C17
