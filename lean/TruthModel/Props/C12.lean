import TruthModel.Lemmas.Abi
import TruthModel.Props.C12Parts
/-
C12 — argument encoding and decoding are inverse for every instruction signature.

Model: `TruthModel/Model/Abi.lean` (mirror of `encode_args`, `decode_args_with_abi`,
`InstrAbi::validate`, the call checks, `Encoded::*`).  Helper lemmas: `Lemmas/Abi.lean`.
All theorems quantify over every signature (`Abi = List Enc`, the full encoding enum), every
argument list, every furigana state and every blob; there is no bound on sizes except the
16 non-padding parameters the property itself names (the mask is a `u16`).
-/
open TruthModel TruthModel.Abi
namespace TruthModel.C12
set_option linter.unusedSimpArgs false

/-! ## decode (encode args) = args -/

/-- **decode ∘ encode = id, no warnings.**  For every valid signature with at most 16 non-padding
parameters, every furigana state and every `ArgsOk` argument list: whatever `encode_args`
produces (blob, mask, arg0) is decoded by `decode_args_with_abi` + the padding filter to exactly
the argument list, without any warning on either side. -/
theorem decode_encode (hasRegs : Bool) (st : EncState) (abi : Abi) (args : List Arg)
    (raw : Raw) (w : List String) (st' : EncState)
    (hv : validAbi abi = true) (hn : (abi.filter Enc.contributes).length ≤ 16)
    (ha : ArgsOk st abi args = true)
    (he : encodeArgs hasRegs st abi args = .ok (raw, w, st')) :
    decompileCall abi raw = .ok (args, []) ∧ w = [] := by
  have hbe := validAbi_blobEndLast abi hv
  have ha0 := validAbi_arg0_tail abi hv
  have hattr := validAbi_strAttrs abi hv
  unfold encodeArgs at he
  split at he
  · cases he
  · cases abi with
    | nil =>
      simp only [ArgsOk] at ha
      obtain ⟨o, ho, hw, hm, _, hd⟩ := decLoop_encLoop [] 0 args st (by simp) (by simp) (by simp) rfl ha
      simp only [encodePlain, ho, Outcome.ok.injEq, Prod.mk.injEq] at he
      obtain ⟨hraw, hww, _⟩ := he
      obtain ⟨full, hdec, hdp, hnz⟩ := hd none
      have hm0 : o.mask % 65536 = o.mask := Nat.mod_eq_of_lt (by simp at hm; omega)
      subst hraw
      refine ⟨decompileCall_of_decLoop _ _ full args none (by simpa [hm0] using hdec) hdp hnz, ?_⟩
      rw [← hww, hw]
    | cons e es =>
      simp only [List.drop_one, List.tail_cons] at ha0
      by_cases h0 : e.isArg0 = true
      · -- arg0: taken from the first argument, stored in the header field
        simp only [h0, if_true] at he
        simp only [ArgsOk, h0, if_true] at ha
        cases e with
        | int iw signed a0 imm =>
          have ha0t : a0 = true := by cases a0 <;> simp_all [Enc.isArg0]
          subst ha0t
          cases args with
          | nil => simp at ha
          | cons a as =>
            cases a with
            | int v reg =>
              cases reg with
              | true => simp at ha
              | false =>
                simp only [Bool.and_eq_true, Bool.not_eq_true'] at ha
                obtain ⟨⟨hfit, hloop⟩, hnoreg⟩ := ha
                simp only [blobEndLast, Bool.and_eq_true] at hbe
                have hcnt : 0 + (es.filter Enc.contributes).length ≤ 16 := by
                  simp only [List.filter_cons, Enc.contributes, Enc.isPadding, Bool.not_false, if_true,
                    List.length_cons] at hn
                  omega
                obtain ⟨o, ho, hw, hm, hz, hd⟩ := decLoop_encLoop es 0 as st hcnt ha0
                  (fun e he => hattr e (List.mem_cons_of_mem _ he)) hbe.2 hloop
                have hmz : o.mask = 0 := hz (by
                  intro x hx
                  cases hxr : x.isReg with
                  | false => rfl
                  | true => rw [List.any_eq_true.mpr ⟨x, hx, hxr⟩] at hnoreg; cases hnoreg)
                simp only [Arg.isReg, Bool.false_eq_true, if_false, expectInt, hfit, Bool.not_true, encodePlain, ho,
                  Outcome.ok.injEq, Prod.mk.injEq] at he
                obtain ⟨hraw, hww, _⟩ := he
                obtain ⟨full, hdec, hdp, hnz⟩ := hd none
                subst hraw
                refine ⟨decompileCall_of_decLoop _ _ (.int v false :: full) _ none ?_ ?_ ?_, ?_⟩
                · simp only [decLoop, Enc.isPadding, Bool.false_eq_true, if_false, decodeOne, hmz,
                    Nat.zero_mod, Nat.zero_div]
                  simp only [hmz] at hdec
                  simp [hdec]
                · simp [dropPadding, Enc.isPadding, hdp]
                · simp [nonzeroPadding, Enc.isPadding, hnz]
                · rw [← hww, hw]
            | float b r => simp at ha
            | str s => simp at ha
        | jumpOffset => simp [Enc.isArg0] at h0
        | jumpTime => simp [Enc.isArg0] at h0
        | padding w => simp [Enc.isArg0] at h0
        | float imm => simp [Enc.isArg0] at h0
        | str sz m f => simp [Enc.isArg0] at h0
      · have h0' : e.isArg0 = false := by simpa using h0
        simp only [h0', Bool.false_eq_true, if_false] at he
        simp only [ArgsOk, h0', Bool.false_eq_true, if_false] at ha
        have hall : ∀ e' ∈ e :: es, e'.isArg0 = false := by
          intro e' he'
          cases he' with
          | head => exact h0'
          | tail _ h => exact ha0 e' h
        obtain ⟨o, ho, hw, hm, _, hd⟩ := decLoop_encLoop (e :: es) 0 args st (by omega) hall hattr hbe ha
        simp only [encodePlain, ho, Outcome.ok.injEq, Prod.mk.injEq] at he
        obtain ⟨hraw, hww, _⟩ := he
        obtain ⟨full, hdec, hdp, hnz⟩ := hd none
        have hm0 : o.mask % 65536 = o.mask := by
          apply Nat.mod_eq_of_lt
          have : 2 ^ ((e :: es).filter Enc.contributes).length ≤ 2 ^ 16 := Nat.pow_le_pow_right (by omega) hn
          omega
        subst hraw
        refine ⟨decompileCall_of_decLoop _ _ full args none (by simpa [hm0] using hdec) hdp hnz, ?_⟩
        rw [← hww, hw]


/-- Under the same hypotheses the encoder does succeed (so `decode_encode` is not vacuous):
no error, no panic, in a language with registers or for register-free argument lists. -/
theorem encode_ok (hasRegs : Bool) (st : EncState) (abi : Abi) (args : List Arg)
    (hv : validAbi abi = true) (hn : (abi.filter Enc.contributes).length ≤ 16)
    (ha : ArgsOk st abi args = true)
    (hr : hasRegs = true ∨ args.any Arg.isReg = false) :
    ∃ raw st', encodeArgs hasRegs st abi args = .ok (raw, [], st') := by
  have hbe := validAbi_blobEndLast abi hv
  have ha0 := validAbi_arg0_tail abi hv
  have hattr := validAbi_strAttrs abi hv
  have hguard : (!hasRegs && args.any Arg.isReg) = false := by
    rcases hr with h | h <;> simp [h]
  unfold encodeArgs
  simp only [hguard, Bool.false_eq_true, if_false]
  cases abi with
  | nil =>
    simp only [ArgsOk] at ha
    obtain ⟨o, ho, hw, _, _, _⟩ := decLoop_encLoop [] 0 args st (by simp) (by simp) (by simp) rfl ha
    exact ⟨⟨o.blob, o.mask % 65536, none⟩, o.st, by simp only [encodePlain, ho, hw]⟩
  | cons e es =>
    simp only [List.drop_one, List.tail_cons] at ha0
    by_cases h0 : e.isArg0 = true
    · simp only [h0, if_true]
      simp only [ArgsOk, h0, if_true] at ha
      cases e with
      | int iw signed a0 imm =>
        cases args with
        | nil => simp at ha
        | cons a as =>
          cases a with
          | int v reg =>
            cases reg with
            | true => simp at ha
            | false =>
              simp only [Bool.and_eq_true, Bool.not_eq_true'] at ha
              simp only [blobEndLast, Bool.and_eq_true] at hbe
              have hcnt : 0 + (es.filter Enc.contributes).length ≤ 16 := by
                simp only [List.filter_cons, Enc.contributes, Enc.isPadding, Bool.not_false, if_true,
                  List.length_cons] at hn
                omega
              obtain ⟨o, ho, hw, _, _, _⟩ := decLoop_encLoop es 0 as st hcnt ha0
                (fun e he => hattr e (List.mem_cons_of_mem _ he)) hbe.2 ha.1.2
              exact ⟨⟨o.blob, o.mask % 65536, some v⟩, o.st,
                by simp only [Arg.isReg, Bool.false_eq_true, if_false, expectInt, ha.1.1, Bool.not_true,
                  encodePlain, ho, hw]⟩
          | float b r => simp at ha
          | str s => simp at ha
      | jumpOffset => simp [Enc.isArg0] at h0
      | jumpTime => simp [Enc.isArg0] at h0
      | padding w => simp [Enc.isArg0] at h0
      | float imm => simp [Enc.isArg0] at h0
      | str sz m f => simp [Enc.isArg0] at h0
    · have h0' : e.isArg0 = false := by simpa using h0
      simp only [h0', Bool.false_eq_true, if_false]
      simp only [ArgsOk, h0', Bool.false_eq_true, if_false] at ha
      have hall : ∀ e' ∈ e :: es, e'.isArg0 = false := by
        intro e' he'
        cases he' with
        | head => exact h0'
        | tail _ h => exact ha0 e' h
      obtain ⟨o, ho, hw, _, _, _⟩ := decLoop_encLoop (e :: es) 0 args st (by omega) hall hattr hbe ha
      exact ⟨⟨o.blob, o.mask % 65536, none⟩, o.st, by simp only [encodePlain, ho, hw]⟩

/-- the hypotheses of `decode_encode` are satisfiable by a non-trivial input: padding in the
middle, a register, a narrow signed field at its boundary, a float, a masked block-padded string -/
example :
    let abi : Abi := [.int .w4 true false false, .padding true, .int .w2 true false false, .float false,
      .str (.toBlobEnd 4) ⟨0x77, 7, 16⟩ true]
    let args : List Arg := [.int 10000 true, .int (-32768) false, .float 0x3f800000 false, .str [0x7C, 0x83, 0x5C]]
    validAbi abi = true ∧ (abi.filter Enc.contributes).length ≤ 16 ∧ ArgsOk none abi args = true := by
  decide

/-- **encode (decode (encode args)) = encode args**: on the image of the encoder, re-encoding
the decoded arguments reproduces blob, mask and arg0 (same furigana state). -/
theorem encode_decode_image (hasRegs : Bool) (st : EncState) (abi : Abi) (args : List Arg)
    (raw : Raw) (w : List String) (st' : EncState)
    (hv : validAbi abi = true) (hn : (abi.filter Enc.contributes).length ≤ 16)
    (ha : ArgsOk st abi args = true)
    (he : encodeArgs hasRegs st abi args = .ok (raw, w, st')) :
    ∃ args', decompileCall abi raw = .ok (args', []) ∧ encodeArgs hasRegs st abi args' = .ok (raw, [], st') := by
  obtain ⟨hd, hw⟩ := decode_encode hasRegs st abi args raw w st' hv hn ha he
  exact ⟨args, hd, by rw [he, hw]⟩

/-! ## encode (decode blob) = blob -/

/-- **encode ∘ decode = id on fixed-width signatures.**  For every signature without string and
`arg0` parameters, every blob / mask that decodes without any warning (no leftover bytes, no
unused mask bits), with zero padding bytes and register bits only on parameters that can be
registers: compiling the decoded argument list reproduces blob and mask exactly, without
warnings, in every furigana state. -/
theorem encode_decode_partial (st : EncState) (abi : Abi) (raw : Raw) (full : List Arg)
    (hsf : strFree abi = true) (hna : noArg0 abi = true)
    (hn : (abi.filter Enc.contributes).length ≤ 16)
    (hd : decodeArgs abi raw = .ok (full, []))
    (hp : nonzeroPadding abi full = false)
    (hm : maskOk abi raw.mask = true) (hm16 : raw.mask < 65536) (ha0 : raw.arg0 = none) :
    encodeArgs true st abi (dropPadding abi full) = .ok (raw, [], st) := by
  simp only [decodeArgs] at hd
  cases h : decLoop abi raw.blob raw.mask raw.arg0 with
  | err c => rw [h] at hd; cases hd
  | panic p => rw [h] at hd; cases hd
  | ok o =>
    rw [h] at hd
    simp only [Outcome.ok.injEq, Prod.mk.injEq] at hd
    obtain ⟨hfull, hwarn⟩ := hd
    subst hfull
    have hrest : o.rest = [] := by
      cases hr : o.rest with
      | nil => rfl
      | cons x xs => simp [hr] at hwarn
    obtain ⟨_, _, _, blob, hblob, henc⟩ := encLoop_decLoop abi 0 raw.blob raw.mask raw.arg0 o st (by omega) hsf hna h hp hm
    rw [hrest, List.append_nil] at hblob
    have hraw : raw = ⟨blob, raw.mask % 65536, none⟩ := by
      cases raw with
      | mk b m a => simp at hblob ha0 hm16 ⊢; exact ⟨hblob, (Nat.mod_eq_of_lt hm16).symm, ha0⟩
    unfold encodeArgs
    simp only [Bool.not_true, Bool.false_and, Bool.false_eq_true, if_false]
    cases abi with
    | nil => simp only [encodePlain, henc]; rw [← hraw]
    | cons e es =>
      have he0 : e.isArg0 = false := by
        simp only [noArg0, List.all_cons, Bool.and_eq_true, Bool.not_eq_true'] at hna; exact hna.1
      simp only [he0, Bool.false_eq_true, if_false, encodePlain, henc]
      rw [← hraw]

/-- the hypotheses of `encode_decode_partial` on a non-trivial instruction: padding in the middle,
a register flag, a narrow unsigned field with its top bit set -/
example :
    let abi : Abi := [.int .w4 true false false, .padding true, .int .w2 false false false, .float false]
    let raw : Raw := ⟨[0x10, 0x27, 0, 0, 0, 0, 0, 0, 0xFF, 0xFF, 0, 0, 0x80, 0x3F], 1, none⟩
    strFree abi = true ∧ noArg0 abi = true ∧ maskOk abi raw.mask = true ∧
    decodeArgs abi raw = .ok ([.int 10000 true, .int 0 false, .int 65535 false, .float 0x3F800000 false], []) := by
  decide

/-- The statement for the whole encoding enum: strings need, in addition, canonical padding (the
length read is exactly the padded length of text + NUL + pending furigana bytes, the bytes after
the NUL are those furigana bytes followed by zeros).  Not proved for signatures with strings or
`arg0`; `decode_encode`/`encode_decode_image` cover exactly the blobs the compiler itself
writes, and the two theorems below show why "decodes without warning" alone is not enough. -/
def encode_decode_full : Prop :=
  ∀ (st : EncState) (abi : Abi) (raw : Raw) (full : List Arg), validAbi abi = true →
    decodeArgs abi raw = .ok (full, []) → nonzeroPadding abi full = false →
    raw.mask < 65536 →
    ∃ st', encodeArgs true st abi (dropPadding abi full) = .ok (raw, [], st')

/-- a register bit on an `imm` parameter is dropped by the decoder without warning
("TODO: Add a way to fallback to @mask for bad mask bits" in `decode_args_with_abi`) -/
theorem mask_bit_on_immediate_lost :
    decompileCall [.int .w4 true false true] ⟨[1, 0, 0, 0], 1, none⟩ = .ok ([.int 1 false], []) ∧
    encodeArgs true none [.int .w4 true false true] [.int 1 false] = .ok (⟨[1, 0, 0, 0], 0, none⟩, [], none) := by
  decide

/-- a block-padded string with more (or less) padding than the encoder would write decodes
without warning and is re-encoded with canonical padding -/
theorem overpadded_string_normalised :
    decompileCall [.str (.toBlobEnd 4) ⟨0, 0, 0⟩ false] ⟨[0x61, 0, 0, 0, 0, 0, 0, 0], 0, none⟩ = .ok ([.str [0x61]], []) ∧
    encodeArgs true none [.str (.toBlobEnd 4) ⟨0, 0, 0⟩ false] [.str [0x61]] = .ok (⟨[0x61, 0, 0, 0], 0, none⟩, [], none) := by
  decide

theorem encode_decode_full_false : ¬ encode_decode_full := by
  intro h
  obtain ⟨st', hst⟩ := h none [.int .w4 true false true] ⟨[1, 0, 0, 0], 1, none⟩ [.int 1 false]
    (by decide) (by decide) (by decide) (by decide)
  have h2 : dropPadding [.int .w4 true false true] [.int 1 false] = [.int 1 false] := by decide
  rw [h2, mask_bit_on_immediate_lost.2] at hst
  simp at hst


/-! ## the register mask -/

/-- register flag per non-padding parameter, in order -/
def regFlags : Abi → List Arg → List Bool
  | [], _ => []
  | e :: es, args =>
    if e.isPadding then regFlags es args else
    match args with
    | [] => []
    | a :: as => (a.isReg && !e.alwaysImmediate) :: regFlags es as

def bitsToNat : List Bool → Nat
  | [] => 0
  | b :: bs => (if b then 1 else 0) + 2 * bitsToNat bs

theorem bitsToNat_testBit (bs : List Bool) (k : Nat) : (bitsToNat bs).testBit k = bs.getD k false := by
  induction bs generalizing k with
  | nil => simp [bitsToNat]
  | cons b bs ih =>
    cases k with
    | zero =>
      simp only [bitsToNat, Nat.testBit_zero, List.getD_cons_zero]
      cases b <;> simp <;> omega
    | succ k =>
      simp only [bitsToNat, Nat.testBit_succ, List.getD_cons_succ]
      have : ((if b = true then 1 else 0) + 2 * bitsToNat bs) / 2 = bitsToNat bs := by split <;> omega
      rw [this, ih]

theorem encLoop_mask (es : Abi) : ∀ (k : Nat) (args : List Arg) (st : EncState) (o : EncOut),
    encLoop k es args st = .ok o → o.mask = bitsToNat (regFlags es args) := by
  induction es with
  | nil => intro k args st o h; simp only [encLoop, Outcome.ok.injEq] at h; subst h; rfl
  | cons e es ih =>
    intro k args st o h
    by_cases hp : e.isPadding = true
    · simp only [encLoop, hp, if_true] at h
      simp only [regFlags, hp, if_true]
      cases h2 : encLoop k es args st with
      | ok o2 => rw [h2] at h; simp only [Outcome.ok.injEq] at h; subst h; exact ih k args st o2 h2
      | err c => rw [h2] at h; cases h
      | panic p => rw [h2] at h; cases h
    · have hp' : e.isPadding = false := by simpa using hp
      cases args with
      | nil => simp [encLoop, hp'] at h
      | cons a as =>
        simp only [encLoop, hp', Bool.false_eq_true, if_false] at h
        simp only [regFlags, hp', Bool.false_eq_true, if_false, bitsToNat]
        split at h
        · cases h
        cases h1 : encodeOne st e a with
        | ok r =>
          obtain ⟨bytes, st1⟩ := r
          rw [h1] at h
          simp only at h
          cases h2 : encLoop (k + 1) es as st1 with
          | ok o2 =>
            rw [h2] at h; simp only [Outcome.ok.injEq] at h; subst h
            simp only [ih (k + 1) as st1 o2 h2]
          | err c => rw [h2] at h; cases h
          | panic p => rw [h2] at h; cases h
        | err c => rw [h1] at h; cases h
        | panic p => rw [h1] at h; cases h

/-- Bit `k` of the mask the encoder builds belongs to the `k`-th non-padding parameter: it is set
iff that argument is a register and the encoding is not always immediate. -/
theorem mask_bits_positions (es : Abi) (k0 : Nat) (args : List Arg) (st : EncState) (o : EncOut)
    (h : encLoop k0 es args st = .ok o) (k : Nat) :
    o.mask.testBit k = (regFlags es args).getD k false := by
  rw [encLoop_mask es k0 args st o h, bitsToNat_testBit]

/-- register flag the decoder gives to the non-padding parameters, in order -/
def decFlags : Abi → Nat → List Bool
  | [], _ => []
  | e :: es, m => if e.isPadding then decFlags es m else (!e.alwaysImmediate && m.testBit 0) :: decFlags es (m / 2)

theorem decodeOne_isReg (e : Enc) (rest : Bytes) (r : Bool) (a0 : Option Int)
    (a : Arg) (w : List String) (rest1 : Bytes) (a01 : Option Int)
    (hr : e.alwaysImmediate = true → r = false)
    (h : decodeOne e rest r a0 = .ok (a, w, rest1, a01)) : a.isReg = r := by
  cases e with
  | int iw s z imm =>
    cases z
    · simp only [decodeOne] at h; split at h <;> simp at h; rw [← h.1]; rfl
    · simp only [decodeOne] at h; split at h <;> simp at h; rw [← h.1]; rfl
  | jumpOffset => simp only [decodeOne] at h; split at h <;> simp at h; rw [← h.1]; rfl
  | jumpTime => simp only [decodeOne] at h; split at h <;> simp at h; rw [← h.1]; rfl
  | padding wd => simp [decodeOne] at h
  | float imm => simp only [decodeOne] at h; split at h <;> simp at h; rw [← h.1]; rfl
  | str sz m f =>
    simp only [decodeOne] at h
    split at h <;> simp at h
    rw [← h.1, hr rfl]; rfl

/-- decode side of `mask_bits_positions`: the `k`-th non-padding parameter is read as a register
iff its encoding may be a register and bit `k` of the stored mask is set -/
theorem decLoop_reg_bits (es : Abi) : ∀ (rest : Bytes) (mask : Nat) (a0 : Option Int) (o : DecOut),
    decLoop es rest mask a0 = .ok o → (dropPadding es o.args).map Arg.isReg = decFlags es mask := by
  induction es with
  | nil => intro rest mask a0 o h; simp only [decLoop, Outcome.ok.injEq] at h; subst h; rfl
  | cons e es ih =>
    intro rest mask a0 o h
    by_cases hp : e.isPadding = true
    · simp only [decLoop, hp, if_true] at h
      split at h
      · cases h
      · cases h2 : decLoop es (rest.drop e.padWidth) mask a0 with
        | ok o2 =>
          rw [h2] at h; simp only [Outcome.ok.injEq] at h; subst h
          simp only [dropPadding, hp, if_true, decFlags]
          exact ih _ _ _ o2 h2
        | err c => rw [h2] at h; cases h
        | panic p => rw [h2] at h; cases h
    · have hp' : e.isPadding = false := by simpa using hp
      simp only [decLoop, hp', Bool.false_eq_true, if_false] at h
      cases h1 : decodeOne e rest (!e.alwaysImmediate && mask % 2 == 1) a0 with
      | ok r =>
        obtain ⟨a, w, rest1, a01⟩ := r
        rw [h1] at h; simp only at h
        cases h2 : decLoop es rest1 (mask / 2) a01 with
        | ok o2 =>
          rw [h2] at h; simp only [Outcome.ok.injEq] at h; subst h
          have hreg := decodeOne_isReg e rest _ a0 a w rest1 a01 (by intro hi; simp [hi]) h1
          simp only [dropPadding, hp', Bool.false_eq_true, if_false, List.map_cons, decFlags, hreg,
            ih _ _ _ o2 h2, Nat.testBit_zero]
          rcases Nat.mod_two_eq_zero_or_one mask with hm | hm <;> cases e.alwaysImmediate <;> simp [hm]
        | err c => rw [h2] at h; cases h
        | panic p => rw [h2] at h; cases h
      | err c => rw [h1] at h; cases h
      | panic p => rw [h1] at h; cases h

theorem decFlags_getD (es : Abi) : ∀ (m k : Nat),
    (decFlags es m).getD k false =
      (match (es.filter Enc.contributes)[k]? with
       | some e => !e.alwaysImmediate && m.testBit k
       | none => false) := by
  induction es with
  | nil => intro m k; simp [decFlags]
  | cons e es ih =>
    intro m k
    by_cases hp : e.isPadding = true
    · have : Enc.contributes e = false := by simp [Enc.contributes, hp]
      simp only [decFlags, hp, if_true, List.filter_cons, this, Bool.false_eq_true, if_false, ih]
    · have hp' : e.isPadding = false := by simpa using hp
      have : Enc.contributes e = true := by simp [Enc.contributes, hp']
      simp only [decFlags, hp', Bool.false_eq_true, if_false, List.filter_cons, this, if_true]
      cases k with
      | zero => simp
      | succ k => have := ih (m / 2) k; simp only [List.getD_eq_getElem?_getD] at this; simp [this, Nat.testBit_succ]


/-! ## strings -/

/-- the xor mask (constant or accelerating) is an involution on every byte string -/
theorem xor_involutive (m : ByteMask) (bs : Bytes) : applyMask m (applyMask m bs) = bs :=
  Abi.xor_involutive m bs

example : applyMask ⟨0x77, 7, 16⟩ [0x41, 0x42, 0x43] = [0x36, 0x3C, 0xD6] := by decide

/-- the mask never changes the length (so masking a NUL to a non-NUL byte cannot shift fields) -/
theorem mask_preserves_length (m : ByteMask) (bs : Bytes) : (applyMask m bs).length = bs.length :=
  applyMask_length m bs

/-- trimming at the first NUL undoes NUL + zero padding, without warning, for NUL-free strings -/
theorem trim_after_pad (s : Bytes) (k : Nat) (warn : Bool) (h : s.contains 0 = false) :
    trimFirstNul (s ++ 0 :: zeros k) warn = (s, []) :=
  Abi.trim_after_pad s k warn h

example : trimFirstNul ([0x61, 0x62] ++ 0 :: zeros 5) true = ([0x61, 0x62], []) := by decide

/-- a length-prefixed string is written as its total length (a multiple of the block size that
leaves room for the NUL) followed by exactly that many bytes -/
theorem pascal_length (st : EncState) (bs : Nat) (mask : ByteMask) (furibug : Bool) (s out : Bytes)
    (st2 : EncState) (hbs : bs ≠ 0) (hok : strLayoutOk st (.pascal bs) furibug s = true)
    (he : encodeStr st (.pascal bs) mask furibug s = .ok (out, st2)) :
    4 ≤ out.length ∧ leNat (out.take 4) = out.length - 4 ∧ (out.length - 4) % bs = 0 ∧
      s.length + 1 ≤ out.length - 4 := by
  have hb := strBody_eq st (.pascal bs) furibug s
  unfold encodeStr at he
  generalize strBody st (.pascal bs) furibug s = sb at he hb
  obtain ⟨e2, st1⟩ := sb
  simp only at he hb
  cases hp : strPad (.pascal bs) e2 with
  | err c => rw [hp] at he; simp at he
  | panic p => rw [hp] at he; simp at he
  | ok e3 =>
    rw [hp] at he
    simp only [Outcome.ok.injEq, Prod.mk.injEq] at he
    obtain ⟨hout, _⟩ := he
    have hlm : (applyMask mask e3).length = e3.length := applyMask_length _ _
    have hl4 : (leBytes 4 e3.length).length = 4 := leBytes_length _ _
    have he2 : e2.length = s.length + 1 + (fbOf st furibug).length := by
      rw [hb]; simp [nulOf]; omega
    have hfb : (fbOf st furibug).length = (if furibug = true then (st.getD []).length else 0) := by
      simp [fbOf]; split <;> simp
    simp only [strLayoutOk, Bool.and_eq_true, decide_eq_true_eq] at hok
    -- shape of the padded string
    have hpad : e2.length ≤ e3.length ∧ e3.length < e2.length + bs + 1 ∧ e3.length % bs = 0 := by
      simp only [strPad, hbs, if_false] at hp
      split at hp
      · rename_i hne
        simp only [bne_iff_ne, ne_eq] at hne
        cases hp
        simp only [nullPad, List.length_append, zeros_length]
        have hlt : (e2.length + 1) % bs < bs := Nat.mod_lt _ (by omega)
        split
        · rename_i h0; constructor; omega; constructor; omega
          have : e2.length + (e2.length + 1 - e2.length) = e2.length + 1 := by omega
          rw [this]; exact h0
        · rename_i h0
          have hdiv := Nat.div_add_mod (e2.length + 1) bs
          constructor; omega; constructor; omega
          have : e2.length + (e2.length + 1 + bs - (e2.length + 1) % bs - e2.length) =
              bs * ((e2.length + 1) / bs) + bs := by omega
          rw [this]; simp
      · rename_i hne
        simp only [bne_iff_ne, ne_eq, Decidable.not_not] at hne
        cases hp
        exact ⟨by omega, by omega, hne⟩
    subst hout
    simp only [hlm]
    have hmod : e3.length % 256 ^ 4 = e3.length := Nat.mod_eq_of_lt (by simp; omega)
    refine ⟨by simp [hl4], ?_, ?_, ?_⟩
    · rw [take_left' _ _ _ hl4, leNat_leBytes, hmod]; simp [hl4, hlm]
    · simp [hl4, hlm, hpad.2.2]
    · simp [hl4, hlm]; omega

/-! ## diagnosis of misfits

What the property asks of the encoder ("values that do not fit their declared width, strings that
do not fit their buffer, registers where only immediates are allowed are diagnosed rather than
silently changed") is `misfit_diagnosed` below, proved for the whole encoding enum.  Before the
repairs of `encode_args` / `string_from_attrs` four counterexamples were machine-checked here
(integer truncated by an `as` cast, `bs=0` dividing by zero, the register bit of parameter 17+
falling off the mask, furigana bytes appended to a `nulless` string); their positive forms are
`int_misfit_is_error`, `validAbi_rejects_zero_block`, `reg_beyond_16_is_error` /
`register_flags_never_lost`, `validAbi_rejects_nulless_furibug`. -/

/-- an integer outside the range of its 1- or 2-byte field is an error, in every position, for
registers and immediates alike -/
theorem int_misfit_is_error (st : EncState) (w : IntW) (signed imm : Bool) (v : Int) (reg : Bool)
    (hw : w ≠ .w4) (h : fitsInt w signed v = false) :
    encodeOne st (.int w signed false imm) (.int v reg) = .err "integer argument does not fit" := by
  cases w <;> simp_all [encodeOne, expectInt]

example : compileCall true none [.int .w2 true false false] [.int 70000 false]
    = .err "integer argument does not fit" := by decide

/-- the `arg0` header field is an `i16`: anything else is an error -/
theorem arg0_misfit_is_error (st : EncState) (w : IntW) (signed imm : Bool) (es : Abi) (v : Int)
    (as : List Arg) (h : fitsInt .w2 true v = false) :
    encodeArgs true st (.int w signed true imm :: es) (.int v false :: as)
      = .err "integer argument does not fit" := by
  simp [encodeArgs, Enc.isArg0, Arg.isReg, expectInt, h]

/-- `bs=0` is rejected when the signature is parsed -/
theorem validAbi_rejects_zero_block (abi : Abi) (m : ByteMask) (f : Bool)
    (h : .str (.toBlobEnd 0) m f ∈ abi ∨ .str (.pascal 0) m f ∈ abi) : validAbi abi = false := by
  cases hv : validAbi abi with
  | false => rfl
  | true =>
    have hattr := validAbi_strAttrs abi hv
    rcases h with h | h <;> have := hattr _ h <;> simp [Enc.strAttrsOk] at this

example : validAbi [.str (.toBlobEnd 0) ⟨0, 0, 0⟩ false] = false
    ∧ validAbi [.int .w4 true false false, .str (.pascal 0) ⟨1, 2, 3⟩ true] = false := by decide

/-- `nulless` together with `furibug` is rejected when the signature is parsed -/
theorem validAbi_rejects_nulless_furibug (abi : Abi) (len : Nat) (m : ByteMask)
    (h : .str (.fixed len true) m true ∈ abi) : validAbi abi = false := by
  cases hv : validAbi abi with
  | false => rfl
  | true => have := validAbi_strAttrs abi hv _ h; simp [Enc.strAttrsOk] at this

example : validAbi [.str (.fixed 4 false) ⟨0, 0, 0⟩ true, .str (.fixed 8 true) ⟨0, 0, 0⟩ true] = false := by decide

/-- the mask the loop returns never needs more bits than are left: nothing is lost by storing it
in the `u16` -/
theorem encLoop_mask_lt (es : Abi) : ∀ (k : Nat) (args : List Arg) (st : EncState) (o : EncOut),
    encLoop k es args st = .ok o → o.mask < 2 ^ (16 - k) := by
  induction es with
  | nil =>
    intro k args st o h
    simp only [encLoop, Outcome.ok.injEq] at h; subst h
    exact Nat.pow_pos (by omega)
  | cons e es ih =>
    intro k args st o h
    by_cases hp : e.isPadding = true
    · simp only [encLoop, hp, if_true] at h
      cases h2 : encLoop k es args st with
      | ok o2 => rw [h2] at h; simp only [Outcome.ok.injEq] at h; subst h; exact ih k args st o2 h2
      | err c => rw [h2] at h; cases h
      | panic p => rw [h2] at h; cases h
    · have hp' : e.isPadding = false := by simpa using hp
      cases args with
      | nil => simp [encLoop, hp'] at h
      | cons a as =>
        simp only [encLoop, hp', Bool.false_eq_true, if_false] at h
        split at h
        · cases h
        · rename_i hfull
          cases h1 : encodeOne st e a with
          | ok r =>
            obtain ⟨bytes, st1⟩ := r
            rw [h1] at h; simp only at h
            cases h2 : encLoop (k + 1) es as st1 with
            | ok o2 =>
              rw [h2] at h; simp only [Outcome.ok.injEq] at h; subst h
              have hm := ih (k + 1) as st1 o2 h2
              simp only [Bool.and_eq_true, decide_eq_true_eq, not_and] at hfull
              by_cases hk : 16 ≤ k
              · -- no bits left: the argument is not a register, and neither is anything after it
                have hr : a.isReg = false := by
                  cases hr : a.isReg with
                  | false => rfl
                  | true => exact absurd hk (hfull hr)
                have h0 : 16 - (k + 1) = 0 := by omega
                have h1' : 16 - k = 0 := by omega
                rw [h0] at hm
                simp [hr, h1']; omega
              · have : 2 ^ (16 - k) = 2 * 2 ^ (16 - (k + 1)) := by
                  have : 16 - k = (16 - (k + 1)) + 1 := by omega
                  rw [this, Nat.pow_succ]; omega
                simp only [this]
                split <;> omega
            | err c => rw [h2] at h; cases h
            | panic p => rw [h2] at h; cases h
          | err c => rw [h1] at h; cases h
          | panic p => rw [h1] at h; cases h

/-- **Every register flag reaches the file**: whenever `encode_args` succeeds, bit `j` of the
stored mask is exactly the register flag of the `j`-th non-padding parameter, for every `j`
(there is no parameter count beyond which flags are dropped). -/
theorem register_flags_never_lost (st : EncState) (es : Abi) (args : List Arg) (a0 : Option Int)
    (raw : Raw) (w : List String) (st' : EncState)
    (h : encodePlain st es args a0 = .ok (raw, w, st')) (j : Nat) :
    raw.mask.testBit j = (regFlags es args).getD j false := by
  simp only [encodePlain] at h
  cases h1 : encLoop 0 es args st with
  | ok o =>
    rw [h1] at h
    simp only [Outcome.ok.injEq, Prod.mk.injEq] at h
    obtain ⟨hraw, _, _⟩ := h
    subst hraw
    have hlt := encLoop_mask_lt es 0 args st o h1
    have : o.mask % 65536 = o.mask := Nat.mod_eq_of_lt (by simpa using hlt)
    simp only [this]
    exact mask_bits_positions es 0 args st o h1 j
  | err c => rw [h1] at h; cases h
  | panic p => rw [h1] at h; cases h

/-- a register argument after the 16 mask bits are used up is an error
("too many arguments in instruction!"); immediates there are fine -/
theorem reg_beyond_16_is_error (k : Nat) (e : Enc) (es : Abi) (a : Arg) (as : List Arg) (st : EncState)
    (hk : 16 ≤ k) (hp : e.isPadding = false) (hr : a.isReg = true) :
    encLoop k (e :: es) (a :: as) st = .err "too many arguments in instruction" := by
  simp [encLoop, hp, hr, hk]

example :
    encodeArgs true none (List.replicate 17 (.int .w4 true false false))
        (List.replicate 16 (.int 1 false) ++ [.int 2 true]) = .err "too many arguments in instruction" ∧
    (match encodeArgs true none (List.replicate 17 (.int .w4 true false false)) (List.replicate 17 (.int 1 false)) with
     | .ok (raw, w, _) => raw.mask == 0 && w.isEmpty
     | _ => false) = true := by
  decide

/-- Latent: with an `arg0` parameter the decoder consumes a mask bit for it, the encoder does
not.  Unreachable through the real formats (only TH06/TH07 timelines have `arg0`, and they have
no registers), reachable with `TestLanguage`; this is why `ArgsOk` forbids registers next to
an `arg0` parameter. -/
theorem arg0_shifts_mask :
    validAbi [.int .w2 true true false, .int .w4 true false false] = true ∧
    encodeArgs true none [.int .w2 true true false, .int .w4 true false false] [.int 5 false, .int 7 true]
      = .ok (⟨[7, 0, 0, 0], 1, some 5⟩, [], none) ∧
    decompileCall [.int .w2 true true false, .int .w4 true false false] ⟨[7, 0, 0, 0], 1, some 5⟩
      = .ok ([.int 5 true, .int 7 false], []) := by
  decide

/-- a string that does not fit its fixed buffer (with its NUL and the pending furigana bytes) is
an error, for every mask and state -/
theorem misfit_diagnosed_partial (st : EncState) (len : Nat) (nulless : Bool) (mask : ByteMask)
    (furibug : Bool) (s : Bytes)
    (h : s.length + (if nulless then 0 else 1) + (if furibug then (st.getD []).length else 0) > len) :
    encodeStr st (.fixed len nulless) mask furibug s = .err "string argument too large for buffer" := by
  have hb := strBody_eq st (.fixed len nulless) furibug s
  unfold encodeStr
  generalize strBody st (.fixed len nulless) furibug s = sb at hb
  obtain ⟨e2, st1⟩ := sb
  simp only at hb
  have hfb : (fbOf st furibug).length = (if furibug = true then (st.getD []).length else 0) := by
    simp [fbOf]; split <;> simp
  have : e2.length = s.length + (if nulless = true then 0 else 1) + (fbOf st furibug).length := by
    rw [hb]; cases nulless <;> simp [nulOf] <;> omega
  have hgt : e2.length > len := by omega
  simp only [strPad, hgt, if_true]

example : encodeStr none (.fixed 4 false) ⟨0, 0, 0⟩ false [0x61, 0x62, 0x63, 0x64]
    = .err "string argument too large for buffer" := by decide

/-! ### the general statement -/

/-- what the front end guarantees about one argument of a call that passed `checkCall`: the
parameter's type, a register only where the signature allows one, an `i32`, a NUL-free string -/
def argTyped (e : Enc) (a : Arg) : Bool :=
  a.ty == e.ty && (e.regOk || !a.isReg) &&
  match a with
  | .int v _ => i32Range v
  | .str s => !s.contains 0
  | .float _ _ => true

/-- a length-prefixed string stays below 2^32 bytes (the prefix is a `u32`) -/
def argSane (st : EncState) : Enc → Arg → Bool
  | .str (.pascal bs) _ furibug, .str s =>
    decide (s.length + 1 + (if furibug then (st.getD []).length else 0) + bs < 4294967296)
  | _, _ => true

/-- the call as the loop sees it: arity, `argTyped`, `argSane` (furigana state threaded) -/
def callTyped : EncState → Abi → List Arg → Bool
  | _, [], args => args.isEmpty
  | st, e :: es, args =>
    if e.isPadding then callTyped st es args else
    match args with
    | [] => false
    | a :: as => argTyped e a && argSane st e a && callTyped (stateAfter st e a) es as

theorem encodeOne_no_panic (st : EncState) (e : Enc) (a : Arg)
    (ht : argTyped e a = true) (hattr : e.strAttrsOk = true) (h0 : e.isArg0 = false)
    (hp : e.isPadding = false) : ∀ p, encodeOne st e a ≠ .panic p := by
  intro p
  cases e with
  | int w s z imm =>
    cases z with
    | true => simp [Enc.isArg0] at h0
    | false =>
      cases a <;> simp [argTyped, Arg.ty, Enc.ty] at ht
      simp only [encodeOne, expectInt]; split <;> simp
  | jumpOffset => cases a <;> simp [argTyped, Arg.ty, Enc.ty] at ht; simp [encodeOne, expectInt]
  | jumpTime => cases a <;> simp [argTyped, Arg.ty, Enc.ty] at ht; simp [encodeOne, expectInt]
  | padding w => simp [Enc.isPadding] at hp
  | float imm => cases a <;> simp [argTyped, Arg.ty, Enc.ty] at ht; simp [encodeOne, expectFloat]
  | str size mask furibug =>
    cases a <;> simp [argTyped, Arg.ty, Enc.ty] at ht
    rename_i s
    simp only [encodeOne, expectString, encodeStr]
    generalize strBody st size furibug s = sb
    obtain ⟨e2, st1⟩ := sb
    simp only
    have hnp : ∀ q, strPad size e2 ≠ .panic q := by
      intro q
      rcases size with ⟨len, nl⟩ | bs | bs
      · simp only [strPad]; split <;> simp
      · have : bs ≠ 0 := by simpa [Enc.strAttrsOk] using hattr
        simp only [strPad, this, if_false]; split <;> simp
      · have : bs ≠ 0 := by simpa [Enc.strAttrsOk] using hattr
        simp only [strPad, this, if_false]; split <;> simp
    cases hpd : strPad size e2 with
    | ok e3 => simp
    | err c => simp
    | panic q => exact absurd hpd (hnp q)

/-- a typed, sane argument that is not `argOk` is an integer that does not fit, a register in an
immediate-only parameter, or a string too large for its buffer: error or warning -/
theorem bad_arg_diagnosed (st : EncState) (e : Enc) (a : Arg)
    (ht : argTyped e a = true) (hs : argSane st e a = true) (h0 : e.isArg0 = false)
    (hp : e.isPadding = false) (hbad : argOk st e a = false) :
    (∃ c, encodeOne st e a = .err c) ∨ (e.alwaysImmediate && a.isReg) = true := by
  cases e with
  | int w s z imm =>
    cases z with
    | true => simp [Enc.isArg0] at h0
    | false =>
      cases a <;> simp [argTyped, Arg.ty, Enc.ty] at ht
      rename_i v reg
      simp only [argOk, ht, Bool.and_true, Bool.and_eq_false_iff] at hbad
      rcases hbad with hfit | hreg
      · left
        have hw : w ≠ .w4 := by
          intro hw; subst hw; simp [fitsInt, ht] at hfit
        exact ⟨_, int_misfit_is_error st w s imm v reg hw hfit⟩
      · right
        simp only [Bool.not_eq_false', Bool.and_eq_true] at hreg
        simp [Enc.alwaysImmediate, Arg.isReg, hreg.1, hreg.2]
  | jumpOffset =>
    cases a <;> simp [argTyped, Arg.ty, Enc.ty, Enc.regOk, Arg.isReg] at ht
    simp [argOk, ht] at hbad
  | jumpTime =>
    cases a <;> simp [argTyped, Arg.ty, Enc.ty, Enc.regOk, Arg.isReg] at ht
    simp [argOk, ht] at hbad
  | padding w => simp [Enc.isPadding] at hp
  | float imm =>
    cases a <;> simp [argTyped, Arg.ty, Enc.ty] at ht
    rename_i b reg
    right
    simp only [argOk, Bool.not_eq_false', Bool.and_eq_true] at hbad
    simp [Enc.alwaysImmediate, Arg.isReg, hbad.1, hbad.2]
  | str size mask furibug =>
    cases a <;> simp [argTyped, Arg.ty, Enc.ty] at ht
    rename_i s
    left
    rcases size with ⟨len, nl⟩ | bs | bs
    · simp [argOk, strLayoutOk, ht] at hbad
      exact ⟨_, by
        simp only [encodeOne, expectString]
        exact misfit_diagnosed_partial st len nl mask furibug s (by omega)⟩
    · simp [argOk, strLayoutOk, ht] at hbad
    · simp only [argSane, decide_eq_true_eq] at hs
      simp [argOk, strLayoutOk, ht] at hbad
      omega

/-- outcome of the loop on a typed call: never a panic; if some argument is not `ArgsOk`, an
error or at least one warning -/
def Diagnosed (bad : Bool) : Outcome EncOut → Prop
  | .panic _ => False
  | .err _ => True
  | .ok o => bad = true → o.warnings ≠ []

theorem encLoop_diagnosed (es : Abi) : ∀ (k : Nat) (args : List Arg) (st : EncState),
    (∀ e ∈ es, e.isArg0 = false) → (∀ e ∈ es, e.strAttrsOk = true) →
    callTyped st es args = true →
    Diagnosed (!argsOkLoop st es args) (encLoop k es args st) := by
  induction es with
  | nil =>
    intro k args st _ _ ht
    simp only [callTyped] at ht
    simp [encLoop, Diagnosed, argsOkLoop, ht]
  | cons e es ih =>
    intro k args st hna0 hattr ht
    have hna0' : ∀ e' ∈ es, e'.isArg0 = false := fun e' he' => hna0 e' (List.mem_cons_of_mem _ he')
    have hattr' : ∀ e' ∈ es, e'.strAttrsOk = true := fun e' he' => hattr e' (List.mem_cons_of_mem _ he')
    by_cases hp : e.isPadding = true
    · simp only [callTyped, hp, if_true] at ht
      have := ih k args st hna0' hattr' ht
      simp only [encLoop, hp, if_true, argsOkLoop]
      cases h2 : encLoop k es args st with
      | ok o => rw [h2] at this; simpa [Diagnosed] using this
      | err c => simp [Diagnosed]
      | panic p => rw [h2] at this; exact this
    · have hp' : e.isPadding = false := by simpa using hp
      cases args with
      | nil => simp [callTyped, hp'] at ht
      | cons a as =>
        simp only [callTyped, hp', Bool.false_eq_true, if_false, Bool.and_eq_true] at ht
        obtain ⟨⟨hta, hsa⟩, htr⟩ := ht
        have he0 := hna0 e (List.mem_cons_self ..)
        have hea := hattr e (List.mem_cons_self ..)
        simp only [encLoop, hp', Bool.false_eq_true, if_false, argsOkLoop]
        split
        · simp [Diagnosed]
        · cases h1 : encodeOne st e a with
          | panic p => exact absurd h1 (encodeOne_no_panic st e a hta hea he0 hp' p)
          | err c => simp [Diagnosed]
          | ok r =>
            obtain ⟨bytes, st1⟩ := r
            simp only
            have hst : stateAfter st e a = st1 := stateAfter_eq st e a bytes st1 h1
            rw [hst] at htr
            have hrec := ih (k + 1) as st1 hna0' hattr' htr
            cases h2 : encLoop (k + 1) es as st1 with
            | panic p => rw [h2] at hrec; exact hrec
            | err c => simp [Diagnosed]
            | ok o =>
              rw [h2] at hrec
              simp only [Diagnosed] at hrec ⊢
              intro hbad
              simp only [hst, Bool.not_eq_true', Bool.and_eq_false_iff] at hbad
              rcases hbad with hb | hb
              · rcases bad_arg_diagnosed st e a hta hsa he0 hp' hb with ⟨c, hc⟩ | hw
                · rw [h1] at hc; cases hc
                · simp [hw]
              · have := hrec (by simp [hb])
                simp [this]

/-- the whole call, `arg0` parameter included (an immediate `i32`) -/
def CallTyped (st : EncState) (abi : Abi) (args : List Arg) : Bool :=
  match abi with
  | [] => callTyped st [] args
  | e :: es =>
    if e.isArg0 then
      match args with
      | .int v false :: as => i32Range v && callTyped st es as
      | _ => false
    else callTyped st (e :: es) args

/-- **Misfits are diagnosed, and nothing panics.**  For every valid signature and every call
whose arguments have the parameters' types (registers only where `checkCall` lets them through,
`i32` integers, NUL-free strings): `encode_args` never panics, and if the argument list is not
`ArgsOk` - an integer outside its field, a register in an immediate-only parameter, a string
too large for its buffer, a register after the mask bits ran out - the result is an error or
carries at least one warning.  (With an `arg0` parameter no argument may be a register: see
`arg0_shifts_mask`; the real timelines have no registers.) -/
theorem misfit_diagnosed (st : EncState) (abi : Abi) (args : List Arg)
    (hv : validAbi abi = true) (ht : CallTyped st abi args = true)
    (harg0 : abi.any Enc.isArg0 = true → args.any Arg.isReg = false) :
    match encodeArgs true st abi args with
    | .ok (_, w, _) => ArgsOk st abi args = false → w ≠ []
    | .err _ => True
    | .panic _ => False := by
  have ha0 := validAbi_arg0_tail abi hv
  have hattr := validAbi_strAttrs abi hv
  unfold encodeArgs
  simp only [Bool.not_true, Bool.false_and, Bool.false_eq_true, if_false]
  cases abi with
  | nil =>
    simp only [CallTyped] at ht
    have := encLoop_diagnosed [] 0 args st (by simp) (by simp) ht
    simp only [encodePlain, ArgsOk]
    cases h : encLoop 0 [] args st with
    | ok o => rw [h] at this; simpa [Diagnosed] using this
    | err c => simp
    | panic p => rw [h] at this; exact this
  | cons e es =>
    simp only [List.drop_one, List.tail_cons] at ha0
    by_cases h0 : e.isArg0 = true
    · simp only [h0, if_true]
      simp only [CallTyped, h0, if_true] at ht
      cases args with
      | nil => simp at ht
      | cons a as =>
        cases a with
        | int v reg =>
          cases reg with
          | true => simp at ht
          | false =>
            simp only [Bool.and_eq_true] at ht
            have hnoreg : as.any Arg.isReg = false := by
              have := harg0 (by simp [h0])
              simpa [Arg.isReg] using this
            have hloop := encLoop_diagnosed es 0 as st ha0 (fun e he => hattr e (List.mem_cons_of_mem _ he)) ht.2
            simp only [Arg.isReg, Bool.false_eq_true, if_false, expectInt]
            cases hfit : fitsInt .w2 true v with
            | false => simp
            | true =>
              simp only [Bool.not_true, Bool.false_eq_true, if_false, encodePlain]
              cases h : encLoop 0 es as st with
              | ok o =>
                rw [h] at hloop
                simp only [Diagnosed] at hloop
                intro hbad
                cases e with
                | int w sg z imm =>
                  simp only [ArgsOk, h0, if_true, hfit, Bool.true_and, hnoreg, Bool.not_false, Bool.and_true] at hbad
                  exact hloop (by simp [hbad])
                | jumpOffset => simp [Enc.isArg0] at h0
                | jumpTime => simp [Enc.isArg0] at h0
                | padding w => simp [Enc.isArg0] at h0
                | float imm => simp [Enc.isArg0] at h0
                | str sz m f => simp [Enc.isArg0] at h0
              | err c => simp
              | panic p => rw [h] at hloop; exact hloop
        | float b r => simp at ht
        | str s => simp at ht
    · have h0' : e.isArg0 = false := by simpa using h0
      simp only [h0', Bool.false_eq_true, if_false]
      simp only [CallTyped, h0', Bool.false_eq_true, if_false] at ht
      have hall : ∀ e' ∈ e :: es, e'.isArg0 = false := by
        intro e' he'
        cases he' with
        | head => exact h0'
        | tail _ h => exact ha0 e' h
      have hloop := encLoop_diagnosed (e :: es) 0 args st hall hattr ht
      simp only [encodePlain, ArgsOk, h0', Bool.false_eq_true, if_false]
      cases h : encLoop 0 (e :: es) args st with
      | ok o => rw [h] at hloop; simpa [Diagnosed] using hloop
      | err c => simp
      | panic p => rw [h] at hloop; exact hloop

/-- the hypotheses of `misfit_diagnosed` on calls that are not `ArgsOk` for four different reasons -/
example :
    let abi : Abi := [.int .w1 false false false, .padding true, .float true, .str (.fixed 4 false) ⟨7, 1, 2⟩ false]
    validAbi abi = true ∧
    CallTyped none abi [.int 300 false, .float 0 false, .str [0x61]] = true ∧
    ArgsOk none abi [.int 300 false, .float 0 false, .str [0x61]] = false ∧
    CallTyped none abi [.int 3 false, .float 0 true, .str [0x61]] = true ∧
    ArgsOk none abi [.int 3 false, .float 0 true, .str [0x61]] = false ∧
    CallTyped none abi [.int 3 true, .float 0 false, .str [0x61, 0x62, 0x63, 0x64]] = true ∧
    ArgsOk none abi [.int 3 true, .float 0 false, .str [0x61, 0x62, 0x63, 0x64]] = false := by
  decide

/-- a typed call is one that `checkCall` (arity, types, constant positions) lets through -/
theorem callTyped_checks (es : Abi) : ∀ (st : EncState) (args : List Arg), callTyped st es args = true →
    args.length = (es.filter Enc.contributes).length ∧
    checkTypes (es.filter Enc.contributes) args = .ok () ∧
    checkConst (es.filter Enc.contributes) args = .ok () := by
  induction es with
  | nil =>
    intro st args h
    simp only [callTyped, List.isEmpty_iff] at h
    subst h
    exact ⟨rfl, rfl, rfl⟩
  | cons e es ih =>
    intro st args h
    by_cases hp : e.isPadding = true
    · have hc : Enc.contributes e = false := by simp [Enc.contributes, hp]
      simp only [callTyped, hp, if_true] at h
      simpa [List.filter_cons, hc] using ih st args h
    · have hp' : e.isPadding = false := by simpa using hp
      have hc : Enc.contributes e = true := by simp [Enc.contributes, hp']
      cases args with
      | nil => simp [callTyped, hp'] at h
      | cons a as =>
        simp only [callTyped, hp', Bool.false_eq_true, if_false, Bool.and_eq_true] at h
        obtain ⟨⟨hta, _⟩, htr⟩ := h
        obtain ⟨h1, h2, h3⟩ := ih _ as htr
        simp only [argTyped, Bool.and_eq_true, Bool.or_eq_true, Bool.not_eq_true'] at hta
        have hreg : (!e.regOk && a.isReg) = false := by
          rcases hta.1.2 with h | h <;> simp [h]
        refine ⟨by simp [List.filter_cons, hc, h1], ?_, ?_⟩
        · simp only [List.filter_cons, hc, if_true, checkTypes, hta.1.1, h2]
        · simp only [List.filter_cons, hc, if_true, checkConst, hreg, Bool.false_eq_true, if_false, h3]

theorem callTyped_checkCall (st : EncState) (abi : Abi) (args : List Arg)
    (h : callTyped st abi args = true) : checkCall abi args = .ok () := by
  obtain ⟨h1, h2, h3⟩ := callTyped_checks abi st args h
  simp [checkCall, h1, h2, h3]


/-- a register in a position that only takes constants (`o`, `t`, `arg0`) is rejected before
lowering: the first such position in the (non-padding) parameter list decides -/
theorem const_position_rejects_register (e : Enc) (a : Arg) (es : Abi) (as : List Arg)
    (h1 : e.regOk = false) (h2 : a.isReg = true) :
    checkConst (e :: es) (a :: as) = .err "argument must be a compile-time constant" := by
  simp [checkConst, h1, h2]

/-- a register in an `imm` parameter is written as an immediate *with a warning* -/
theorem imm_register_warns (st : EncState) (w : IntW) (signed : Bool) (v : Int)
    (hfit : fitsInt w signed v = true) :
    ∃ raw st', encodeArgs true st [.int w signed false true] [.int v true]
      = .ok (raw, ["non-constant expression in immediate argument"], st') ∧ raw.mask = 0 := by
  refine ⟨⟨leBytes w.bytes (wrapTo w.bytes v), 0, none⟩, st, ?_, rfl⟩
  simp [encodeArgs, Enc.isArg0, encodePlain, encLoop, Enc.isPadding, encodeOne, expectInt,
    Enc.alwaysImmediate, Arg.isReg, hfit]

/-! ## the signature validator and the call checks -/

/-- the four rules, on examples that differ in exactly one of them -/
example : validAbi [.int .w4 true false false, .jumpOffset, .jumpTime] = true
    ∧ validAbi [.jumpTime] = false
    ∧ validAbi [.jumpOffset, .jumpOffset] = false
    ∧ validAbi [.int .w4 true false false, .int .w2 true true false] = false
    ∧ validAbi [.str (.toBlobEnd 4) ⟨0, 0, 0⟩ false, .int .w4 true false false] = false
    ∧ validAbi [.int .w4 true true false] = false := by decide

end TruthModel.C12
